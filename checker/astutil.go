package main

import (
	"bytes"
	"go/ast"
	"go/constant"
	"go/printer"
	"go/token"
	"go/types"
	"strings"

	"golang.org/x/tools/go/packages"
	"golang.org/x/tools/go/types/typeutil"
)

// fnRef identifies a declared function with its syntax and package.
type fnRef struct {
	Obj  *types.Func
	Decl *ast.FuncDecl
	Pkg  *packages.Package
}

func (f *fnRef) Name() string { return funcName(f.Obj) }

// findFunc finds a declared function: pkg short name, receiver type name ("" for
// package-level), function name.
func (p *Prog) findFunc(pkg, recv, name string) *fnRef {
	pk := p.pkg(pkg)
	if pk == nil {
		return nil
	}
	for obj, decl := range p.FuncDecl {
		if obj.Pkg() != pk.Types || obj.Name() != name {
			continue
		}
		r := obj.Type().(*types.Signature).Recv()
		if recv == "" {
			if r == nil {
				return &fnRef{obj, decl, pk}
			}
			continue
		}
		if r == nil {
			continue
		}
		if n, ok := deref(r.Type()).(*types.Named); ok && n.Obj().Name() == recv {
			return &fnRef{obj, decl, pk}
		}
	}
	return nil
}

func (p *Prog) refOf(fn *types.Func) *fnRef {
	fn = fn.Origin()
	d := p.FuncDecl[fn]
	if d == nil {
		return nil
	}
	return &fnRef{fn, d, p.DeclPkg[fn]}
}

func exprString(fset *token.FileSet, n ast.Node) string {
	var b bytes.Buffer
	printer.Fprint(&b, fset, n)
	s := b.String()
	s = strings.Join(strings.Fields(s), " ")
	return s
}

func (p *Prog) str(n ast.Node) string { return exprString(p.Fset, n) }

// callee resolves the static callee of a call (function, method or nil).
func callee(info *types.Info, call *ast.CallExpr) *types.Func {
	if f, ok := typeutil.Callee(info, call).(*types.Func); ok {
		return f
	}
	return nil
}

// isPkgFunc reports whether fn is pkgpath.name (package-level function).
func isPkgFunc(fn *types.Func, pkgPath, name string) bool {
	if fn == nil || fn.Pkg() == nil {
		return false
	}
	if fn.Type().(*types.Signature).Recv() != nil {
		return false
	}
	return fn.Pkg().Path() == pkgPath && fn.Name() == name
}

// isMethod reports whether fn is method name on (pointer to) named type
// pkgpath.typ.
func isMethod(fn *types.Func, pkgPath, typ, name string) bool {
	if fn == nil || fn.Name() != name {
		return false
	}
	r := fn.Type().(*types.Signature).Recv()
	if r == nil {
		return false
	}
	n, ok := deref(r.Type()).(*types.Named)
	if !ok || n.Obj().Pkg() == nil {
		return false
	}
	return n.Obj().Pkg().Path() == pkgPath && n.Obj().Name() == typ
}

func constOf(info *types.Info, e ast.Expr) constant.Value {
	if tv, ok := info.Types[e]; ok {
		return tv.Value
	}
	return nil
}

func constInt(info *types.Info, e ast.Expr) (int64, bool) {
	v := constOf(info, e)
	if v == nil {
		return 0, false
	}
	if v.Kind() != constant.Int {
		v = constant.ToInt(v)
		if v.Kind() != constant.Int {
			return 0, false
		}
	}
	return constant.Int64Val(v)
}

// usedObj returns the object an identifier or selector expression resolves to.
func usedObj(info *types.Info, e ast.Expr) types.Object {
	switch x := ast.Unparen(e).(type) {
	case *ast.Ident:
		if o := info.Uses[x]; o != nil {
			return o
		}
		return info.Defs[x]
	case *ast.SelectorExpr:
		if sel := info.Selections[x]; sel != nil {
			return sel.Obj()
		}
		return info.Uses[x.Sel]
	}
	return nil
}

// namedOf returns the *types.Named behind t (through pointers), or nil.
func namedOf(t types.Type) *types.Named {
	if t == nil {
		return nil
	}
	if n, ok := deref(t).(*types.Named); ok {
		return n
	}
	if n, ok := t.(*types.Named); ok {
		return n
	}
	return nil
}

func typeName(t types.Type) string {
	if n := namedOf(t); n != nil {
		return n.Obj().Name()
	}
	if t == nil {
		return "<nil>"
	}
	return types.TypeString(t, func(p *types.Package) string { return p.Name() })
}

func typeStr(t types.Type) string {
	if t == nil {
		return "<nil>"
	}
	return types.TypeString(t, func(p *types.Package) string { return p.Name() })
}

// enclosingCase returns the innermost CaseClause that contains pos within root.
func enclosingCase(root ast.Node, pos token.Pos) *ast.CaseClause {
	var found *ast.CaseClause
	ast.Inspect(root, func(n ast.Node) bool {
		if n == nil {
			return false
		}
		if n.Pos() > pos || n.End() <= pos {
			return false
		}
		if cc, ok := n.(*ast.CaseClause); ok {
			found = cc
		}
		return true
	})
	return found
}

// paramObj returns the object of the i-th parameter (flattened) of decl.
func paramObjs(info *types.Info, decl *ast.FuncDecl) []types.Object {
	var out []types.Object
	if decl.Type.Params == nil {
		return out
	}
	for _, f := range decl.Type.Params.List {
		if len(f.Names) == 0 {
			out = append(out, nil)
			continue
		}
		for _, n := range f.Names {
			out = append(out, info.Defs[n])
		}
	}
	return out
}

func recvObj(info *types.Info, decl *ast.FuncDecl) types.Object {
	if decl.Recv == nil || len(decl.Recv.List) == 0 || len(decl.Recv.List[0].Names) == 0 {
		return nil
	}
	return info.Defs[decl.Recv.List[0].Names[0]]
}

// isUnsafePointer reports whether t is unsafe.Pointer.
func isUnsafePointer(t types.Type) bool {
	b, ok := t.Underlying().(*types.Basic)
	return ok && b.Kind() == types.UnsafePointer
}

// constName returns the name of the declared constant an expression refers to.
func constName(info *types.Info, e ast.Expr) string {
	if o, ok := usedObj(info, e).(*types.Const); ok {
		return o.Name()
	}
	return ""
}

// switchOn finds switch statements in body whose tag satisfies pred.
func switchesIn(body ast.Node, pred func(*ast.SwitchStmt) bool) []*ast.SwitchStmt {
	var out []*ast.SwitchStmt
	ast.Inspect(body, func(n ast.Node) bool {
		if s, ok := n.(*ast.SwitchStmt); ok && pred(s) {
			out = append(out, s)
		}
		return true
	})
	return out
}

// returnsIn lists return statements directly in fn (not in nested func lits).
func returnsIn(body ast.Node) []*ast.ReturnStmt {
	var out []*ast.ReturnStmt
	ast.Inspect(body, func(n ast.Node) bool {
		switch x := n.(type) {
		case *ast.FuncLit:
			return false
		case *ast.ReturnStmt:
			out = append(out, x)
		}
		return true
	})
	return out
}

// constants of a named type declared in pkg: name -> value.
func constsOfType(pk *packages.Package, typ string) map[string]int64 {
	out := map[string]int64{}
	sc := pk.Types.Scope()
	for _, n := range sc.Names() {
		c, ok := sc.Lookup(n).(*types.Const)
		if !ok {
			continue
		}
		nt, ok := c.Type().(*types.Named)
		if !ok || nt.Obj().Name() != typ {
			continue
		}
		if v, ok := constant.Int64Val(constant.ToInt(c.Val())); ok {
			out[n] = v
		}
	}
	return out
}
