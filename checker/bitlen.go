package main

import (
	"fmt"
	"go/constant"
	"go/token"
	"go/types"

	"golang.org/x/tools/go/ssa"
)

// ---------------------------------------------------------------------------
// BITLEN: a finite abstract interpretation of the varint size/append
// primitives over the bit length of their argument.
//
// SizeVarUint(v) and the number of bytes AppendVarUint(data, v) appends depend
// on v only through comparisons with powers of two, right shifts by constants
// and bits.Len64 - all of which are functions of L = bits.Len64(v). So running
// both bodies once for every L in 0..64 with the abstract value "some uint64 of
// bit length L" decides "the size function predicts the appended length" for
// all 2^64 values: 65 abstract executions instead of 2^64 concrete ones. Any
// operation that is not a function of L (or a loop that does not terminate
// within 64 rounds) makes the run undecided, which is reported.

type blKind int

const (
	blOpaque blKind = iota
	blInt           // concrete integer
	blBits          // unsigned value of known bit length
	blBool
)

type blVal struct {
	kind blKind
	n    int64 // blInt: value; blBits: bit length; blBool: 0/1
}

type blRun struct {
	appended int
	why      string
}

// blExec runs f with params bound to vals; returns the return value(s) and the
// number of elements appended to the []byte parameter.
func blExec(f *ssa.Function, args []blVal) ([]blVal, int, string) {
	env := map[ssa.Value]blVal{}
	for i, p := range f.Params {
		if i < len(args) {
			env[p] = args[i]
		}
	}
	appended := 0
	val := func(v ssa.Value) blVal {
		if k, ok := v.(*ssa.Const); ok {
			if k.Value == nil {
				return blVal{kind: blOpaque}
			}
			switch k.Value.Kind() {
			case constant.Int:
				if i, ok := constant.Int64Val(k.Value); ok {
					return blVal{blInt, i}
				}
				if u, ok := constant.Uint64Val(k.Value); ok && u>>63 == 1 {
					return blVal{kind: blOpaque}
				}
			case constant.Bool:
				if constant.BoolVal(k.Value) {
					return blVal{blBool, 1}
				}
				return blVal{blBool, 0}
			}
			return blVal{kind: blOpaque}
		}
		if x, ok := env[v]; ok {
			return x
		}
		return blVal{kind: blOpaque}
	}
	pow2 := func(c int64) (int64, bool) {
		if c <= 0 {
			return 0, false
		}
		k := int64(0)
		for x := c; x > 1; x >>= 1 {
			if x&1 != 0 {
				return 0, false
			}
			k++
		}
		return k, true
	}
	blk := f.Blocks[0]
	var prev *ssa.BasicBlock
	steps := 0
	for {
		steps++
		if steps > 400 {
			return nil, 0, "does not terminate within the step bound"
		}
		// φ
		if prev != nil {
			idx := -1
			for i, p := range blk.Preds {
				if p == prev {
					idx = i
				}
			}
			tmp := map[ssa.Value]blVal{}
			for _, in := range blk.Instrs {
				phi, ok := in.(*ssa.Phi)
				if !ok {
					break
				}
				tmp[phi] = val(phi.Edges[idx])
			}
			for k, v := range tmp {
				env[k] = v
			}
		}
		for _, in := range blk.Instrs {
			switch x := in.(type) {
			case *ssa.Phi, *ssa.DebugRef:
			case *ssa.BinOp:
				a, b := val(x.X), val(x.Y)
				switch {
				case a.kind == blInt && b.kind == blInt:
					var r int64
					okOp := true
					switch x.Op {
					case token.ADD:
						r = a.n + b.n
					case token.SUB:
						r = a.n - b.n
					case token.MUL:
						r = a.n * b.n
					case token.QUO:
						if b.n == 0 {
							return nil, 0, "division by zero"
						}
						r = a.n / b.n
					case token.REM:
						if b.n == 0 {
							return nil, 0, "division by zero"
						}
						r = a.n % b.n
					case token.SHL:
						r = a.n << uint(b.n)
					case token.SHR:
						r = a.n >> uint(b.n)
					case token.LSS, token.LEQ, token.GTR, token.GEQ, token.EQL, token.NEQ:
						var t bool
						switch x.Op {
						case token.LSS:
							t = a.n < b.n
						case token.LEQ:
							t = a.n <= b.n
						case token.GTR:
							t = a.n > b.n
						case token.GEQ:
							t = a.n >= b.n
						case token.EQL:
							t = a.n == b.n
						case token.NEQ:
							t = a.n != b.n
						}
						env[x] = blVal{blBool, map[bool]int64{true: 1, false: 0}[t]}
						continue
					default:
						okOp = false
					}
					if okOp {
						env[x] = blVal{blInt, r}
					} else {
						env[x] = blVal{kind: blOpaque}
					}
				case a.kind == blBits && b.kind == blInt:
					switch x.Op {
					case token.SHR:
						l := a.n - b.n
						if l < 0 {
							l = 0
						}
						env[x] = blVal{blBits, l}
					case token.LSS, token.GEQ:
						k, ok := pow2(b.n)
						if !ok {
							return nil, 0, fmt.Sprintf("comparison with %d is not a function of the bit length", b.n)
						}
						// v >= 2^k  <=>  L >= k+1
						ge := a.n >= k+1
						if x.Op == token.LSS {
							ge = !ge
						}
						env[x] = blVal{blBool, map[bool]int64{true: 1, false: 0}[ge]}
					case token.LEQ, token.GTR:
						// v > c  <=>  v >= c+1
						k, ok := pow2(b.n + 1)
						if !ok {
							return nil, 0, fmt.Sprintf("comparison with %d is not a function of the bit length", b.n)
						}
						gt := a.n >= k+1
						if x.Op == token.LEQ {
							gt = !gt
						}
						env[x] = blVal{blBool, map[bool]int64{true: 1, false: 0}[gt]}
					case token.EQL, token.NEQ:
						if b.n == 0 {
							z := a.n == 0
							if x.Op == token.NEQ {
								z = !z
							}
							env[x] = blVal{blBool, map[bool]int64{true: 1, false: 0}[z]}
						} else {
							return nil, 0, "equality with a non-zero constant is not a function of the bit length"
						}
					case token.OR:
						// bitlen(v | c) = max(bitlen(v), bitlen(c)) for a constant c >= 0 - only where the operand
						// still is the 64-bit value itself (byte(v)|0x80 goes through a Convert and stays opaque)
						if b.n >= 0 {
							l := int64(0)
							for t := b.n; t > 0; t >>= 1 {
								l++
							}
							if a.n > l {
								l = a.n
							}
							env[x] = blVal{blBits, l}
						} else {
							env[x] = blVal{kind: blOpaque}
						}
					default:
						env[x] = blVal{kind: blOpaque} // byte(v)|0x80 and the like: values of emitted bytes are not tracked
					}
				default:
					env[x] = blVal{kind: blOpaque}
				}
			case *ssa.UnOp:
				a := val(x.X)
				if x.Op == token.NOT && a.kind == blBool {
					env[x] = blVal{blBool, 1 - a.n}
				} else {
					env[x] = blVal{kind: blOpaque}
				}
			case *ssa.Convert:
				a := val(x.X)
				// int <-> uint64 of small values keeps value / bit length; narrowing conversions are opaque
				if b, ok := x.Type().Underlying().(*types.Basic); ok && b.Info()&types.IsInteger != 0 && sizes.Sizeof(b) == 8 {
					env[x] = a
				} else if a.kind == blInt && a.n >= 0 && a.n < 128 {
					env[x] = a
				} else {
					env[x] = blVal{kind: blOpaque}
				}
			case *ssa.Call:
				cc := x.Common()
				if bi, ok := cc.Value.(*ssa.Builtin); ok {
					switch bi.Name() {
					case "append":
						// appended element count: variadic slice of a fixed array, or spread of a known string
						n := -1
						if sl, ok := cc.Args[1].(*ssa.Slice); ok {
							if al, ok := sl.X.(*ssa.Alloc); ok {
								if arr, ok := deref(al.Type()).Underlying().(*types.Array); ok {
									n = int(arr.Len())
								}
							}
						}
						if k, ok := cc.Args[1].(*ssa.Const); ok && k.Value != nil && k.Value.Kind() == constant.String {
							n = len(constant.StringVal(k.Value))
						}
						if n < 0 {
							return nil, 0, "append of an unknown number of bytes"
						}
						appended += n
						env[x] = blVal{kind: blOpaque}
					default:
						env[x] = blVal{kind: blOpaque}
					}
					continue
				}
				cal := cc.StaticCallee()
				if cal == nil {
					return nil, 0, "dynamic call"
				}
				switch cal.String() {
				case "math/bits.Len64", "math/bits.Len":
					a := val(cc.Args[0])
					if a.kind == blBits {
						env[x] = blVal{blInt, a.n}
					} else if a.kind == blInt && a.n >= 0 {
						l := int64(0)
						for t := a.n; t > 0; t >>= 1 {
							l++
						}
						env[x] = blVal{blInt, l}
					} else {
						return nil, 0, "bits.Len of an unknown value"
					}
				default:
					if cal.Pkg != nil && inModule(cal.Pkg.Pkg) && len(cal.Blocks) > 0 {
						var as []blVal
						for _, a := range cc.Args {
							as = append(as, val(a))
						}
						rs, ap, why := blExec(cal, as)
						if why != "" {
							return nil, 0, cal.Name() + ": " + why
						}
						appended += ap
						if len(rs) == 1 {
							env[x] = rs[0]
						} else {
							env[x] = blVal{kind: blOpaque}
						}
					} else {
						return nil, 0, "call of " + cal.String()
					}
				}
			case *ssa.Alloc, *ssa.IndexAddr, *ssa.Store, *ssa.Slice, *ssa.FieldAddr, *ssa.MakeSlice, *ssa.ChangeType:
				if v, ok := in.(ssa.Value); ok {
					env[v] = blVal{kind: blOpaque}
				}
			case *ssa.If:
				cnd := val(x.Cond)
				if cnd.kind != blBool {
					return nil, 0, "branch on a value that is not a function of the bit length"
				}
				prev = blk
				if cnd.n == 1 {
					blk = blk.Succs[0]
				} else {
					blk = blk.Succs[1]
				}
				goto next
			case *ssa.Jump:
				prev = blk
				blk = blk.Succs[0]
				goto next
			case *ssa.Return:
				var rs []blVal
				for _, r := range x.Results {
					rs = append(rs, val(r))
				}
				return rs, appended, ""
			default:
				return nil, 0, fmt.Sprintf("unsupported instruction %T", in)
			}
		}
		return nil, 0, "fell off a block"
	next:
	}
}

// ruleVarSize: N.varsize - for every bit length 0..64, SizeVarUint(v) equals
// the number of bytes AppendVarUint appends, that number is ceil(L/7) (at least
// 1), i.e. the standard protobuf varint length, and it never exceeds 10.
func ruleVarSize(c *Ctx) {
	p := c.P
	sz := p.ssaFunc("plenccore.SizeVarUint")
	ap := p.ssaFunc("plenccore.AppendVarUint")
	if sz == nil || ap == nil {
		c.Oblige("N.varsize", false, token.NoPos, "plenccore.SizeVarUint", "functions", "not found", nil)
		return
	}
	bad := ""
	for L := int64(0); L <= 64; L++ {
		v := blVal{blBits, L}
		rs, _, why := blExec(sz, []blVal{v})
		if why != "" || len(rs) != 1 || rs[0].kind != blInt {
			bad = fmt.Sprintf("SizeVarUint is undecided for bit length %d: %s", L, why)
			break
		}
		_, n, why2 := blExec(ap, []blVal{{kind: blOpaque}, v})
		if why2 != "" {
			bad = fmt.Sprintf("AppendVarUint is undecided for bit length %d: %s", L, why2)
			break
		}
		want := (L + 6) / 7
		if want == 0 {
			want = 1
		}
		if rs[0].n != int64(n) {
			bad = fmt.Sprintf("for values of bit length %d SizeVarUint returns %d but AppendVarUint appends %d bytes", L, rs[0].n, n)
			break
		}
		if int64(n) != want {
			bad = fmt.Sprintf("for values of bit length %d AppendVarUint appends %d bytes, a protobuf varint has %d", L, n, want)
			break
		}
	}
	c.Oblige("N.varsize", bad == "", sz.Pos(), "plenccore.SizeVarUint", "SizeVarUint(v) = bytes appended by AppendVarUint(v) = ceil(bitlen(v)/7) for every uint64",
		"decided by abstract execution of both bodies for each of the 65 possible bit lengths (comparisons with powers of two, shifts and bits.Len64 are functions of the bit length)"+
			map[bool]string{true: "", false: ": " + bad}[bad == ""], map[string]any{"bit_lengths": 65})
	c.Floor("N.varsize", 1)
}
