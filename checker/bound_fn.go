package main

import (
	"fmt"
	"go/constant"
	"go/token"
	"go/types"
	"math/big"
	"os"
	"sort"
	"strings"

	"golang.org/x/tools/go/ssa"
)

var boundDebug = os.Getenv("BOUND_DEBUG")

type loopInfo struct {
	header *ssa.BasicBlock
	body   map[*ssa.BasicBlock]bool
	backs  []*ssa.BasicBlock // predecessors of header inside the loop
}

func (B *Bound) newFnA(fn *ssa.Function) *fnA {
	a := &fnA{B: B, fn: fn, name: ssaFuncName(fn), termIdx: map[string]int{},
		exact: map[ssa.Instruction]bool{}, canon: map[ssa.Value]string{}, noCanonRoots: map[string]bool{},
		phiCands: map[*ssa.Phi][]*candidate{}, taint: map[ssa.Value]bool{}, fwd: map[*ssa.UnOp]ssa.Value{}}
	a.computeCanon()
	a.computeFwd()
	a.computeHeapFwd()
	a.computeTaint()
	a.computeLoops()
	return a
}

// ---------------------------------------------------------------------------
// canonical loads of fields reached from parameters (never stored to in fn)

func (a *fnA) addrKey(v ssa.Value) (string, bool) {
	switch x := v.(type) {
	case *ssa.Parameter:
		if _, ok := x.Type().Underlying().(*types.Pointer); ok {
			return x.Name(), true
		}
	case *ssa.FieldAddr:
		if k, ok := a.addrKey(x.X); ok {
			return k + "." + fieldName(x), true
		}
	case *ssa.UnOp:
		if x.Op == token.MUL {
			if k, ok := a.addrKey(x.X); ok {
				if _, isPtr := x.Type().Underlying().(*types.Pointer); isPtr {
					return "*" + k, true
				}
			}
			// a pointer loaded from somewhere else (slice element, local): its
			// SSA identity names the object it points to
			if _, isPtr := x.Type().Underlying().(*types.Pointer); isPtr {
				return fmt.Sprintf("@%s", x.Name()), true
			}
		}
	}
	return "", false
}

func (a *fnA) computeCanon() {
	stored := map[string]bool{}
	for _, b := range a.fn.Blocks {
		for _, in := range b.Instrs {
			if st, ok := in.(*ssa.Store); ok {
				if k, ok := a.addrKey(st.Addr); ok {
					stored[k] = true
				}
			}
		}
	}
	for _, b := range a.fn.Blocks {
		for _, in := range b.Instrs {
			u, ok := in.(*ssa.UnOp)
			if !ok || u.Op != token.MUL {
				continue
			}
			k, ok := a.addrKey(u.X)
			if !ok {
				continue
			}
			bad := false
			for s := range stored {
				if strings.HasPrefix(k, s) || strings.HasPrefix(s, k) {
					bad = true
				}
			}
			if !bad {
				a.canon[u] = k
			}
		}
	}
}

// store-to-load forwarding for non-escaping local allocs (go/ssa spills named
// results to allocs when the function has a defer): a load is replaced by the
// stored value when exactly one store reaches it (reaching definitions over
// the CFG; calls cannot touch a non-escaping alloc).
func (a *fnA) computeFwd() {
	var allocs []*ssa.Alloc
	for _, b := range a.fn.Blocks {
		for _, in := range b.Instrs {
			if al, ok := in.(*ssa.Alloc); ok && a.localOnly(al) {
				allocs = append(allocs, al)
			}
		}
	}
	type state struct {
		v        ssa.Value
		conflict bool
		set      bool
	}
	for _, al := range allocs {
		out := map[*ssa.BasicBlock]state{}
		inS := map[*ssa.BasicBlock]state{}
		lastStore := func(b *ssa.BasicBlock) (ssa.Value, bool) {
			var v ssa.Value
			found := false
			for _, in := range b.Instrs {
				if st, ok := in.(*ssa.Store); ok && st.Addr == al {
					v, found = st.Val, true
				}
			}
			return v, found
		}
		for iter := 0; iter < 50; iter++ {
			changed := false
			for _, b := range a.fn.DomPreorder() {
				var in state
				if len(b.Preds) == 0 {
					in = state{conflict: true, set: true} // initial (zero) value: not tracked
				}
				for _, p := range b.Preds {
					po, ok := out[p]
					if !ok || !po.set {
						continue // not yet computed (optimistic)
					}
					if !in.set {
						in = po
					} else if in.conflict || po.conflict || in.v != po.v {
						in = state{conflict: true, set: true}
					}
				}
				if inS[b] != in {
					inS[b] = in
					changed = true
				}
				o := in
				if v, ok := lastStore(b); ok {
					o = state{v: v, set: true}
				}
				if out[b] != o {
					out[b] = o
					changed = true
				}
			}
			if !changed {
				break
			}
		}
		for _, b := range a.fn.Blocks {
			cur := inS[b]
			for _, in := range b.Instrs {
				switch x := in.(type) {
				case *ssa.Store:
					if x.Addr == al {
						cur = state{v: x.Val, set: true}
					}
				case *ssa.UnOp:
					if x.Op == token.MUL && x.X == al && cur.set && !cur.conflict && cur.v != nil {
						a.fwd[x] = cur.v
					}
				}
			}
		}
	}
}

// computeHeapFwd: a store through &X.f followed, with no intervening call or
// store, by a load through &X.f (same SSA base value, same field) yields the
// stored value. go/ssa does not CSE the address computations.
func (a *fnA) computeHeapFwd() {
	type akey struct {
		base  ssa.Value
		field int
	}
	keyOf := func(addr ssa.Value) (akey, bool) {
		fa, ok := addr.(*ssa.FieldAddr)
		if !ok {
			return akey{}, false
		}
		return akey{fa.X, fa.Field}, true
	}
	for _, b := range a.fn.Blocks {
		for i, in := range b.Instrs {
			st, ok := in.(*ssa.Store)
			if !ok {
				continue
			}
			k, ok := keyOf(st.Addr)
			if !ok {
				continue
			}
			// walk forward through the call-free, store-free region
			var walk func(bb *ssa.BasicBlock, from int, depth int)
			walk = func(bb *ssa.BasicBlock, from int, depth int) {
				for _, in2 := range bb.Instrs[from:] {
					switch x := in2.(type) {
					case *ssa.Store, *ssa.MapUpdate, *ssa.Call, *ssa.Defer, *ssa.Go:
						return
					case *ssa.UnOp:
						if x.Op == token.MUL {
							if k2, ok := keyOf(x.X); ok && k2 == k {
								if _, done := a.fwd[x]; !done {
									a.fwd[x] = st.Val
								}
							}
						}
					}
				}
				if depth > 3 {
					return
				}
				for _, s := range bb.Succs {
					if len(s.Preds) == 1 {
						walk(s, 0, depth+1)
					}
				}
			}
			walk(b, i+1, 0)
		}
	}
}

func (a *fnA) localOnly(al *ssa.Alloc) bool {
	for _, r := range *al.Referrers() {
		switch x := r.(type) {
		case *ssa.Store:
			if x.Addr != al {
				return false
			}
		case *ssa.UnOp:
		case *ssa.DebugRef:
		default:
			return false
		}
	}
	return true
}

// ---------------------------------------------------------------------------
// taint: values derived from []byte / string parameters (the input bytes)

func (a *fnA) computeTaint() {
	for _, p := range a.fn.Params {
		if a.B.taintParam(a.fn, p) {
			a.taint[p] = true
		}
	}
	if a.B.taintCall != nil {
		for _, b := range a.fn.Blocks {
			for _, in := range b.Instrs {
				if call, ok := in.(*ssa.Call); ok && a.B.taintCall(call) {
					a.taint[call] = true
				}
			}
		}
	}
	changed := true
	for changed {
		changed = false
		for _, b := range a.fn.Blocks {
			for _, in := range b.Instrs {
				v, ok := in.(ssa.Value)
				if !ok || a.taint[v] {
					continue
				}
				switch in.(type) {
				case *ssa.Alloc, *ssa.MakeSlice, *ssa.MakeMap, *ssa.MakeChan, *ssa.MakeClosure:
					continue
				}
				for _, op := range in.Operands(nil) {
					if *op != nil && a.taint[*op] {
						a.taint[v] = true
						changed = true
						break
					}
				}
			}
		}
	}
}

func (a *fnA) computeLoops() {
	byHeader := map[*ssa.BasicBlock]*loopInfo{}
	for _, b := range a.fn.Blocks {
		for _, s := range b.Succs {
			if s.Dominates(b) {
				li := byHeader[s]
				if li == nil {
					li = &loopInfo{header: s, body: map[*ssa.BasicBlock]bool{s: true}}
					byHeader[s] = li
					a.loops = append(a.loops, li)
				}
				li.backs = append(li.backs, b)
				// natural loop body
				stack := []*ssa.BasicBlock{b}
				for len(stack) > 0 {
					n := stack[len(stack)-1]
					stack = stack[:len(stack)-1]
					if li.body[n] {
						continue
					}
					li.body[n] = true
					stack = append(stack, n.Preds...)
				}
			}
		}
	}
}

// ---------------------------------------------------------------------------
// facts

func dominates(from, b *ssa.BasicBlock) bool {
	return from == nil || from == b || from.Dominates(b)
}

func (a *fnA) addFact(q Ineq, ok bool, from *ssa.BasicBlock, why string) {
	if ok {
		a.baseFacts = append(a.baseFacts, fact{q: q, from: from, why: why})
	}
}

func (a *fnA) rangeFacts(t int) []Ineq {
	ti := a.terms[t]
	var min, max *big.Int
	if ti.isLen {
		min, max = big.NewInt(0), big2p62
	} else if ti.v != nil {
		var ok bool
		min, max, ok = intRange(ti.v.Type())
		if !ok {
			return nil
		}
	} else {
		return nil
	}
	lt := linTerm(t)
	q1, _ := geq(lt, linBig(min))
	q2, _ := leq(lt, linBig(max))
	return []Ineq{q1, q2}
}

// factsFor assembles the facts valid at block b plus extra, with range facts
// for every mentioned term and disequalities strengthened.
func (a *fnA) factsFor(b *ssa.BasicBlock, extra []Ineq, goalTerms Lin) []Ineq {
	var fs []Ineq
	for _, f := range a.baseFacts {
		if dominates(f.from, b) {
			fs = append(fs, f.q)
		}
	}
	for phi, cs := range a.phiCands {
		if !dominates(phi.Block(), b) {
			continue
		}
		for _, c := range cs {
			if c.alive {
				fs = append(fs, c.q)
			}
		}
	}
	for _, c := range a.B.preFacts(a) {
		fs = append(fs, c)
	}
	fs = append(fs, extra...)
	seen := map[int]bool{}
	addRange := func(l Lin) {
		for t := range l.C {
			if !seen[t] {
				seen[t] = true
				fs = append(fs, a.rangeFacts(t)...)
			}
		}
	}
	n := len(fs)
	for i := 0; i < n; i++ {
		addRange(fs[i].E)
	}
	addRange(goalTerms)
	// strengthen disequalities:  e != 0 and e >= 0  =>  e >= 1
	for _, d := range a.diseqs {
		if !dominates(d.from, b) {
			continue
		}
		for t := range d.e.C {
			if !seen[t] {
				seen[t] = true
				fs = append(fs, a.rangeFacts(t)...)
			}
		}
		if entails(fs, Ineq{d.e}) {
			fs = append(fs, Ineq{d.e.addK(-1)})
		} else if ne, ok := d.e.scale(-1); ok && entails(fs, Ineq{ne}) {
			fs = append(fs, Ineq{ne.addK(-1)})
		}
	}
	return fs
}

func (a *fnA) prove(b *ssa.BasicBlock, extra []Ineq, goal Ineq, ok bool) bool {
	if !ok {
		return false
	}
	if goal.E.isConst() {
		return goal.E.K.Sign() >= 0
	}
	return entails(a.factsFor(b, extra, goal.E), goal)
}

// candidate (per-function form): an inequality over this function's terms.
func newCand(desc string, build func() (Ineq, bool)) *candidate {
	c := &candidate{desc: desc, alive: true, build: build}
	q, ok := build()
	if !ok {
		return nil
	}
	c.q = q
	return c
}

func (a *fnA) rebuildCands() {
	for _, cs := range a.phiCands {
		for _, c := range cs {
			if c.alive {
				q, ok := c.build()
				if !ok {
					c.alive = false
					continue
				}
				c.q = q
			}
		}
	}
}

func (a *fnA) exactKey() string {
	n := 0
	for _, b := range a.fn.Blocks {
		for _, in := range b.Instrs {
			if a.exact[in] {
				n++
			}
		}
	}
	return fmt.Sprint(n)
}

// ---------------------------------------------------------------------------
// one pass: decide exactness, collect facts

type edgeKey struct {
	from *ssa.BasicBlock
	idx  int
}

func (a *fnA) pass() {
	a.baseFacts = a.baseFacts[:0]
	a.diseqs = a.diseqs[:0]
	a.exact = map[ssa.Instruction]bool{}
	a.errNil = map[*ssa.BasicBlock]map[ssa.Value]bool{}
	a.errNonNil = map[*ssa.BasicBlock]map[ssa.Value]bool{}
	a.edgeFacts = map[edgeKey][]Ineq{}
	a.edgeNil = map[edgeKey][]ssa.Value{}
	for _, b := range a.fn.DomPreorder() {
		// inherit nil-knowledge from the immediate dominator
		if id := b.Idom(); id != nil {
			for v := range a.errNil[id] {
				a.setNil(b, v, true)
			}
			for v := range a.errNonNil[id] {
				a.setNil(b, v, false)
			}
		}
		// facts established on the unique incoming edge
		if len(b.Preds) == 1 {
			p := b.Preds[0]
			for i, s := range p.Succs {
				if s == b {
					a.edgeCond(p, i, b)
				}
			}
		}
		for _, in := range b.Instrs {
			a.instrFacts(b, in)
		}
	}
	// edge facts for multi-pred successors (used by Houdini edge checks)
	for _, b := range a.fn.Blocks {
		for i, s := range b.Succs {
			if len(s.Preds) != 1 {
				a.edgeCond(b, i, nil)
			}
		}
	}
}

func (a *fnA) setNil(b *ssa.BasicBlock, v ssa.Value, isNil bool) {
	m := a.errNil
	if !isNil {
		m = a.errNonNil
	}
	if m[b] == nil {
		m[b] = map[ssa.Value]bool{}
	}
	m[b][v] = true
}

// edgeCond records the facts implied by taking successor idx of block p. If
// into != nil the facts are valid from block into; otherwise they are stored
// as edge facts.
func (a *fnA) edgeCond(p *ssa.BasicBlock, idx int, into *ssa.BasicBlock) {
	iff, ok := p.Instrs[len(p.Instrs)-1].(*ssa.If)
	if !ok {
		return
	}
	a.condFacts(iff.Cond, idx == 0, p, idx, into)
}

func (a *fnA) emitEdge(q Ineq, ok bool, p *ssa.BasicBlock, idx int, into *ssa.BasicBlock, why string) {
	if !ok {
		return
	}
	if into != nil {
		a.baseFacts = append(a.baseFacts, fact{q: q, from: into, why: why})
	} else {
		k := edgeKey{p, idx}
		a.edgeFacts[k] = append(a.edgeFacts[k], q)
	}
}

func (a *fnA) condFacts(cond ssa.Value, truth bool, p *ssa.BasicBlock, idx int, into *ssa.BasicBlock) {
	switch c := cond.(type) {
	case *ssa.UnOp:
		if c.Op == token.NOT {
			a.condFacts(c.X, !truth, p, idx, into)
		}
	case *ssa.Phi:
		// a materialised x && y (or x || y): the φ has the wanted truth value
		// only through its one edge that is not the opposite constant, so that
		// edge's value has it too, and so do the branches of the single-entry
		// chain of blocks that leads to the edge.
		cand := -1
		for i, e := range c.Edges {
			if k, isK := e.(*ssa.Const); isK && k.Value != nil && k.Value.Kind() == constant.Bool && constant.BoolVal(k.Value) != truth {
				continue
			}
			if cand >= 0 {
				// a flag set on two paths (bad := x < 0; if x == 0 { bad = y < z }):
				// the wanted truth value came in through one edge or the other -
				// what both alternatives imply holds either way
				a.condFactsEither(c, truth, p, idx, into)
				return
			}
			cand = i
		}
		if cand < 0 || a.condDepth > 6 {
			return
		}
		a.condDepth++
		defer func() { a.condDepth-- }()
		a.condFacts(c.Edges[cand], truth, p, idx, into)
		cur := c.Block().Preds[cand]
		if iff, ok := cur.Instrs[len(cur.Instrs)-1].(*ssa.If); ok && cur.Succs[0] != cur.Succs[1] {
			a.condFacts(iff.Cond, cur.Succs[0] == c.Block(), p, idx, into)
		}
		for n := 0; n < 8 && len(cur.Preds) == 1; n++ {
			q := cur.Preds[0]
			if iff, ok := q.Instrs[len(q.Instrs)-1].(*ssa.If); ok && q.Succs[0] != q.Succs[1] {
				a.condFacts(iff.Cond, q.Succs[0] == cur, p, idx, into)
			}
			cur = q
		}
	case *ssa.BinOp:
		op := c.Op
		if !truth {
			switch op {
			case token.LSS:
				op = token.GEQ
			case token.LEQ:
				op = token.GTR
			case token.GTR:
				op = token.LEQ
			case token.GEQ:
				op = token.LSS
			case token.EQL:
				op = token.NEQ
			case token.NEQ:
				op = token.EQL
			default:
				return
			}
		}
		if isIntLike(c.X.Type()) && isIntLike(c.Y.Type()) {
			x, y := a.lin(c.X), a.lin(c.Y)
			why := fmt.Sprintf("branch %s %s %s", a.describe(c.X), op, a.describe(c.Y))
			switch op {
			case token.LSS:
				q, ok := lt(x, y)
				a.emitEdge(q, ok, p, idx, into, why)
			case token.LEQ:
				q, ok := leq(x, y)
				a.emitEdge(q, ok, p, idx, into, why)
			case token.GTR:
				q, ok := gt(x, y)
				a.emitEdge(q, ok, p, idx, into, why)
			case token.GEQ:
				q, ok := geq(x, y)
				a.emitEdge(q, ok, p, idx, into, why)
			case token.EQL:
				q, ok := geq(x, y)
				a.emitEdge(q, ok, p, idx, into, why)
				q, ok = leq(x, y)
				a.emitEdge(q, ok, p, idx, into, why)
			case token.NEQ:
				if e, ok := x.sub(y); ok && into != nil {
					a.diseqs = append(a.diseqs, diseq{e: e, from: into})
				}
			}
			return
		}
		// nil comparisons of interface values (errors)
		if op == token.EQL || op == token.NEQ {
			var v ssa.Value
			if isNilConst(c.Y) {
				v = c.X
			} else if isNilConst(c.X) {
				v = c.Y
			}
			if v == nil {
				return
			}
			if f, ok := v.(*ssa.UnOp); ok {
				if fw, ok := a.fwd[f]; ok {
					v = fw
				}
			}
			if into != nil {
				a.setNil(into, v, op == token.EQL)
				if op == token.EQL {
					a.guardedFacts(v, into, nil, 0)
				}
			} else if op == token.EQL {
				k := edgeKey{p, idx}
				a.edgeNil[k] = append(a.edgeNil[k], v)
			}
		}
	}
}

func isNilConst(v ssa.Value) bool {
	c, ok := v.(*ssa.Const)
	return ok && c.Value == nil
}

// instrFacts decides exactness of arithmetic and records intrinsic and
// contract facts for one instruction.
func (a *fnA) instrFacts(b *ssa.BasicBlock, in ssa.Instruction) {
	switch x := in.(type) {
	case *ssa.BinOp:
		if !isIntLike(x.Type()) || !isIntLike(x.X.Type()) {
			return
		}
		min, max, _ := intRange(x.Type())
		switch x.Op {
		case token.ADD, token.SUB, token.MUL:
			var r Lin
			var ok bool
			lx, ly := a.lin(x.X), a.lin(x.Y)
			switch x.Op {
			case token.ADD:
				r, ok = lx.add(ly)
			case token.SUB:
				r, ok = lx.sub(ly)
			case token.MUL:
				r, ok = a.mulLin(x.X, x.Y)
			}
			if !ok {
				return
			}
			q1, ok1 := geq(r, linBig(min))
			q2, ok2 := leq(r, linBig(max))
			if a.prove(b, nil, q1, ok1) && a.prove(b, nil, q2, ok2) {
				a.exact[x] = true
			}
		case token.AND:
			for _, side := range []ssa.Value{x.X, x.Y} {
				if c, ok := side.(*ssa.Const); ok {
					if m, ok := constBig(c); ok && m.Sign() >= 0 {
						t := linTerm(a.valTerm(x))
						q, ok := geq(t, linConst(0))
						a.addFact(q, ok, b, "mask")
						q, ok = leq(t, linBig(m))
						a.addFact(q, ok, b, "mask")
					}
				}
			}
		case token.SHR:
			if isUnsigned(x.X.Type()) {
				t := linTerm(a.valTerm(x))
				q, ok := leq(t, a.lin(x.X))
				a.addFact(q, ok, b, "shr")
				if c, ok := x.Y.(*ssa.Const); ok {
					if k, ok := constBig(c); ok && k.IsInt64() && k.Int64() >= 0 && k.Int64() < 64 {
						_, xmax, _ := intRange(x.X.Type())
						m := new(big.Int).Rsh(xmax, uint(k.Int64()))
						q, ok := leq(t, linBig(m))
						a.addFact(q, ok, b, "shr")
					}
				}
			}
		case token.QUO:
			lx, ly := a.lin(x.X), a.lin(x.Y)
			t := linTerm(a.valTerm(x))
			q0, ok0 := geq(lx, linConst(0))
			if a.prove(b, nil, q0, ok0) {
				q, ok := leq(t, lx)
				a.addFact(q, ok, b, "quo")
				q1, ok1 := geq(ly, linConst(0))
				if a.prove(b, nil, q1, ok1) {
					q, ok := geq(t, linConst(0))
					a.addFact(q, ok, b, "quo")
				}
			}
		case token.REM:
			lx, ly := a.lin(x.X), a.lin(x.Y)
			q0, ok0 := geq(lx, linConst(0))
			q1, ok1 := gt(ly, linConst(0))
			if a.prove(b, nil, q0, ok0) && a.prove(b, nil, q1, ok1) {
				t := linTerm(a.valTerm(x))
				q, ok := geq(t, linConst(0))
				a.addFact(q, ok, b, "rem")
				q, ok = lt(t, ly)
				a.addFact(q, ok, b, "rem")
			}
		}
	case *ssa.Convert:
		if !isIntLike(x.Type()) || !isIntLike(x.X.Type()) {
			return
		}
		min, max, _ := intRange(x.Type())
		r := a.lin(x.X)
		q1, ok1 := geq(r, linBig(min))
		q2, ok2 := leq(r, linBig(max))
		if a.prove(b, nil, q1, ok1) && a.prove(b, nil, q2, ok2) {
			a.exact[x] = true
		}
	case *ssa.Call:
		a.callFacts(b, x)
	case *ssa.UnOp:
		// sliceHeader mirrors a Go slice header: 0 <= Len, 0 <= Cap (A6)
		if x.Op == token.MUL && isIntLike(x.Type()) {
			if fa, ok := x.X.(*ssa.FieldAddr); ok && typeName(deref(fa.X.Type())) == "sliceHeader" {
				if n := fieldName(fa); n == "Len" || n == "Cap" {
					if _, fwd := a.fwd[x]; !fwd {
						t := linTerm(a.valTerm(x))
						q, ok := geq(t, linConst(0))
						a.addFact(q, ok, b, "slice header field >= 0")
						q, ok = leq(t, linBig(big2p62))
						a.addFact(q, ok, b, "slice header field <= 2^62")
					}
				}
			}
		}
	}
}

// ---------------------------------------------------------------------------
// Houdini for phi invariants

func (a *fnA) seedPhiCandidates() {
	// upper-bound sources: lengths of slice-like params and of operands of
	// Slice/Index instructions; int values compared against something.
	var lenSrcs []ssa.Value
	seenSrc := map[ssa.Value]bool{}
	addSrc := func(v ssa.Value) {
		if v == nil || seenSrc[v] {
			return
		}
		if _, isConst := v.(*ssa.Const); isConst {
			return
		}
		seenSrc[v] = true
		lenSrcs = append(lenSrcs, v)
	}
	for _, p := range a.fn.Params {
		if isSliceLike(p.Type()) {
			addSrc(p)
		}
	}
	var cmpVals []ssa.Value
	var cmpConsts []*big.Int
	seenCmp := map[ssa.Value]bool{}
	for _, b := range a.fn.Blocks {
		for _, in := range b.Instrs {
			switch x := in.(type) {
			case *ssa.Slice:
				if isSliceLike(x.X.Type()) {
					addSrc(x.X)
				}
				for _, v := range []ssa.Value{x.Low, x.High} {
					if v != nil && isIntLike(v.Type()) && !seenCmp[v] {
						if _, isC := v.(*ssa.Const); !isC {
							seenCmp[v] = true
							cmpVals = append(cmpVals, v)
						}
					}
				}
			case *ssa.IndexAddr:
				if isSliceLike(x.X.Type()) {
					addSrc(x.X)
				}
			case *ssa.Call:
				// what a callee is handed bounds what it reports as consumed
				for _, arg := range x.Common().Args {
					if isSliceLike(arg.Type()) {
						addSrc(arg)
					}
				}
			case *ssa.Lookup:
				if isSliceLike(x.X.Type()) {
					addSrc(x.X)
				}
			case *ssa.BinOp:
				switch x.Op {
				case token.LSS, token.LEQ, token.GTR, token.GEQ:
					for _, v := range []ssa.Value{x.X, x.Y} {
						if isIntLike(v.Type()) && !seenCmp[v] {
							if cst, isC := v.(*ssa.Const); !isC {
								seenCmp[v] = true
								cmpVals = append(cmpVals, v)
							} else if k, ok := constBig(cst); ok && len(cmpConsts) < 8 {
								dup := false
								for _, o := range cmpConsts {
									if o.Cmp(k) == 0 {
										dup = true
									}
								}
								if !dup {
									cmpConsts = append(cmpConsts, k)
								}
							}
						}
					}
				}
			}
		}
	}
	defBlock := func(v ssa.Value) *ssa.BasicBlock {
		if in, ok := v.(ssa.Instruction); ok {
			return in.Block()
		}
		return nil // params, consts
	}
	for _, b := range a.fn.Blocks {
		var phis []*ssa.Phi
		for _, in := range b.Instrs {
			if phi, ok := in.(*ssa.Phi); ok && isIntLike(phi.Type()) {
				phis = append(phis, phi)
			}
		}
		for _, phi := range phis {
			phi := phi
			pt := func() Lin { return linTerm(a.valTerm(phi)) }
			var cs []*candidate
			add := func(desc string, build func() (Ineq, bool)) {
				if c := newCand(desc, build); c != nil {
					cs = append(cs, c)
				}
			}
			add(a.describe(phi)+" >= 0", func() (Ineq, bool) { return geq(pt(), linConst(0)) })
			add(a.describe(phi)+" >= -1", func() (Ineq, bool) { return geq(pt(), linConst(-1)) })
			for _, s := range lenSrcs {
				s := s
				db := defBlock(s)
				if db != nil && !(db.Dominates(b)) {
					// a slice expression made in a branch (data[pos:] written out in
					// each arm) still has a length in terms of values that dominate
					// the join: len(data) - pos
					usable := false
					fromCallOn := false
					for _, e := range phi.Edges {
						if ex, ok := e.(*ssa.Extract); ok {
							if call, ok := ex.Tuple.(*ssa.Call); ok {
								for _, arg := range call.Common().Args {
									if arg == s {
										fromCallOn = true
									}
								}
							}
						}
					}
					if _, isSlice := s.(*ssa.Slice); isSlice && fromCallOn {
						usable = true
						for t := range a.lenOf(s).C {
							if v := a.terms[t].v; v != nil {
								if in, isInstr := v.(ssa.Instruction); isInstr && in.Block() != nil && !(in.Block() == b || in.Block().Dominates(b)) {
									usable = false
								}
							}
						}
					}
					if !usable {
						continue
					}
				}
				add(fmt.Sprintf("%s <= len(%s)", a.describe(phi), a.describe(s)), func() (Ineq, bool) { return leq(pt(), a.lenOf(s)) })
			}
			for _, v := range cmpVals {
				v := v
				if v == ssa.Value(phi) {
					continue
				}
				db := defBlock(v)
				if db != nil && (db == b || !db.Dominates(b)) {
					if _, isPhi := v.(*ssa.Phi); !(isPhi && db == b) {
						continue
					}
				}
				add(fmt.Sprintf("%s <= %s", a.describe(phi), a.describe(v)), func() (Ineq, bool) {
					lv := a.lin(v)
					if _, mentions := lv.C[a.valTerm(phi)]; mentions {
						return Ineq{}, false
					}
					return leq(pt(), lv)
				})
				add(fmt.Sprintf("%s >= %s", a.describe(phi), a.describe(v)), func() (Ineq, bool) {
					lv := a.lin(v)
					if _, mentions := lv.C[a.valTerm(phi)]; mentions {
						return Ineq{}, false
					}
					return geq(pt(), lv)
				})
			}
			for _, k := range cmpConsts {
				k := k
				add(fmt.Sprintf("%s <= %s", a.describe(phi), k), func() (Ineq, bool) { return leq(pt(), linBig(k)) })
			}
			// join phis: bounds relative to incoming values that dominate the join
			for _, e := range phi.Edges {
				e := e
				if c, isC := e.(*ssa.Const); isC {
					if k, ok := constBig(c); ok {
						add(fmt.Sprintf("%s >= %s", a.describe(phi), k), func() (Ineq, bool) { return geq(pt(), linBig(k)) })
					}
					continue
				}
				db := defBlock(e)
				if db != nil && (db == b || !db.Dominates(b)) {
					continue
				}
				mk := func(ge bool) func() (Ineq, bool) {
					return func() (Ineq, bool) {
						le := a.lin(e)
						if _, mentions := le.C[a.valTerm(phi)]; mentions {
							return Ineq{}, false
						}
						if ge {
							return geq(pt(), le)
						}
						return leq(pt(), le)
					}
				}
				add(fmt.Sprintf("%s >= %s", a.describe(phi), a.describe(e)), mk(true))
				add(fmt.Sprintf("%s <= %s", a.describe(phi), a.describe(e)), mk(false))
			}
			for _, other := range phis {
				other := other
				if other == phi {
					continue
				}
				add(fmt.Sprintf("%s <= %s", a.describe(phi), a.describe(other)), func() (Ineq, bool) { return leq(pt(), linTerm(a.valTerm(other))) })
			}
			a.phiCands[phi] = cs
		}
	}
}

// substPhis replaces the phi terms of block h by their incoming values on the
// edge from predecessor index pi.
func (a *fnA) substPhis(l Lin, h *ssa.BasicBlock, pi int) (Lin, bool) {
	r := Lin{C: map[int]int64{}, K: new(big.Int).Set(l.K)}
	ok := true
	sub := map[int]Lin{}
	for _, in := range h.Instrs {
		phi, isPhi := in.(*ssa.Phi)
		if !isPhi {
			break
		}
		if isIntLike(phi.Type()) {
			sub[a.valTerm(phi)] = a.lin(phi.Edges[pi])
		}
	}
	for t, c := range l.C {
		if s, has := sub[t]; has {
			var o bool
			r, o = r.addScaled(s, c)
			ok = ok && o
		} else {
			var o bool
			r, o = r.addScaled(linTerm(t), c)
			ok = ok && o
		}
	}
	return r, ok
}

// edgeExtra: facts that hold on the edge pred -> succ (condition of the
// branch), for successors with several predecessors.
func (a *fnA) edgeExtra(pred, succ *ssa.BasicBlock) []Ineq {
	var out []Ineq
	for i, s := range pred.Succs {
		if s == succ {
			out = append(out, a.edgeFacts[edgeKey{pred, i}]...)
			for _, v := range a.edgeNil[edgeKey{pred, i}] {
				out = append(out, a.guardedIneqs(v)...)
			}
		}
	}
	return out
}

func (a *fnA) houdini() {
	// round 0: establish a first exactness approximation with every candidate
	// assumed; candidates are only checked once their inequalities have been
	// rebuilt under that approximation.
	a.rebuildCands()
	a.pass()
	prev := ""
	for iter := 0; iter < 60; iter++ {
		a.rebuildCands()
		a.pass()
		killed := false
		for _, b := range a.fn.Blocks {
			for _, in := range b.Instrs {
				phi, ok := in.(*ssa.Phi)
				if !ok {
					break
				}
				for _, c := range a.phiCands[phi] {
					if !c.alive {
						continue
					}
					for pi, pred := range b.Preds {
						g, ok := a.substPhis(c.q.E, b, pi)
						if !a.prove(pred, a.edgeExtra(pred, b), Ineq{g}, ok) {
							c.alive = false
							killed = true
							if boundDebug != "" && strings.Contains(a.name, boundDebug) {
								fmt.Printf("  [%s] drop invariant %s (edge from block %d)\n", a.name, c.desc, pred.Index)
							}
							break
						}
					}
				}
			}
		}
		k := a.exactKey()
		if !killed && k == prev {
			return
		}
		prev = k
	}
}

func (a *fnA) aliveInvariants() []string {
	var out []string
	for _, cs := range a.phiCands {
		for _, c := range cs {
			if c.alive {
				out = append(out, c.desc)
			}
		}
	}
	sort.Strings(out)
	return out
}

// condFactsEither: the facts common to every way a boolean φ can have the
// wanted truth value. Each non-excluded edge contributes the facts of its
// value and of the branches on the single-entry chain leading to it; a fact
// is kept when every other alternative entails it.
func (a *fnA) condFactsEither(c *ssa.Phi, truth bool, p *ssa.BasicBlock, idx int, into *ssa.BasicBlock) {
	if a.condDepth > 4 {
		return
	}
	a.condDepth++
	defer func() { a.condDepth-- }()
	var alts [][]Ineq
	for i, e := range c.Edges {
		if k, isK := e.(*ssa.Const); isK && k.Value != nil && k.Value.Kind() == constant.Bool {
			if constant.BoolVal(k.Value) != truth {
				continue // this edge cannot give the wanted value
			}
		}
		key := edgeKey{c.Block(), 1000 + i}
		delete(a.edgeFacts, key)
		delete(a.edgeNil, key)
		if _, isK := e.(*ssa.Const); !isK {
			a.condFacts(e, truth, key.from, key.idx, nil)
		}
		cur := c.Block().Preds[i]
		if iff, ok := cur.Instrs[len(cur.Instrs)-1].(*ssa.If); ok && cur.Succs[0] != cur.Succs[1] {
			a.condFacts(iff.Cond, cur.Succs[0] == c.Block(), key.from, key.idx, nil)
		}
		for n := 0; n < 8 && len(cur.Preds) == 1; n++ {
			q := cur.Preds[0]
			if iff, ok := q.Instrs[len(q.Instrs)-1].(*ssa.If); ok && q.Succs[0] != q.Succs[1] {
				a.condFacts(iff.Cond, q.Succs[0] == cur, key.from, key.idx, nil)
			}
			cur = q
		}
		alts = append(alts, append([]Ineq(nil), a.edgeFacts[key]...))
		delete(a.edgeFacts, key)
		delete(a.edgeNil, key)
	}
	if len(alts) < 2 {
		return
	}
	for i, fs := range alts {
		for _, q := range fs {
			common := true
			for j, other := range alts {
				if j != i && !entails(other, q) {
					common = false
					break
				}
			}
			if common {
				a.emitEdge(q, true, p, idx, into, "holds on every path that sets the flag")
			}
		}
	}
}
