package main

import (
	"fmt"
	"go/token"
	"go/types"
	"sort"
	"strings"
	"unicode"

	"golang.org/x/tools/go/ssa"
)

// ---------------------------------------------------------------------------
// symbolic contracts

type slotKind int

const (
	slotParam slotKind = iota
	slotLenParam
	slotResult
)

type symTerm struct {
	kind slotKind
	idx  int
	coef int64
}

type symIneq struct {
	terms []symTerm
	k     int64
	desc  string
}

type ccand struct {
	sym      symIneq
	alive    bool
	guarded  bool // holds only when the error result is nil
	declared bool // part of the declared (interface-level) contract: never dropped, failures are findings
}

type contract struct {
	fn     *ssa.Function
	post   []*ccand
	pre    []*ccand
	hasErr bool
	nres   int
}

// Bound is one run of the BOUND engine over a closure of functions.
type Bound struct {
	P          *Prog
	funcs      []*ssa.Function
	inClosure  map[*ssa.Function]bool
	fa         map[*ssa.Function]*fnA
	contracts  map[*ssa.Function]*contract
	taintParam func(fn *ssa.Function, p *ssa.Parameter) bool
	callSites  map[*ssa.Function]int // static call sites seen inside the closure
	changed    bool
	allowPre   func(fn *ssa.Function) bool
	taintCall  func(call *ssa.Call) bool // additional taint sources (results of these calls)
}

func origin(f *ssa.Function) *ssa.Function {
	if f == nil {
		return nil
	}
	if o := f.Origin(); o != nil {
		return o
	}
	return f
}

func resultTypes(fn *ssa.Function) []types.Type {
	var out []types.Type
	r := fn.Signature.Results()
	for i := 0; i < r.Len(); i++ {
		out = append(out, r.At(i).Type())
	}
	return out
}

func isErrorType(t types.Type) bool {
	n, ok := t.(*types.Named)
	return ok && n.Obj().Pkg() == nil && n.Obj().Name() == "error"
}

func isByteSlice(t types.Type) bool {
	s, ok := t.Underlying().(*types.Slice)
	if !ok {
		return false
	}
	b, ok := s.Elem().Underlying().(*types.Basic)
	return ok && b.Kind() == types.Uint8
}

// readerShape: results (int, error) and a []byte parameter: returns the index
// of the data parameter in fn.Params.
func readerShape(fn *ssa.Function) (int, bool) {
	rs := resultTypes(fn)
	if len(rs) != 2 || !isErrorType(rs[1]) {
		return 0, false
	}
	if b, ok := rs[0].Underlying().(*types.Basic); !ok || b.Kind() != types.Int {
		return 0, false
	}
	for i, p := range fn.Params {
		if isByteSlice(p.Type()) {
			return i, true
		}
	}
	return 0, false
}

func (B *Bound) buildContract(fn *ssa.Function) *contract {
	c := &contract{fn: fn}
	rs := resultTypes(fn)
	c.nres = len(rs)
	if len(rs) > 0 && isErrorType(rs[len(rs)-1]) {
		c.hasErr = true
	}
	addPost := func(s symIneq, declared bool) {
		c.post = append(c.post, &ccand{sym: s, alive: true, guarded: c.hasErr, declared: declared})
	}
	declaredKeys := map[string]bool{}
	if di, ok := readerShape(fn); ok {
		s1 := symIneq{terms: []symTerm{{slotResult, 0, 1}}, desc: "n >= 0"}
		s2 := symIneq{terms: []symTerm{{slotLenParam, di, 1}, {slotResult, 0, -1}}, desc: "n <= len(" + fn.Params[di].Name() + ")"}
		addPost(s1, true)
		addPost(s2, true)
		declaredKeys[s1.desc] = true
		declaredKeys[s2.desc] = true
	}
	var intRes []int
	for i, t := range rs {
		if b, ok := t.Underlying().(*types.Basic); ok && b.Info()&types.IsInteger != 0 && b.Kind() != types.Int8 {
			intRes = append(intRes, i)
		}
	}
	for _, r := range intRes {
		rn := fmt.Sprintf("r%d", r)
		cands := []symIneq{
			{terms: []symTerm{{slotResult, r, 1}}, desc: rn + " >= 0"},
			{terms: []symTerm{{slotResult, r, 1}}, k: 10, desc: rn + " >= -10"},
			{terms: []symTerm{{slotResult, r, -1}}, k: 10, desc: rn + " <= 10"},
		}
		if r == 0 {
			cands[0].desc = "n >= 0"
		}
		for pi, p := range fn.Params {
			if isSliceLike(p.Type()) {
				d := fmt.Sprintf("%s <= len(%s)", rn, p.Name())
				if r == 0 {
					d = "n <= len(" + p.Name() + ")"
				}
				cands = append(cands, symIneq{terms: []symTerm{{slotLenParam, pi, 1}, {slotResult, r, -1}}, desc: d})
				if r == 0 && isByteSlice(p.Type()) {
					cands = append(cands, symIneq{terms: []symTerm{{slotResult, r, 1}, {slotLenParam, pi, -1}}, desc: "n >= len(" + p.Name() + ")"})
				}
			}
			if b, ok := p.Type().Underlying().(*types.Basic); ok && b.Kind() == types.Int {
				cands = append(cands, symIneq{terms: []symTerm{{slotResult, r, 1}, {slotParam, pi, -1}}, desc: fmt.Sprintf("%s >= %s", rn, p.Name())})
			}
		}
		for _, r2 := range intRes {
			if r2 != r {
				cands = append(cands, symIneq{terms: []symTerm{{slotResult, r2, 1}, {slotResult, r, -1}}, desc: fmt.Sprintf("r%d <= r%d", r, r2)})
			}
		}
		for _, s := range cands {
			if !declaredKeys[s.desc] {
				addPost(s, false)
			}
		}
	}
	if B.allowPre != nil && B.allowPre(fn) {
		for pi, p := range fn.Params {
			b, ok := p.Type().Underlying().(*types.Basic)
			if !ok || b.Kind() != types.Int {
				continue
			}
			c.pre = append(c.pre, &ccand{sym: symIneq{terms: []symTerm{{slotParam, pi, 1}}, desc: p.Name() + " >= 0"}, alive: true})
			for qi, q := range fn.Params {
				if isSliceLike(q.Type()) {
					c.pre = append(c.pre, &ccand{sym: symIneq{terms: []symTerm{{slotLenParam, qi, 1}, {slotParam, pi, -1}}, desc: fmt.Sprintf("%s <= len(%s)", p.Name(), q.Name())}, alive: true})
				}
			}
		}
	}
	return c
}

func isUnexportedFunc(fn *ssa.Function) bool {
	n := fn.Name()
	if fn.Parent() != nil {
		return true
	}
	r, _ := firstRune(n)
	return unicode.IsLower(r)
}

func firstRune(s string) (rune, bool) {
	for _, r := range s {
		return r, true
	}
	return 0, false
}

// inst instantiates a symbolic inequality.
func instSym(s symIneq, slot func(k slotKind, idx int) (Lin, bool)) (Ineq, bool) {
	e := linConst(s.k)
	for _, t := range s.terms {
		l, ok := slot(t.kind, t.idx)
		if !ok {
			return Ineq{}, false
		}
		e, ok = e.addScaled(l, t.coef)
		if !ok {
			return Ineq{}, false
		}
	}
	return Ineq{e}, true
}

// ---------------------------------------------------------------------------
// call facts

// resultValue finds the SSA value holding result k of call.
func (a *fnA) resultLin(call *ssa.Call, k, nres int) (Lin, bool) {
	if nres == 1 {
		if !isIntLike(call.Type()) {
			return Lin{}, false
		}
		return a.lin(call), true
	}
	for _, r := range *call.Referrers() {
		if e, ok := r.(*ssa.Extract); ok && e.Index == k {
			if !isIntLike(e.Type()) {
				return Lin{}, false
			}
			return a.lin(e), true
		}
	}
	return Lin{}, false
}

func (a *fnA) errKeyOfCall(call *ssa.Call, nres int) (string, bool) {
	if nres == 1 {
		return a.valKey(call), true
	}
	for _, r := range *call.Referrers() {
		if e, ok := r.(*ssa.Extract); ok && e.Index == nres-1 {
			return a.valKey(e), true
		}
	}
	return "", false
}

func (a *fnA) callFacts(b *ssa.BasicBlock, call *ssa.Call) {
	cc := call.Common()
	var posts []*ccand
	var args []ssa.Value
	nres := 1
	if tup, ok := call.Type().(*types.Tuple); ok {
		nres = tup.Len()
	}
	hasErr := false
	switch {
	case cc.IsInvoke():
		// interface method with reader shape: declared contract (A4)
		sig := cc.Method.Type().(*types.Signature)
		rs := sig.Results()
		if rs.Len() == 2 && isErrorType(rs.At(1).Type()) {
			if bt, ok := rs.At(0).Type().Underlying().(*types.Basic); ok && bt.Kind() == types.Int {
				for i := 0; i < sig.Params().Len(); i++ {
					if isByteSlice(sig.Params().At(i).Type()) {
						posts = []*ccand{
							{sym: symIneq{terms: []symTerm{{slotResult, 0, 1}}}, alive: true, guarded: true},
							{sym: symIneq{terms: []symTerm{{slotLenParam, i, 1}, {slotResult, 0, -1}}}, alive: true, guarded: true},
						}
						args = cc.Args
						hasErr = true
						break
					}
				}
			}
		}
		if cc.Method.Name() == "Size" && rs.Len() == 1 {
			posts = []*ccand{{sym: symIneq{terms: []symTerm{{slotResult, 0, 1}}}, alive: true}}
			args = cc.Args
		}
	default:
		callee := cc.StaticCallee()
		if callee == nil {
			return
		}
		if ct := a.B.contracts[origin(callee)]; ct != nil {
			posts = ct.post
			args = cc.Args
			hasErr = ct.hasErr
			a.B.callSites[origin(callee)]++
		} else if sc := stdContract(callee); sc != nil {
			posts = sc
			args = cc.Args
		}
	}
	if len(posts) == 0 {
		return
	}
	slot := func(k slotKind, idx int) (Lin, bool) {
		switch k {
		case slotParam:
			if idx < len(args) && isIntLike(args[idx].Type()) {
				return a.lin(args[idx]), true
			}
		case slotLenParam:
			if idx < len(args) && isSliceLike(args[idx].Type()) {
				return a.lenOf(args[idx]), true
			}
		case slotResult:
			return a.resultLin(call, idx, nres)
		}
		return Lin{}, false
	}
	for _, p := range posts {
		if !p.alive {
			continue
		}
		q, ok := instSym(p.sym, slot)
		if !ok {
			continue
		}
		if p.guarded && hasErr {
			if k, ok := a.errKeyOfCall(call, nres); ok {
				a.guarded[k] = append(a.guarded[k], q)
			}
		} else {
			a.addFact(q, true, b, "contract of "+callName(cc))
		}
	}
}

func (a *fnA) guardedIneqs(errVal ssa.Value) []Ineq {
	if u, ok := errVal.(*ssa.UnOp); ok {
		if f, ok := a.fwd[u]; ok {
			errVal = f
		}
	}
	return a.guarded[a.valKey(errVal)]
}

func (a *fnA) guardedFacts(errVal ssa.Value, into *ssa.BasicBlock, _ *ssa.BasicBlock, _ int) {
	for _, q := range a.guardedIneqs(errVal) {
		a.baseFacts = append(a.baseFacts, fact{q: q, from: into, why: "callee contract (err == nil)"})
	}
}

// stdlib contracts (trusted, A3)
func stdContract(f *ssa.Function) []*ccand {
	name := f.String()
	switch name {
	case "encoding/binary.Uvarint":
		return []*ccand{
			{sym: symIneq{terms: []symTerm{{slotLenParam, 0, 1}, {slotResult, 1, -1}}}, alive: true},
			{sym: symIneq{terms: []symTerm{{slotResult, 1, -1}}, k: 10}, alive: true},
			{sym: symIneq{terms: []symTerm{{slotResult, 1, 1}}, k: 10}, alive: true},
		}
	case "math/bits.Len64":
		return []*ccand{
			{sym: symIneq{terms: []symTerm{{slotResult, 0, 1}}}, alive: true},
			{sym: symIneq{terms: []symTerm{{slotResult, 0, -1}}, k: 64}, alive: true},
		}
	}
	return nil
}

// stdlib preconditions: minimal length of the []byte argument
func stdPre(f *ssa.Function) (argIdx int, minLen int64, ok bool) {
	switch f.String() {
	case "(encoding/binary.littleEndian).Uint64", "(encoding/binary.bigEndian).Uint64":
		return 1, 8, true
	case "(encoding/binary.littleEndian).Uint32", "(encoding/binary.bigEndian).Uint32":
		return 1, 4, true
	case "(encoding/binary.littleEndian).Uint16", "(encoding/binary.bigEndian).Uint16":
		return 1, 2, true
	case "(encoding/binary.littleEndian).PutUint64", "(encoding/binary.bigEndian).PutUint64":
		return 1, 8, true
	case "(encoding/binary.littleEndian).PutUint32", "(encoding/binary.bigEndian).PutUint32":
		return 1, 4, true
	}
	return 0, 0, false
}

// preFacts: alive preconditions of a's own function, instantiated on its params.
func (B *Bound) preFacts(a *fnA) []Ineq {
	ct := B.contracts[origin(a.fn)]
	if ct == nil {
		return nil
	}
	var out []Ineq
	for _, p := range ct.pre {
		if !p.alive {
			continue
		}
		q, ok := instSym(p.sym, a.ownSlot(nil))
		if ok {
			out = append(out, q)
		}
	}
	return out
}

func (a *fnA) ownSlot(results []ssa.Value) func(k slotKind, idx int) (Lin, bool) {
	return func(k slotKind, idx int) (Lin, bool) {
		switch k {
		case slotParam:
			if idx < len(a.fn.Params) {
				return a.lin(a.fn.Params[idx]), true
			}
		case slotLenParam:
			if idx < len(a.fn.Params) {
				return a.lenOf(a.fn.Params[idx]), true
			}
		case slotResult:
			if idx < len(results) && isIntLike(results[idx].Type()) {
				return a.lin(results[idx]), true
			}
		}
		return Lin{}, false
	}
}

// ---------------------------------------------------------------------------
// return / call-site checks (after the function's phi invariants stabilised)

type retStatus int

const (
	retSuccess retStatus = iota
	retFailure
)

// retSite is one way of reaching a return: the block whose facts apply and
// the values returned. go/ssa spills named results to allocs when a function
// has defers; loads whose reaching store lies in a predecessor block are
// resolved per predecessor path (bounded depth).
type retSite struct {
	ret   *ssa.Return
	block *ssa.BasicBlock
	vals  []ssa.Value
}

func (a *fnA) retSites() []retSite {
	var out []retSite
	for _, b := range a.fn.Blocks {
		if len(b.Instrs) == 0 || b == a.fn.Recover {
			continue
		}
		r, ok := b.Instrs[len(b.Instrs)-1].(*ssa.Return)
		if !ok {
			continue
		}
		vals := make([]ssa.Value, len(r.Results))
		pending := map[*ssa.Alloc][]int{}
		for i, v := range r.Results {
			for {
				u, ok := v.(*ssa.UnOp)
				if !ok || u.Op != token.MUL {
					break
				}
				f, ok := a.fwd[u]
				if !ok {
					break
				}
				v = f
			}
			vals[i] = v
			if u, ok := v.(*ssa.UnOp); ok && u.Op == token.MUL {
				if al, ok := u.X.(*ssa.Alloc); ok && a.localOnly(al) && u.Block() == b {
					pending[al] = append(pending[al], i)
				}
			}
		}
		if len(pending) == 0 {
			// return φ(n1, n2), φ(err1, err2): the operands of two φ-nodes of one
			// block are correlated per incoming edge, which a join of facts
			// loses; judge the return once per edge instead
			var phiBlk *ssa.BasicBlock
			nphi := 0
			for _, v := range vals {
				if ph, ok := v.(*ssa.Phi); ok && ph.Block() == b {
					phiBlk = b
					nphi++
				}
			}
			if phiBlk != nil && nphi >= 2 {
				for i, pr := range b.Preds {
					nv := append([]ssa.Value(nil), vals...)
					for k, v := range nv {
						if ph, ok := v.(*ssa.Phi); ok && ph.Block() == b {
							nv[k] = ph.Edges[i]
						}
					}
					out = append(out, retSite{r, pr, nv})
				}
				continue
			}
			out = append(out, retSite{r, b, vals})
			continue
		}
		var walk func(blk *ssa.BasicBlock, vals []ssa.Value, pending map[*ssa.Alloc][]int, depth int)
		walk = func(blk *ssa.BasicBlock, vals []ssa.Value, pending map[*ssa.Alloc][]int, depth int) {
			if depth > 6 || len(blk.Preds) == 0 {
				out = append(out, retSite{r, blk, vals})
				return
			}
			for _, p := range blk.Preds {
				nv := append([]ssa.Value(nil), vals...)
				np := map[*ssa.Alloc][]int{}
				for al, idxs := range pending {
					np[al] = idxs
				}
				for i := len(p.Instrs) - 1; i >= 0; i-- {
					if st, ok := p.Instrs[i].(*ssa.Store); ok {
						if al, ok := st.Addr.(*ssa.Alloc); ok {
							if idxs, ok := np[al]; ok {
								for _, ix := range idxs {
									nv[ix] = st.Val
								}
								delete(np, al)
							}
						}
					}
				}
				if len(np) == 0 {
					out = append(out, retSite{r, p, nv})
				} else {
					walk(p, nv, np, depth+1)
				}
			}
		}
		walk(b, vals, pending, 0)
	}
	return out
}

func (a *fnA) siteStatus(s retSite, hasErr bool) (retStatus, []Ineq) {
	if !hasErr {
		return retSuccess, nil
	}
	e := s.vals[len(s.vals)-1]
	if isNilConst(e) {
		return retSuccess, nil
	}
	if a.errNonNil[s.block][e] {
		return retFailure, nil
	}
	switch x := e.(type) {
	case *ssa.Call:
		if f := x.Common().StaticCallee(); f != nil {
			switch f.String() {
			case "fmt.Errorf", "errors.New":
				return retFailure, nil
			}
		}
	case *ssa.MakeInterface:
		return retFailure, nil
	}
	return retSuccess, a.guardedIneqs(e)
}

// checkPosts verifies the function's own post candidates at every success
// return; undeclared failing ones are dropped (returns true if any dropped).
// Declared ones are reported through report (proved or not).
func (a *fnA) checkPosts(report func(c *ccand, site retSite, proved bool)) bool {
	ct := a.B.contracts[origin(a.fn)]
	if ct == nil {
		return false
	}
	dropped := false
	for _, site := range a.retSites() {
		st, extra := a.siteStatus(site, ct.hasErr)
		if st == retFailure {
			continue
		}
		for _, c := range ct.post {
			if !c.alive && !c.declared {
				continue
			}
			q, ok := instSym(c.sym, a.ownSlot(site.vals))
			proved := a.prove(site.block, extra, q, ok)
			if c.declared {
				if report != nil {
					report(c, site, proved)
				}
				continue
			}
			if !proved && c.alive {
				c.alive = false
				dropped = true
				if boundDebug != "" && strings.Contains(a.name, boundDebug) {
					fmt.Printf("  [%s] drop post %s\n", a.name, c.sym.desc)
				}
			}
		}
	}
	return dropped
}

// checkCallPres verifies callee preconditions at this function's call sites.
func (a *fnA) checkCallPres() bool {
	dropped := false
	for _, b := range a.fn.Blocks {
		for _, in := range b.Instrs {
			call, ok := in.(*ssa.Call)
			if !ok {
				continue
			}
			callee := call.Common().StaticCallee()
			if callee == nil {
				continue
			}
			ct := a.B.contracts[origin(callee)]
			if ct == nil {
				continue
			}
			args := call.Common().Args
			slot := func(k slotKind, idx int) (Lin, bool) {
				switch k {
				case slotParam:
					if idx < len(args) && isIntLike(args[idx].Type()) {
						return a.lin(args[idx]), true
					}
				case slotLenParam:
					if idx < len(args) && isSliceLike(args[idx].Type()) {
						return a.lenOf(args[idx]), true
					}
				}
				return Lin{}, false
			}
			for _, p := range ct.pre {
				if !p.alive {
					continue
				}
				q, ok := instSym(p.sym, slot)
				if !a.prove(b, nil, q, ok) {
					p.alive = false
					dropped = true
					if boundDebug != "" {
						fmt.Printf("  [%s] drop pre %s of %s\n", a.name, p.sym.desc, ssaFuncName(callee))
					}
				}
			}
		}
	}
	return dropped
}

// ---------------------------------------------------------------------------
// global driver

func newBound(p *Prog, funcs []*ssa.Function, taintParam func(*ssa.Function, *ssa.Parameter) bool, allowPre func(*ssa.Function) bool, taintCall func(*ssa.Call) bool) *Bound {
	B := &Bound{P: p, funcs: funcs, inClosure: map[*ssa.Function]bool{}, fa: map[*ssa.Function]*fnA{},
		contracts: map[*ssa.Function]*contract{}, taintParam: taintParam, callSites: map[*ssa.Function]int{}, allowPre: allowPre, taintCall: taintCall}
	for _, f := range funcs {
		B.inClosure[f] = true
	}
	for _, f := range funcs {
		if len(f.Blocks) == 0 {
			continue
		}
		B.contracts[f] = B.buildContract(f)
	}
	for _, f := range funcs {
		if len(f.Blocks) == 0 {
			continue
		}
		a := B.newFnA(f)
		a.guarded = map[string][]Ineq{}
		a.seedPhiCandidates()
		B.fa[f] = a
	}
	return B
}

func (B *Bound) run() {
	// functions with preconditions must have all their callers inside the closure
	for round := 0; round < 30; round++ {
		changed := false
		B.callSites = map[*ssa.Function]int{}
		for _, f := range B.funcs {
			a := B.fa[f]
			if a == nil {
				continue
			}
			a.guarded = map[string][]Ineq{}
			a.houdini()
			if a.checkPosts(nil) {
				changed = true
			}
			if a.checkCallPres() {
				changed = true
			}
		}
		// a precondition is only admissible if the function has call sites in the closure
		for f, ct := range B.contracts {
			if B.callSites[f] == 0 {
				for _, p := range ct.pre {
					if p.alive {
						p.alive = false
						changed = true
					}
				}
			}
		}
		if !changed {
			return
		}
	}
}

func (B *Bound) contractSummary(f *ssa.Function) []string {
	ct := B.contracts[f]
	if ct == nil {
		return nil
	}
	var out []string
	for _, c := range ct.post {
		if c.alive {
			g := ""
			if c.guarded {
				g = "err==nil => "
			}
			out = append(out, "post: "+g+c.sym.desc)
		}
	}
	for _, c := range ct.pre {
		if c.alive {
			out = append(out, "pre: "+c.sym.desc)
		}
	}
	sort.Strings(out)
	return out
}

// ---------------------------------------------------------------------------
// obligations

type boundOpts struct {
	prop        string
	onlyTainted bool
	progress    bool
	alloc       bool
	contracts   bool
	filter      func(fn *ssa.Function) bool
}

func (B *Bound) obligations(c *Ctx, o boundOpts) {
	for _, f := range B.funcs {
		a := B.fa[f]
		if a == nil || (o.filter != nil && !o.filter(f)) {
			continue
		}
		c.Funcs[a.name] = true
		a.pass() // final facts with the stabilised invariants
		a.checkSlices(c, o)
		if o.alloc {
			a.checkAllocs(c)
		}
		if o.progress {
			a.checkProgress(c)
		}
		if o.contracts {
			a.checkPosts(func(cc *ccand, site retSite, proved bool) {
				msg := "entailed by the facts at the return"
				var facts map[string]any
				if !proved {
					msg = "cannot prove the decoder contract (err == nil ⇒ 0 <= n <= len(data)) at this return; callers advance their offset by n"
					facts = map[string]any{"invariants": a.aliveInvariants()}
				}
				c.Oblige("B.contract", proved, site.ret.Pos(), a.name, fmt.Sprintf("return %s: %s", a.describe(site.vals[0]), cc.sym.desc), msg, facts)
			})
		}
	}
}

func (a *fnA) isTainted(vs ...ssa.Value) bool {
	for _, v := range vs {
		if v != nil && a.taint[v] {
			return true
		}
	}
	return false
}

func (a *fnA) checkSlices(c *Ctx, o boundOpts) {
	for _, b := range a.fn.Blocks {
		for _, in := range b.Instrs {
			switch x := in.(type) {
			case *ssa.Slice:
				if o.onlyTainted && !a.isTainted(x.X, x.Low, x.High) {
					c.rule("B.untainted").Count++
					c.rule("B.untainted").Discharged++
					continue
				}
				lo := linConst(0)
				if x.Low != nil {
					lo = a.lin(x.Low)
				}
				ln := a.lenOfOperand(x.X)
				hi := ln
				if x.High != nil {
					hi = a.lin(x.High)
				}
				desc := a.describe(x)
				goals := []struct {
					name string
					q    Ineq
					ok   bool
				}{}
				q, ok := geq(lo, linConst(0))
				goals = append(goals, struct {
					name string
					q    Ineq
					ok   bool
				}{"low >= 0", q, ok})
				q, ok = leq(lo, hi)
				goals = append(goals, struct {
					name string
					q    Ineq
					ok   bool
				}{"low <= high", q, ok})
				q, ok = leq(hi, ln)
				goals = append(goals, struct {
					name string
					q    Ineq
					ok   bool
				}{"high <= len", q, ok})
				_, sliceOperand := x.X.Type().Underlying().(*types.Slice)
				for _, g := range goals {
					if g.q.E.isConst() && g.ok && g.q.E.K.Sign() >= 0 {
						continue // trivially true (e.g. b[:])
					}
					proved := a.prove(b, nil, g.q, g.ok)
					if !proved && g.name == "high <= len" && sliceOperand && x.Max == nil {
						// a slice may be re-sliced up to its capacity
						cp := a.capOf(x.X)
						if q2, ok2 := leq(hi, cp); ok2 {
							var extra []Ineq
							if q3, ok3 := leq(ln, cp); ok3 {
								extra = append(extra, q3)
							}
							proved = a.prove(b, extra, q2, ok2)
						}
					}
					c.Oblige("B.slice", proved, x.Pos(), a.name, desc+" : "+g.name,
						a.explain(proved, g.name, g.q), a.factsDump(proved))
				}
			case *ssa.IndexAddr:
				a.checkIndex(c, o, b, x, x.X, x.Index, x.Pos())
			case *ssa.Index:
				a.checkIndex(c, o, b, x, x.X, x.Index, x.Pos())
			case *ssa.Lookup:
				if isSliceLike(x.X.Type()) {
					a.checkIndex(c, o, b, x, x.X, x.Index, x.Pos())
				}
			case *ssa.Call:
				if f := x.Common().StaticCallee(); f != nil {
					if ai, min, ok := stdPre(f); ok && ai < len(x.Common().Args) {
						arg := x.Common().Args[ai]
						if o.onlyTainted && !a.isTainted(arg) {
							continue
						}
						q, ok := geq(a.lenOf(arg), linConst(min))
						proved := a.prove(b, nil, q, ok)
						c.Oblige("B.pre", proved, x.Pos(), a.name, fmt.Sprintf("%s(%s) : len >= %d", f.Name(), a.describe(arg), min),
							a.explain(proved, fmt.Sprintf("len >= %d", min), q), a.factsDump(proved))
					}
				}
			}
		}
	}
}

func (a *fnA) checkIndex(c *Ctx, o boundOpts, b *ssa.BasicBlock, in ssa.Value, x, idx ssa.Value, pos token.Pos) {
	if o.onlyTainted && !a.isTainted(x, idx) {
		c.rule("B.untainted").Count++
		c.rule("B.untainted").Discharged++
		return
	}
	li := a.lin(idx)
	ln := a.lenOfOperand(x)
	desc := fmt.Sprintf("%s[%s]", a.describe(x), a.describe(idx))
	q1, ok1 := geq(li, linConst(0))
	q2, ok2 := lt(li, ln)
	if q1.E.isConst() && q2.E.isConst() && q1.E.K.Sign() >= 0 && q2.E.K.Sign() >= 0 {
		return
	}
	p1 := a.prove(b, nil, q1, ok1)
	c.Oblige("B.index", p1, pos, a.name, desc+" : index >= 0", a.explain(p1, "index >= 0", q1), a.factsDump(p1))
	p2 := a.prove(b, nil, q2, ok2)
	c.Oblige("B.index", p2, pos, a.name, desc+" : index < len", a.explain(p2, "index < len", q2), a.factsDump(p2))
}

func (a *fnA) explain(proved bool, goal string, q Ineq) string {
	if proved {
		return "entailed by dominating guards, callee contracts and loop invariants: " + a.linString(q.E) + " >= 0"
	}
	return fmt.Sprintf("cannot prove %s, i.e. %s >= 0, from the guards, callee contracts and loop invariants that dominate this point: an input can make this slice/index/allocation go out of range", goal, a.linString(q.E))
}

func (a *fnA) factsDump(proved bool) map[string]any {
	if proved {
		return nil
	}
	return map[string]any{"loop_invariants": a.aliveInvariants(), "callee_contracts_assumed": "see evidence"}
}

// allocation sizes controlled by the input
func (a *fnA) checkAllocs(c *Ctx) {
	var dataParams []ssa.Value
	for _, p := range a.fn.Params {
		if a.taint[p] && isSliceLike(p.Type()) {
			dataParams = append(dataParams, p)
		}
	}
	check := func(b *ssa.BasicBlock, pos token.Pos, what string, size ssa.Value) {
		if size == nil || !a.taint[size] {
			c.rule("B.alloc-untainted").Count++
			c.rule("B.alloc-untainted").Discharged++
			return
		}
		ls := a.lin(size)
		q0, ok0 := geq(ls, linConst(0))
		p0 := a.prove(b, nil, q0, ok0)
		bounded := false
		for _, d := range dataParams {
			q, ok := leq(ls, a.lenOf(d))
			if a.prove(b, nil, q, ok) {
				bounded = true
			}
		}
		desc := fmt.Sprintf("%s(%s)", what, a.describe(size))
		c.Oblige("B.alloc", p0 && bounded, pos, a.name, desc,
			fmt.Sprintf("allocation size derived from the input must be proved 0 <= size <= len(data) (non-negative: %v, bounded by input length: %v); otherwise a few bytes can demand gigabytes", p0, bounded),
			a.factsDump(p0 && bounded))
	}
	for _, b := range a.fn.Blocks {
		for _, in := range b.Instrs {
			switch x := in.(type) {
			case *ssa.MakeSlice:
				check(b, x.Pos(), "make "+typeStr(x.Type()), x.Cap)
			case *ssa.MakeMap:
				if x.Reserve != nil {
					check(b, x.Pos(), "make "+typeStr(x.Type()), x.Reserve)
				}
			case *ssa.Call:
				f := x.Common().StaticCallee()
				if f == nil {
					continue
				}
				switch f.String() {
				case "github.com/philpearl/plenc/plenccodec.unsafe_NewArray":
					check(b, x.Pos(), "unsafe_NewArray", x.Common().Args[1])
				case "reflect.MakeMapWithSize":
					check(b, x.Pos(), "reflect.MakeMapWithSize", x.Common().Args[1])
				case "reflect.MakeSlice":
					check(b, x.Pos(), "reflect.MakeSlice", x.Common().Args[2])
				}
			}
		}
	}
}

// progress: every loop is bounded linearly by the input (or by program state
// that is not input-controlled).
func (a *fnA) checkProgress(c *Ctx) {
	for _, lp := range a.loops {
		h := lp.header
		ok, why := a.loopBounded(lp)
		desc := "loop"
		var phis []string
		for _, in := range h.Instrs {
			if phi, isPhi := in.(*ssa.Phi); isPhi {
				phis = append(phis, a.describe(phi))
			}
		}
		pos := token.NoPos
		for _, in := range h.Instrs {
			if in.Pos().IsValid() {
				pos = in.Pos()
				break
			}
		}
		if !pos.IsValid() {
			for bb := range lp.body {
				for _, in := range bb.Instrs {
					if in.Pos().IsValid() && (!pos.IsValid() || in.Pos() < pos) {
						pos = in.Pos()
					}
				}
			}
		}
		desc = "loop over " + strings.Join(phis, ",")
		c.Oblige("B.progress", ok, pos, a.name, desc, why, map[string]any{"invariants": a.aliveInvariants()})
	}
}

func (a *fnA) loopBounded(lp *loopInfo) (bool, string) {
	h := lp.header
	// (b) range over map / string iterator
	for bb := range lp.body {
		for _, in := range bb.Instrs {
			if _, ok := in.(*ssa.Next); ok {
				return true, "range loop over a map/string iterator terminates by Go semantics"
			}
			if call, ok := in.(*ssa.Call); ok {
				if f := call.Common().StaticCallee(); f != nil && f.Name() == "mapiternext" {
					return true, "loop driven by the runtime map iterator (mapiternext, trusted A3) terminates with the map"
				}
			}
		}
	}
	var slices []ssa.Value
	for _, p := range a.fn.Params {
		if isSliceLike(p.Type()) {
			slices = append(slices, p)
		}
	}
	for _, in := range h.Instrs {
		phi, ok := in.(*ssa.Phi)
		if !ok {
			break
		}
		if !isIntLike(phi.Type()) {
			continue
		}
		pt := linTerm(a.valTerm(phi))
		// strictly increasing on every back edge?
		inc, dec := true, true
		for pi, pred := range h.Preds {
			if !lp.body[pred] {
				continue
			}
			nv := a.lin(phi.Edges[pi])
			q, ok := geq(nv, pt.addK(1))
			if !a.prove(pred, a.edgeExtra(pred, h), q, ok) {
				inc = false
			}
			q, ok = leq(nv, pt.addK(-1))
			if !a.prove(pred, a.edgeExtra(pred, h), q, ok) {
				dec = false
			}
		}
		if inc {
			// (a) bounded above by len(S) for an input slice, as invariant at the header
			for _, s := range slices {
				q, ok := leq(pt, a.lenOf(s))
				if a.prove(h, nil, q, ok) {
					return true, fmt.Sprintf("%s strictly increases on every back edge and %s <= len(%s) is a loop invariant: at most len+1 iterations", a.describe(phi), a.describe(phi), a.describe(s))
				}
			}
			// (a'') exit test against a loop-invariant bound that is itself proved <= len(S), starting from >= 0
			if t, ok := a.exitBoundByInput(lp, phi, slices); ok {
				return true, fmt.Sprintf("%s strictly increases from a non-negative start and the loop exits when it reaches %s, which is proved <= the input length", a.describe(phi), t)
			}
			// (c) exit test against a bound that is not input-controlled
			if t, ok := a.exitBound(lp, phi); ok {
				return true, fmt.Sprintf("%s strictly increases and the loop exits when it reaches %s, which is not derived from the input bytes", a.describe(phi), t)
			}
		}
		if dec {
			// (a') decreasing counter, non-negative, entry value bounded by input length
			q0, ok0 := geq(pt, linConst(0))
			if a.prove(h, nil, q0, ok0) {
				for pi, pred := range h.Preds {
					if lp.body[pred] {
						continue
					}
					init := a.lin(phi.Edges[pi])
					for _, s := range slices {
						q, ok := leq(init, a.lenOf(s))
						if a.prove(pred, a.edgeExtra(pred, h), q, ok) {
							return true, fmt.Sprintf("%s strictly decreases, stays >= 0 and starts <= len(%s)", a.describe(phi), a.describe(s))
						}
					}
				}
			}
			// (c') counting down from a start that is not derived from the input to a bound that is not either
			if t, ok := a.exitBoundDown(lp, phi); ok {
				return true, fmt.Sprintf("%s strictly decreases from a start that is not derived from the input bytes and the loop exits when it reaches %s", a.describe(phi), t)
			}
		}
	}
	return false, "no loop variable is proved to make progress bounded by the input length: a short input may drive this loop for up to 2^63 iterations (or forever)"
}

// exitBoundByInput: the loop is left when phi reaches T, where T is defined
// outside the loop and proved <= len(S) for an input slice S, and phi starts >= 0.
func (a *fnA) exitBoundByInput(lp *loopInfo, phi *ssa.Phi, slices []ssa.Value) (string, bool) {
	h := lp.header
	large, ok := a.exitOperand(lp, phi, true)
	if !ok {
		return "", false
	}
	// T must be loop-invariant: every term of its linear form is defined outside the loop
	for t := range a.lin(large).C {
		if v := a.terms[t].v; v != nil {
			if in, isInstr := v.(ssa.Instruction); isInstr && lp.body[in.Block()] {
				return "", false
			}
		}
	}
	bounded := false
	for _, s := range slices {
		q, ok := leq(a.lin(large), a.lenOf(s))
		if a.prove(h, nil, q, ok) {
			bounded = true
		}
	}
	if !bounded {
		return "", false
	}
	for pi, pred := range h.Preds {
		if lp.body[pred] {
			continue
		}
		q, ok := geq(a.lin(phi.Edges[pi]), linConst(0))
		if !a.prove(pred, a.edgeExtra(pred, h), q, ok) {
			return "", false
		}
	}
	return a.describe(large), true
}

// exitOperand finds the stay-in-loop test phi(+k) < T and returns T.
func (a *fnA) exitOperand(lp *loopInfo, phi *ssa.Phi, allowTainted bool) (ssa.Value, bool) {
	pid := a.valTerm(phi)
	for bb := range lp.body {
		iff, ok := bb.Instrs[len(bb.Instrs)-1].(*ssa.If)
		if !ok {
			continue
		}
		exitIdx := -1
		for i, s := range bb.Succs {
			if !lp.body[s] {
				exitIdx = i
			}
		}
		if exitIdx != 1 {
			continue
		}
		cmp, ok := iff.Cond.(*ssa.BinOp)
		if !ok {
			continue
		}
		var small, large ssa.Value
		switch cmp.Op {
		case token.LSS, token.LEQ:
			small, large = cmp.X, cmp.Y
		case token.GTR, token.GEQ:
			small, large = cmp.Y, cmp.X
		default:
			continue
		}
		ls := a.lin(small)
		if ls.C[pid] != 1 || len(ls.C) != 1 {
			continue
		}
		if !allowTainted && a.taint[large] {
			continue
		}
		if _, mentions := a.lin(large).C[pid]; mentions {
			continue
		}
		return large, true
	}
	return nil, false
}

// exitBound: the loop is left when phi (+const) reaches T, T untainted.
func (a *fnA) exitBound(lp *loopInfo, phi *ssa.Phi) (string, bool) {
	pid := a.valTerm(phi)
	for bb := range lp.body {
		iff, ok := bb.Instrs[len(bb.Instrs)-1].(*ssa.If)
		if !ok {
			continue
		}
		exitIdx := -1
		for i, s := range bb.Succs {
			if !lp.body[s] {
				exitIdx = i
			}
		}
		if exitIdx < 0 {
			continue
		}
		cmp, ok := iff.Cond.(*ssa.BinOp)
		if !ok {
			continue
		}
		// stay-in-loop condition
		var small, large ssa.Value
		stayTrue := exitIdx == 1
		switch cmp.Op {
		case token.LSS, token.LEQ:
			small, large = cmp.X, cmp.Y
		case token.GTR, token.GEQ:
			small, large = cmp.Y, cmp.X
		default:
			continue
		}
		if !stayTrue {
			continue
		}
		ls := a.lin(small)
		if ls.C[pid] != 1 || len(ls.C) != 1 {
			continue
		}
		if a.taint[large] || a.fromTarget(large, 0) {
			continue
		}
		if _, mentions := a.lin(large).C[pid]; mentions {
			continue
		}
		return a.describe(large), true
	}
	return "", false
}

// fromTarget: the value is read from the memory the decoder writes into (a
// load through one of the function's unsafe.Pointer parameters). What an
// earlier part of the same input put there - the capacity of a slice that a
// previous occurrence of the field made large - is input-controlled too, so it
// bounds no loop.
func (a *fnA) fromTarget(v ssa.Value, depth int) bool {
	if depth > 6 {
		return false
	}
	switch x := v.(type) {
	case *ssa.Convert:
		return a.fromTarget(x.X, depth+1)
	case *ssa.ChangeType:
		return a.fromTarget(x.X, depth+1)
	case *ssa.BinOp:
		return a.fromTarget(x.X, depth+1) || a.fromTarget(x.Y, depth+1)
	case *ssa.UnOp:
		if x.Op != token.MUL {
			return false
		}
		if fw, ok := a.fwd[x]; ok && fw != ssa.Value(x) {
			return a.fromTarget(fw, depth+1)
		}
		addr := x.X
		for i := 0; i < 4; i++ {
			switch y := addr.(type) {
			case *ssa.FieldAddr:
				addr = y.X
				continue
			case *ssa.Convert:
				addr = y.X
				continue
			case *ssa.ChangeType:
				addr = y.X
				continue
			}
			break
		}
		if prm, ok := addr.(*ssa.Parameter); ok {
			if b, ok := prm.Type().Underlying().(*types.Basic); ok && b.Kind() == types.UnsafePointer {
				// unless this function has set that very field on the way here
				// (h.Len = count before the element loop): then the bound is
				// what it stored, not what it found
				if fa, ok := x.X.(*ssa.FieldAddr); ok {
					for _, bb := range a.fn.Blocks {
						for _, in := range bb.Instrs {
							st, ok := in.(*ssa.Store)
							if !ok {
								continue
							}
							fa2, ok := st.Addr.(*ssa.FieldAddr)
							if !ok || fa2.Field != fa.Field || !types.Identical(fa2.X.Type(), fa.X.Type()) {
								continue
							}
							if bb != x.Block() && bb.Dominates(x.Block()) {
								return false
							}
						}
					}
				}
				return true
			}
		}
	}
	return false
}

// exitBoundDown: phi strictly decreases; the loop stays while phi(+k) > T or
// >= T with T loop-invariant and untainted, and phi's entry values are untainted.
func (a *fnA) exitBoundDown(lp *loopInfo, phi *ssa.Phi) (string, bool) {
	h := lp.header
	pid := a.valTerm(phi)
	for pi, pred := range h.Preds {
		if !lp.body[pred] && a.taint[phi.Edges[pi]] {
			return "", false
		}
	}
	for bb := range lp.body {
		iff, ok := bb.Instrs[len(bb.Instrs)-1].(*ssa.If)
		if !ok || len(bb.Succs) != 2 || lp.body[bb.Succs[1]] || !lp.body[bb.Succs[0]] {
			continue
		}
		cmp, ok := iff.Cond.(*ssa.BinOp)
		if !ok {
			continue
		}
		var small, large ssa.Value
		switch cmp.Op {
		case token.LSS, token.LEQ:
			small, large = cmp.X, cmp.Y
		case token.GTR, token.GEQ:
			small, large = cmp.Y, cmp.X
		default:
			continue
		}
		ll := a.lin(large)
		if ll.C[pid] != 1 || len(ll.C) != 1 || a.taint[small] {
			continue
		}
		invariant := true
		for t := range a.lin(small).C {
			if t == pid {
				invariant = false
			} else if v := a.terms[t].v; v != nil {
				if in, isInstr := v.(ssa.Instruction); isInstr && lp.body[in.Block()] {
					invariant = false
				}
			}
		}
		if invariant {
			return a.describe(small), true
		}
	}
	return "", false
}
