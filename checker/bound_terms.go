package main

import (
	"fmt"
	"go/constant"
	"go/token"
	"go/types"
	"math/big"

	"golang.org/x/tools/go/ssa"
)

// ---------------------------------------------------------------------------
// BOUND: per-function state

type fact struct {
	q    Ineq
	from *ssa.BasicBlock // valid in every block dominated by from (nil = everywhere)
	why  string
}

type diseq struct {
	e    Lin // e != 0
	from *ssa.BasicBlock
}

type termInfo struct {
	key   string
	v     ssa.Value // SSA value (nil for pure len terms of canonical loads)
	isLen bool
	name  string
}

type fnA struct {
	condDepth int
	B         *Bound
	fn        *ssa.Function
	name      string

	terms   []termInfo
	termIdx map[string]int

	exact        map[ssa.Instruction]bool // arithmetic/conversion instrs treated as exact
	canon        map[ssa.Value]string     // canonical key for loads of immutable receiver/param fields
	noCanonRoots map[string]bool

	baseFacts []fact // range facts, intrinsic facts, branch facts, contract facts (recomputed per round)
	diseqs    []diseq
	errNil    map[*ssa.BasicBlock]map[ssa.Value]bool // values known nil at block (from edges)
	errNonNil map[*ssa.BasicBlock]map[ssa.Value]bool

	phiCands map[*ssa.Phi][]*candidate
	taint    map[ssa.Value]bool
	loops    []*loopInfo

	fwd       map[*ssa.UnOp]ssa.Value // store-to-load forwarding for local allocs
	edgeFacts map[edgeKey][]Ineq
	edgeNil   map[edgeKey][]ssa.Value
	guarded   map[string][]Ineq // facts that hold when the error value with this key is nil
}

// candidate is a Houdini candidate fact over this function's terms.
type candidate struct {
	desc  string
	q     Ineq
	alive bool
	build func() (Ineq, bool) // recomputes q under the current exactness assumptions
}

var (
	big2p62   = new(big.Int).Lsh(big.NewInt(1), 62)
	bigMaxI64 = big.NewInt(1<<63 - 1)
	bigMinI64 = new(big.Int).Neg(new(big.Int).Lsh(big.NewInt(1), 63))
	bigMaxU64 = new(big.Int).Sub(new(big.Int).Lsh(big.NewInt(1), 64), big.NewInt(1))
)

func intRange(t types.Type) (min, max *big.Int, ok bool) {
	b, isB := t.Underlying().(*types.Basic)
	if !isB {
		if tp, isTP := t.(*types.TypeParam); isTP {
			// union of integer types: widest range
			_ = tp
			return bigMinI64, bigMaxU64, true
		}
		return nil, nil, false
	}
	if b.Info()&types.IsInteger == 0 {
		return nil, nil, false
	}
	bits := uint(sizes.Sizeof(b) * 8)
	if b.Info()&types.IsUnsigned != 0 {
		return big.NewInt(0), new(big.Int).Sub(new(big.Int).Lsh(big.NewInt(1), bits), big.NewInt(1)), true
	}
	h := new(big.Int).Lsh(big.NewInt(1), bits-1)
	return new(big.Int).Neg(h), new(big.Int).Sub(h, big.NewInt(1)), true
}

func isIntLike(t types.Type) bool {
	_, _, ok := intRange(t)
	return ok
}

func isUnsigned(t types.Type) bool {
	b, ok := t.Underlying().(*types.Basic)
	return ok && b.Info()&types.IsUnsigned != 0
}

func isSliceLike(t types.Type) bool {
	switch u := t.Underlying().(type) {
	case *types.Slice:
		return true
	case *types.Basic:
		return u.Info()&types.IsString != 0
	}
	return false
}

func (a *fnA) term(key string, v ssa.Value, isLen bool, name string) int {
	if id, ok := a.termIdx[key]; ok {
		return id
	}
	id := len(a.terms)
	a.terms = append(a.terms, termInfo{key: key, v: v, isLen: isLen, name: name})
	a.termIdx[key] = id
	return id
}

func valName(v ssa.Value) string {
	if v == nil {
		return "<nil>"
	}
	switch x := v.(type) {
	case *ssa.Parameter:
		return x.Name()
	case *ssa.Const:
		return x.String()
	}
	if n := v.Name(); n != "" {
		return n
	}
	return v.String()
}

func (a *fnA) valKey(v ssa.Value) string {
	if k, ok := a.canon[v]; ok {
		return k
	}
	if e, ok := v.(*ssa.Extract); ok {
		return fmt.Sprintf("x:%p#%d", e.Tuple, e.Index)
	}
	return fmt.Sprintf("v:%p", v)
}

func (a *fnA) valTerm(v ssa.Value) int {
	return a.term(a.valKey(v), v, false, a.describe(v))
}

func (a *fnA) lenTerm(v ssa.Value) int {
	return a.term("len:"+a.valKey(v), v, true, "len("+a.describe(v)+")")
}

// describe renders a value for reports (source-ish, no positions).
func (a *fnA) describe(v ssa.Value) string {
	if k, ok := a.canon[v]; ok {
		return k
	}
	switch x := v.(type) {
	case *ssa.Parameter:
		return x.Name()
	case *ssa.Const:
		return x.Value.String()
	case *ssa.Extract:
		if c, ok := x.Tuple.(*ssa.Call); ok {
			return fmt.Sprintf("%s#%d", callName(c.Common()), x.Index)
		}
	case *ssa.Call:
		return callName(x.Common()) + "()"
	case *ssa.Phi:
		if x.Comment != "" {
			return "φ" + x.Comment
		}
	case *ssa.BinOp:
		return "(" + a.describe(x.X) + " " + x.Op.String() + " " + a.describe(x.Y) + ")"
	case *ssa.Convert:
		return typeStr(x.Type()) + "(" + a.describe(x.X) + ")"
	case *ssa.UnOp:
		if x.Op == token.MUL {
			return "*" + a.describe(x.X)
		}
	case *ssa.FieldAddr:
		return a.describe(x.X) + "." + fieldName(x)
	case *ssa.Slice:
		s := a.describe(x.X) + "["
		if x.Low != nil {
			s += a.describe(x.Low)
		}
		s += ":"
		if x.High != nil {
			s += a.describe(x.High)
		}
		return s + "]"
	}
	return valName(v)
}

func fieldName(fa *ssa.FieldAddr) string {
	t := deref(fa.X.Type())
	if st, ok := t.Underlying().(*types.Struct); ok && fa.Field < st.NumFields() {
		return st.Field(fa.Field).Name()
	}
	return fmt.Sprintf("f%d", fa.Field)
}

func callName(c *ssa.CallCommon) string {
	if c.IsInvoke() {
		return typeName(c.Value.Type()) + "." + c.Method.Name()
	}
	if f := c.StaticCallee(); f != nil {
		return ssaFuncName(f)
	}
	if b, ok := c.Value.(*ssa.Builtin); ok {
		return b.Name()
	}
	return "dynamic"
}

func constBig(c *ssa.Const) (*big.Int, bool) {
	if c.Value == nil {
		return nil, false
	}
	v := constant.ToInt(c.Value)
	if v.Kind() != constant.Int {
		return nil, false
	}
	if i, ok := constant.Int64Val(v); ok {
		return big.NewInt(i), true
	}
	if u, ok := constant.Uint64Val(v); ok {
		return new(big.Int).SetUint64(u), true
	}
	return nil, false
}

// lin expresses an integer-valued SSA value as a linear expression over base
// terms, following the definitions that are currently considered exact.
func (a *fnA) lin(v ssa.Value) Lin {
	switch x := v.(type) {
	case *ssa.Const:
		if isIntLike(x.Type()) {
			if b, ok := constBig(x); ok {
				return linBig(b)
			}
		}
	case *ssa.BinOp:
		if a.exact[x] {
			switch x.Op {
			case token.ADD:
				if r, ok := a.lin(x.X).add(a.lin(x.Y)); ok {
					return r
				}
			case token.SUB:
				if r, ok := a.lin(x.X).sub(a.lin(x.Y)); ok {
					return r
				}
			case token.MUL:
				if r, ok := a.mulLin(x.X, x.Y); ok {
					return r
				}
			}
		}
	case *ssa.Convert:
		if a.exact[x] {
			return a.lin(x.X)
		}
	case *ssa.ChangeType:
		if isIntLike(x.X.Type()) {
			return a.lin(x.X)
		}
	case *ssa.Call:
		if b, ok := x.Call.Value.(*ssa.Builtin); ok && b.Name() == "len" && len(x.Call.Args) == 1 {
			return a.lenOf(x.Call.Args[0])
		}
		if b, ok := x.Call.Value.(*ssa.Builtin); ok && b.Name() == "cap" && len(x.Call.Args) == 1 {
			return a.capOf(x.Call.Args[0])
		}
	case *ssa.UnOp:
		if x.Op == token.MUL {
			if f, ok := a.fwd[x]; ok && f != v {
				return a.lin(f)
			}
		}
	}
	return linTerm(a.valTerm(v))
}

func (a *fnA) mulLin(x, y ssa.Value) (Lin, bool) {
	lx, ly := a.lin(x), a.lin(y)
	if lx.isConst() && lx.K.IsInt64() {
		return ly.scale(lx.K.Int64())
	}
	if ly.isConst() && ly.K.IsInt64() {
		return lx.scale(ly.K.Int64())
	}
	return Lin{}, false
}

// lenOf expresses len(s).
func (a *fnA) lenOf(s ssa.Value) Lin {
	switch x := s.(type) {
	case *ssa.Slice:
		var hi Lin
		if x.High != nil {
			hi = a.lin(x.High)
		} else {
			hi = a.lenOfOperand(x.X)
		}
		lo := linConst(0)
		if x.Low != nil {
			lo = a.lin(x.Low)
		}
		if r, ok := hi.sub(lo); ok {
			return r
		}
	case *ssa.Const:
		if x.Value != nil && x.Value.Kind() == constant.String {
			return linConst(int64(len(constant.StringVal(x.Value))))
		}
		if x.Value == nil { // nil slice
			return linConst(0)
		}
	case *ssa.Convert:
		if isSliceLike(x.X.Type()) && isSliceLike(x.Type()) {
			return a.lenOf(x.X)
		}
	case *ssa.ChangeType:
		return a.lenOf(x.X)
	case *ssa.MakeSlice:
		return a.lin(x.Len)
	case *ssa.UnOp:
		if x.Op == token.MUL {
			if f, ok := a.fwd[x]; ok {
				return a.lenOf(f)
			}
		}
	}
	return linTerm(a.lenTerm(s))
}

// capOf expresses cap(s) for a slice value (0 <= len(s) <= cap(s) is added by
// the users of the term).
func (a *fnA) capOf(s ssa.Value) Lin {
	switch x := s.(type) {
	case *ssa.MakeSlice:
		if x.Cap != nil {
			return a.lin(x.Cap)
		}
		return a.lin(x.Len)
	case *ssa.ChangeType:
		return a.capOf(x.X)
	case *ssa.UnOp:
		if x.Op == token.MUL {
			if f, ok := a.fwd[x]; ok {
				return a.capOf(f)
			}
		}
	}
	return linTerm(a.term("cap:"+a.valKey(s), s, true, "cap("+a.describe(s)+")"))
}

// lenOfOperand: length of the operand of a Slice/Index instruction (slice,
// string, or pointer to array).
func (a *fnA) lenOfOperand(x ssa.Value) Lin {
	if pt, ok := x.Type().Underlying().(*types.Pointer); ok {
		if arr, ok := pt.Elem().Underlying().(*types.Array); ok {
			return linConst(arr.Len())
		}
	}
	if arr, ok := x.Type().Underlying().(*types.Array); ok {
		return linConst(arr.Len())
	}
	return a.lenOf(x)
}

func (a *fnA) linString(l Lin) string {
	s := ""
	ids := make([]int, 0, len(l.C))
	for t := range l.C {
		ids = append(ids, t)
	}
	sortInts(ids)
	for _, t := range ids {
		c := l.C[t]
		switch {
		case c == 1:
			s += " + " + a.terms[t].name
		case c == -1:
			s += " - " + a.terms[t].name
		case c > 0:
			s += fmt.Sprintf(" + %d*%s", c, a.terms[t].name)
		default:
			s += fmt.Sprintf(" - %d*%s", -c, a.terms[t].name)
		}
	}
	if l.K.Sign() != 0 || s == "" {
		if l.K.Sign() >= 0 {
			s += " + " + l.K.String()
		} else {
			s += " - " + new(big.Int).Neg(l.K).String()
		}
	}
	if len(s) > 3 && s[:3] == " + " {
		s = s[3:]
	}
	return s
}

func sortInts(a []int) {
	for i := 1; i < len(a); i++ {
		for j := i; j > 0 && a[j] < a[j-1]; j-- {
			a[j], a[j-1] = a[j-1], a[j]
		}
	}
}
