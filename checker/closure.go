package main

import (
	"go/types"
	"sort"

	"golang.org/x/tools/go/ssa"
)

// methodImpls returns the in-module implementations (origin SSA functions) of
// interface method m.
func (p *Prog) methodImpls(iface *types.Interface, name string) []*ssa.Function {
	var out []*ssa.Function
	seen := map[*ssa.Function]bool{}
	for _, pk := range p.Pkgs {
		sc := pk.Types.Scope()
		for _, n := range sc.Names() {
			tn, ok := sc.Lookup(n).(*types.TypeName)
			if !ok || tn.IsAlias() {
				continue
			}
			named, ok := tn.Type().(*types.Named)
			if !ok {
				continue
			}
			if _, isIf := named.Underlying().(*types.Interface); isIf {
				continue
			}
			var inst types.Type = named
			if tps := named.TypeParams(); tps != nil && tps.Len() > 0 {
				var args []types.Type
				for i := 0; i < tps.Len(); i++ {
					args = append(args, firstTerm(tps.At(i)))
				}
				it, err := types.Instantiate(nil, named, args, false)
				if err != nil {
					continue
				}
				inst = it
			}
			if !types.Implements(inst, iface) && !types.Implements(types.NewPointer(inst), iface) {
				continue
			}
			obj, _, _ := types.LookupFieldOrMethod(types.NewPointer(named), true, named.Obj().Pkg(), name)
			fn, ok := obj.(*types.Func)
			if !ok {
				continue
			}
			sf := p.SSA.FuncValue(fn.Origin())
			if sf != nil && !seen[sf] {
				seen[sf] = true
				out = append(out, sf)
			}
		}
	}
	return out
}

// closure computes the functions reachable from roots through static calls
// inside the module and, for interface invokes, all in-module implementations.
// Functions for which stop returns true are not entered.
func (p *Prog) closure(roots []*ssa.Function, stop func(*ssa.Function) bool) []*ssa.Function {
	seen := map[*ssa.Function]bool{}
	var out []*ssa.Function
	var work []*ssa.Function
	push := func(f *ssa.Function) {
		f = origin(f)
		if f == nil || seen[f] {
			return
		}
		if f.Pkg == nil && f.Parent() == nil {
			// synthetic wrapper etc. – resolve through object
		}
		pkg := f.Pkg
		if pkg == nil && f.Parent() != nil {
			pkg = f.Parent().Pkg
		}
		if pkg == nil || !inModule(pkg.Pkg) {
			return
		}
		if stop != nil && stop(f) {
			return
		}
		seen[f] = true
		out = append(out, f)
		work = append(work, f)
	}
	for _, r := range roots {
		push(r)
	}
	for len(work) > 0 {
		f := work[len(work)-1]
		work = work[:len(work)-1]
		for _, a := range f.AnonFuncs {
			push(a)
		}
		for _, b := range f.Blocks {
			for _, in := range b.Instrs {
				var cc *ssa.CallCommon
				switch x := in.(type) {
				case *ssa.Call:
					cc = x.Common()
				case *ssa.Defer:
					cc = x.Common()
				case *ssa.Go:
					cc = x.Common()
				case *ssa.MakeClosure:
					if fn, ok := x.Fn.(*ssa.Function); ok {
						push(fn)
					}
				}
				if cc == nil {
					continue
				}
				if cc.IsInvoke() {
					if iface, ok := cc.Value.Type().Underlying().(*types.Interface); ok {
						if n, ok := cc.Value.Type().(*types.Named); ok && inModule(n.Obj().Pkg()) {
							for _, impl := range p.methodImpls(iface, cc.Method.Name()) {
								push(impl)
							}
						}
					}
					continue
				}
				if callee := cc.StaticCallee(); callee != nil {
					push(callee)
				}
			}
		}
	}
	sort.Slice(out, func(i, j int) bool { return ssaFuncName(out[i]) < ssaFuncName(out[j]) })
	return out
}

var buildFuncNames = map[string]bool{
	"plenc.Plenc.CodecForType": true, "plenc.Plenc.CodecForTypeWithTag": true, "plenc.Plenc.CodecForTypeRegistry": true,
	"plenc.CodecForType": true, "plenc.CodecForTypeWithTag": true,
	"plenccodec.BuildStructCodec": true, "plenccodec.BuildMapCodec": true,
	"plenc.Plenc.RegisterCodec": true, "plenc.Plenc.RegisterCodecWithTag": true, "plenc.Plenc.RegisterDefaultCodecs": true,
	"plenc.RegisterCodec": true, "plenc.RegisterCodecWithTag": true,
}

func isBuildFunc(f *ssa.Function) bool { return buildFuncNames[ssaFuncName(f)] }

func (p *Prog) codecMethodFuncs(method string) []*ssa.Function {
	var out []*ssa.Function
	seen := map[*ssa.Function]bool{}
	for _, ct := range p.Codecs {
		sf := p.SSA.FuncValue(ct.Methods[method].Fn)
		if sf != nil && !seen[sf] {
			seen[sf] = true
			out = append(out, sf)
		}
	}
	return out
}

func (p *Prog) funcsByName(names ...string) []*ssa.Function {
	var out []*ssa.Function
	for _, n := range names {
		if f := p.ssaFunc(n); f != nil {
			out = append(out, f)
		}
	}
	return out
}

func (p *Prog) decodeRoots() []*ssa.Function {
	roots := p.codecMethodFuncs("Read")
	return append(roots, p.funcsByName("plenc.Plenc.Unmarshal", "plenc.Unmarshal", "plenccodec.Descriptor.Read",
		"plenccore.ReadVarUint", "plenccore.ReadVarInt", "plenccore.ReadTag", "plenccore.Skip")...)
}

// decodeClosure 𝒟.
func (p *Prog) decodeClosure() []*ssa.Function {
	if p.decodeC == nil {
		p.decodeC = p.closure(p.decodeRoots(), isBuildFunc)
	}
	return p.decodeC
}

func (p *Prog) encodeRoots() []*ssa.Function {
	var roots []*ssa.Function
	for _, m := range []string{"Omit", "Size", "Append"} {
		roots = append(roots, p.codecMethodFuncs(m)...)
	}
	return append(roots, p.funcsByName("plenc.Plenc.Marshal", "plenc.Marshal",
		"plenccore.AppendVarUint", "plenccore.AppendVarInt", "plenccore.AppendTag", "plenccore.SizeVarUint", "plenccore.SizeVarInt", "plenccore.SizeTag")...)
}

// encodeClosure ℰ.
func (p *Prog) encodeClosure() []*ssa.Function {
	if p.encodeC == nil {
		p.encodeC = p.closure(p.encodeRoots(), isBuildFunc)
	}
	return p.encodeC
}

// buildClosure ℬ.
func (p *Prog) buildClosure() []*ssa.Function {
	var names []string
	for n := range buildFuncNames {
		names = append(names, n)
	}
	sort.Strings(names)
	roots := p.funcsByName(names...)
	roots = append(roots, p.funcsByName("plenccodec.StringCodec.WithInterning", "null.nullStringCodec.WithInterning", "null.RegisterCodecs", "null.AddCodecs")...)
	return p.closure(roots, nil)
}
