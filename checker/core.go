package main

import (
	"fmt"
	"go/ast"
	"go/token"
	"go/types"
	"os"
	"path/filepath"
	"sort"
	"strings"

	"golang.org/x/tools/go/packages"
	"golang.org/x/tools/go/ssa"
	"golang.org/x/tools/go/ssa/ssautil"
)

const modPath = "github.com/philpearl/plenc"

// Prog is the resolved program: syntax, types and SSA of every package of the
// module in /repo, loaded from the current working tree on every run.
type Prog struct {
	Repo string
	// what the de-extraction pre-pass did (inline.go)
	InlineNotes []string
	Fset        *token.FileSet
	Pkgs        []*packages.Package // module packages only
	ByPath      map[string]*packages.Package
	SSA         *ssa.Program
	SSAPkg      map[string]*ssa.Package
	Codecs      []*CodecType
	CodecIf     *types.Interface
	// declaration index
	FuncDecl map[*types.Func]*ast.FuncDecl
	DeclPkg  map[*types.Func]*packages.Package
	decodeC  []*ssa.Function
	encodeC  []*ssa.Function
}

// CodecType is one member of the codec universe: a named type of the module
// whose value or pointer method set implements plenccodec.Codec.
type CodecType struct {
	Named   *types.Named // generic origin for generic types
	Pkg     *packages.Package
	Name    string // e.g. plenccodec.IntCodec
	PtrRecv bool   // true if only *T implements Codec
	Generic bool
	Methods map[string]*MethodRes
}

// MethodRes is the go/types resolution of one interface method for a codec
// type, including the embedding path – so an inherited method is known to be
// inherited.
type MethodRes struct {
	Fn    *types.Func
	Decl  *ast.FuncDecl
	Pkg   *packages.Package
	Depth int      // 0 = declared on the type itself
	Path  []string // names of the embedded fields walked
	Owner string   // name of the type that declares the method
}

var codecMethods = []string{"Omit", "Read", "New", "WireType", "Descriptor", "Size", "Append"}

func loadPkgs(repo string, mode packages.LoadMode, overlay map[string][]byte) ([]*packages.Package, error) {
	cfg := &packages.Config{
		Mode:    mode,
		Dir:     repo,
		Tests:   false,
		Overlay: overlay,
		Env: append(os.Environ(), "GOFLAGS=-mod=mod", "GOPROXY=off", "GOSUMDB=off",
			"GOTOOLCHAIN=local", "GOWORK=off"),
	}
	return packages.Load(cfg, "./...")
}

func loadProg(repo string) (*Prog, error) {
	os.Unsetenv("GOWORK")
	if abs, err := filepath.Abs(repo); err == nil {
		repo = abs
	}
	pkgs, err := loadPkgs(repo, packages.LoadAllSyntax, nil)
	if err != nil {
		return nil, fmt.Errorf("packages.Load: %w", err)
	}
	// de-extraction pre-pass (inline.go): undo "extract function" refactorings
	// in an overlay, so that the rules see the bodies they are anchored on
	var inlineNotes []string
	if os.Getenv("PLENCHECK_NOINLINE") == "" && len(pkgs) > 0 {
		clean := true
		for _, pk := range pkgs {
			if len(pk.Errors) > 0 {
				clean = false
			}
		}
		if clean {
			light := func(ov map[string][]byte) ([]*packages.Package, *token.FileSet, error) {
				lp, err := loadPkgs(repo, packages.LoadSyntax, ov)
				if err != nil {
					return nil, nil, err
				}
				var fs *token.FileSet
				for _, pk := range lp {
					for _, e := range pk.Errors {
						return nil, nil, fmt.Errorf("%s", e.Error())
					}
					fs = pk.Fset
				}
				return lp, fs, nil
			}
			overlay, notes := deextract(repo, pkgs, pkgs[0].Fset, light)
			inlineNotes = notes
			if overlay != nil {
				if os.Getenv("PLENCHECK_DUMP_OVERLAY") != "" {
					for f, b := range overlay {
						os.WriteFile(filepath.Join(os.Getenv("PLENCHECK_DUMP_OVERLAY"), filepath.Base(f)), b, 0o644)
					}
				}
				np, err := loadPkgs(repo, packages.LoadAllSyntax, overlay)
				bad := err != nil
				if !bad {
					for _, pk := range np {
						if len(pk.Errors) > 0 {
							bad = true
						}
					}
				}
				if bad {
					inlineNotes = append(inlineNotes, "de-extraction abandoned: the final overlay does not load; the tree is analysed as written")
				} else {
					pkgs = np
				}
			}
		}
	}
	p := &Prog{Repo: repo, InlineNotes: inlineNotes, ByPath: map[string]*packages.Package{}, SSAPkg: map[string]*ssa.Package{},
		FuncDecl: map[*types.Func]*ast.FuncDecl{}, DeclPkg: map[*types.Func]*packages.Package{}}
	var errs []string
	for _, pk := range pkgs {
		for _, e := range pk.Errors {
			errs = append(errs, e.Error())
		}
		if strings.HasPrefix(pk.PkgPath, modPath) {
			p.Pkgs = append(p.Pkgs, pk)
			p.ByPath[pk.PkgPath] = pk
			p.Fset = pk.Fset
		}
	}
	// type errors anywhere in the dependency closure of module packages
	packages.Visit(pkgs, nil, func(pk *packages.Package) {
		if strings.HasPrefix(pk.PkgPath, modPath) {
			return
		}
		for _, e := range pk.Errors {
			errs = append(errs, e.Error())
		}
	})
	if len(errs) > 0 {
		return nil, fmt.Errorf("load/type errors: %s", strings.Join(errs, "; "))
	}
	if len(p.Pkgs) < 5 {
		return nil, fmt.Errorf("expected at least 5 module packages under %s, found %d", repo, len(p.Pkgs))
	}
	sort.Slice(p.Pkgs, func(i, j int) bool { return p.Pkgs[i].PkgPath < p.Pkgs[j].PkgPath })

	prog, spkgs := ssautil.AllPackages(pkgs, ssa.InstantiateGenerics)
	prog.Build()
	p.SSA = prog
	for i, pk := range pkgs {
		if spkgs[i] != nil {
			p.SSAPkg[pk.PkgPath] = spkgs[i]
		}
	}
	// every reachable package's SSA (deps) is also available via prog.
	for _, sp := range prog.AllPackages() {
		if _, ok := p.SSAPkg[sp.Pkg.Path()]; !ok {
			p.SSAPkg[sp.Pkg.Path()] = sp
		}
	}

	for _, pk := range p.Pkgs {
		for _, f := range pk.Syntax {
			for _, d := range f.Decls {
				fd, ok := d.(*ast.FuncDecl)
				if !ok {
					continue
				}
				if obj, ok := pk.TypesInfo.Defs[fd.Name].(*types.Func); ok {
					p.FuncDecl[obj] = fd
					p.DeclPkg[obj] = pk
				}
			}
		}
	}
	if err := p.buildCodecUniverse(); err != nil {
		return nil, err
	}
	return p, nil
}

func (p *Prog) pkg(short string) *packages.Package {
	switch short {
	case "plenc":
		return p.ByPath[modPath]
	default:
		return p.ByPath[modPath+"/"+short]
	}
}

func shortPkg(path string) string {
	if path == modPath {
		return "plenc"
	}
	return strings.TrimPrefix(path, modPath+"/")
}

func (p *Prog) buildCodecUniverse() error {
	cpk := p.pkg("plenccodec")
	if cpk == nil {
		return fmt.Errorf("package plenccodec not found")
	}
	obj := cpk.Types.Scope().Lookup("Codec")
	if obj == nil {
		return fmt.Errorf("plenccodec.Codec not found")
	}
	iface, ok := obj.Type().Underlying().(*types.Interface)
	if !ok {
		return fmt.Errorf("plenccodec.Codec is not an interface")
	}
	p.CodecIf = iface
	for _, pk := range p.Pkgs {
		sc := pk.Types.Scope()
		for _, name := range sc.Names() {
			tn, ok := sc.Lookup(name).(*types.TypeName)
			if !ok || tn.IsAlias() {
				continue
			}
			named, ok := tn.Type().(*types.Named)
			if !ok {
				continue
			}
			if _, isIf := named.Underlying().(*types.Interface); isIf {
				continue
			}
			var inst types.Type = named
			generic := false
			if tps := named.TypeParams(); tps != nil && tps.Len() > 0 {
				generic = true
				// instantiate with the first term of each constraint
				var args []types.Type
				for i := 0; i < tps.Len(); i++ {
					args = append(args, firstTerm(tps.At(i)))
				}
				it, err := types.Instantiate(nil, named, args, false)
				if err != nil {
					continue
				}
				inst = it
			}
			val := types.Implements(inst, iface)
			ptr := types.Implements(types.NewPointer(inst), iface)
			if !val && !ptr {
				continue
			}
			ct := &CodecType{Named: named, Pkg: pk, Name: shortPkg(pk.PkgPath) + "." + name,
				PtrRecv: !val, Generic: generic, Methods: map[string]*MethodRes{}}
			for _, m := range codecMethods {
				mr := p.resolveMethod(named, m)
				if mr == nil {
					return fmt.Errorf("cannot resolve %s.%s", ct.Name, m)
				}
				ct.Methods[m] = mr
			}
			p.Codecs = append(p.Codecs, ct)
		}
	}
	sort.Slice(p.Codecs, func(i, j int) bool { return p.Codecs[i].Name < p.Codecs[j].Name })
	return nil
}

func firstTerm(tp *types.TypeParam) types.Type {
	if u, ok := tp.Constraint().Underlying().(*types.Interface); ok {
		for i := 0; i < u.NumEmbeddeds(); i++ {
			switch e := u.EmbeddedType(i).(type) {
			case *types.Union:
				if e.Len() > 0 {
					return e.Term(0).Type()
				}
			default:
				return e
			}
		}
	}
	return types.Typ[types.Int]
}

// resolveMethod resolves name on *T (the larger method set) and reports the
// embedding path.
func (p *Prog) resolveMethod(named *types.Named, name string) *MethodRes {
	obj, index, _ := types.LookupFieldOrMethod(types.NewPointer(named), true, named.Obj().Pkg(), name)
	fn, ok := obj.(*types.Func)
	if !ok {
		return nil
	}
	fn = fn.Origin()
	mr := &MethodRes{Fn: fn, Depth: len(index) - 1}
	// walk the embedding path for names
	var t types.Type = named
	for _, ix := range index[:len(index)-1] {
		st, ok := deref(t).Underlying().(*types.Struct)
		if !ok {
			break
		}
		f := st.Field(ix)
		mr.Path = append(mr.Path, f.Name())
		t = f.Type()
	}
	if recv := fn.Type().(*types.Signature).Recv(); recv != nil {
		if n, ok := deref(recv.Type()).(*types.Named); ok {
			mr.Owner = n.Obj().Name()
		}
	}
	mr.Decl = p.FuncDecl[fn]
	mr.Pkg = p.DeclPkg[fn]
	return mr
}

func deref(t types.Type) types.Type {
	if pt, ok := t.Underlying().(*types.Pointer); ok {
		return pt.Elem()
	}
	return t
}

func (p *Prog) codec(name string) *CodecType {
	for _, c := range p.Codecs {
		if c.Name == name {
			return c
		}
	}
	return nil
}

// pos renders a position relative to the repo root.
func (p *Prog) pos(pos token.Pos) string {
	if !pos.IsValid() {
		return "-"
	}
	ps := p.Fset.Position(pos)
	rel, err := filepath.Rel(p.Repo, ps.Filename)
	if err != nil {
		rel = ps.Filename
	}
	return fmt.Sprintf("%s:%d:%d", rel, ps.Line, ps.Column)
}

// funcName renders pkg.Recv.Name for a types.Func.
func funcName(fn *types.Func) string {
	if fn == nil {
		return "?"
	}
	sig := fn.Type().(*types.Signature)
	pk := "?"
	if fn.Pkg() != nil {
		pk = shortPkg(fn.Pkg().Path())
	}
	if r := sig.Recv(); r != nil {
		t := deref(r.Type())
		if n, ok := t.(*types.Named); ok {
			return pk + "." + n.Obj().Name() + "." + fn.Name()
		}
	}
	return pk + "." + fn.Name()
}

// ssaFuncName renders a stable name for an ssa function (generic instances
// are named after their origin).
func ssaFuncName(f *ssa.Function) string {
	if f == nil {
		return "?"
	}
	if f.Parent() != nil {
		// anonymous function: name by parent + index
		par := f.Parent()
		for i, a := range par.AnonFuncs {
			if a == f {
				return fmt.Sprintf("%s$%d", ssaFuncName(par), i+1)
			}
		}
		return ssaFuncName(par) + "$?"
	}
	if o := f.Origin(); o != nil {
		f = o
	}
	if obj, ok := f.Object().(*types.Func); ok {
		return funcName(obj)
	}
	return f.String()
}

// moduleFuncs returns the SSA function of every function and method declared
// in the module's source (generic origins for generic code), plus nested
// closures, sorted by name.
func (p *Prog) moduleFuncs() []*ssa.Function {
	var out []*ssa.Function
	seen := map[*ssa.Function]bool{}
	var add func(f *ssa.Function)
	add = func(f *ssa.Function) {
		if f == nil || seen[f] {
			return
		}
		seen[f] = true
		out = append(out, f)
		for _, a := range f.AnonFuncs {
			add(a)
		}
	}
	for fn := range p.FuncDecl {
		add(p.SSA.FuncValue(fn))
	}
	for _, pk := range p.Pkgs {
		if sp := p.SSAPkg[pk.PkgPath]; sp != nil {
			if init := sp.Func("init"); init != nil {
				add(init)
			}
		}
	}
	sort.Slice(out, func(i, j int) bool {
		a, b := ssaFuncName(out[i]), ssaFuncName(out[j])
		if a != b {
			return a < b
		}
		return out[i].Pos() < out[j].Pos()
	})
	return out
}

func (p *Prog) ssaFunc(name string) *ssa.Function {
	for _, f := range p.moduleFuncs() {
		if ssaFuncName(f) == name {
			return f
		}
	}
	return nil
}

func inModule(pkg *types.Package) bool {
	return pkg != nil && strings.HasPrefix(pkg.Path(), modPath)
}
