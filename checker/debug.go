package main

import (
	"fmt"
	"os"
	"strings"
)

func debugDump(p *Prog, what string) {
	switch {
	case what == "codecs":
		for _, ct := range p.Codecs {
			fmt.Printf("%s ptr=%v generic=%v\n", ct.Name, ct.PtrRecv, ct.Generic)
			for _, m := range codecMethods {
				mr := ct.Methods[m]
				fmt.Printf("   %-10s %s depth=%d path=%v\n", m, funcName(mr.Fn), mr.Depth, mr.Path)
			}
		}
	case what == "funcs":
		for _, f := range p.moduleFuncs() {
			fmt.Println(ssaFuncName(f), len(f.Blocks))
		}
	case strings.HasPrefix(what, "ssa:"):
		f := p.ssaFunc(strings.TrimPrefix(what, "ssa:"))
		if f == nil {
			fmt.Println("not found")
			return
		}
		f.WriteTo(os.Stdout)
	}
}
