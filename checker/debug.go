package main

import (
	"fmt"
	"os"
	"sort"
	"strings"
)

var extraDumps []func(p *Prog, what string) bool

func debugDump(p *Prog, what string) {
	for _, d := range extraDumps {
		if d(p, what) {
			return
		}
	}
	switch {
	case what == "census":
		var names []string
		for fn := range p.FuncDecl {
			names = append(names, funcFullName(fn)+"\t"+funcSigString(fn))
		}
		sort.Strings(names)
		for _, n := range names {
			fmt.Println(n)
		}
	case what == "codecs":
		for _, ct := range p.Codecs {
			fmt.Printf("%s ptr=%v generic=%v\n", ct.Name, ct.PtrRecv, ct.Generic)
			for _, m := range codecMethods {
				mr := ct.Methods[m]
				fmt.Printf("   %-10s %s depth=%d path=%v\n", m, funcName(mr.Fn), mr.Depth, mr.Path)
			}
		}
	case what == "funcs":
		for _, f := range p.moduleFuncs() {
			fmt.Println(ssaFuncName(f), len(f.Blocks))
		}
	case strings.HasPrefix(what, "ssa:"):
		f := p.ssaFunc(strings.TrimPrefix(what, "ssa:"))
		if f == nil {
			fmt.Println("not found")
			return
		}
		f.WriteTo(os.Stdout)
	}
}

func init() {
	extraDumps = append(extraDumps, func(p *Prog, what string) bool {
		if !strings.HasPrefix(what, "emit:") {
			return false
		}
		name := strings.TrimPrefix(what, "emit:")
		for _, ct := range p.Codecs {
			if name != "all" && ct.Name != name {
				continue
			}
			E := newEmit(p)
			a := E.methodTerm(ct, "Append")
			s := E.methodTerm(ct, "Size")
			fmt.Println("==", ct.Name)
			fmt.Println("  A   :", a)
			fmt.Println("  Φ(A):", phi(a))
			fmt.Println("  S   :", s)
			fmt.Println("  law :", eq(s, phi(a)))
			for _, u := range E.undecided {
				fmt.Println("  undecided:", u)
			}
		}
		return true
	})
}
