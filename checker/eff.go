package main

import (
	"fmt"
	"go/token"
	"go/types"
	"strings"

	"golang.org/x/tools/go/ssa"
)

// ---------------------------------------------------------------------------
// EFF: pointer roots

type rootKind int

const (
	rkUnknown rootKind = iota
	rkParam
	rkFreeVar
	rkLocal // Alloc in this function
	rkFresh // make/new/allocation call in this function
	rkGlobal
	rkPool  // sync.Pool.Get
	rkConst // nil / constant
	rkMixed
)

type rootT struct {
	kind   rootKind
	base   ssa.Value // the Parameter / Alloc / Global / call
	loaded int       // number of pointer loads from memory on the way (0 = the object itself)
}

func (r rootT) String() string {
	k := map[rootKind]string{rkUnknown: "unknown", rkParam: "param", rkFreeVar: "freevar", rkLocal: "local", rkFresh: "fresh",
		rkGlobal: "global", rkPool: "pool", rkConst: "const", rkMixed: "mixed"}[r.kind]
	s := k
	if r.base != nil {
		s += ":" + valName(r.base)
	}
	if r.loaded > 0 {
		s += fmt.Sprintf("(loaded×%d)", r.loaded)
	}
	return s
}

func isAllocCall(c *ssa.CallCommon) bool {
	if c.IsInvoke() {
		return c.Method.Name() == "New" // Codec.New()
	}
	f := c.StaticCallee()
	if f == nil {
		return false
	}
	switch f.String() {
	case "reflect.New", "reflect.MakeMap", "reflect.MakeMapWithSize", "reflect.MakeSlice",
		"github.com/philpearl/plenc/plenccodec.unsafe_NewArray":
		return true
	}
	if f.Name() == "New" && f.Signature.Recv() != nil {
		return true
	}
	return false
}

func isPoolGet(c *ssa.CallCommon) bool {
	f := c.StaticCallee()
	return f != nil && f.String() == "(*sync.Pool).Get"
}

// rootOf traces a pointer-like value back to where its memory comes from.
func rootOf(v ssa.Value) rootT { return rootOfD(v, 0, map[ssa.Value]bool{}) }

func rootOfD(v ssa.Value, depth int, seen map[ssa.Value]bool) rootT {
	if v == nil || depth > 60 {
		return rootT{kind: rkUnknown}
	}
	if seen[v] {
		return rootT{kind: rkConst} // cycle through phi: neutral
	}
	seen[v] = true
	defer delete(seen, v)
	switch x := v.(type) {
	case *ssa.Parameter:
		return rootT{kind: rkParam, base: x}
	case *ssa.FreeVar:
		return rootT{kind: rkFreeVar, base: x}
	case *ssa.Alloc:
		return rootT{kind: rkLocal, base: x}
	case *ssa.MakeSlice, *ssa.MakeMap, *ssa.MakeChan, *ssa.MakeClosure:
		return rootT{kind: rkFresh, base: x}
	case *ssa.Global:
		return rootT{kind: rkGlobal, base: x}
	case *ssa.Const:
		return rootT{kind: rkConst}
	case *ssa.FieldAddr:
		return rootOfD(x.X, depth+1, seen)
	case *ssa.IndexAddr:
		return rootOfD(x.X, depth+1, seen)
	case *ssa.Field:
		return rootOfD(x.X, depth+1, seen)
	case *ssa.Index:
		return rootOfD(x.X, depth+1, seen)
	case *ssa.Slice:
		return rootOfD(x.X, depth+1, seen)
	case *ssa.Convert:
		return rootOfD(x.X, depth+1, seen)
	case *ssa.ChangeType:
		return rootOfD(x.X, depth+1, seen)
	case *ssa.ChangeInterface:
		return rootOfD(x.X, depth+1, seen)
	case *ssa.MakeInterface:
		return rootOfD(x.X, depth+1, seen)
	case *ssa.TypeAssert:
		return rootOfD(x.X, depth+1, seen)
	case *ssa.Extract:
		return rootOfD(x.Tuple, depth+1, seen)
	case *ssa.UnOp:
		if x.Op == token.MUL {
			r := rootOfD(x.X, depth+1, seen)
			if r.kind == rkLocal || r.kind == rkFreeVar {
				// value read back from a local variable: look at what was stored
				if al, ok := r.base.(*ssa.Alloc); ok && r.loaded == 0 {
					if st := soleStoredRoot(al, depth, seen); st != nil {
						return *st
					}
				}
			}
			r.loaded++
			return r
		}
		return rootOfD(x.X, depth+1, seen)
	case *ssa.BinOp:
		// uintptr arithmetic: the operand that came from a pointer
		rx := rootOfD(x.X, depth+1, seen)
		if rx.kind != rkConst && rx.kind != rkUnknown {
			return rx
		}
		return rootOfD(x.Y, depth+1, seen)
	case *ssa.Phi:
		var out *rootT
		for _, e := range x.Edges {
			r := rootOfD(e, depth+1, seen)
			if r.kind == rkConst {
				continue
			}
			if out == nil {
				rr := r
				out = &rr
			} else if out.kind != r.kind || out.base != r.base {
				// prefer the less trusted
				if rank(r.kind) > rank(out.kind) {
					rr := r
					out = &rr
				}
			}
		}
		if out == nil {
			return rootT{kind: rkConst}
		}
		return *out
	case *ssa.Call:
		cc := x.Common()
		if b, ok := cc.Value.(*ssa.Builtin); ok {
			switch b.Name() {
			case "append":
				return rootOfD(cc.Args[0], depth+1, seen)
			case "Add", "SliceData", "StringData", "String", "Slice":
				return rootOfD(cc.Args[0], depth+1, seen)
			}
			return rootT{kind: rkUnknown}
		}
		if isPoolGet(cc) {
			return rootT{kind: rkPool, base: x}
		}
		if isAllocCall(cc) {
			return rootT{kind: rkFresh, base: x}
		}
		if f := cc.StaticCallee(); f != nil {
			switch f.String() {
			case "(reflect.Value).Pointer", "(reflect.Value).UnsafePointer":
				return rootOfD(cc.Args[0], depth+1, seen)
			case "sync/atomic.LoadPointer":
				r := rootOfD(cc.Args[0], depth+1, seen)
				r.loaded++
				return r
			}
		}
		return rootT{kind: rkUnknown, base: x}
	}
	return rootT{kind: rkUnknown, base: v}
}

func rank(k rootKind) int {
	switch k {
	case rkConst:
		return 0
	case rkFresh:
		return 1
	case rkLocal:
		return 2
	case rkFreeVar:
		return 3
	case rkPool:
		return 4
	case rkParam:
		return 5
	case rkGlobal:
		return 6
	}
	return 7
}

// soleStoredRoot: for a local variable alloc, the root of the values stored
// into it (worst of them).
func soleStoredRoot(al *ssa.Alloc, depth int, seen map[ssa.Value]bool) *rootT {
	var out *rootT
	for _, r := range *al.Referrers() {
		st, ok := r.(*ssa.Store)
		if !ok || st.Addr != al {
			continue
		}
		rr := rootOfD(st.Val, depth+1, seen)
		if out == nil || rank(rr.kind) > rank(out.kind) {
			c := rr
			out = &c
		}
	}
	return out
}

// pointerCarrying: values of this type can alias memory.
func pointerCarrying(t types.Type) bool {
	switch u := t.Underlying().(type) {
	case *types.Pointer, *types.Slice, *types.Map, *types.Chan, *types.Interface, *types.Signature:
		return true
	case *types.Basic:
		return u.Kind() == types.String || u.Kind() == types.UnsafePointer || u.Kind() == types.Uintptr
	case *types.Struct:
		for i := 0; i < u.NumFields(); i++ {
			if pointerCarrying(u.Field(i).Type()) {
				return true
			}
		}
	case *types.Array:
		return pointerCarrying(u.Elem())
	case *types.Tuple:
		for i := 0; i < u.Len(); i++ {
			if pointerCarrying(u.At(i).Type()) {
				return true
			}
		}
	}
	if _, ok := t.(*types.TypeParam); ok {
		return false
	}
	return false
}

// ---------------------------------------------------------------------------
// alias taint: which values may share memory with a source buffer

type aliasTaint struct {
	fn      *ssa.Function
	tainted map[ssa.Value]bool
	memTnt  map[ssa.Value]bool // local allocs that hold a tainted value
	why     map[ssa.Value]ssa.Value
	summ    func(callee *ssa.Function, argIdx int) (returnsAlias bool)
}

// copyingCall: calls whose results never alias their arguments.
func copyingCall(cc *ssa.CallCommon) bool {
	if f := cc.StaticCallee(); f != nil {
		if f.Pkg != nil {
			switch f.Pkg.Pkg.Path() {
			case "fmt", "errors", "strconv", "math", "math/bits", "encoding/binary", "time", "unicode/utf8", "unicode", "sync", "sync/atomic":
				return true
			}
		}
		switch f.String() {
		case "bytes.Clone", "strings.Clone", "strings.Cut", "strings.IndexByte":
			return f.String() == "bytes.Clone" || f.String() == "strings.Clone"
		}
	}
	return false
}

func newAliasTaint(fn *ssa.Function, sources []ssa.Value, summ func(*ssa.Function, int) bool) *aliasTaint {
	at := &aliasTaint{fn: fn, tainted: map[ssa.Value]bool{}, memTnt: map[ssa.Value]bool{}, why: map[ssa.Value]ssa.Value{}, summ: summ}
	for _, s := range sources {
		at.tainted[s] = true
	}
	changed := true
	mark := func(v, from ssa.Value) {
		if !at.tainted[v] {
			at.tainted[v] = true
			at.why[v] = from
			changed = true
		}
	}
	for changed {
		changed = false
		for _, b := range fn.Blocks {
			for _, in := range b.Instrs {
				switch x := in.(type) {
				case *ssa.Store:
					if at.tainted[x.Val] && pointerCarrying(x.Val.Type()) {
						r := rootOf(x.Addr)
						if (r.kind == rkLocal || r.kind == rkFresh) && r.base != nil && !at.memTnt[r.base] {
							at.memTnt[r.base] = true
							changed = true
						}
					}
					continue
				}
				v, ok := in.(ssa.Value)
				if !ok || at.tainted[v] || !pointerCarrying(v.Type()) {
					continue
				}
				switch x := in.(type) {
				case *ssa.Slice:
					if at.tainted[x.X] {
						mark(v, x.X)
					}
				case *ssa.IndexAddr:
					if at.tainted[x.X] {
						mark(v, x.X)
					}
				case *ssa.FieldAddr:
					if at.tainted[x.X] {
						mark(v, x.X)
					}
				case *ssa.Field:
					if at.tainted[x.X] {
						mark(v, x.X)
					}
				case *ssa.Index:
					if at.tainted[x.X] {
						mark(v, x.X)
					}
				case *ssa.Lookup:
					// value read out of a tainted map/string index: bytes are scalars; map values may alias
					if at.tainted[x.X] {
						if _, isMap := x.X.Type().Underlying().(*types.Map); isMap {
							mark(v, x.X)
						}
					}
				case *ssa.Convert:
					if !at.tainted[x.X] {
						continue
					}
					// string([]byte) and []byte(string) copy; everything else (unsafe.Pointer, uintptr, *T) aliases
					from, to := x.X.Type().Underlying(), x.Type().Underlying()
					_, fs := from.(*types.Slice)
					_, ts := to.(*types.Slice)
					fb, fIsB := from.(*types.Basic)
					tb, tIsB := to.(*types.Basic)
					if (fs && tIsB && tb.Kind() == types.String) || (ts && fIsB && fb.Kind() == types.String) {
						continue
					}
					mark(v, x.X)
				case *ssa.ChangeType:
					if at.tainted[x.X] {
						mark(v, x.X)
					}
				case *ssa.ChangeInterface:
					if at.tainted[x.X] {
						mark(v, x.X)
					}
				case *ssa.MakeInterface:
					if at.tainted[x.X] {
						mark(v, x.X)
					}
				case *ssa.TypeAssert:
					if at.tainted[x.X] {
						mark(v, x.X)
					}
				case *ssa.Extract:
					if at.tainted[x.Tuple] {
						mark(v, x.Tuple)
					}
				case *ssa.Phi:
					for _, e := range x.Edges {
						if at.tainted[e] {
							mark(v, e)
							break
						}
					}
				case *ssa.BinOp:
					if at.tainted[x.X] {
						mark(v, x.X)
					} else if at.tainted[x.Y] {
						mark(v, x.Y)
					}
				case *ssa.UnOp:
					if x.Op == token.MUL {
						// load: tainted if the pointer points into tainted memory holding
						// pointers (a [][]byte – not the case for bytes), or reads a local
						// that holds a tainted value
						r := rootOf(x.X)
						if (r.kind == rkLocal || r.kind == rkFresh) && r.base != nil && at.memTnt[r.base] {
							mark(v, r.base)
						}
					} else if at.tainted[x.X] {
						mark(v, x.X)
					}
				case *ssa.Call:
					cc := x.Common()
					if b, ok := cc.Value.(*ssa.Builtin); ok {
						switch b.Name() {
						case "append":
							if at.tainted[cc.Args[0]] {
								mark(v, cc.Args[0])
							}
						case "Add", "SliceData", "StringData", "String", "Slice":
							if at.tainted[cc.Args[0]] {
								mark(v, cc.Args[0])
							}
						}
						continue
					}
					if copyingCall(cc) {
						continue
					}
					callee := cc.StaticCallee()
					for i, a := range cc.Args {
						if !at.tainted[a] {
							continue
						}
						if callee != nil && at.summ != nil && inModule(pkgOf(callee)) {
							if at.summ(callee, i) {
								mark(v, a)
							}
							continue
						}
						if cc.IsInvoke() {
							// interface contract: results of Read/Size/... do not alias arguments (checked per implementation)
							continue
						}
						mark(v, a) // unknown callee: assume the result may alias
					}
				}
			}
		}
	}
	return at
}

func pkgOf(f *ssa.Function) *types.Package {
	if f.Pkg != nil {
		return f.Pkg.Pkg
	}
	if f.Parent() != nil {
		return pkgOf(f.Parent())
	}
	if o := f.Origin(); o != nil && o != f {
		return pkgOf(o)
	}
	if f.Object() != nil {
		return f.Object().Pkg()
	}
	return nil
}

func (at *aliasTaint) path(v ssa.Value) string {
	var parts []string
	for i := 0; v != nil && i < 8; i++ {
		parts = append(parts, valName(v))
		v = at.why[v]
	}
	return strings.Join(parts, " <- ")
}
