package main

import (
	"fmt"
	"go/constant"
	"go/token"
	"go/types"
	"sort"
	"strings"

	"golang.org/x/tools/go/ssa"
)

// ---------------------------------------------------------------------------
// C10: re-used memory is cleared before a codec reads into it

// poolParams: parameters that may receive a pooled pointer (interprocedural).
func poolRooted(p *Prog, funcs []*ssa.Function) map[*ssa.Function]map[int]bool {
	out := map[*ssa.Function]map[int]bool{}
	inSet := map[*ssa.Function]bool{}
	for _, f := range funcs {
		inSet[f] = true
	}
	isPool := func(f *ssa.Function, v ssa.Value) bool {
		r := rootOf(v)
		if r.kind == rkPool {
			return true
		}
		if r.kind == rkParam && r.loaded == 0 {
			if prm, ok := r.base.(*ssa.Parameter); ok {
				for i, q := range f.Params {
					if q == prm && out[f][i] {
						return true
					}
				}
			}
		}
		return false
	}
	changed := true
	for changed {
		changed = false
		for _, f := range funcs {
			for _, b := range f.Blocks {
				for _, in := range b.Instrs {
					call, ok := in.(*ssa.Call)
					if !ok {
						continue
					}
					callee := origin(call.Common().StaticCallee())
					if callee == nil || !inSet[callee] {
						continue
					}
					for i, a := range call.Common().Args {
						if isUnsafePointer(a.Type()) && isPool(f, a) {
							if out[callee] == nil {
								out[callee] = map[int]bool{}
							}
							if !out[callee][i] {
								out[callee][i] = true
								changed = true
							}
						}
					}
				}
			}
		}
	}
	return out
}

func isClearCall(in ssa.Instruction) (ptr ssa.Value, ok bool) {
	call, isCall := in.(*ssa.Call)
	if !isCall {
		return nil, false
	}
	f := call.Common().StaticCallee()
	if f == nil {
		return nil, false
	}
	switch f.Name() {
	case "typedmemclr":
		return call.Common().Args[1], true
	case "typedmemmove": // typedmemmove(t, dst, zero)
		return call.Common().Args[1], true
	}
	return nil, false
}

// isCodecReadInvoke: invoke of Read on a Codec-typed value (or static call of a Read method); returns the target pointer argument.
func codecReadTarget(in ssa.Instruction) (ssa.Value, *ssa.Call, bool) {
	call, ok := in.(*ssa.Call)
	if !ok {
		return nil, nil, false
	}
	cc := call.Common()
	if cc.IsInvoke() {
		if cc.Method.Name() == "Read" && len(cc.Args) == 3 && isUnsafePointer(cc.Args[1].Type()) {
			return cc.Args[1], call, true
		}
		return nil, nil, false
	}
	return nil, nil, false
}

func sameRootValue(a, b ssa.Value) bool {
	ra, rb := rootOf(a), rootOf(b)
	return ra.kind == rb.kind && ra.base == rb.base && ra.base != nil
}

func ruleClearBeforeRead(c *Ctx) {
	p := c.P
	funcs := p.inputFuncs()
	pools := poolRooted(p, funcs)
	n := 0
	for _, f := range funcs {
		name := ssaFuncName(f)
		for _, b := range f.Blocks {
			for i, in := range b.Instrs {
				tgt, call, ok := codecReadTarget(in)
				if !ok {
					continue
				}
				r := rootOf(tgt)
				pooled := r.kind == rkPool
				if r.kind == rkParam && r.loaded == 0 {
					if prm, isP := r.base.(*ssa.Parameter); isP {
						for pi, q := range f.Params {
							if q == prm && pools[f][pi] {
								pooled = true
							}
						}
					}
				}
				if pooled {
					n++
					// must-pass-through: a clear of the same pointer dominates the read
					cleared := false
					for _, d := range f.Blocks {
						if !(d == b || d.Dominates(b)) {
							continue
						}
						for j, in2 := range d.Instrs {
							if d == b && j >= i {
								break
							}
							if ptr, isClr := isClearCall(in2); isClr && sameRootValue(ptr, tgt) {
								cleared = true
							}
						}
					}
					c.Oblige("X.clear.pool", cleared, call.Pos(), name, "Read into pooled scratch "+r.kindOnly(),
						"memory taken from a sync.Pool (re-used across entries and calls) must be cleared on every path before a codec reads into it: codecs only write what is present in the data", nil)
				}
				// element of a slice backing array that may be re-used: target derives from a Data pointer loaded from the target slice header
				if el, hdr := sliceElemTarget(tgt); el {
					n++
					ok2, why := sliceElemCleared(f, b, i, tgt, hdr)
					c.Oblige("X.clear.slice", ok2, call.Pos(), name, "Read into slice element",
						"an element of a re-used backing array must be freshly allocated or cleared before a codec reads into it: "+why, nil)
				}
			}
		}
	}
	c.Floor("X.clear.pool", 1)
	c.Floor("X.clear.slice", 3)
}

// sliceElemTarget: tgt = unsafe.Add(h.Data, …) / pointer arithmetic on a Data
// field loaded from a sliceHeader that lives in the decode target.
func sliceElemTarget(tgt ssa.Value) (bool, ssa.Value) {
	var find func(v ssa.Value, depth int) ssa.Value
	find = func(v ssa.Value, depth int) ssa.Value {
		if depth > 12 || v == nil {
			return nil
		}
		switch x := v.(type) {
		case *ssa.UnOp:
			if x.Op == token.MUL {
				if fa, ok := x.X.(*ssa.FieldAddr); ok && typeName(deref(fa.X.Type())) == "sliceHeader" && fieldName(fa) == "Data" {
					return fa.X
				}
			}
		case *ssa.Convert:
			return find(x.X, depth+1)
		case *ssa.BinOp:
			if r := find(x.X, depth+1); r != nil {
				return r
			}
			return find(x.Y, depth+1)
		case *ssa.Call:
			if b, ok := x.Common().Value.(*ssa.Builtin); ok && b.Name() == "Add" {
				return find(x.Common().Args[0], depth+1)
			}
		case *ssa.Phi:
			for _, e := range x.Edges {
				if r := find(e, depth+1); r != nil {
					return r
				}
			}
		}
		return nil
	}
	h := find(tgt, 0)
	return h != nil, h
}

// sliceElemCleared: every path from entry to the read either stores a fresh
// array into h.Data or clears (typedmemclr on an h.Data-derived pointer); or
// the element codec is one whose Read unconditionally overwrites (scalars).
func sliceElemCleared(f *ssa.Function, rb *ssa.BasicBlock, ri int, tgt, hdr ssa.Value) (bool, string) {
	// the packed fixed-width wrapper is only built for element codecs without explicit presence
	// (T.fixedwrap): its elements are fixed-width scalars, whose Read stores unconditionally on
	// success (X.scalarstore). The varint wrapper is NOT exempt: []*int is accepted, and a pointer
	// element is decoded into, not replaced.
	switch recvTypeName(f) {
	case "WTFixedSliceWrapper":
		return true, "fixed-width scalar element codecs store their result unconditionally on success (X.scalarstore, T.fixedwrap)"
	}
	// direct clear of the same pointer dominating the read
	for _, d := range f.Blocks {
		if !(d == rb || d.Dominates(rb)) {
			continue
		}
		for j, in := range d.Instrs {
			if d == rb && j >= ri {
				break
			}
			if ptr, ok := isClearCall(in); ok && (ptr == tgt || sameAddExpr(ptr, tgt)) {
				return true, "cleared by a dominating typedmemclr on the same element pointer"
			}
		}
	}
	// sanitiser blocks: store of a fresh array into hdr.Data, or a clearing call on an hdr.Data-derived pointer;
	// a loop that contains a sanitiser counts as a sanitiser at its header
	san := map[*ssa.BasicBlock]bool{}
	for _, b := range f.Blocks {
		for _, in := range b.Instrs {
			if st, ok := in.(*ssa.Store); ok {
				if fa, ok := st.Addr.(*ssa.FieldAddr); ok && fa.X == hdr && fieldName(fa) == "Data" {
					if r := rootOf(st.Val); r.kind == rkFresh {
						san[b] = true
					}
				}
			}
			if ptr, ok := isClearCall(in); ok {
				if is, h2 := sliceElemTarget(ptr); is && h2 == hdr {
					san[b] = true
				}
			}
		}
	}
	// loops containing a sanitiser: mark header – provided the clearing loop
	// covers the elements that are about to be read: it starts at 0 and runs up
	// to the value that becomes the slice's new length
	for _, b := range f.Blocks {
		for _, s := range b.Succs {
			if s.Dominates(b) { // back edge b -> s
				if !clearLoopCoversNewLen(f, s, hdr) {
					continue
				}
				body := map[*ssa.BasicBlock]bool{s: true}
				stack := []*ssa.BasicBlock{b}
				for len(stack) > 0 {
					n := stack[len(stack)-1]
					stack = stack[:len(stack)-1]
					if body[n] {
						continue
					}
					body[n] = true
					stack = append(stack, n.Preds...)
				}
				for bb := range body {
					if san[bb] {
						san[s] = true
					}
				}
			}
		}
	}
	if len(san) == 0 {
		return false, "no fresh allocation of the backing array and no clearing call found"
	}
	// is rb reachable from entry without passing a sanitiser block?
	seen := map[*ssa.BasicBlock]bool{}
	var reach func(b *ssa.BasicBlock) bool
	reach = func(b *ssa.BasicBlock) bool {
		if san[b] {
			return false
		}
		if b == rb {
			return true
		}
		if seen[b] {
			return false
		}
		seen[b] = true
		for _, s := range b.Succs {
			if reach(s) {
				return true
			}
		}
		return false
	}
	if reach(f.Blocks[0]) {
		return false, "a path reaches the element read without allocating a fresh array or clearing the re-used one"
	}
	return true, "every path passes through a fresh allocation of the backing array or the clearing loop"
}

func sameAddExpr(a, b ssa.Value) bool {
	ca, ok1 := a.(*ssa.Call)
	cb, ok2 := b.(*ssa.Call)
	if !ok1 || !ok2 {
		return false
	}
	return ca == cb
}

// ruleScalarStore: the scalar codecs (used packed, without clearing) store
// their result on every success return.
func ruleScalarStore(c *Ctx) {
	p := c.P
	for _, ct := range p.Codecs {
		consts, _, ok := p.wireInfo(ct)
		if !ok || len(consts) != 1 {
			continue
		}
		if consts[0] != "WTVarInt" && consts[0] != "WT64" && consts[0] != "WT32" {
			// length-delimited leaves (strings, bytes, times, null values) must
			// overwrite too: a present empty value replaces what the target held.
			// Containers merge or append by design and are judged by their own rules.
			if !p.lengthLeaf(ct) {
				continue
			}
		}
		f := p.SSA.FuncValue(ct.Methods["Read"].Fn)
		if f == nil || len(f.Blocks) == 0 {
			continue
		}
		name := ssaFuncName(f)
		for _, b := range f.Blocks {
			r, isRet := b.Instrs[len(b.Instrs)-1].(*ssa.Return)
			if !isRet || len(r.Results) != 2 {
				continue
			}
			if call, isCall := r.Results[1].(*ssa.Call); isCall {
				if cal := call.Common().StaticCallee(); cal != nil && (cal.String() == "fmt.Errorf" || cal.String() == "errors.New") {
					continue
				}
			}
			// failure returns dominated by err != nil
			anchors := successAnchors(f, r)
			if len(anchors) == 0 {
				continue
			}
			stored := true
			// blocks that store to the target; a success return is fine when it cannot be
			// reached from the entry without passing one of them (a store in every arm of
			// a switch counts, not only a dominating one)
			storing := map[*ssa.BasicBlock]bool{}
			for _, d := range f.Blocks {
				for _, in := range d.Instrs {
					switch x := in.(type) {
					case *ssa.Store:
						if rr := rootOf(x.Addr); rr.kind == rkParam && isPtrParam(f, rr.base) {
							storing[d] = true
						}
					case *ssa.Call:
						for _, ar := range x.Common().Args {
							if rr := rootOf(ar); rr.kind == rkParam && isPtrParam(f, rr.base) {
								storing[d] = true
							}
						}
					}
				}
			}
			reachNoStore := map[*ssa.BasicBlock]bool{}
			if !storing[f.Blocks[0]] {
				reachNoStore[f.Blocks[0]] = true
				work := []*ssa.BasicBlock{f.Blocks[0]}
				for len(work) > 0 {
					bb := work[len(work)-1]
					work = work[:len(work)-1]
					for _, sc := range bb.Succs {
						if !storing[sc] && !reachNoStore[sc] {
							reachNoStore[sc] = true
							work = append(work, sc)
						}
					}
				}
			}
			for _, a := range anchors {
				storedA := !reachNoStore[a]
				for _, d := range f.Blocks {
					if !(d == a || d.Dominates(a)) {
						continue
					}
					for _, in := range d.Instrs {
						switch x := in.(type) {
						case *ssa.Store:
							if rr := rootOf(x.Addr); rr.kind == rkParam && isPtrParam(f, rr.base) {
								storedA = true
							}
						case *ssa.Call:
							// delegation to another scalar Read with the same ptr, or SetValid-like method on the target
							for _, ar := range x.Common().Args {
								// (a []byte rooted at the target pointer is the target seen as bytes: copy(id[:], data))
								if rr := rootOf(ar); rr.kind == rkParam && isPtrParam(f, rr.base) {
									storedA = true
								}
							}
						}
					}
				}
				if !storedA {
					stored = false
				}
			}
			c.Oblige("X.scalarstore", stored, r.Pos(), name, "success return stores the decoded value",
				"scalar codecs are read into re-used memory without clearing (packed slices, pooled keys' fields): every success path must overwrite the target", nil)
		}
	}
	c.Floor("X.scalarstore", 12)
}

// lengthLeaf: a WTLength codec whose Descriptor (followed through delegation
// to an embedded or wrapped codec) is a string or a time - a single leaf value.
// The struct, map, slice, pointer and JSON container codecs are not leaves.
func (p *Prog) lengthLeaf(ct *CodecType) bool {
	for depth := 0; ct != nil && depth < 4; depth++ {
		di := p.descriptorInfo(ct)
		switch di.Type {
		case "FieldTypeString", "FieldTypeTime":
			return true
		case "":
		default:
			return false
		}
		if di.DelegType == nil {
			return false
		}
		var next *CodecType
		for _, o := range p.Codecs {
			if types.Identical(derefT(di.DelegType), o.Named) || (o.Named.Origin() != nil && namedOrigin(derefT(di.DelegType)) == o.Named.Origin()) {
				next = o
			}
		}
		ct = next
	}
	return false
}

func namedOrigin(t types.Type) *types.Named {
	if n, ok := t.(*types.Named); ok {
		return n.Origin()
	}
	return nil
}

func isPtrParam(f *ssa.Function, v ssa.Value) bool {
	prm, ok := v.(*ssa.Parameter)
	return ok && isUnsafePointer(prm.Type())
}

// isFailureReturn: the return is dominated by the true branch of err != nil
// for the error value it returns.
func isFailureReturn(f *ssa.Function, r *ssa.Return) bool {
	e := r.Results[len(r.Results)-1]
	if isNilConst(e) {
		return false
	}
	b := r.Block()
	for _, d := range f.Blocks {
		iff, ok := d.Instrs[len(d.Instrs)-1].(*ssa.If)
		if !ok {
			continue
		}
		cmp, ok := iff.Cond.(*ssa.BinOp)
		if !ok || !((cmp.X == e && isNilConst(cmp.Y)) || (cmp.Y == e && isNilConst(cmp.X))) {
			continue
		}
		idx := 0
		if cmp.Op == token.EQL {
			idx = 1
		}
		if dominatedByBranch(d, idx, b) {
			return true
		}
	}
	return false
}

// successAnchors: the blocks whose dominators must have done what a success
// return requires. Normally the return's own block; for a merged return
// "if err == nil { ... }; return n, err" the predecessors that are not on the
// failure side of the test of that very error value. nil: a failure return.
func successAnchors(f *ssa.Function, r *ssa.Return) []*ssa.BasicBlock {
	b := r.Block()
	e := r.Results[len(r.Results)-1]
	if isNilConst(e) {
		return []*ssa.BasicBlock{b}
	}
	if isFailureReturn(f, r) {
		return nil
	}
	if len(b.Preds) < 2 {
		return []*ssa.BasicBlock{b}
	}
	for _, d := range f.Blocks {
		iff, ok := d.Instrs[len(d.Instrs)-1].(*ssa.If)
		if !ok {
			continue
		}
		cmp, ok := iff.Cond.(*ssa.BinOp)
		if !ok || !((cmp.X == e && isNilConst(cmp.Y)) || (cmp.Y == e && isNilConst(cmp.X))) {
			continue
		}
		if cmp.Op != token.EQL && cmp.Op != token.NEQ {
			continue
		}
		fail := 0 // successor index taken when e != nil
		if cmp.Op == token.EQL {
			fail = 1
		}
		if !(d == b || d.Dominates(b)) {
			continue
		}
		var out []*ssa.BasicBlock
		for _, pr := range b.Preds {
			failure := (pr == d && d.Succs[fail] == b) || dominatedByBranch(d, fail, pr)
			if !failure {
				out = append(out, pr)
			}
		}
		return out
	}
	return []*ssa.BasicBlock{b}
}

// ruleStructUntouched: StructCodec.Read writes the target only through the
// field codecs (absent fields keep their prior value).
func ruleStructUntouched(c *Ctx) {
	f := c.P.ssaFunc("plenccodec.StructCodec.Read")
	if f == nil {
		c.Oblige("X.absent", false, token.NoPos, "plenccodec.StructCodec.Read", "function", "not found", nil)
		return
	}
	name := ssaFuncName(f)
	var ptr *ssa.Parameter
	for _, prm := range f.Params {
		if isUnsafePointer(prm.Type()) {
			ptr = prm
		}
	}
	n := 0
	for _, b := range f.Blocks {
		for _, in := range b.Instrs {
			switch x := in.(type) {
			case *ssa.Store:
				if r := rootOf(x.Addr); r.base == ssa.Value(ptr) {
					c.Oblige("X.absent", false, x.Pos(), name, "direct store into the struct", "the struct codec must not write the target itself: fields absent from the data keep their prior value", nil)
				}
			case *ssa.Call:
				cc := x.Common()
				if bi, isBI := cc.Value.(*ssa.Builtin); isBI && bi.Name() == "Add" {
					continue // unsafe.Add(ptr, off): address arithmetic, the result is followed as a pointer into the target
				}
				for _, a := range cc.Args {
					if r := rootOf(a); r.base == ssa.Value(ptr) && isUnsafePointer(a.Type()) {
						n++
						okc := cc.IsInvoke() && cc.Method.Name() == "Read"
						c.Oblige("X.absent", okc, x.Pos(), name, "target pointer passed to "+callName(cc),
							"the only thing that may receive a pointer into the target struct is the field codec's Read (no clearing, no copying of the whole struct)", nil)
					}
				}
			}
		}
	}
	c.Floor("X.absent", 1)
}

// ruleSharedStateInventory: X.state – the mutable shared objects reachable
// from decode/encode are exactly the classified ones.
func ruleSharedStateInventory(c *Ctx) {
	p := c.P
	classified := map[string]string{
		"MapCodec.kPool":              "per-call key scratch (cleared before use: X.clear.pool)",
		"InternedStringCodec.strings": "copy-on-write intern table behind atomic pointer (X.atomic/X.cow)",
		"InternedStringCodec.Mutex":   "serialises table growth only",
		"baseRegistry.codecRegistry":  "codec registry (sync.Map)",
	}
	seen := map[string]bool{}
	var funcs []*ssa.Function
	funcs = append(funcs, p.decodeClosure()...)
	funcs = append(funcs, p.encodeClosure()...)
	funcs = append(funcs, p.buildClosure()...)
	for _, f := range funcs {
		for _, b := range f.Blocks {
			for _, in := range b.Instrs {
				fa, ok := in.(*ssa.FieldAddr)
				if !ok {
					continue
				}
				st, ok := deref(fa.X.Type()).Underlying().(*types.Struct)
				if !ok {
					continue
				}
				ft := st.Field(fa.Field).Type()
				shared := false
				if n, ok := ft.(*types.Named); ok && n.Obj().Pkg() != nil && (n.Obj().Pkg().Path() == "sync" || n.Obj().Pkg().Path() == "sync/atomic") {
					shared = true
				}
				// fields accessed through sync/atomic
				for _, r := range *fa.Referrers() {
					if call, ok := r.(*ssa.Call); ok && isAtomicFunc(call.Common().StaticCallee()) {
						shared = true
					}
				}
				if !shared {
					continue
				}
				key := typeName(deref(fa.X.Type())) + "." + st.Field(fa.Field).Name()
				if seen[key] {
					continue
				}
				seen[key] = true
				why, ok := classified[key]
				c.Oblige("X.state", ok, fa.Pos(), ssaFuncName(f), "shared mutable state "+key,
					"every piece of state shared between calls must be classified and covered by a clearing/copy-on-write rule; "+key+": "+why, nil)
			}
		}
	}
	// package-level synchronisation objects are shared state as well
	for _, pk := range p.Pkgs {
		sc := pk.Types.Scope()
		for _, n := range sc.Names() {
			v, ok := sc.Lookup(n).(*types.Var)
			if !ok {
				continue
			}
			if nt, ok := v.Type().(*types.Named); ok && nt.Obj().Pkg() != nil && (nt.Obj().Pkg().Path() == "sync" || nt.Obj().Pkg().Path() == "sync/atomic") {
				c.Oblige("X.state", false, v.Pos(), shortPkg(pk.PkgPath), "package-level shared state "+n,
					"a package-level pool/map/atomic is shared by every call and every instance and must be classified and covered by a clearing/copy rule", nil)
			}
		}
	}
	// mutable globals read in decode/encode
	writers := p.globalWriters()
	var gl []string
	for g, w := range writers {
		gl = append(gl, fmt.Sprintf("%s written by %v", g.Name(), w))
	}
	sort.Strings(gl)
	c.Oblige("X.state", len(gl) == 0, token.NoPos, "module", "package-level variables written after init",
		"no package-level variable may be written after initialisation: "+strings.Join(gl, "; "), nil)
	c.Floor("X.state", 4)
}

// ---------------------------------------------------------------------------
// C09

func rulePointerWrapper(c *Ctx) {
	p := c.P
	ct := p.codec("plenccodec.PointerWrapper")
	if ct == nil {
		c.Oblige("T.ptr", false, token.NoPos, "plenccodec.PointerWrapper", "type", "not found", nil)
		return
	}
	for _, m := range []string{"Omit", "Size", "Append"} {
		f := p.SSA.FuncValue(ct.Methods[m].Fn)
		name := ssaFuncName(f)
		consultsOmit := false
		tagOK := true
		var tagParam *ssa.Parameter
		for _, prm := range f.Params {
			if isByteSlice(prm.Type()) && prm.Name() == "tag" {
				tagParam = prm
			}
		}
		for _, b := range f.Blocks {
			for _, in := range b.Instrs {
				call, ok := in.(*ssa.Call)
				if !ok || !call.Common().IsInvoke() {
					continue
				}
				switch call.Common().Method.Name() {
				case "Omit":
					consultsOmit = true
				case "Size", "Append":
					args := call.Common().Args
					if args[len(args)-1] != ssa.Value(tagParam) {
						tagOK = false
					}
				}
			}
		}
		c.Oblige("T.ptr", !consultsOmit, f.Pos(), name, m+" does not consult the pointee's Omit",
			"a non-nil pointer is present even when it points at a zero value: only nil may be omitted", nil)
		if m != "Omit" {
			c.Oblige("T.ptr", tagOK, f.Pos(), name, m+" passes the tag through unchanged",
				"a present zero pointee must keep its tag so that it reads back present", nil)
		}
	}
	// Omit is exactly a nil test on the loaded pointer
	// Read: allocate when nil, then always delegate; single return = results of Underlying.Read
	f := p.SSA.FuncValue(ct.Methods["Read"].Fn)
	name := ssaFuncName(f)
	var readCall *ssa.Call
	newStored := false
	for _, b := range f.Blocks {
		for _, in := range b.Instrs {
			switch x := in.(type) {
			case *ssa.Call:
				if x.Common().IsInvoke() && x.Common().Method.Name() == "Read" {
					readCall = x
				}
			case *ssa.Store:
				if call, ok := x.Val.(*ssa.Call); ok && call.Common().IsInvoke() && call.Common().Method.Name() == "New" {
					// stored under the nil test of the same location
					newStored = nonNilAtInverse(f, x)
				}
			}
		}
	}
	rets := 0
	retOK := true
	for _, b := range f.Blocks {
		if r, ok := b.Instrs[len(b.Instrs)-1].(*ssa.Return); ok {
			rets++
			// every return hands back the results of a delegated Read (one call per
			// return is fine: "if *t != nil { return u.Read(..) }; *t = u.New(); return u.Read(..)")
			var tuple ssa.Value
			for _, v := range r.Results {
				ex, ok := v.(*ssa.Extract)
				if !ok {
					retOK = false
					continue
				}
				call, ok := ex.Tuple.(*ssa.Call)
				if !ok || !call.Common().IsInvoke() || call.Common().Method.Name() != "Read" {
					retOK = false
				}
				if tuple != nil && tuple != ex.Tuple {
					retOK = false
				}
				tuple = ex.Tuple
			}
		}
	}
	// the wire type read from the tag is handed on unchanged (the slice readers
	// behind a pointer need to see WTLength to accept the repeated-field form)
	wtOK := true
	var wtParam *ssa.Parameter
	for _, prm := range f.Params {
		if typeName(prm.Type()) == "WireType" {
			wtParam = prm
		}
	}
	for _, b := range f.Blocks {
		for _, in := range b.Instrs {
			if call, ok := in.(*ssa.Call); ok && call.Common().IsInvoke() && call.Common().Method.Name() == "Read" {
				args := call.Common().Args
				if wtParam == nil || len(args) != 3 || args[2] != ssa.Value(wtParam) {
					wtOK = false
				}
			}
		}
	}
	c.Oblige("T.ptr", wtOK, f.Pos(), name, "Read passes the wire type through unchanged",
		"the pointee's codec must see the wire type that was on the wire, not the one the codec would write: a default-mode slice reader behind a pointer accepts the repeated-field form only when it is told WTLength", nil)
	c.Oblige("T.ptr", readCall != nil && newStored && rets >= 1 && retOK, f.Pos(), name, "Read allocates when nil and always delegates",
		fmt.Sprintf("a present pointer must read back non-nil even when its encoding is empty: allocation under the nil test: %v, every return is a delegated Read: %v", newStored, rets >= 1 && retOK), nil)
	c.Floor("T.ptr", 6)
}

// nonNilAtInverse: the store happens in a block dominated by the branch where
// the loaded pointer at the same address is nil.
func nonNilAtInverse(f *ssa.Function, st *ssa.Store) bool {
	for _, d := range f.Blocks {
		iff, ok := d.Instrs[len(d.Instrs)-1].(*ssa.If)
		if !ok {
			continue
		}
		cmp, ok := iff.Cond.(*ssa.BinOp)
		if !ok || (cmp.Op != token.EQL && cmp.Op != token.NEQ) {
			continue
		}
		v := cmp.X
		if isNilConst(v) {
			v = cmp.Y
		} else if !isNilConst(cmp.Y) {
			continue
		}
		ld, ok := v.(*ssa.UnOp)
		if !ok || ld.Op != token.MUL || (ld.X != st.Addr && stripConv(ld.X) != stripConv(st.Addr)) {
			// the same location: go/ssa has no CSE, so `*(*unsafe.Pointer)(ptr)` written twice is two conversions
			continue
		}
		idx := 0
		if cmp.Op == token.NEQ {
			idx = 1
		}
		if dominatedByBranch(d, idx, st.Block()) {
			return true
		}
	}
	return false
}

// ruleNullCodecs: Omit depends only on Valid; every success path of Read sets Valid.
func ruleNullCodecs(c *Ctx) {
	p := c.P
	n := 0
	for _, ct := range p.Codecs {
		if !strings.HasPrefix(ct.Name, "null.") {
			continue
		}
		n++
		// Omit
		fo := p.SSA.FuncValue(ct.Methods["Omit"].Fn)
		name := ssaFuncName(fo)
		okOmit := omitIsNotValid(fo)
		c.Oblige("T.null.omit", okOmit, fo.Pos(), name, "Omit == !Valid",
			"a null value is absent exactly when it is invalid: Omit must be the negation of the Valid flag and depend on nothing else (a valid zero stays present)", nil)
		// Read
		fr := p.SSA.FuncValue(ct.Methods["Read"].Fn)
		rname := ssaFuncName(fr)
		for _, b := range fr.Blocks {
			r, ok := b.Instrs[len(b.Instrs)-1].(*ssa.Return)
			if !ok {
				continue
			}
			anchors := successAnchors(fr, r)
			if len(anchors) == 0 {
				continue
			}
			set := true
			for _, a := range anchors {
				setA := false
				for _, d := range fr.Blocks {
					if !(d == a || d.Dominates(a)) {
						continue
					}
					for _, in := range d.Instrs {
						switch x := in.(type) {
						case *ssa.Store:
							if fa, ok := x.Addr.(*ssa.FieldAddr); ok && fieldName(fa) == "Valid" {
								if cst, ok := x.Val.(*ssa.Const); ok && cst.Value != nil && cst.Value.String() == "true" {
									setA = true
								}
							}
						case *ssa.Call:
							if cal := x.Common().StaticCallee(); cal != nil && cal.Name() == "SetValid" {
								setA = true
							}
						}
					}
				}
				if !setA {
					set = false
				}
			}
			c.Oblige("T.null.read", set, r.Pos(), rname, "success return sets Valid",
				"a value present in the data must read back valid, whatever its content", nil)
		}
	}
	c.Floor("T.null.omit", 6)
	c.Floor("T.null.read", 6)
}

func dependsOnlyOnValid(v ssa.Value) bool {
	u, ok := v.(*ssa.UnOp)
	if !ok || u.Op != token.NOT {
		return false
	}
	switch x := u.X.(type) {
	case *ssa.Field:
		st, ok := x.X.Type().Underlying().(*types.Struct)
		return ok && st.Field(x.Field).Name() == "Valid"
	case *ssa.UnOp:
		if fa, ok := x.X.(*ssa.FieldAddr); ok {
			return fieldName(fa) == "Valid"
		}
	}
	return false
}

// rulePresenceFlag: ExplicitPresence is set by exactly the pointer wrapper and
// the codecs of package null.
func rulePresenceFlag(c *Ctx) {
	p := c.P
	for _, ct := range p.Codecs {
		di := p.descriptorInfo(ct)
		if !di.OK {
			c.Oblige("T.presence", false, ct.Methods["Descriptor"].Fn.Pos(), ct.Name, "Descriptor() shape", "cannot summarise Descriptor(): "+di.Why, nil)
			continue
		}
		want := ct.Name == "plenccodec.PointerWrapper" || strings.HasPrefix(ct.Name, "null.")
		c.Oblige("T.presence", di.Presence == want, ct.Methods["Descriptor"].Fn.Pos(), ct.Name, fmt.Sprintf("ExplicitPresence == %v", want),
			"the descriptor flags explicit presence for exactly the pointer and null codecs (plain fields have no presence)", nil)
	}
	c.Floor("T.presence", 26)
}

// ruleMapSlot: the value slot handed out by mapassign belongs to a map that
// may already hold the key (re-used target): every path from mapassign to a
// success return must either read the value into the slot or clear it.
func ruleMapSlot(c *Ctx) {
	p := c.P
	n := 0
	for _, f := range p.inputFuncs() {
		name := ssaFuncName(f)
		for _, b := range f.Blocks {
			for i, in := range b.Instrs {
				call, ok := in.(*ssa.Call)
				if !ok {
					continue
				}
				cal := call.Common().StaticCallee()
				if cal == nil || cal.Name() != "mapassign" {
					continue
				}
				n++
				slot := ssa.Value(call)
				isSan := func(in2 ssa.Instruction) bool {
					if ptr, ok := isClearCall(in2); ok && ptr == slot {
						return true
					}
					if tgt, _, ok := codecReadTarget(in2); ok && tgt == slot {
						return true
					}
					return false
				}
				// search for a path from just after the call to a success return that avoids sanitisers
				bad := false
				seen := map[*ssa.BasicBlock]bool{}
				var visit func(bb *ssa.BasicBlock, from int)
				visit = func(bb *ssa.BasicBlock, from int) {
					for _, in2 := range bb.Instrs[from:] {
						if isSan(in2) {
							return
						}
						if r, ok := in2.(*ssa.Return); ok {
							if len(r.Results) > 0 && !isFailureReturnLoose(f, r) {
								bad = true
							}
							return
						}
					}
					for _, s := range bb.Succs {
						if !seen[s] {
							seen[s] = true
							visit(s, 0)
						}
					}
				}
				visit(b, i+1)
				c.Oblige("X.clear.mapslot", !bad, call.Pos(), name, "map value slot is written or cleared on every path",
					"mapassign returns the existing slot when the key is already in the (re-used) map: an entry without a value must reset the slot to the zero value, otherwise the old value (e.g. a non-nil pointer for an encoded nil) survives", nil)
			}
		}
	}
	c.Floor("X.clear.mapslot", 1)
}

// isFailureReturnLoose: returns an error built by fmt.Errorf/errors.New, or is
// dominated by err != nil.
func isFailureReturnLoose(f *ssa.Function, r *ssa.Return) bool {
	e := r.Results[len(r.Results)-1]
	if call, ok := e.(*ssa.Call); ok {
		if cal := call.Common().StaticCallee(); cal != nil && (cal.String() == "fmt.Errorf" || cal.String() == "errors.New") {
			return true
		}
	}
	return isFailureReturn(f, r)
}

// clearLoopCoversNewLen: the loop with the given header iterates i = 0 .. N-1
// where N is the value stored into hdr.Len by the function.
func clearLoopCoversNewLen(f *ssa.Function, header *ssa.BasicBlock, hdr ssa.Value) bool {
	// values stored into hdr.Len
	var newLens []ssa.Value
	for _, b := range f.Blocks {
		for _, in := range b.Instrs {
			if st, ok := in.(*ssa.Store); ok {
				if fa, ok := st.Addr.(*ssa.FieldAddr); ok && fa.X == hdr && fieldName(fa) == "Len" {
					newLens = append(newLens, stripConv(st.Val))
				}
			}
		}
	}
	iff, ok := header.Instrs[len(header.Instrs)-1].(*ssa.If)
	if !ok {
		// rotated loop: the test may sit in the latch; look for any If in the loop comparing the phi
		return false
	}
	cmp, ok := iff.Cond.(*ssa.BinOp)
	if !ok || (cmp.Op != token.LSS && cmp.Op != token.NEQ) {
		return false
	}
	phi, ok := cmp.X.(*ssa.Phi)
	if !ok || phi.Block() != header {
		return false
	}
	if cmp.Op == token.NEQ {
		// i != n counts up to n only in steps of one
		for i, e := range phi.Edges {
			if !header.Dominates(header.Preds[i]) {
				continue
			}
			bo, isBO := e.(*ssa.BinOp)
			one := false
			if isBO && bo.Op == token.ADD && bo.X == ssa.Value(phi) {
				if k, isK := bo.Y.(*ssa.Const); isK {
					if v, okv := constBig(k); okv && v.IsInt64() && v.Int64() == 1 {
						one = true
					}
				}
			}
			if !one {
				return false
			}
		}
	}
	// initial value 0 on the entry edge, +1 on the back edge
	zeroInit := false
	for i, e := range phi.Edges {
		pred := header.Preds[i]
		if header.Dominates(pred) {
			continue
		}
		if cst, ok := e.(*ssa.Const); ok {
			if k, ok := constBig(cst); ok && k.Sign() == 0 {
				zeroInit = true
			}
		}
	}
	if !zeroInit {
		return false
	}
	bound := stripConv(cmp.Y)
	for _, nl := range newLens {
		if nl == bound {
			return true
		}
	}
	// the whole array: its capacity is never less than a length it is given
	if ld, ok := bound.(*ssa.UnOp); ok && ld.Op == token.MUL {
		if fa, ok := ld.X.(*ssa.FieldAddr); ok && fa.X == hdr && fieldName(fa) == "Cap" {
			return true
		}
	}
	return false
}

// omitIsNotValid: decided under forced values - with Valid forced to true
// every return that can be taken yields false, with Valid forced to false true,
// whether written !n.Valid, n.Valid == false or as an if.
func omitIsNotValid(fo *ssa.Function) bool {
	okOmit := true
	for _, forced := range []bool{true, false} {
		forced := forced
		fe := feasibleUnder(fo, func(v ssa.Value) (constant.Value, bool) {
			switch x := v.(type) {
			case *ssa.Field:
				if st, ok := x.X.Type().Underlying().(*types.Struct); ok && st.Field(x.Field).Name() == "Valid" {
					return constant.MakeBool(forced), true
				}
			case *ssa.UnOp:
				if fa, ok := x.X.(*ssa.FieldAddr); ok && x.Op == token.MUL && fieldName(fa) == "Valid" {
					return constant.MakeBool(forced), true
				}
			}
			return nil, false
		})
		nret := 0
		for _, b := range fo.Blocks {
			r, ok := b.Instrs[len(b.Instrs)-1].(*ssa.Return)
			if !ok || len(r.Results) != 1 || !fe.reach[b] {
				continue
			}
			nret++
			val, known := fe.eval(r.Results[0], 0)
			if !known || val.Kind() != constant.Bool || constant.BoolVal(val) != !forced {
				okOmit = false
			}
		}
		if nret == 0 || !fe.sawLeaf {
			okOmit = false
		}
	}
	return okOmit
}
