package main

import (
	"fmt"
	"go/types"

	"golang.org/x/tools/go/ssa"
)

// ruleSyncFields: fields of type sync.Map / sync.Pool / sync.Mutex are only
// used as receivers of their methods (or to set Pool.New before publication).
func ruleSyncFields(c *Ctx) {
	p := c.P
	isSync := func(t types.Type) string {
		if n, ok := t.(*types.Named); ok && n.Obj().Pkg() != nil && n.Obj().Pkg().Path() == "sync" {
			return n.Obj().Name()
		}
		return ""
	}
	for _, f := range p.moduleFuncs() {
		name := ssaFuncName(f)
		for _, b := range f.Blocks {
			for _, in := range b.Instrs {
				fa, ok := in.(*ssa.FieldAddr)
				if !ok {
					continue
				}
				st, ok := deref(fa.X.Type()).Underlying().(*types.Struct)
				if !ok {
					continue
				}
				sn := isSync(st.Field(fa.Field).Type())
				if sn == "" {
					continue
				}
				good := true
				for _, r := range *fa.Referrers() {
					switch x := r.(type) {
					case *ssa.Call:
						if cal := x.Common().StaticCallee(); cal != nil && cal.Pkg != nil && cal.Pkg.Pkg.Path() == "sync" && len(x.Common().Args) > 0 && x.Common().Args[0] == ssa.Value(fa) {
							continue
						}
						good = false
					case *ssa.Defer:
						if cal := x.Common().StaticCallee(); cal != nil && cal.Pkg != nil && cal.Pkg.Pkg.Path() == "sync" {
							continue
						}
						good = false
					case *ssa.FieldAddr:
						// Pool.New assignment during construction
						if sn == "Pool" && isBuildFunc(f) {
							continue
						}
						good = false
					case *ssa.DebugRef:
					default:
						good = false
					}
				}
				c.Oblige("X.syncfield", good, fa.Pos(), name, fmt.Sprintf("use of sync.%s field %s", sn, st.Field(fa.Field).Name()),
					"a sync."+sn+" shared between goroutines must only be used through its methods (copying it or touching its fields races)", nil)
			}
		}
	}
	c.Floor("X.syncfield", 8)
}

// rulePublish: nothing that refers to a struct codec under construction may
// become visible to other goroutines before the codec is complete.
//
//	(a) the registry overlay handed to the recursive builds must declare its
//	    own StoreOrSwap (a promoted one forwards to the shared registry), and
//	    that method must not reach a registry/sync.Map store;
//	(b) in BuildStructCodec no store into the codec under construction is
//	    reachable (CFG) from a call that publishes to the parent registry.
func rulePublish(c *Ctx) {
	p := c.P
	fn := p.findFunc("plenccodec", "", "BuildStructCodec")
	if fn == nil {
		c.Oblige("X.publish", false, 0, "plenccodec.BuildStructCodec", "BuildStructCodec", "constructor not found", nil)
		return
	}
	sf := p.SSA.FuncValue(fn.Obj)
	var overlay *types.Named
	var structAlloc ssa.Value
	for _, b := range sf.Blocks {
		for _, in := range b.Instrs {
			if mi, ok := in.(*ssa.MakeInterface); ok {
				if n := namedOf(mi.X.Type()); n != nil && inModule(n.Obj().Pkg()) {
					if _, isReg := mi.Type().Underlying().(*types.Interface); isReg && typeName(mi.Type()) == "CodecRegistry" {
						overlay = n
					}
				}
			}
			if al, ok := in.(*ssa.Alloc); ok && typeName(deref(al.Type())) == "StructCodec" {
				structAlloc = al
			}
		}
	}
	if overlay == nil || structAlloc == nil {
		c.Oblige("X.publish", false, fn.Decl.Pos(), fn.Name(), "overlay registry", "cannot identify the overlay registry / the codec under construction: undecided", nil)
		return
	}
	// (a)
	obj, index, _ := types.LookupFieldOrMethod(overlay, true, overlay.Obj().Pkg(), "StoreOrSwap")
	m, _ := obj.(*types.Func)
	own := m != nil && len(index) == 1
	reaches := ""
	if own {
		if msf := p.SSA.FuncValue(m); msf != nil {
			reaches = reachesPublication(msf, 0, map[*ssa.Function]bool{})
		} else {
			reaches = "no body"
		}
	}
	c.Oblige("X.publish", own && reaches == "", fn.Decl.Pos(), fn.Name(), "overlay "+overlay.Obj().Name()+".StoreOrSwap during construction",
		fmt.Sprintf("BuildStructCodec hands &c to %s and keeps writing c's fields while recursive builds call registry.StoreOrSwap for wrappers that hold &c; the overlay must hold those back (own non-forwarding StoreOrSwap: %v, reaches a shared store: %q) or another goroutine can load a half-built codec and it stays registered if the build fails", overlay.Obj().Name(), own, reaches), nil)
	// (b)
	for _, b := range sf.Blocks {
		for i, in := range b.Instrs {
			call, ok := in.(*ssa.Call)
			if !ok || !call.Common().IsInvoke() {
				continue
			}
			mn := call.Common().Method.Name()
			if mn != "StoreOrSwap" && mn != "Store" {
				continue
			}
			// stores into the codec reachable after this call?
			bad := ""
			seen := map[*ssa.BasicBlock]bool{}
			var visit func(bb *ssa.BasicBlock, from int)
			visit = func(bb *ssa.BasicBlock, from int) {
				for _, in2 := range bb.Instrs[from:] {
					if st, ok := in2.(*ssa.Store); ok {
						if r := rootOf(st.Addr); r.base == structAlloc {
							bad = storeDesc(st)
						}
					}
				}
				for _, s := range bb.Succs {
					if !seen[s] {
						seen[s] = true
						visit(s, 0)
					}
				}
			}
			visit(b, i+1)
			c.Oblige("X.publish", bad == "", call.Pos(), fn.Name(), "publication "+mn+" before the codec is complete",
				"a registry store in BuildStructCodec is followed by a write to the codec under construction ("+bad+")", nil)
		}
	}
	c.Floor("X.publish", 2)
}

// reachesPublication: does f (transitively through static in-module callees)
// store into a registry or sync.Map?
func reachesPublication(f *ssa.Function, depth int, seen map[*ssa.Function]bool) string {
	if f == nil || seen[f] || depth > 4 {
		return ""
	}
	seen[f] = true
	for _, b := range f.Blocks {
		for _, in := range b.Instrs {
			call, ok := in.(*ssa.Call)
			if !ok {
				continue
			}
			cc := call.Common()
			if cc.IsInvoke() {
				if n := cc.Method.Name(); n == "StoreOrSwap" || n == "Store" {
					return "invoke " + typeName(cc.Value.Type()) + "." + n
				}
				continue
			}
			callee := cc.StaticCallee()
			if callee == nil {
				continue
			}
			if s := callee.String(); s == "(*sync.Map).Store" || s == "(*sync.Map).LoadOrStore" || s == "(*sync.Map).Swap" {
				return s
			}
			if callee.Pkg != nil && inModule(callee.Pkg.Pkg) {
				if r := reachesPublication(callee, depth+1, seen); r != "" {
					return r
				}
			}
		}
	}
	return ""
}

// rulePoolLifetime: memory taken from a sync.Pool is not used after it has
// been put back (another goroutine may Get it at once).
func rulePoolLifetime(c *Ctx) {
	p := c.P
	n := 0
	for _, f := range p.moduleFuncs() {
		name := ssaFuncName(f)
		for _, b := range f.Blocks {
			for i, in := range b.Instrs {
				var cc *ssa.CallCommon
				deferred := false
				switch x := in.(type) {
				case *ssa.Call:
					cc = x.Common()
				case *ssa.Defer:
					cc = x.Common()
					deferred = true
				}
				if cc == nil {
					continue
				}
				cal := cc.StaticCallee()
				if cal == nil || cal.String() != "(*sync.Pool).Put" {
					continue
				}
				n++
				if deferred {
					c.Oblige("X.pool-lifetime", true, in.Pos(), name, "pooled memory returned by a deferred Put", "the Put runs when the function returns, after every use", nil)
					continue
				}
				// the pooled value
				v := cc.Args[1]
				if mi, ok := v.(*ssa.MakeInterface); ok {
					v = mi.X
				}
				used := ""
				seen := map[*ssa.BasicBlock]bool{}
				uses := func(in2 ssa.Instruction) bool {
					for _, op := range in2.Operands(nil) {
						if *op == v {
							return true
						}
					}
					return false
				}
				var visit func(bb *ssa.BasicBlock, from int)
				visit = func(bb *ssa.BasicBlock, from int) {
					for _, in2 := range bb.Instrs[from:] {
						if _, isDbg := in2.(*ssa.DebugRef); isDbg {
							continue
						}
						if uses(in2) {
							used = in2.String()
						}
					}
					for _, s := range bb.Succs {
						if !seen[s] {
							seen[s] = true
							visit(s, 0)
						}
					}
				}
				visit(b, i+1)
				c.Oblige("X.pool-lifetime", used == "", in.Pos(), name, "no use of pooled memory after Put",
					"once a scratch object is back in the sync.Pool another goroutine can Get it: it must not be used afterwards ("+used+")", nil)
			}
		}
	}
	c.Floor("X.pool-lifetime", 2)
}
