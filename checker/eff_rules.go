package main

import (
	"fmt"
	"go/constant"
	"go/token"
	"go/types"
	"sort"
	"strings"

	"golang.org/x/tools/go/ssa"
)

func recvTypeName(f *ssa.Function) string {
	if f.Signature.Recv() == nil {
		if f.Parent() != nil {
			return recvTypeName(f.Parent())
		}
		return ""
	}
	if n := namedOf(f.Signature.Recv().Type()); n != nil {
		return n.Obj().Name()
	}
	return ""
}

// inputFuncs: the functions of the decode closure that handle the input bytes
// (everything except the Outputter implementation, which only receives copies).
func (p *Prog) inputFuncs() []*ssa.Function {
	// The outputter's side of the walker never sees the input buffer: the
	// methods of JSONOutput and the helpers that only they (transitively) call
	// work on the output buffer.
	callers := map[*ssa.Function][]*ssa.Function{}
	for _, f := range p.moduleFuncs() {
		for _, b := range f.Blocks {
			for _, in := range b.Instrs {
				if call, ok := in.(ssa.CallInstruction); ok {
					if cal := call.Common().StaticCallee(); cal != nil && cal.Pkg != nil && inModule(cal.Pkg.Pkg) {
						callers[origin(cal)] = append(callers[origin(cal)], origin(f))
					}
				}
			}
		}
	}
	outSide := map[*ssa.Function]bool{}
	for _, f := range p.decodeClosure() {
		if recvTypeName(f) == "JSONOutput" {
			outSide[f] = true
		}
	}
	for changed := true; changed; {
		changed = false
		for _, f := range p.decodeClosure() {
			if outSide[f] || len(callers[origin(f)]) == 0 || f.Parent() != nil {
				continue
			}
			all := true
			for _, cl := range callers[origin(f)] {
				if !outSide[cl] {
					all = false
				}
			}
			if all {
				outSide[f] = true
				changed = true
			}
		}
	}
	var out []*ssa.Function
	for _, f := range p.decodeClosure() {
		if outSide[f] {
			continue
		}
		out = append(out, f)
	}
	return out
}

func instrDesc(in ssa.Instruction) string {
	s := in.String()
	if v, ok := in.(ssa.Value); ok && v.Name() != "" {
		s = v.Name() + " = " + s
	}
	return s
}

// srcDesc renders an instruction in a position-free, register-free way for keys.
func storeDesc(st *ssa.Store) string {
	return fmt.Sprintf("store %s into %s", typeStr(st.Val.Type()), rootOf(st.Addr).kindOnly())
}

func (r rootT) kindOnly() string {
	s := r.String()
	if i := strings.Index(s, ":"); i >= 0 {
		if r.base != nil {
			if p, ok := r.base.(*ssa.Parameter); ok {
				return "param:" + p.Name()
			}
			if g, ok := r.base.(*ssa.Global); ok {
				return "global:" + g.Name()
			}
		}
		return s[:i]
	}
	return s
}

// ---------------------------------------------------------------------------
// X.taint (decode side): nothing derived from the input buffer is retained

func ruleNoAliasDecode(c *Ctx, only func(*ssa.Function) bool) {
	p := c.P
	funcs := p.inputFuncs()
	inSet := map[*ssa.Function]bool{}
	for _, f := range funcs {
		inSet[f] = true
	}
	// tainted parameters, interprocedurally
	tparams := map[*ssa.Function]map[int]bool{}
	addParam := func(f *ssa.Function, i int) bool {
		f = origin(f)
		if !inSet[f] {
			return false
		}
		if tparams[f] == nil {
			tparams[f] = map[int]bool{}
		}
		if tparams[f][i] {
			return false
		}
		tparams[f][i] = true
		return true
	}
	for _, f := range funcs {
		for i, prm := range f.Params {
			if isByteSlice(prm.Type()) {
				addParam(f, i)
			}
		}
	}
	// summaries: does the result alias param i?  (fixpoint)
	retAlias := map[*ssa.Function]map[int]bool{}
	summ := func(callee *ssa.Function, i int) bool {
		return retAlias[origin(callee)][i]
	}
	analyse := func(f *ssa.Function) *aliasTaint {
		var srcs []ssa.Value
		for i := range tparams[f] {
			if i < len(f.Params) {
				srcs = append(srcs, f.Params[i])
			}
		}
		return newAliasTaint(f, srcs, summ)
	}
	for round := 0; round < 10; round++ {
		changed := false
		for _, f := range funcs {
			if len(f.Blocks) == 0 || len(tparams[f]) == 0 {
				continue
			}
			at := analyse(f)
			for _, b := range f.Blocks {
				for _, in := range b.Instrs {
					switch x := in.(type) {
					case *ssa.Return:
						for _, r := range x.Results {
							if at.tainted[r] && pointerCarrying(r.Type()) {
								for i := range tparams[f] {
									if retAlias[f] == nil {
										retAlias[f] = map[int]bool{}
									}
									if !retAlias[f][i] {
										retAlias[f][i] = true
										changed = true
									}
								}
							}
						}
					case *ssa.Call:
						cc := x.Common()
						if callee := cc.StaticCallee(); callee != nil {
							for i, a := range cc.Args {
								if at.tainted[a] && pointerCarrying(a.Type()) && addParam(callee, i) {
									changed = true
								}
							}
						}
					}
				}
			}
		}
		if !changed {
			break
		}
	}
	nfuncs := 0
	for _, f := range funcs {
		if len(f.Blocks) == 0 || len(tparams[f]) == 0 || (only != nil && !only(f)) {
			continue
		}
		nfuncs++
		name := ssaFuncName(f)
		c.Funcs[name] = true
		at := analyse(f)
		for _, b := range f.Blocks {
			for _, in := range b.Instrs {
				switch x := in.(type) {
				case *ssa.Store:
					if at.tainted[x.Val] && pointerCarrying(x.Val.Type()) {
						r := rootOf(x.Addr)
						ok := r.kind == rkLocal || r.kind == rkFresh
						c.Oblige("X.taint.store", ok, x.Pos(), name, storeDesc(x),
							fmt.Sprintf("a value that shares memory with the input buffer (%s) is stored into %s: the decoded value would change when the caller re-uses its buffer", at.path(x.Val), r), nil)
					} else if pointerCarrying(x.Val.Type()) {
						c.Oblige("X.taint.store", true, x.Pos(), name, storeDesc(x), "stored value does not derive from the input buffer (copies kill taint)", nil)
					}
					if at.tainted[x.Addr] {
						c.Oblige("X.inputro", false, x.Pos(), name, "store through pointer into input",
							fmt.Sprintf("store through a pointer into the input buffer (%s): Unmarshal must not modify its input", at.path(x.Addr)), nil)
					}
				case *ssa.MapUpdate:
					bad := (at.tainted[x.Key] && pointerCarrying(x.Key.Type())) || (at.tainted[x.Value] && pointerCarrying(x.Value.Type()))
					c.Oblige("X.taint.map", !bad, x.Pos(), name, "map update "+typeStr(x.Map.Type()),
						"map key/value must not share memory with the input buffer", nil)
				case *ssa.Return:
					for _, r := range x.Results {
						if pointerCarrying(r.Type()) && !isErrorType(r.Type()) {
							c.Oblige("X.taint.ret", !at.tainted[r], x.Pos(), name, "return "+typeStr(r.Type()),
								"a decoder result must not share memory with the input buffer: "+at.path(r), nil)
						}
					}
				case *ssa.Call:
					cc := x.Common()
					if bi, ok := cc.Value.(*ssa.Builtin); ok {
						switch bi.Name() {
						case "copy":
							c.Oblige("X.inputro", !at.tainted[cc.Args[0]], x.Pos(), name, "copy into input", "copy() into the input buffer", nil)
						case "append":
							c.Oblige("X.inputro", !at.tainted[cc.Args[0]], x.Pos(), name, "append to input", "append() onto (a slice of) the input buffer may overwrite the caller's bytes beyond the slice", nil)
						}
						continue
					}
					if f2 := cc.StaticCallee(); f2 != nil && f2.Pkg != nil {
						pk := f2.Pkg.Pkg.Path()
						retaining := false
						if pk == "sync/atomic" && (strings.HasPrefix(f2.Name(), "Store") || strings.HasPrefix(f2.Name(), "Swap") || strings.HasPrefix(f2.Name(), "CompareAndSwap")) {
							retaining = true
						}
						if pk == "sync" && (f2.Name() == "Store" || f2.Name() == "LoadOrStore" || f2.Name() == "Put" || f2.Name() == "Swap") {
							retaining = true
						}
						if f2.Name() == "mapassign" || f2.Name() == "typedmemmove" {
							// copies memory *contents*; a pointer into the input as key/src would copy scalars only,
							// but a tainted pointer as destination writes into the input
							if len(cc.Args) > 1 && at.tainted[cc.Args[1]] {
								c.Oblige("X.inputro", false, x.Pos(), name, f2.Name()+" into input", "runtime copy into the input buffer", nil)
							}
						}
						if retaining {
							bad := false
							for _, a := range cc.Args {
								if at.tainted[a] && pointerCarrying(a.Type()) {
									bad = true
								}
							}
							c.Oblige("X.taint.retain", !bad, x.Pos(), name, "call "+f2.Name(),
								"a pointer into the input buffer is handed to a retaining primitive (shared table / pool)", nil)
						}
					}
				}
			}
		}
	}
	c.Note("alias analysis over %d input-handling functions", nfuncs)
}

// ---------------------------------------------------------------------------
// X.ro / X.appendonly / X.pure (encode side)

func encodeFuncs(p *Prog) []*ssa.Function {
	var out []*ssa.Function
	for _, f := range p.encodeClosure() {
		if recvTypeName(f) == "JSONOutput" {
			continue
		}
		out = append(out, f)
	}
	return out
}

func ruleEncodeRO(c *Ctx) {
	for _, f := range encodeFuncs(c.P) {
		name := ssaFuncName(f)
		if len(f.Blocks) == 0 {
			continue
		}
		c.Funcs[name] = true
		for _, b := range f.Blocks {
			for _, in := range b.Instrs {
				switch x := in.(type) {
				case *ssa.Store:
					r := rootOf(x.Addr)
					ok := r.kind == rkLocal || r.kind == rkFresh || r.kind == rkFreeVar
					if r.kind == rkFreeVar && r.loaded > 0 {
						ok = false
					}
					if r.kind == rkLocal && r.loaded > 0 {
						ok = false
					}
					if !ok && r.kind == rkParam && r.loaded == 0 {
						if prm, isP := r.base.(*ssa.Parameter); isP && callersPassLocal(c.P, f, prm) {
							ok = true
						}
					}
					c.Oblige("X.ro", ok, x.Pos(), name, storeDesc(x),
						fmt.Sprintf("encoders may only write to their own locals; this store goes to %s (the value being marshalled, codec state or a global)", r), nil)
				case *ssa.MapUpdate:
					r := rootOf(x.Map)
					c.Oblige("X.ro", r.kind == rkFresh || (r.kind == rkLocal && r.loaded == 0), x.Pos(), name, "map update "+typeStr(x.Map.Type()), "encoders must not update maps they did not create", nil)
				case *ssa.Call:
					if f2 := x.Common().StaticCallee(); f2 != nil {
						switch f2.Name() {
						case "typedmemmove", "typedmemclr", "mapassign", "typedslicecopy":
							if f2.Pkg != nil && inModule(f2.Pkg.Pkg) {
								c.Oblige("X.ro", false, x.Pos(), name, "call "+f2.Name(), "encoders must not call memory-writing runtime primitives", nil)
							}
						}
						// writes made through reflection (C11-r14-m3): a reflect.Value mutator on a Value that was not
						// made by this function (reflect.New / MakeMap / MakeSlice / Zero and what is derived from it)
						if f2.Pkg != nil && f2.Pkg.Pkg.Path() == "reflect" && reflectMutator(f2) {
							fresh := false
							if len(x.Common().Args) > 0 {
								fresh = reflectFresh(x.Common().Args[0], 0)
							}
							c.Oblige("X.ro", fresh, x.Pos(), name, "call reflect."+f2.Name(),
								"encoders must not write to the value being marshalled through reflection: the receiver of this reflect mutator is not a value the function made itself", nil)
						}
					}
				}
			}
		}
	}
	c.Floor("X.ro", 10)
}

// derivedBuffer: []byte values that are the buffer source (the data parameter,
// or for closures the captured buffer variable) extended by appends. Local
// variables (allocs, captured variables) holding the buffer are handled
// optimistically: a variable is "buffer-only" unless a non-derived value is
// stored into it (greatest fixpoint).
func derivedBuffer(f *ssa.Function, data ssa.Value) (map[ssa.Value]bool, map[ssa.Value]bool) {
	bufVars := map[ssa.Value]bool{} // allocs / freevars of type *[]byte assumed buffer-only
	for _, b := range f.Blocks {
		for _, in := range b.Instrs {
			if al, ok := in.(*ssa.Alloc); ok && isByteSlice(deref(al.Type())) {
				bufVars[al] = true
			}
		}
	}
	for _, fv := range f.FreeVars {
		if isByteSlice(deref(fv.Type())) {
			bufVars[fv] = true
		}
	}
	var d map[ssa.Value]bool
	for round := 0; round < 10; round++ {
		d = map[ssa.Value]bool{}
		if data != nil {
			d[data] = true
		}
		changed := true
		for changed {
			changed = false
			for _, b := range f.Blocks {
				for _, in := range b.Instrs {
					v, ok := in.(ssa.Value)
					if !ok || d[v] {
						continue
					}
					switch x := in.(type) {
					case *ssa.Call:
						cc := x.Common()
						if bi, ok := cc.Value.(*ssa.Builtin); ok {
							if bi.Name() == "append" && d[cc.Args[0]] {
								d[v] = true
								changed = true
							}
							continue
						}
						// a callee that takes the buffer and returns a []byte (possibly in a tuple): append-like by contract
						for _, a := range cc.Args {
							if isByteSlice(a.Type()) {
								if d[a] {
									d[v] = true
									changed = true
								}
								break
							}
						}
					case *ssa.Extract:
						if d[x.Tuple] && isByteSlice(x.Type()) {
							d[v] = true
							changed = true
						}
					case *ssa.Phi:
						if !isByteSlice(x.Type()) {
							continue
						}
						all := true
						for _, e := range x.Edges {
							if !d[e] {
								all = false
							}
						}
						if all {
							d[v] = true
							changed = true
						}
					case *ssa.UnOp:
						if x.Op == token.MUL && bufVars[x.X] {
							d[v] = true
							changed = true
						}
					}
				}
			}
		}
		// retract variables that receive a non-derived store
		retracted := false
		for _, b := range f.Blocks {
			for _, in := range b.Instrs {
				if st, ok := in.(*ssa.Store); ok && bufVars[st.Addr] && !d[st.Val] {
					delete(bufVars, st.Addr)
					retracted = true
				}
			}
		}
		if !retracted {
			break
		}
	}
	return d, bufVars
}

func ruleAppendOnly(c *Ctx) {
	for _, f := range encodeFuncs(c.P) {
		if len(f.Blocks) == 0 {
			continue
		}
		name := ssaFuncName(f)
		var data *ssa.Parameter
		for _, prm := range f.Params {
			if isByteSlice(prm.Type()) {
				data = prm
				break
			}
		}
		hasBufVar := false
		for _, fv := range f.FreeVars {
			if isByteSlice(deref(fv.Type())) {
				hasBufVar = true
			}
		}
		if data == nil && !hasBufVar {
			continue
		}
		rs := resultTypes(f)
		retIdx := -1
		for i, t := range rs {
			if isByteSlice(t) {
				retIdx = i
			}
		}
		var dataV ssa.Value
		if data != nil {
			dataV = data
		}
		d, bufVars := derivedBuffer(f, dataV)
		for _, fv := range f.FreeVars {
			if isByteSlice(deref(fv.Type())) {
				c.Oblige("X.appendonly", bufVars[fv], f.Pos(), name, "captured buffer variable "+fv.Name(),
					"a closure assigns something other than the buffer extended by appends to the captured output buffer", nil)
			}
		}
		for _, b := range f.Blocks {
			for _, in := range b.Instrs {
				switch x := in.(type) {
				case *ssa.Slice:
					if d[x.X] {
						c.Oblige("X.appendonly", false, x.Pos(), name, "reslice of the output buffer",
							"the caller's buffer is resliced (truncated or re-based) instead of being appended to: bytes below its length may be dropped or overwritten", nil)
					}
				case *ssa.IndexAddr:
					if d[x.X] {
						c.Oblige("X.appendonly", false, x.Pos(), name, "index into the output buffer",
							"the caller's buffer is indexed directly; encoders may only append", nil)
					}
				case *ssa.Return:
					if retIdx >= 0 && retIdx < len(x.Results) {
						r := x.Results[retIdx]
						ok := d[r]
						why := "the returned buffer is the data parameter extended by appends"
						if !ok {
							if len(x.Results) == 2 && isErrorType(x.Results[1].Type()) && !isNilConst(x.Results[1]) && isNilConst(r) {
								// error return
								continue
							}
							if data != nil {
								ok, why = marshalFreshOK(f, data, r)
							}
						}
						c.Oblige("X.appendonly", ok, x.Pos(), name, "return buffer", why, nil)
					}
				}
			}
		}
		c.Funcs[name] = true
	}
	c.Floor("X.appendonly", 30)
}

// marshalFreshOK: value returned is derived from phi(data, make(...)) where the
// make happens only when data == nil.
func marshalFreshOK(f *ssa.Function, data *ssa.Parameter, r ssa.Value) (bool, string) {
	// extend derivation: treat MakeSlice dominated by the true edge of data == nil as equivalent to data
	seen := map[ssa.Value]bool{}
	var ok func(v ssa.Value) bool
	ok = func(v ssa.Value) bool {
		if v == ssa.Value(data) {
			return true
		}
		if seen[v] {
			return true
		}
		seen[v] = true
		switch x := v.(type) {
		case *ssa.MakeSlice:
			return dominatedByNilTest(x.Block(), data)
		case *ssa.Phi:
			for _, e := range x.Edges {
				if !ok(e) {
					return false
				}
			}
			return true
		case *ssa.Call:
			cc := x.Common()
			if bi, isB := cc.Value.(*ssa.Builtin); isB {
				return bi.Name() == "append" && ok(cc.Args[0])
			}
			for _, a := range cc.Args {
				if isByteSlice(a.Type()) {
					return ok(a)
				}
			}
		}
		return false
	}
	if ok(r) {
		return true, "the returned buffer is data extended by appends (or a fresh buffer when data == nil)"
	}
	return false, "a success return does not return the caller's buffer extended by appends: the existing prefix is lost"
}

// dominatedByNilTest: block b runs only when data is nil - it is unreachable
// once data is forced to be something other than nil, whichever way the test
// is written.
func dominatedByNilTest(b *ssa.BasicBlock, data *ssa.Parameter) bool {
	f := b.Parent()
	fe := feasibleFrom(f, f.Blocks[0], true, func(v ssa.Value) (constant.Value, bool) {
		if v == ssa.Value(data) {
			return feasNonNil, true
		}
		return nil, false
	})
	return fe.sawLeaf && !fe.reach[b]
}

// globalsWrittenOutsideInit: globals of the module with a Store (or address
// escape) outside package initialisers.
func (p *Prog) globalWriters() map[*ssa.Global][]string {
	out := map[*ssa.Global][]string{}
	for _, f := range p.moduleFuncs() {
		isInit := f.Name() == "init" || strings.HasPrefix(f.Name(), "init#")
		for _, b := range f.Blocks {
			for _, in := range b.Instrs {
				st, ok := in.(*ssa.Store)
				if !ok {
					continue
				}
				r := rootOf(st.Addr)
				if r.kind == rkGlobal && r.loaded == 0 && !isInit {
					g := r.base.(*ssa.Global)
					out[g] = append(out[g], ssaFuncName(f))
				}
			}
		}
	}
	return out
}

var nondetCalls = map[string]bool{"time.Now": true, "time.Since": true, "os.Getenv": true, "os.Getpid": true}

func rulePure(c *Ctx) {
	p := c.P
	writers := p.globalWriters()
	for _, f := range encodeFuncs(p) {
		if len(f.Blocks) == 0 {
			continue
		}
		name := ssaFuncName(f)
		for _, b := range f.Blocks {
			for _, in := range b.Instrs {
				for _, op := range in.Operands(nil) {
					if g, ok := (*op).(*ssa.Global); ok && g.Pkg != nil && inModule(g.Pkg.Pkg) {
						w := writers[g]
						c.Oblige("X.pure.global", len(w) == 0, in.Pos(), name, "global "+g.Name(),
							fmt.Sprintf("encoders may read package-level state only if nothing writes it after initialisation; %s is written by %v", g.Name(), w), nil)
					}
				}
				if call, ok := in.(*ssa.Call); ok {
					if f2 := call.Common().StaticCallee(); f2 != nil {
						n := f2.String()
						bad := nondetCalls[n] || strings.HasPrefix(n, "math/rand.") || strings.HasPrefix(n, "(*math/rand.") ||
							n == "(*sync.Pool).Get" || n == "(*sync.Pool).Put" || strings.HasPrefix(n, "(*sync.Map).")
						c.Oblige("X.pure.call", !bad, in.Pos(), name, "call "+n,
							"the encoding must be a function of the value and immutable codec configuration: no clock, randomness, pool or shared table may be consulted while encoding", nil)
					}
				}
				// receiver state written in the encode closure is covered by X.ro
			}
		}
	}
	c.Floor("X.pure.call", 50)
}

// codecFieldReadersWriters: mutable codec state = fields of codec types that
// are stored to outside the build closure.
func ruleNoStateCache(c *Ctx) {
	// any Store in encode or decode closure whose address is rooted at a
	// receiver of a codec type is a write to shared codec state.
	p := c.P
	codecNames := map[string]bool{}
	for _, ct := range p.Codecs {
		codecNames[ct.Named.Obj().Name()] = true
	}
	seen := map[*ssa.Function]bool{}
	var funcs []*ssa.Function
	for _, f := range append(append([]*ssa.Function{}, p.decodeClosure()...), p.encodeClosure()...) {
		if !seen[f] {
			seen[f] = true
			funcs = append(funcs, f)
		}
	}
	for _, f := range p.codecMethodFuncs("Descriptor") {
		if !seen[f] {
			seen[f] = true
			funcs = append(funcs, f)
		}
	}
	for _, f := range p.codecMethodFuncs("New") {
		if !seen[f] {
			seen[f] = true
			funcs = append(funcs, f)
		}
	}
	sort.Slice(funcs, func(i, j int) bool { return ssaFuncName(funcs[i]) < ssaFuncName(funcs[j]) })
	for _, f := range funcs {
		if len(f.Blocks) == 0 {
			continue
		}
		name := ssaFuncName(f)
		c.Funcs[name] = true
		isCodecMethod := codecNames[recvTypeName(f)]
		for _, b := range f.Blocks {
			for _, in := range b.Instrs {
				var addr ssa.Value
				var pos token.Pos
				desc := ""
				switch x := in.(type) {
				case *ssa.Store:
					addr, pos, desc = x.Addr, x.Pos(), storeDesc(x)
				case *ssa.MapUpdate:
					addr, pos, desc = x.Map, x.Pos(), "map update "+typeStr(x.Map.Type())
				default:
					continue
				}
				r := rootOf(addr)
				bad := false
				why := ""
				switch r.kind {
				case rkGlobal:
					bad, why = true, "a package-level variable"
				case rkParam:
					if prm, ok := r.base.(*ssa.Parameter); ok && isCodecMethod && len(f.Params) > 0 && prm == f.Params[0] && f.Signature.Recv() != nil {
						bad, why = true, "the codec itself (receiver state shared by every goroutine using the codec)"
					}
				case rkFreeVar:
					// closure writing a captured variable of the enclosing call: per-call state
				}
				c.Oblige("X.write", !bad, pos, name, desc,
					"after construction codecs are shared without locks, so the API closure may write only to the target, its locals and through sync/atomic primitives; this writes "+why+" ("+r.String()+")", nil)
			}
		}
	}
	c.Floor("X.write", 60)
}

func isAtomicFunc(f *ssa.Function) bool {
	return f != nil && f.Pkg != nil && f.Pkg.Pkg.Path() == "sync/atomic"
}

// ruleAtomicFields: a struct field whose address is passed to sync/atomic is
// accessed only that way; maps loaded atomically are never updated; maps
// stored atomically are fresh.
func ruleAtomicFields(c *Ctx) {
	p := c.P
	type fieldKey struct {
		st  *types.Struct
		idx int
	}
	atomicFields := map[fieldKey]string{}
	fieldOf := func(v ssa.Value) (fieldKey, bool) {
		fa, ok := v.(*ssa.FieldAddr)
		if !ok {
			return fieldKey{}, false
		}
		st, ok := deref(fa.X.Type()).Underlying().(*types.Struct)
		if !ok {
			return fieldKey{}, false
		}
		return fieldKey{st, fa.Field}, true
	}
	funcs := p.moduleFuncs()
	for _, f := range funcs {
		for _, b := range f.Blocks {
			for _, in := range b.Instrs {
				if call, ok := in.(*ssa.Call); ok && isAtomicFunc(call.Common().StaticCallee()) && len(call.Common().Args) > 0 {
					if k, ok := fieldOf(call.Common().Args[0]); ok {
						atomicFields[k] = k.st.Field(k.idx).Name()
					}
				}
			}
		}
	}
	for _, f := range funcs {
		name := ssaFuncName(f)
		for _, b := range f.Blocks {
			for _, in := range b.Instrs {
				fa, ok := in.(*ssa.FieldAddr)
				if !ok {
					continue
				}
				k, _ := fieldOf(fa)
				fname, isAtomic := atomicFields[k]
				if !isAtomic {
					continue
				}
				good := true
				for _, r := range *fa.Referrers() {
					if call, ok := r.(*ssa.Call); ok && isAtomicFunc(call.Common().StaticCallee()) {
						continue
					}
					if _, ok := r.(*ssa.DebugRef); ok {
						continue
					}
					good = false
				}
				c.Oblige("X.atomic", good, fa.Pos(), name, "access to field "+fname,
					"field "+fname+" is published with sync/atomic elsewhere, so every access must go through sync/atomic (a plain read or write is a data race)", nil)
			}
		}
	}
	c.Floor("X.atomic", 2)
	// copy-on-write
	for _, f := range funcs {
		name := ssaFuncName(f)
		for _, b := range f.Blocks {
			for _, in := range b.Instrs {
				switch x := in.(type) {
				case *ssa.MapUpdate:
					if derivesFromAtomicLoad(x.Map, 0) {
						c.Oblige("X.cow", false, x.Pos(), name, "update of atomically loaded map",
							"a map obtained through atomic.LoadPointer is shared with lock-free readers and must never be updated in place", nil)
					} else {
						c.Oblige("X.cow", true, x.Pos(), name, "map update "+typeStr(x.Map.Type()), "map is not the published table", nil)
					}
				case *ssa.Call:
					f2 := x.Common().StaticCallee()
					if isAtomicFunc(f2) && strings.HasPrefix(f2.Name(), "StorePointer") && len(x.Common().Args) == 2 {
						r := rootOf(x.Common().Args[1])
						c.Oblige("X.cow", r.kind == rkFresh || r.kind == rkLocal, x.Pos(), name, "atomic.StorePointer of table",
							"the table published with atomic.StorePointer must be a map created in this function (copy-on-write), found "+r.String(), nil)
					}
				}
			}
		}
	}
}

func derivesFromAtomicLoad(v ssa.Value, depth int) bool {
	if v == nil || depth > 30 {
		return false
	}
	switch x := v.(type) {
	case *ssa.Call:
		f := x.Common().StaticCallee()
		return isAtomicFunc(f) && strings.HasPrefix(f.Name(), "Load")
	case *ssa.UnOp:
		if x.Op == token.MUL {
			// load from a local that holds the loaded pointer
			if al, ok := stripConv(x.X).(*ssa.Alloc); ok {
				for _, r := range *al.Referrers() {
					if st, ok := r.(*ssa.Store); ok && st.Addr == al && derivesFromAtomicLoad(st.Val, depth+1) {
						return true
					}
				}
				return false
			}
		}
		return derivesFromAtomicLoad(x.X, depth+1)
	case *ssa.Convert:
		return derivesFromAtomicLoad(x.X, depth+1)
	case *ssa.ChangeType:
		return derivesFromAtomicLoad(x.X, depth+1)
	case *ssa.Phi:
		for _, e := range x.Edges {
			if derivesFromAtomicLoad(e, depth+1) {
				return true
			}
		}
	}
	return false
}

func stripConv(v ssa.Value) ssa.Value {
	for {
		switch x := v.(type) {
		case *ssa.Convert:
			v = x.X
		case *ssa.ChangeType:
			v = x.X
		default:
			return v
		}
	}
}

// callersPassLocal: every static call site of f in the module passes memory
// created by the caller (a local or fresh allocation) for parameter prm.
func callersPassLocal(p *Prog, f *ssa.Function, prm *ssa.Parameter) bool {
	idx := -1
	for i, q := range f.Params {
		if q == prm {
			idx = i
		}
	}
	if idx < 0 {
		return false
	}
	sites := 0
	for _, g := range p.moduleFuncs() {
		for _, b := range g.Blocks {
			for _, in := range b.Instrs {
				var cc *ssa.CallCommon
				switch x := in.(type) {
				case *ssa.Call:
					cc = x.Common()
				case *ssa.Defer:
					cc = x.Common()
				case *ssa.Go:
					cc = x.Common()
				}
				if cc == nil || cc.IsInvoke() || origin(cc.StaticCallee()) != origin(f) {
					continue
				}
				sites++
				if idx >= len(cc.Args) {
					return false
				}
				r := rootOf(cc.Args[idx])
				if !((r.kind == rkLocal || r.kind == rkFresh) && r.loaded == 0) {
					return false
				}
			}
		}
	}
	return sites > 0
}

// reflectMutator: functions of package reflect that write to the memory a
// reflect.Value refers to.
func reflectMutator(f *ssa.Function) bool {
	n := f.Name()
	if f.Signature.Recv() != nil {
		if typeName(f.Signature.Recv().Type()) != "Value" {
			return false
		}
		if strings.HasPrefix(n, "Set") || n == "Clear" || n == "Grow" {
			return true
		}
		return false
	}
	return n == "Copy"
}

// reflectFresh: v is a reflect.Value made by this function (New, MakeMap,
// MakeSlice, MakeMapWithSize, Zero) or derived from one by Elem/Index/Field.
func reflectFresh(v ssa.Value, depth int) bool {
	if depth > 8 {
		return false
	}
	switch x := v.(type) {
	case *ssa.Call:
		f := x.Common().StaticCallee()
		if f == nil || f.Pkg == nil || f.Pkg.Pkg.Path() != "reflect" {
			return false
		}
		switch f.Name() {
		case "New", "MakeMap", "MakeMapWithSize", "MakeSlice", "Zero":
			return f.Signature.Recv() == nil
		case "Elem", "Index", "Field", "FieldByName", "FieldByIndex":
			if f.Signature.Recv() != nil && len(x.Common().Args) > 0 {
				return reflectFresh(x.Common().Args[0], depth+1)
			}
		}
	case *ssa.UnOp:
		if x.Op == token.MUL {
			if a, ok := x.X.(*ssa.Alloc); ok {
				// a spilled local holding one value
				var stored ssa.Value
				n := 0
				for _, r := range *a.Referrers() {
					if st, ok := r.(*ssa.Store); ok && st.Addr == ssa.Value(a) {
						stored = st.Val
						n++
					}
				}
				if n == 1 {
					return reflectFresh(stored, depth+1)
				}
			}
		}
	}
	return false
}
