package main

import (
	"fmt"
	"go/ast"
	"go/constant"
	"go/token"
	"go/types"
	"strconv"
	"strings"

	"golang.org/x/tools/go/packages"
)

// emitEngine evaluates encoder bodies symbolically into emission / size terms.
// It is an effect analysis over the typed AST: no paths are enumerated and no
// values chosen; conditionals, loops and type switches become term constructors.
type emitEngine struct {
	p         *Prog
	undecided []string
}

type closureVal struct {
	lit *ast.FuncLit
	fr  *frame
}

type envT map[types.Object]*T

type frame struct {
	E        *emitEngine
	pkg      *packages.Package
	info     *types.Info
	env      envT
	subst    substMap
	depth    int
	fn       string
	decl     ast.Node // enclosing FuncDecl or FuncLit (for assignment scans)
	closures map[types.Object]*closureVal
	loopN    *int
	lastIter *T // map operand of the last mapiterinit call
	results  []types.Object
	// brkSwitch: a break statement ends the enclosing switch clause (not a loop)
	brkSwitch bool
}

const (
	oNormal = iota
	oReturn
	oContinue
	oBreak
)

type outcome struct {
	kind int
	ret  *T
	env  envT
}

func (E *emitEngine) fail(fn string, n ast.Node, why string) {
	pos := "-"
	if n != nil {
		pos = E.p.pos(n.Pos())
	}
	E.undecided = append(E.undecided, fmt.Sprintf("%s: %s (%s)", fn, why, pos))
}

func copyEnv(e envT) envT {
	c := make(envT, len(e))
	for k, v := range e {
		c[k] = v
	}
	return c
}

// mergeEnv: per-variable conditional merge.
func mergeEnv(c *T, a, b envT) envT {
	out := envT{}
	for k, va := range a {
		if vb, ok := b[k]; ok {
			if va == vb || eq(va, vb) {
				out[k] = va
			} else {
				out[k] = tIf(c, va, vb)
			}
		}
	}
	return out
}

// ---------------------------------------------------------------------------
// expressions

func (f *frame) typeStrS(t types.Type) string {
	return typeStr(substType(t, f.subst))
}

func zeroTerm(t types.Type) *T {
	switch u := t.Underlying().(type) {
	case *types.Basic:
		switch {
		case u.Info()&types.IsNumeric != 0:
			return tConst(0)
		case u.Info()&types.IsString != 0:
			return mk("str", "")
		case u.Info()&types.IsBoolean != 0:
			return mk("k", "false")
		}
	case *types.Slice, *types.Pointer, *types.Map, *types.Interface:
		return mk("nil", "")
	}
	return mk("zero", typeStr(t))
}

func (f *frame) eval(e ast.Expr) *T {
	e = ast.Unparen(e)
	if tv, ok := f.info.Types[e]; ok && tv.Value != nil {
		switch tv.Value.Kind() {
		case constant.Int:
			if v, ok := constant.Int64Val(tv.Value); ok {
				return tConst(v)
			}
		case constant.Float:
			if iv := constant.ToInt(tv.Value); iv.Kind() == constant.Int {
				if v, ok := constant.Int64Val(iv); ok {
					return tConst(v)
				}
			}
		case constant.Bool:
			return mk("k", tv.Value.String())
		case constant.String:
			return mk("str", constant.StringVal(tv.Value))
		}
		return mk("const", tv.Value.ExactString())
	}
	switch x := e.(type) {
	case *ast.Ident:
		if x.Name == "nil" {
			return mk("nil", "")
		}
		obj := f.info.Uses[x]
		if obj == nil {
			obj = f.info.Defs[x]
		}
		if v, ok := f.env[obj]; ok {
			return v
		}
		if vv, ok := obj.(*types.Var); ok && vv.Parent() == vv.Pkg().Scope() {
			return f.globalTerm(vv)
		}
		return tVar(x.Name)
	case *ast.SelectorExpr:
		if sel := f.info.Selections[x]; sel != nil && sel.Kind() == types.FieldVal {
			t := f.eval(x.X)
			// make the embedding path explicit
			cur := sel.Recv()
			for _, ix := range sel.Index() {
				st, ok := deref(cur).Underlying().(*types.Struct)
				if !ok {
					break
				}
				fld := st.Field(ix)
				if t.Op == "lit" {
					// a field of a composite literal is the operand written for it (or the zero value)
					var hit *T
					keyed := len(t.A) > 0
					for _, a := range t.A {
						if a.Op != "kv" {
							keyed = false
						} else if a.K == fld.Name() {
							hit = a.A[0]
						}
					}
					if hit != nil {
						t = hit
						cur = fld.Type()
						continue
					}
					if keyed || len(t.A) == 0 {
						t = zeroTerm(fld.Type())
						cur = fld.Type()
						continue
					}
				}
				t = mk("field", fld.Name(), t)
				cur = fld.Type()
			}
			return t
		}
		// package-qualified identifier
		if obj, ok := f.info.Uses[x.Sel].(*types.Var); ok {
			return f.globalTerm(obj)
		}
		return mk("sel", x.Sel.Name, f.eval(x.X))
	case *ast.StarExpr:
		in := f.eval(x.X)
		// *(*T)(unsafe.Pointer(&x)) with x of type T is x itself
		if in.Op == "cast" && len(in.A) == 1 && in.A[0].Op == "addr" && in.A[0].K == in.K {
			return in.A[0].A[0]
		}
		return mk("deref", "", in)
	case *ast.UnaryExpr:
		switch x.Op {
		case token.AND:
			return mk("addr", f.typeStrS(f.info.TypeOf(x.X)), f.eval(x.X))
		case token.NOT:
			return tNot(f.evalCond(x.X))
		case token.SUB:
			return mk("neg", "", f.eval(x.X))
		case token.ADD:
			return f.eval(x.X)
		}
	case *ast.BinaryExpr:
		switch x.Op {
		case token.ADD:
			a, b := f.eval(x.X), f.eval(x.Y)
			if isEmission(a) || isEmission(b) {
				return mk("bin", "+", a, b)
			}
			return tAdd(a, b)
		case token.MUL:
			return tMul(f.eval(x.X), f.eval(x.Y))
		case token.LAND, token.LOR, token.EQL, token.NEQ, token.LSS, token.LEQ, token.GTR, token.GEQ:
			return f.evalCond(x)
		}
		return mk("bin", x.Op.String(), f.eval(x.X), f.eval(x.Y))
	case *ast.IndexExpr:
		// generic instantiation expressions are types, handled by callers
		return mk("index", "", f.eval(x.X), f.eval(x.Index))
	case *ast.SliceExpr:
		if x.Low == nil && x.High == nil {
			return mk("slice", "", f.eval(x.X))
		}
		var lo, hi *T = tConst(0), mk("end", "")
		if x.Low != nil {
			lo = f.eval(x.Low)
		}
		if x.High != nil {
			hi = f.eval(x.High)
		}
		return mk("slice3", "", f.eval(x.X), lo, hi)
	case *ast.CompositeLit:
		t := mk("lit", f.typeStrS(f.info.TypeOf(x)))
		for _, el := range x.Elts {
			if kv, ok := el.(*ast.KeyValueExpr); ok {
				if id, ok := kv.Key.(*ast.Ident); ok {
					t.A = append(t.A, mk("kv", id.Name, f.eval(kv.Value)))
					continue
				}
			}
			t.A = append(t.A, f.eval(el))
		}
		return t
	case *ast.CallExpr:
		return f.evalCall(x)
	case *ast.FuncLit:
		return mk("funclit", f.E.p.pos(x.Pos()))
	case *ast.TypeAssertExpr:
		return mk("assert", f.typeStrS(f.info.TypeOf(x)), f.eval(x.X))
	}
	f.E.fail(f.fn, e, fmt.Sprintf("unsupported expression %T", e))
	return mk("?", f.E.p.str(e))
}

func isLenOf(t *T) (*T, bool) {
	if t.Op == "len" {
		return t.A[0], true
	}
	return nil, false
}

// evalCond normalises boolean expressions.
func (f *frame) evalCond(e ast.Expr) *T {
	e = ast.Unparen(e)
	if tv, ok := f.info.Types[e]; ok && tv.Value != nil && tv.Value.Kind() == constant.Bool {
		return mk("k", tv.Value.String())
	}
	switch x := e.(type) {
	case *ast.UnaryExpr:
		if x.Op == token.NOT {
			return tNot(f.evalCond(x.X))
		}
	case *ast.BinaryExpr:
		switch x.Op {
		case token.LAND:
			return mk("and", "", f.evalCond(x.X), f.evalCond(x.Y))
		case token.LOR:
			return mk("or", "", f.evalCond(x.X), f.evalCond(x.Y))
		case token.EQL, token.NEQ, token.LSS, token.LEQ, token.GTR, token.GEQ:
			// s == "" / s != "" is a length test
			if x.Op == token.EQL || x.Op == token.NEQ {
				for _, pair := range [][2]ast.Expr{{x.X, x.Y}, {x.Y, x.X}} {
					if tv, ok := f.info.Types[pair[1]]; ok && tv.Value != nil && tv.Value.Kind() == constant.String && constant.StringVal(tv.Value) == "" {
						ne := mk("nonempty", "", f.eval(pair[0]))
						if x.Op == token.EQL {
							return tNot(ne)
						}
						return ne
					}
				}
			}
			a, b := f.eval(x.X), f.eval(x.Y)
			op := x.Op
			if va, ok := isConstT(a); ok {
				if vb, ok := isConstT(b); ok {
					var r bool
					switch op {
					case token.EQL:
						r = va == vb
					case token.NEQ:
						r = va != vb
					case token.LSS:
						r = va < vb
					case token.LEQ:
						r = va <= vb
					case token.GTR:
						r = va > vb
					case token.GEQ:
						r = va >= vb
					}
					return mk("k", fmt.Sprint(r))
				}
			}
			// put the constant on the right
			if _, ok := isConstT(a); ok || a.Op == "nil" {
				a, b = b, a
				switch op {
				case token.LSS:
					op = token.GTR
				case token.GTR:
					op = token.LSS
				case token.LEQ:
					op = token.GEQ
				case token.GEQ:
					op = token.LEQ
				}
			}
			// a length is never negative: len(x) < 1 is len(x) == 0, len(x) >= 1 is len(x) != 0
			if v, ok := isConstT(b); ok && v == 1 {
				if _, isLen := isLenOf(a); isLen {
					switch op {
					case token.LSS:
						op, b = token.EQL, tConst(0)
					case token.GEQ:
						op, b = token.NEQ, tConst(0)
					}
				}
			}
			if v, ok := isConstT(b); ok && v == 0 {
				if l, isLen := isLenOf(a); isLen {
					ne := mk("nonempty", "", l)
					if l.Op == "tagbytes" {
						ne = mk("k", "true") // a tag is at least one byte
					}
					switch op {
					case token.NEQ, token.GTR:
						return ne
					case token.EQL, token.LEQ:
						return tNot(ne)
					}
				}
				switch op {
				case token.EQL:
					return mk("iszero", "", a)
				case token.NEQ:
					return tNot(mk("iszero", "", a))
				}
			}
			if b.Op == "nil" {
				switch op {
				case token.EQL:
					return mk("isnil", "", a)
				case token.NEQ:
					return tNot(mk("isnil", "", a))
				}
			}
			// comparison of a boolean with a constant is the boolean or its negation
			if op == token.EQL || op == token.NEQ {
				for i, side := range []*T{a, b} {
					other := []*T{b, a}[i]
					if side.Op == "k" && (side.K == "true" || side.K == "false") {
						same := (side.K == "true") == (op == token.EQL)
						if same {
							return other
						}
						return tNot(other)
					}
				}
			}
			switch op {
			case token.NEQ:
				return tNot(mk("cmp", "==", a, b))
			case token.GEQ:
				return tNot(mk("cmp", "<", a, b))
			case token.GTR:
				return mk("cmp", "<", b, a)
			case token.LEQ:
				return tNot(mk("cmp", "<", b, a))
			}
			return mk("cmp", op.String(), a, b)
		}
	}
	return f.eval(e)
}

func isIntegerType(t types.Type) bool {
	b, ok := t.Underlying().(*types.Basic)
	return ok && b.Info()&types.IsInteger != 0
}

func (f *frame) evalCall(call *ast.CallExpr) *T {
	info := f.info
	// conversions
	if tv, ok := info.Types[call.Fun]; ok && tv.IsType() && len(call.Args) == 1 {
		arg := f.eval(call.Args[0])
		target := substType(tv.Type, f.subst)
		switch u := target.Underlying().(type) {
		case *types.Basic:
			if u.Info()&types.IsInteger != 0 || u.Kind() == types.UnsafePointer {
				if st := info.TypeOf(call.Args[0]); st != nil {
					sb, isB := st.Underlying().(*types.Basic)
					if (isB && (sb.Info()&types.IsInteger != 0 || sb.Kind() == types.UnsafePointer)) || !isB {
						return arg // integer / pointer conversions erased
					}
				}
				return arg
			}
		case *types.Pointer:
			return mk("cast", typeStr(u.Elem()), arg)
		}
		if tp, ok := target.(*types.TypeParam); ok {
			return mk("conv", tp.Obj().Name(), arg)
		}
		return mk("conv", typeStr(target), arg)
	}
	// builtins
	if id, ok := ast.Unparen(call.Fun).(*ast.Ident); ok {
		if _, isB := info.Uses[id].(*types.Builtin); isB {
			switch id.Name {
			case "len":
				return tLen(f.eval(call.Args[0]))
			case "append":
				base := f.eval(call.Args[0])
				if call.Ellipsis.IsValid() {
					return tSeq(base, mk("raw", "", f.eval(call.Args[1])))
				}
				var bs []*T
				for _, a := range call.Args[1:] {
					bs = append(bs, f.eval(a))
				}
				if le := leBytes(bs); le != nil {
					return tSeq(base, mk("raw", "", mk("slice", "", le)))
				}
				return tSeq(base, mk("raw", "", mk("bytes", "", bs...)))
			case "panic":
				return mk("panic", "")
			case "make", "new", "cap", "copy", "min", "max":
				var as []*T
				for _, a := range call.Args {
					if tv, ok := info.Types[a]; ok && tv.IsType() {
						as = append(as, mk("type", typeStr(tv.Type)))
					} else {
						as = append(as, f.eval(a))
					}
				}
				return mk("builtin", id.Name, as...)
			}
		}
	}
	if sel, ok := ast.Unparen(call.Fun).(*ast.SelectorExpr); ok {
		if pk, ok := sel.X.(*ast.Ident); ok {
			if pn, ok := info.Uses[pk].(*types.PkgName); ok && pn.Imported().Path() == "unsafe" && sel.Sel.Name == "Add" {
				return tAdd(f.eval(call.Args[0]), f.eval(call.Args[1]))
			}
		}
	}
	// local closure call
	if id, ok := ast.Unparen(call.Fun).(*ast.Ident); ok {
		if cl, ok := f.closures[info.Uses[id]]; ok {
			var args []*T
			for _, a := range call.Args {
				args = append(args, f.eval(a))
			}
			return f.inlineClosure(cl, args, call)
		}
	}
	cal := callee(info, call)
	var args []*T
	for _, a := range call.Args {
		args = append(args, f.eval(a))
	}
	if cal == nil {
		f.E.fail(f.fn, call, "dynamic call")
		return mk("dyncall", f.E.p.str(call.Fun), args...)
	}
	sig := cal.Type().(*types.Signature)
	full := cal.FullName()
	// wire primitives
	if cal.Pkg() != nil && cal.Pkg().Path() == modPath+"/plenccore" {
		switch cal.Name() {
		case "AppendVarUint":
			return tSeq(args[0], mk("varuint", "", args[1]))
		case "AppendVarInt":
			return tSeq(args[0], mk("varint", "", args[1]))
		case "AppendTag":
			tb := mk("tagbytes", "", args[1], args[2])
			if args[0].Op == "nil" {
				return tb
			}
			return tSeq(args[0], mk("raw", "", tb))
		case "SizeVarUint":
			return tSzu(args[0])
		case "SizeVarInt":
			return mk("szi", "", args[0])
		case "SizeTag":
			return tLen(mk("tagbytes", "", args[0], args[1]))
		}
	}
	// little-endian stores into a local array
	if strings.HasPrefix(full, "(encoding/binary.littleEndian).PutUint") {
		width := map[string]string{"PutUint64": "8", "PutUint32": "4", "PutUint16": "2"}[cal.Name()]
		if root := rootIdent(call.Args[0]); root != nil {
			if obj := info.Uses[root]; obj != nil {
				f.env[obj] = mk("le", width, args[1])
			}
		}
		return mk("void", "")
	}
	// interface method calls
	if sig.Recv() != nil {
		if _, isIf := sig.Recv().Type().Underlying().(*types.Interface); isIf {
			sel := ast.Unparen(call.Fun).(*ast.SelectorExpr)
			recv := f.eval(sel.X)
			switch cal.Name() {
			case "Append":
				return tSeq(args[0], mk("sub", "", recv, args[1], args[2]))
			case "Size":
				return mk("subsz", "", recv, args[0], args[1])
			case "Omit":
				return mk("omit", "", recv, args[0])
			}
			return mk("icall", cal.Name(), append([]*T{recv}, args...)...)
		}
	}
	// runtime map iterator: remember which map is being iterated
	if cal.Name() == "mapiterinit" && len(args) == 3 {
		f.lastIter = args[1]
		return mk("void", "")
	}
	// paired emission/size functions are atoms (recursive definitions)
	if inModule(cal.Pkg()) && sig.Recv() == nil {
		if _, ok := pairedSizeFunc[cal.Name()]; ok {
			return tSeq(args[0], mk("sub", cal.Name(), args[1:]...))
		}
		for _, sz := range pairedSizeFunc {
			if sz == cal.Name() {
				return mk("subsz", cal.Name(), args...)
			}
		}
	}
	// in-module function with a body: inline
	if inModule(cal.Pkg()) && f.E.p.refOf(cal) != nil && f.depth < 10 {
		var recv *T
		if sig.Recv() != nil {
			if sel, ok := ast.Unparen(call.Fun).(*ast.SelectorExpr); ok {
				recv = f.eval(sel.X)
				if s := info.Selections[sel]; s != nil {
					// promoted method: explicit embedding path (all but the last index)
					cur := s.Recv()
					idx := s.Index()
					for _, ix := range idx[:len(idx)-1] {
						st, ok := deref(cur).Underlying().(*types.Struct)
						if !ok {
							break
						}
						fld := st.Field(ix)
						recv = mk("field", fld.Name(), recv)
						cur = fld.Type()
					}
				}
				// pointer-receiver method without results on a local: effect on the local
				if _, isPtr := sig.Recv().Type().(*types.Pointer); isPtr && sig.Results().Len() == 0 {
					if id, ok := ast.Unparen(sel.X).(*ast.Ident); ok {
						if obj := info.Uses[id]; obj != nil {
							if _, isLocal := f.env[obj]; isLocal {
								f.env[obj] = mk("upd", funcName(cal.Origin()), append([]*T{f.env[obj]}, args...)...)
								return mk("void", "")
							}
						}
					}
				}
			}
		}
		return f.inline(cal, recv, args, call)
	}
	name := cal.Name()
	if cal.Pkg() != nil && !inModule(cal.Pkg()) {
		name = cal.Pkg().Name() + "." + name
	}
	if sig.Recv() != nil {
		if sel, ok := ast.Unparen(call.Fun).(*ast.SelectorExpr); ok {
			args = append([]*T{f.eval(sel.X)}, args...)
		}
	}
	return mk("call", name, args...)
}

func rootIdent(e ast.Expr) *ast.Ident {
	for {
		switch x := ast.Unparen(e).(type) {
		case *ast.Ident:
			return x
		case *ast.SliceExpr:
			e = x.X
		case *ast.IndexExpr:
			e = x.X
		case *ast.SelectorExpr:
			e = x.X
		case *ast.UnaryExpr:
			e = x.X
		default:
			return nil
		}
	}
}

// inline evaluates a module function symbolically and returns its result term.
func (f *frame) inline(cal *types.Func, recv *T, args []*T, at ast.Node) *T {
	ref := f.E.p.refOf(cal)
	nf := &frame{E: f.E, pkg: ref.Pkg, info: ref.Pkg.TypesInfo, env: envT{}, subst: methodSubst(cal, f.subst), depth: f.depth + 1,
		fn: f.fn + ">" + cal.Name(), decl: ref.Decl, closures: map[types.Object]*closureVal{}, loopN: f.loopN}
	if ro := recvObj(nf.info, ref.Decl); ro != nil && recv != nil {
		nf.env[ro] = recv
	}
	ps := paramObjs(nf.info, ref.Decl)
	for i, po := range ps {
		if po != nil && i < len(args) {
			nf.env[po] = args[i]
		}
	}
	if ref.Decl.Type.Results != nil {
		for _, fld := range ref.Decl.Type.Results.List {
			for _, n := range fld.Names {
				if o := nf.info.Defs[n]; o != nil {
					nf.env[o] = zeroTerm(o.Type())
					nf.results = append(nf.results, o)
				}
			}
		}
	}
	if ref.Decl.Body == nil {
		return mk("call", cal.Name(), args...)
	}
	out := nf.execList(ref.Decl.Body.List)
	switch out.kind {
	case oReturn:
		if out.ret == nil {
			return mk("void", "")
		}
		return out.ret
	case oNormal:
		if cal.Type().(*types.Signature).Results().Len() == 0 {
			return mk("void", "")
		}
	}
	f.E.fail(f.fn, at, "callee "+cal.Name()+" does not end in a return on every path")
	return mk("?", "noreturn:"+cal.Name())
}

func (f *frame) inlineClosure(cl *closureVal, args []*T, at ast.Node) *T {
	// captured variables are shared by reference: evaluate in the defining
	// frame's environment (which is f's own for closures defined in this function)
	cf := cl.fr
	saved := map[types.Object]*T{}
	var pobjs []types.Object
	i := 0
	for _, fld := range cl.lit.Type.Params.List {
		for _, n := range fld.Names {
			o := cf.info.Defs[n]
			pobjs = append(pobjs, o)
			if old, ok := cf.env[o]; ok {
				saved[o] = old
			}
			if i < len(args) {
				cf.env[o] = args[i]
			}
			i++
		}
	}
	out := cf.execList(cl.lit.Body.List)
	if out.env != nil {
		cf.env = out.env
	}
	for _, o := range pobjs {
		delete(cf.env, o)
		if old, ok := saved[o]; ok {
			cf.env[o] = old
		}
	}
	if out.kind == oReturn && out.ret != nil {
		return out.ret
	}
	return mk("void", "")
}

// globalTerm: package-level []byte variables of the module initialised by a
// pure expression (the precomputed tags) are replaced by their initialiser;
// rule X.pure.global shows nothing writes them after initialisation.
func (f *frame) globalTerm(v *types.Var) *T {
	name := shortPkg(v.Pkg().Path()) + "." + v.Name()
	if !inModule(v.Pkg()) || !isByteSlice(v.Type()) || f.depth > 8 {
		return mk("global", name)
	}
	for _, pk := range f.E.p.Pkgs {
		if pk.Types != v.Pkg() {
			continue
		}
		for _, file := range pk.Syntax {
			for _, d := range file.Decls {
				gd, ok := d.(*ast.GenDecl)
				if !ok {
					continue
				}
				for _, sp := range gd.Specs {
					vs, ok := sp.(*ast.ValueSpec)
					if !ok {
						continue
					}
					for i, n := range vs.Names {
						if pk.TypesInfo.Defs[n] != v || i >= len(vs.Values) {
							continue
						}
						nf := &frame{E: f.E, pkg: pk, info: pk.TypesInfo, env: envT{}, subst: substMap{}, depth: f.depth + 1,
							fn: f.fn + ">" + v.Name(), closures: map[types.Object]*closureVal{}, loopN: f.loopN}
						return nf.eval(vs.Values[i])
					}
				}
			}
		}
	}
	return mk("global", name)
}

// leBytes recognises byte(v), byte(v>>8), byte(v>>16), ... (2, 4 or 8 operands)
// as the little-endian bytes of v - the same term binary.LittleEndian.PutUintN
// into a local array produces.
func leBytes(bs []*T) *T {
	if n := len(bs); n != 2 && n != 4 && n != 8 {
		return nil
	}
	var v *T
	for i, b := range bs {
		x := b
		if b.Op == "conv" && (b.K == "byte" || b.K == "uint8") && len(b.A) == 1 {
			x = b.A[0] // integer conversions are usually elided by eval
		}
		if i == 0 {
			v = x
			continue
		}
		if x.Op != "bin" || x.K != ">>" || len(x.A) != 2 || !eq(x.A[0], v) {
			return nil
		}
		if k, ok := isConstT(x.A[1]); !ok || k != int64(8*i) {
			return nil
		}
	}
	return mk("le", strconv.Itoa(len(bs)), v)
}
