package main

import (
	"fmt"
	"go/ast"
	"go/token"
	"go/types"
	"sort"
	"strings"
)

// execList executes a statement list symbolically. f.env is the current
// state; the returned outcome carries the state at the point where control
// left the list.
func (f *frame) execList(stmts []ast.Stmt) outcome {
	for i, st := range stmts {
		switch s := st.(type) {
		case *ast.IfStmt:
			if s.Init != nil {
				f.execSimple(s.Init)
			}
			cond := f.evalCond(s.Cond)
			base := f.env
			f.env = copyEnv(base)
			o1 := f.execList(s.Body.List)
			o1.env = f.env
			f.env = copyEnv(base)
			o2 := outcome{kind: oNormal}
			if s.Else != nil {
				switch el := s.Else.(type) {
				case *ast.BlockStmt:
					o2 = f.execList(el.List)
				case *ast.IfStmt:
					o2 = f.execList([]ast.Stmt{el})
				}
			}
			o2.env = f.env
			rest := stmts[i+1:]
			// paths that fall through execute the rest of the list
			run := func(o outcome) outcome {
				if o.kind != oNormal {
					return o
				}
				f.env = o.env
				r := f.execList(rest)
				r.env = f.env
				return r
			}
			if o1.kind == oNormal && o2.kind == oNormal {
				f.env = mergeEnv(cond, o1.env, o2.env)
				continue
			}
			r1, r2 := run(o1), run(o2)
			return f.combine(cond, r1, r2, s)
		case *ast.ReturnStmt:
			switch len(s.Results) {
			case 0:
				if len(f.results) == 1 {
					return outcome{kind: oReturn, ret: f.env[f.results[0]], env: f.env}
				}
				return outcome{kind: oReturn, env: f.env}
			case 1:
				return outcome{kind: oReturn, ret: f.eval(s.Results[0]), env: f.env}
			default:
				var rs []*T
				for _, r := range s.Results {
					rs = append(rs, f.eval(r))
				}
				return outcome{kind: oReturn, ret: mk("tuple", "", rs...), env: f.env}
			}
		case *ast.BranchStmt:
			switch s.Tok {
			case token.CONTINUE:
				return outcome{kind: oContinue, env: f.env}
			case token.BREAK:
				return outcome{kind: oBreak, env: f.env}
			}
			f.E.fail(f.fn, s, "unsupported branch statement")
		case *ast.ForStmt:
			f.execFor(s)
		case *ast.RangeStmt:
			f.execRange(s)
		case *ast.TypeSwitchStmt:
			if o := f.execTypeSwitch(s); o.kind != oNormal {
				return o
			}
		case *ast.BlockStmt:
			o := f.execList(s.List)
			if o.kind != oNormal {
				return o
			}
		case *ast.SwitchStmt:
			f.E.fail(f.fn, s, "switch statement in an encoder: unsupported form")
		default:
			f.execSimple(st)
		}
	}
	return outcome{kind: oNormal, env: f.env}
}

func (f *frame) combine(c *T, a, b outcome, at ast.Node) outcome {
	ka, kb := a.kind, b.kind
	// continue and normal both mean "this iteration is over" at the end of a loop body
	norm := func(k int) int {
		if k == oContinue {
			return oNormal
		}
		if k == oBreak && f.brkSwitch {
			// the end of a switch clause, reached early
			return oNormal
		}
		return k
	}
	if norm(ka) != norm(kb) {
		f.E.fail(f.fn, at, "paths of a conditional leave the function in different ways (return vs fall-through)")
		return a
	}
	out := outcome{kind: ka, env: mergeEnv(c, a.env, b.env)}
	if ka == oNormal && kb == oContinue || ka == oContinue {
		out.kind = oContinue
	}
	if f.brkSwitch && (ka == oBreak || kb == oBreak) {
		out.kind = oBreak
	}
	if ka == oReturn {
		switch {
		case a.ret != nil && b.ret != nil:
			out.ret = tIf(c, a.ret, b.ret)
		case a.ret == nil && b.ret == nil:
		default:
			f.E.fail(f.fn, at, "mixed value/void returns")
		}
	}
	f.env = out.env
	return out
}

func (f *frame) assign(lhs ast.Expr, val *T, at ast.Node) {
	lhs = ast.Unparen(lhs)
	switch x := lhs.(type) {
	case *ast.Ident:
		if x.Name == "_" {
			return
		}
		obj := f.info.Defs[x]
		if obj == nil {
			obj = f.info.Uses[x]
		}
		if obj != nil {
			f.env[obj] = val
		}
		return
	case *ast.StarExpr:
		// *(*T)(unsafe.Pointer(&x)) = v : reinterpretation of a local
		inner := ast.Unparen(x.X)
		for {
			c, ok := inner.(*ast.CallExpr)
			if !ok || len(c.Args) != 1 {
				break
			}
			if tv, ok := f.info.Types[c.Fun]; !ok || !tv.IsType() {
				break
			}
			inner = ast.Unparen(c.Args[0])
		}
		if u, ok := inner.(*ast.UnaryExpr); ok && u.Op == token.AND {
			if id, ok := ast.Unparen(u.X).(*ast.Ident); ok {
				if obj := f.info.Uses[id]; obj != nil {
					f.env[obj] = mk("reinterp", typeStr(obj.Type()), val)
					return
				}
			}
		}
	case *ast.SelectorExpr:
		// field of a local struct value
		if id, ok := ast.Unparen(x.X).(*ast.Ident); ok {
			if obj := f.info.Uses[id]; obj != nil {
				if old, isLocal := f.env[obj]; isLocal {
					f.env[obj] = mk("setfield", x.Sel.Name, old, val)
					return
				}
			}
		}
	}
	f.E.fail(f.fn, at, "assignment to "+f.E.p.str(lhs)+": unsupported left-hand side in an encoder")
}

func (f *frame) execSimple(st ast.Stmt) {
	switch s := st.(type) {
	case *ast.AssignStmt:
		if len(s.Lhs) == len(s.Rhs) {
			vals := make([]*T, len(s.Rhs))
			for i, r := range s.Rhs {
				if lit, ok := ast.Unparen(r).(*ast.FuncLit); ok && len(s.Lhs) == 1 {
					if id, ok := s.Lhs[0].(*ast.Ident); ok {
						obj := f.info.Defs[id]
						if obj == nil {
							obj = f.info.Uses[id]
						}
						f.closures[obj] = &closureVal{lit: lit, fr: f}
						return
					}
				}
				vals[i] = f.eval(r)
			}
			for i, l := range s.Lhs {
				v := vals[i]
				switch s.Tok {
				case token.ADD_ASSIGN:
					cur := f.eval(l)
					if isEmission(cur) || isEmission(v) {
						v = mk("bin", "+", cur, v)
					} else {
						v = tAdd(cur, v)
					}
				case token.ASSIGN, token.DEFINE:
				default:
					v = mk("bin", s.Tok.String(), f.eval(l), v)
				}
				f.assign(l, v, s)
			}
			return
		}
		// tuple assignment from a call: opaque components
		if len(s.Rhs) == 1 {
			v := f.eval(s.Rhs[0])
			for i, l := range s.Lhs {
				f.assign(l, mk("proj", fmt.Sprint(i), v), s)
			}
			return
		}
	case *ast.DeclStmt:
		gd, ok := s.Decl.(*ast.GenDecl)
		if !ok {
			break
		}
		for _, sp := range gd.Specs {
			vs, ok := sp.(*ast.ValueSpec)
			if !ok {
				continue
			}
			for i, n := range vs.Names {
				obj := f.info.Defs[n]
				if obj == nil {
					continue
				}
				if i < len(vs.Values) {
					f.env[obj] = f.eval(vs.Values[i])
				} else {
					f.env[obj] = zeroTerm(substType(obj.Type(), f.subst))
				}
			}
		}
		return
	case *ast.IncDecStmt:
		d := int64(1)
		if s.Tok == token.DEC {
			d = -1
		}
		f.assign(s.X, tAdd(f.eval(s.X), tConst(d)), s)
		return
	case *ast.ExprStmt:
		f.eval(s.X)
		return
	case *ast.EmptyStmt:
		return
	}
	f.E.fail(f.fn, st, fmt.Sprintf("unsupported statement %T", st))
}

// assignedObjects: objects assigned in node (and in any closure of the
// enclosing function, which may be called from the loop).
func (f *frame) assignedObjects(nodes ...ast.Node) map[types.Object]bool {
	out := map[types.Object]bool{}
	visit := func(n ast.Node) {
		ast.Inspect(n, func(x ast.Node) bool {
			switch s := x.(type) {
			case *ast.AssignStmt:
				for _, l := range s.Lhs {
					if id := rootIdent(l); id != nil {
						if o := f.info.Uses[id]; o != nil {
							out[o] = true
						}
						if o := f.info.Defs[id]; o != nil {
							out[o] = true
						}
					}
				}
			case *ast.IncDecStmt:
				if id := rootIdent(s.X); id != nil {
					if o := f.info.Uses[id]; o != nil {
						out[o] = true
					}
				}
			case *ast.CallExpr:
				// PutUintNN(b[:], …) and pointer-receiver calls on locals update their operand
				if sel, ok := s.Fun.(*ast.SelectorExpr); ok {
					if strings.HasPrefix(sel.Sel.Name, "PutUint") && len(s.Args) > 0 {
						if id := rootIdent(s.Args[0]); id != nil {
							if o := f.info.Uses[id]; o != nil {
								out[o] = true
							}
						}
					}
				}
			}
			return true
		})
	}
	for _, n := range nodes {
		visit(n)
	}
	if f.decl != nil {
		ast.Inspect(f.decl, func(x ast.Node) bool {
			if lit, ok := x.(*ast.FuncLit); ok {
				visit(lit.Body)
			}
			return true
		})
	}
	return out
}

// runLoopBody executes body with the accumulators replaced by placeholders and
// folds the per-iteration deltas into loop terms.
func (f *frame) runLoopBody(kind string, space []*T, body []ast.Stmt, at ast.Node, bind func()) {
	assigned := f.assignedObjects(&ast.BlockStmt{List: body})
	type accT struct {
		obj types.Object
		old *T
		ph  *T
	}
	var accs []accT
	var objs []types.Object
	for o := range f.env {
		if assigned[o] {
			objs = append(objs, o)
		}
	}
	sort.Slice(objs, func(i, j int) bool { return objs[i].Pos() < objs[j].Pos() })
	for _, o := range objs {
		ph := mk("acc", fmt.Sprintf("%s@%d", o.Name(), *f.loopN))
		accs = append(accs, accT{o, f.env[o], ph})
	}
	saved := f.env
	f.env = copyEnv(saved)
	for _, a := range accs {
		f.env[a.obj] = a.ph
	}
	if bind != nil {
		bind()
	}
	savedBrk := f.brkSwitch
	f.brkSwitch = false
	out := f.execList(body)
	f.brkSwitch = savedBrk
	if out.kind == oReturn || out.kind == oBreak {
		f.E.fail(f.fn, at, "return/break inside an encoder loop: unsupported")
	}
	bodyEnv := f.env
	f.env = saved
	for _, a := range accs {
		nv := bodyEnv[a.obj]
		if nv == nil || eq(nv, a.ph) {
			continue
		}
		if isEmission(nv) || (nv.Op == "seq") {
			parts := seqParts(nv)
			if len(parts) > 0 && eq(parts[0], a.ph) && !mentionsAcc(tSeq(parts[1:]...), a.ph) {
				f.env[a.obj] = tSeq(a.old, tLoop(kind, space, tSeq(parts[1:]...)))
				continue
			}
		}
		if ap := addParts(nv); len(ap) > 0 {
			var rest []*T
			n := 0
			for _, x := range ap {
				if eq(x, a.ph) {
					n++
				} else {
					rest = append(rest, x)
				}
			}
			if n == 1 && !mentionsAcc(tAdd(rest...), a.ph) {
				f.env[a.obj] = tAdd(a.old, tLoop(kind, space, tAdd(rest...)))
				continue
			}
		}
		// loop-local scratch that does not outlive the iteration in a meaningful way
		if isScratch(a.obj) {
			f.env[a.obj] = mk("loopvar", a.obj.Name())
			continue
		}
		f.E.fail(f.fn, at, fmt.Sprintf("loop-carried variable %s is not an append/sum accumulator: cannot summarise the loop", a.obj.Name()))
		f.env[a.obj] = mk("?", "loop:"+a.obj.Name())
	}
}

func isScratch(o types.Object) bool {
	// unsafe.Pointer / pointer temporaries re-assigned per iteration
	switch u := o.Type().Underlying().(type) {
	case *types.Pointer:
		return true
	case *types.Basic:
		return u.Kind() == types.UnsafePointer
	}
	return false
}

func mentionsAcc(t, ph *T) bool {
	if eq(t, ph) {
		return true
	}
	for _, a := range t.A {
		if mentionsAcc(a, ph) {
			return true
		}
	}
	return false
}

func (f *frame) execFor(s *ast.ForStmt) {
	*f.loopN++
	defer func() { *f.loopN-- }()
	depth := *f.loopN
	// counted loop: for i := 0; i < N; i++
	if s.Init != nil && s.Cond != nil && s.Post != nil {
		init, ok1 := s.Init.(*ast.AssignStmt)
		cond, ok2 := s.Cond.(*ast.BinaryExpr)
		post, ok3 := s.Post.(*ast.IncDecStmt)
		// for i, n := 0, N; i < n; i++ : the bound evaluated once, up front
		if ok1 && ok2 && ok3 && len(init.Lhs) == 2 && len(init.Rhs) == 2 && init.Tok == token.DEFINE && cond.Op == token.LSS && post.Tok == token.INC {
			id0, okA := init.Lhs[0].(*ast.Ident)
			id1, okB := init.Lhs[1].(*ast.Ident)
			if okA && okB {
				iv, nv := f.info.Defs[id0], f.info.Defs[id1]
				cid, okC := cond.X.(*ast.Ident)
				nid, okD := cond.Y.(*ast.Ident)
				pid, okE := post.X.(*ast.Ident)
				if z, ok := isConstT(f.eval(init.Rhs[0])); ok && z == 0 && iv != nil && nv != nil && okC && okD && okE &&
					f.info.Uses[cid] == iv && f.info.Uses[nid] == nv && f.info.Uses[pid] == iv {
					n := f.eval(init.Rhs[1])
					f.env[nv] = n
					f.runLoopBody("count", []*T{n}, s.Body.List, s, func() {
						f.env[iv] = tVar(fmt.Sprintf("$i%d", depth))
					})
					delete(f.env, iv)
					delete(f.env, nv)
					return
				}
			}
		}
		if ok1 && ok2 && ok3 && len(init.Lhs) == 1 && init.Tok == token.DEFINE && cond.Op == token.LSS && post.Tok == token.INC {
			iv := f.info.Defs[init.Lhs[0].(*ast.Ident)]
			if z, ok := isConstT(f.eval(init.Rhs[0])); ok && z == 0 {
				if cid, ok := cond.X.(*ast.Ident); ok && f.info.Uses[cid] == iv {
					n := f.eval(cond.Y)
					f.runLoopBody("count", []*T{n}, s.Body.List, s, func() {
						f.env[iv] = tVar(fmt.Sprintf("$i%d", depth))
					})
					delete(f.env, iv)
					return
				}
			}
		}
	}
	// runtime map iterator idiom
	if s.Init == nil && s.Cond == nil && s.Post == nil && len(s.Body.List) >= 3 {
		b := s.Body.List
		as, ok1 := b[0].(*ast.AssignStmt)
		ifs, ok2 := b[1].(*ast.IfStmt)
		last, ok3 := b[len(b)-1].(*ast.ExprStmt)
		if ok1 && ok2 && ok3 && len(as.Lhs) == 1 && len(as.Rhs) == 1 {
			kcall, okc := as.Rhs[0].(*ast.CallExpr)
			ncall, okn := last.X.(*ast.CallExpr)
			if okc && okn && calleeName(f.info, kcall) == "mapiterkey" && calleeName(f.info, ncall) == "mapiternext" && len(ifs.Body.List) == 1 {
				if br, ok := ifs.Body.List[0].(*ast.BranchStmt); ok && br.Tok == token.BREAK {
					kobj := f.info.Defs[as.Lhs[0].(*ast.Ident)]
					space := []*T{mk("?", "nomap")}
					if f.lastIter != nil {
						space = []*T{f.lastIter}
					}
					f.runLoopBody("mapiter", space, b[2:len(b)-1], s, func() {
						f.env[kobj] = tVar(fmt.Sprintf("$k%d", depth))
					})
					delete(f.env, kobj)
					return
				}
			}
		}
	}
	// the same idiom as a three-clause loop:
	//   for k := mapiterkey(it); k != nil; k = mapiterkey(it) { …; mapiternext(it) }
	if s.Init != nil && s.Cond != nil && s.Post != nil && len(s.Body.List) >= 1 {
		init, ok1 := s.Init.(*ast.AssignStmt)
		cond, ok2 := s.Cond.(*ast.BinaryExpr)
		post, ok3 := s.Post.(*ast.AssignStmt)
		last, ok4 := s.Body.List[len(s.Body.List)-1].(*ast.ExprStmt)
		if ok1 && ok2 && ok3 && ok4 && init.Tok == token.DEFINE && post.Tok == token.ASSIGN && cond.Op == token.NEQ &&
			len(init.Lhs) == 1 && len(init.Rhs) == 1 && len(post.Lhs) == 1 && len(post.Rhs) == 1 {
			kid, okk := init.Lhs[0].(*ast.Ident)
			pid, okp := post.Lhs[0].(*ast.Ident)
			cid, okc := cond.X.(*ast.Ident)
			nid, okn := cond.Y.(*ast.Ident)
			icall, oki := init.Rhs[0].(*ast.CallExpr)
			pcall, okq := post.Rhs[0].(*ast.CallExpr)
			ncall, okm := last.X.(*ast.CallExpr)
			if okk && okp && okc && okn && oki && okq && okm && nid.Name == "nil" {
				kobj := f.info.Defs[kid]
				if kobj != nil && f.info.Uses[pid] == kobj && f.info.Uses[cid] == kobj &&
					calleeName(f.info, icall) == "mapiterkey" && calleeName(f.info, pcall) == "mapiterkey" && calleeName(f.info, ncall) == "mapiternext" {
					space := []*T{mk("?", "nomap")}
					if f.lastIter != nil {
						space = []*T{f.lastIter}
					}
					b := s.Body.List
					f.runLoopBody("mapiter", space, b[:len(b)-1], s, func() {
						f.env[kobj] = tVar(fmt.Sprintf("$k%d", depth))
					})
					delete(f.env, kobj)
					return
				}
			}
		}
	}
	f.E.fail(f.fn, s, "for loop is neither a counted loop nor the runtime map-iterator idiom: cannot summarise")
}

func calleeName(info *types.Info, call *ast.CallExpr) string {
	if c := callee(info, call); c != nil {
		return c.Name()
	}
	return ""
}

func (f *frame) execRange(s *ast.RangeStmt) {
	*f.loopN++
	defer func() { *f.loopN-- }()
	depth := *f.loopN
	x := f.eval(s.X)
	kind := "range"
	if _, isMap := f.info.TypeOf(s.X).Underlying().(*types.Map); isMap {
		kind = "rangemap"
	}
	var kobj, vobj types.Object
	if id, ok := s.Key.(*ast.Ident); ok && id.Name != "_" {
		kobj = f.info.Defs[id]
	}
	if id, ok := s.Value.(*ast.Ident); ok && id.Name != "_" {
		vobj = f.info.Defs[id]
	}
	f.runLoopBody(kind, []*T{x}, s.Body.List, s, func() {
		if kobj != nil {
			f.env[kobj] = tVar(fmt.Sprintf("$k%d", depth))
		}
		if vobj != nil {
			f.env[vobj] = tVar(fmt.Sprintf("$r%d", depth))
		}
	})
	if kobj != nil {
		delete(f.env, kobj)
	}
	if vobj != nil {
		delete(f.env, vobj)
	}
}

// execTypeSwitch: every clause is executed on a copy of the state; variables
// that differ afterwards become tswitch terms (common prefixes factored).
func (f *frame) execTypeSwitch(s *ast.TypeSwitchStmt) outcome {
	var subj *T
	switch a := s.Assign.(type) {
	case *ast.AssignStmt:
		if ta, ok := a.Rhs[0].(*ast.TypeAssertExpr); ok {
			subj = f.eval(ta.X)
		}
	case *ast.ExprStmt:
		if ta, ok := a.X.(*ast.TypeAssertExpr); ok {
			subj = f.eval(ta.X)
		}
	}
	if subj == nil {
		f.E.fail(f.fn, s, "type switch subject not understood")
		return outcome{kind: oNormal}
	}
	// clauses that return: the returned value is treated as the clause's value of a
	// synthetic result variable whose starting value is the buffer parameter (for
	// an emission) or 0 (for a size), and the switch as a whole returns it
	retObj := types.NewVar(token.NoPos, nil, "$ret", types.Typ[types.Invalid])
	returned, fellOut := 0, 0
	if fd, isFD := f.decl.(*ast.FuncDecl); isFD && fd.Type.Results != nil && len(fd.Type.Results.List) == 1 {
		rt := f.info.TypeOf(fd.Type.Results.List[0].Type)
		start := tConst(0)
		if rt != nil && isByteSlice(rt) {
			for _, po := range paramObjs(f.info, fd) {
				if po != nil && isByteSlice(po.Type()) {
					if v, ok := f.env[po]; ok {
						start = v
					}
					break
				}
			}
		}
		f.env[retObj] = start
	}
	base := f.env
	type clauseRes struct {
		name string
		env  envT
	}
	var res []clauseRes
	for _, st := range s.Body.List {
		cc := st.(*ast.CaseClause)
		name := "default"
		if len(cc.List) > 0 {
			var ns []string
			for _, e := range cc.List {
				if id, ok := e.(*ast.Ident); ok && id.Name == "nil" {
					ns = append(ns, "nil")
				} else {
					ns = append(ns, typeStr(f.info.TypeOf(e)))
				}
			}
			name = strings.Join(ns, "|")
		}
		f.env = copyEnv(base)
		if obj := f.info.Implicits[cc]; obj != nil {
			f.env[obj] = tVar("$t:" + name)
		}
		savedBrk := f.brkSwitch
		f.brkSwitch = true
		out := f.execList(cc.Body)
		f.brkSwitch = savedBrk
		switch {
		case out.kind == oReturn && out.ret != nil && out.ret.Op != "tuple":
			if _, ok := base[retObj]; ok {
				f.env[retObj] = out.ret
				returned++
			} else {
				f.E.fail(f.fn, cc, "clause of a type switch leaves the function: unsupported")
			}
		case out.kind != oNormal && out.kind != oBreak:
			f.E.fail(f.fn, cc, "clause of a type switch leaves the function: unsupported")
		default:
			fellOut++
		}
		panics := false
		ast.Inspect(cc, func(n ast.Node) bool {
			if call, ok := n.(*ast.CallExpr); ok {
				if id, ok := call.Fun.(*ast.Ident); ok && id.Name == "panic" {
					panics = true
				}
			}
			return true
		})
		if panics {
			name += "!panic"
			if out.kind == oNormal || out.kind == oBreak {
				fellOut-- // a clause that panics does not continue
			}
		}
		res = append(res, clauseRes{name, f.env})
	}
	f.env = copyEnv(base)
	for obj, old := range base {
		changed := false
		for _, r := range res {
			if v, ok := r.env[obj]; ok && !eq(v, old) {
				changed = true
			}
		}
		if !changed {
			continue
		}
		// factor the common prefix (seq) / common summands (add) = old value
		var cases []*T
		emission := isEmission(old) || old.Op == "buf"
		okAll := true
		for _, r := range res {
			v := r.env[obj]
			if strings.HasSuffix(r.name, "!panic") {
				cases = append(cases, mk("case", r.name, mk("panic", "")))
				continue
			}
			if emission {
				op, vp := seqParts(old), seqParts(v)
				if len(vp) >= len(op) && eq(tSeq(vp[:len(op)]...), old) {
					cases = append(cases, mk("case", r.name, tSeq(vp[len(op):]...)))
				} else {
					okAll = false
				}
			} else {
				// remove old's summands
				rem := map[string]int{}
				for _, x := range addParts(old) {
					rem[x.String()]++
				}
				var rest []*T
				for _, x := range addParts(v) {
					if rem[x.String()] > 0 {
						rem[x.String()]--
					} else {
						rest = append(rest, x)
					}
				}
				left := 0
				for _, n := range rem {
					left += n
				}
				if left != 0 {
					okAll = false
				}
				cases = append(cases, mk("case", r.name, tAdd(rest...)))
			}
		}
		if !okAll {
			f.E.fail(f.fn, s, "type switch clause does not extend "+obj.Name()+" by appending/adding: cannot summarise")
			continue
		}
		var hoisted []*T
		if !emission {
			// summands every (non-panicking) clause adds are added whatever the
			// type is: `return size + x` in each clause is `size + switch{x}`
			var common map[string]int
			var sample map[string]*T
			for _, cs := range cases {
				if cs.A[0].Op == "panic" {
					continue
				}
				cnt := map[string]int{}
				smp := map[string]*T{}
				for _, x := range addParts(cs.A[0]) {
					if v, isK := isConstT(x); isK && v == 0 {
						continue
					}
					cnt[x.String()]++
					smp[x.String()] = x
				}
				if common == nil {
					common, sample = cnt, smp
					continue
				}
				for k, n := range common {
					if cnt[k] < n {
						common[k] = cnt[k]
					}
				}
			}
			var keys []string
			for k, n := range common {
				if _, isK := isConstT(sample[k]); n > 0 && !isK {
					keys = append(keys, k)
				}
			}
			sort.Strings(keys)
			if len(keys) > 0 && len(cases) > 1 {
				for i, cs := range cases {
					if cs.A[0].Op == "panic" {
						continue
					}
					rem := map[string]int{}
					for _, k := range keys {
						rem[k] = common[k]
					}
					var rest []*T
					for _, x := range addParts(cs.A[0]) {
						if rem[x.String()] > 0 {
							rem[x.String()]--
						} else {
							rest = append(rest, x)
						}
					}
					cases[i] = mk("case", cs.K, tAdd(rest...))
				}
				for _, k := range keys {
					for n := 0; n < common[k]; n++ {
						hoisted = append(hoisted, sample[k])
					}
				}
			}
		}
		ts := mk("tswitch", "", append([]*T{subj}, cases...)...)
		if emission {
			f.env[obj] = tSeq(old, ts)
		} else {
			f.env[obj] = tAdd(append([]*T{old, ts}, hoisted...)...)
		}
	}
	if returned > 0 {
		if fellOut > 0 {
			f.E.fail(f.fn, s, "some clauses of a type switch return and others do not: cannot summarise")
			return outcome{kind: oNormal}
		}
		ret := f.env[retObj]
		delete(f.env, retObj)
		return outcome{kind: oReturn, ret: ret, env: f.env}
	}
	delete(f.env, retObj)
	return outcome{kind: oNormal}
}
