package main

import (
	"fmt"
	"go/token"
	"go/types"
	"sort"
	"strings"
)

// methodTerm evaluates codec method m ("Append" or "Size") of ct with
// canonical parameter names.
func (E *emitEngine) methodTerm(ct *CodecType, m string) *T {
	mr := ct.Methods[m]
	if mr.Decl == nil || mr.Decl.Body == nil {
		E.fail(ct.Name+"."+m, nil, "no body")
		return mk("?", "nobody")
	}
	return E.funcTerm(mr.Fn, ct.Name+"."+m)
}

func (E *emitEngine) funcTerm(fn *types.Func, label string) *T {
	ref := E.p.refOf(fn)
	if ref == nil || ref.Decl.Body == nil {
		E.fail(label, nil, "no body")
		return mk("?", "nobody")
	}
	n := 0
	f := &frame{E: E, pkg: ref.Pkg, info: ref.Pkg.TypesInfo, env: envT{}, subst: substMap{}, fn: label, decl: ref.Decl,
		closures: map[types.Object]*closureVal{}, loopN: &n}
	if ro := recvObj(f.info, ref.Decl); ro != nil {
		f.env[ro] = tVar("recv")
	}
	for _, po := range paramObjs(f.info, ref.Decl) {
		if po == nil {
			continue
		}
		switch {
		case isByteSlice(po.Type()) && po.Name() == "data":
			f.env[po] = mk("buf", "")
		case isByteSlice(po.Type()):
			f.env[po] = tVar("tag")
		case isUnsafePointer(po.Type()):
			f.env[po] = tVar("ptr")
		default:
			f.env[po] = tVar("arg:" + po.Name())
		}
	}
	if ref.Decl.Type.Results != nil {
		for _, fld := range ref.Decl.Type.Results.List {
			for _, nm := range fld.Names {
				if o := f.info.Defs[nm]; o != nil {
					f.env[o] = zeroTerm(o.Type())
					f.results = append(f.results, o)
				}
			}
		}
	}
	out := f.execList(ref.Decl.Body.List)
	if out.kind != oReturn || out.ret == nil {
		E.fail(label, ref.Decl, "function does not end in a value return on every path")
		return mk("?", "noreturn")
	}
	return out.ret
}

func newEmit(p *Prog) *emitEngine { return &emitEngine{p: p} }

// ruleSizeLaw: S.law + S.pair for every codec and the JSON value functions.
func ruleSizeLaw(c *Ctx) {
	p := c.P
	for _, ct := range p.Codecs {
		am, sm := ct.Methods["Append"], ct.Methods["Size"]
		c.Oblige("S.pair", am.Owner == sm.Owner, am.Fn.Pos(), ct.Name, "Append and Size come from the same type",
			fmt.Sprintf("a codec that overrides one of Append/Size must override the other (Append from %s, Size from %s): an inherited half describes a different encoding", am.Owner, sm.Owner), nil)
		E := newEmit(p)
		a := E.methodTerm(ct, "Append")
		s := E.methodTerm(ct, "Size")
		c.Funcs[ct.Name+".Append"] = true
		c.Funcs[ct.Name+".Size"] = true
		if len(E.undecided) > 0 {
			c.Oblige("S.law", false, am.Fn.Pos(), ct.Name, "Size ≡ Φ(Append)", "cannot summarise the encoder: "+strings.Join(E.undecided, "; "), nil)
			continue
		}
		pa := phi(a)
		if ct.Name == "plenccodec.WTFixedSliceWrapper" {
			// fixed-width lemma: this wrapper is only built around WT64/WT32
			// codecs (T.slicewrap), whose Size does not depend on ptr (T.fixedsize)
			fix := func(t *T) *T {
				if t.Op == "subsz" && t.K == "" && len(t.A) == 3 && t.A[2].Op == "nil" {
					return mk("subsz", "", t.A[0], mk("nil", ""), t.A[2])
				}
				return t
			}
			pa, s = rewriteT(pa, fix), rewriteT(s, fix)
		}
		ok := eq(s, pa)
		msg := "Size(ptr, tag) is exactly the size of what Append(data, ptr, tag) writes, for all values, with and without tag"
		var facts map[string]any
		if !ok {
			msg = "Size does not equal the size of what Append writes"
			facts = map[string]any{"size_term": s.String(), "phi_append_term": pa.String()}
		}
		c.Oblige("S.law", ok, sm.Fn.Pos(), ct.Name, "Size ≡ Φ(Append)", msg, facts)
	}
	c.Floor("S.law", 26)
	c.Floor("S.pair", 26)
	// the JSON value functions
	E := newEmit(p)
	af := p.findFunc("plenccodec", "", "appendJSONValue")
	sf := p.findFunc("plenccodec", "", "sizeJSONValue")
	if af == nil || sf == nil {
		c.Oblige("S.law", false, token.NoPos, "plenccodec.sizeJSONValue", "sizeJSONValue ≡ Φ(appendJSONValue)", "functions not found", nil)
		return
	}
	a := E.funcTerm(af.Obj, "appendJSONValue")
	s := E.funcTerm(sf.Obj, "sizeJSONValue")
	if len(E.undecided) > 0 {
		c.Oblige("S.law", false, af.Decl.Pos(), "plenccodec.sizeJSONValue", "sizeJSONValue ≡ Φ(appendJSONValue)", "cannot summarise: "+strings.Join(E.undecided, "; "), nil)
		return
	}
	pa := phi(a)
	ok := eq(s, pa)
	var facts map[string]any
	if !ok {
		facts = map[string]any{"size_term": s.String(), "phi_append_term": pa.String()}
	}
	c.Oblige("S.law", ok, sf.Decl.Pos(), "plenccodec.sizeJSONValue", "sizeJSONValue ≡ Φ(appendJSONValue)", "size and append of JSON values agree clause by clause", facts)
}

// ruleProtoGrammar: S.spec for the proto-mode codecs (C12).
func ruleProtoGrammar(c *Ctx) {
	ruleSpec(c, func(n string) bool {
		return n == "plenccodec.ProtoSliceWrapper" || n == "plenccodec.ProtoMapCodec" || n == "plenccodec.TimeCompatCodec"
	})
	c.Floor("S.spec", 3)
}

// ruleSameDescriptor: S.same-desc – codecs that report the same descriptor
// (Type, LogicalType) must emit the same grammar, because the schema-less
// walker cannot tell them apart.
func ruleSameDescriptor(c *Ctx) {
	p := c.P
	type entry struct {
		ct   *CodecType
		term string
	}
	groups := map[string][]entry{}
	for _, ct := range p.Codecs {
		ft, via := p.resolveDescType(ct, 0)
		if via || ft == "" {
			continue
		}
		if _, classified := codecSpecs[ct.Name]; !classified && p.codecUnreachable(ct) {
			continue // not part of the classified world (see codecUnreachable)
		}
		lt := p.resolveLogical(ct, 0)
		E := newEmit(p)
		a := E.methodTerm(ct, "Append")
		if len(E.undecided) > 0 {
			continue
		}
		body, _ := stripBuf(a)
		// grammar up to where the value comes from: erase value expressions
		g := grammarOf(body)
		key := ft + "/" + lt
		if ft == "FieldTypeSlice" && lt == "" {
			// slices are told apart by their element descriptor: group by the element class the wrapper is built for
			cls := map[string]string{"WTVarIntSliceWrapper": "varint elements", "WTFixedSliceWrapper": "fixed-width elements",
				"WTLengthSliceWrapper": "length-delimited elements", "ProtoSliceWrapper": "length-delimited elements"}[ct.Named.Obj().Name()]
			if cls == "" {
				cls = ct.Name
			}
			key += cls
		}
		groups[key] = append(groups[key], entry{ct, g})
	}
	var keys []string
	for k := range groups {
		keys = append(keys, k)
	}
	sort.Strings(keys)
	for _, key := range keys {
		es := groups[key]
		if len(es) < 2 {
			continue
		}
		// reference: the default-mode codec of plenccodec
		sort.SliceStable(es, func(i, j int) bool {
			ri := strings.Contains(es[i].ct.Name, "Proto") || strings.Contains(es[i].ct.Name, "Compat") || strings.HasPrefix(es[i].ct.Name, "null.")
			rj := strings.Contains(es[j].ct.Name, "Proto") || strings.Contains(es[j].ct.Name, "Compat") || strings.HasPrefix(es[j].ct.Name, "null.")
			return !ri && rj
		})
		ref := es[0]
		for _, e := range es[1:] {
			ok := e.term == ref.term
			c.Oblige("S.same-desc", ok, e.ct.Methods["Append"].Fn.Pos(), e.ct.Name, "same grammar as "+ref.ct.Name+" (both report "+key+")",
				"two codecs with the same descriptor must be decodable by the same walker clause: "+ref.ct.Name+" emits "+ref.term+", "+e.ct.Name+" emits "+e.term, nil)
		}
	}
	c.Floor("S.same-desc", 8)
}

// grammarOf abstracts an emission term to its wire grammar: atoms keep their
// kind, value expressions are erased, tags keep their constants.
func grammarOf(t *T) string {
	switch t.Op {
	case "seq":
		var ps []string
		for _, a := range t.A {
			ps = append(ps, grammarOf(a))
		}
		return strings.Join(ps, " · ")
	case "raw":
		if t.A[0].Op == "tagbytes" {
			return "TAG" + t.A[0].String()[len("tagbytes"):]
		}
		if eq(t.A[0], tVar("tag")) {
			return "TAG"
		}
		if t.A[0].Op == "slice" && t.A[0].A[0].Op == "le" {
			return "FIX" + t.A[0].A[0].K
		}
		return "BYTES"
	case "varuint":
		if t.A[0].Op == "len" || t.A[0].Op == "add" || t.A[0].Op == "subsz" || t.A[0].Op == "loop" || t.A[0].Op == "mul" {
			return "LEN"
		}
		return "VARUINT"
	case "varint":
		return "VARINT"
	case "sub":
		tag := "notag"
		if len(t.A) == 3 && t.A[2].Op != "nil" {
			tag = "tagged"
		}
		if t.K != "" {
			return "SUB<" + t.K + ">"
		}
		return "SUB<" + tag + ">"
	case "if":
		return "[" + grammarOf(t.A[1]) + " | " + grammarOf(t.A[2]) + "]"
	case "loop":
		return "(" + grammarOf(t.A[len(t.A)-1]) + ")*"
	case "tswitch":
		return "TSWITCH"
	}
	return t.Op
}

// stripBuf removes the leading incoming buffer of an Append term.
func stripBuf(a *T) (*T, bool) {
	parts := seqParts(a)
	if len(parts) == 0 || parts[0].Op != "buf" {
		return a, false
	}
	return tSeq(parts[1:]...), true
}

// ruleFrame: S.frame – shape of the tagged form by wire type.
func ruleFrame(c *Ctx) {
	p := c.P
	for _, ct := range p.Codecs {
		consts, delegated, ok := p.wireInfo(ct)
		pos := ct.Methods["Append"].Fn.Pos()
		if !ok || delegated {
			continue // wrappers take the framing of the wrapped codec (sub)
		}
		E := newEmit(p)
		a := E.methodTerm(ct, "Append")
		if len(E.undecided) > 0 {
			c.Oblige("S.frame", false, pos, ct.Name, "framing", "cannot summarise Append: "+strings.Join(E.undecided, "; "), nil)
			continue
		}
		body, okb := stripBuf(a)
		if !okb {
			c.Oblige("S.frame", false, pos, ct.Name, "framing", "Append does not start from the data parameter", nil)
			continue
		}
		parts := seqParts(body)
		// if(c, X·B, Y·B) is if(c, X, Y)·B: an early return for the untagged
		// form repeats the body in both arms
		if len(parts) == 1 && parts[0].Op == "if" && len(parts[0].A) == 3 {
			l, r := seqParts(parts[0].A[1]), seqParts(parts[0].A[2])
			var common []*T
			for len(l) > 0 && len(r) > 0 && l[len(l)-1].String() == r[len(r)-1].String() {
				common = append([]*T{l[len(l)-1]}, common...)
				l, r = l[:len(l)-1], r[:len(r)-1]
			}
			if len(common) > 0 {
				parts = append([]*T{mk("if", parts[0].K, parts[0].A[0], tSeq(l...), tSeq(r...))}, common...)
			}
		}
		wt := consts[0]
		switch {
		case ct.Name == "plenccodec.ProtoSliceWrapper" || ct.Name == "plenccodec.ProtoMapCodec":
			// repeated form: one frame per element, no frame of its own (checked by S.spec under C12)
			continue
		case wt == "WTLength":
			// IF(tag≠∅, RAW(tag)·VARUINT(Φ(B)), ε) · B
			good := false
			why := "tagged form must be tag · varuint(length of body) · body, untagged form the bare body"
			if len(parts) >= 1 && parts[0].Op == "if" && parts[0].A[0].String() == "nonempty(var{tag})" && len(seqParts(parts[0].A[2])) == 0 {
				hdr := seqParts(parts[0].A[1])
				rest := tSeq(parts[1:]...)
				if len(hdr) == 2 && hdr[0].String() == "raw(var{tag})" && hdr[1].Op == "varuint" {
					want := phi(rest)
					if ct.Name == "plenccodec.WTFixedSliceWrapper" {
						fix := func(t *T) *T {
							if t.Op == "subsz" && t.K == "" && len(t.A) == 3 && t.A[2].Op == "nil" {
								return mk("subsz", "", t.A[0], mk("nil", ""), t.A[2])
							}
							return t
						}
						want = rewriteT(want, fix)
					}
					good = eq(hdr[1].A[0], want)
					if !good {
						why = "the length prefix is not the size of the body that follows: prefix " + hdr[1].A[0].String() + " vs body size " + want.String()
					}
					if mentions(rest, "tag") {
						good = false
						why = "the body depends on the tag"
					}
				}
			}
			c.Oblige("S.frame", good, pos, ct.Name, "length-delimited framing", why, nil)
		default:
			// VarInt / fixed / counted: TAG · body, body independent of tag
			good := len(parts) >= 1 && parts[0].String() == "raw(var{tag})" && !mentions(tSeq(parts[1:]...), "tag")
			c.Oblige("S.frame", good, pos, ct.Name, wt+" framing: tag · body", "the tag is written first, unconditionally, and the body does not depend on it", nil)
		}
	}
	c.Floor("S.frame", 20)
}

// ruleEmitLemmas: the two lemmas EMIT's normalisation uses are true of the code.
func ruleEmitLemmas(c *Ctx) {
	p := c.P
	// T.szu-small: SizeVarUint returns 1 for v < 0x80 - by abstract execution of
	// its body for every bit length 0..7 (BITLEN), so the shape of the function
	// does not matter
	ok := false
	if sz := p.ssaFunc("plenccore.SizeVarUint"); sz != nil {
		ok = true
		for L := int64(0); L <= 7; L++ {
			rs, _, why := blExec(sz, []blVal{{blBits, L}})
			if why != "" || len(rs) != 1 || rs[0].kind != blInt || rs[0].n != 1 {
				ok = false
			}
		}
	}
	c.Oblige("T.szu-small", ok, token.NoPos, "plenccore.SizeVarUint", "SizeVarUint(v) == 1 for v < 0x80", "lemma used to size bool and type-code varints", nil)
	// T.fixedsize: codecs with a fixed wire type have Size == K + len(tag), independent of ptr
	for _, ct := range p.Codecs {
		consts, delegated, okw := p.wireInfo(ct)
		if !okw || delegated || len(consts) != 1 || (consts[0] != "WT64" && consts[0] != "WT32") {
			continue
		}
		E := newEmit(p)
		s := E.methodTerm(ct, "Size")
		want := map[string]int64{"WT64": 8, "WT32": 4}[consts[0]]
		good := len(E.undecided) == 0 && eq(s, tAdd(tLen(tVar("tag")), tConst(want)))
		c.Oblige("T.fixedsize", good, ct.Methods["Size"].Fn.Pos(), ct.Name, fmt.Sprintf("Size == %d + len(tag)", want),
			"fixed-width codecs have a size that does not depend on the value (packed float slices divide the data length by it): found "+s.String(), nil)
	}
	c.Floor("T.fixedsize", 3)
}
