package main

import (
	"fmt"
	"go/ast"
	"go/token"
	"strings"
)

// ---------------------------------------------------------------------------
// S.spec: the emission grammar of each shipped codec against a spec written
// independently from README.md / wire.go (the static counterpart of "an
// independent encoder").

func tagBytes(wt, idx int64) *T { return mk("tagbytes", "", tConst(wt), tConst(idx)) }
func rawT(x *T) *T              { return mk("raw", "", x) }

var rawTag = rawT(tVar("tag"))

// unframe splits a length-delimited Append body into (frame ok, inner body).
func unframe(body *T) (*T, bool) {
	parts := seqParts(body)
	if len(parts) >= 1 && parts[0].Op == "if" && parts[0].A[0].String() == "nonempty(var{tag})" {
		hdr := seqParts(parts[0].A[1])
		if len(hdr) == 2 && eq(hdr[0], rawTag) && hdr[1].Op == "varuint" && len(seqParts(parts[0].A[2])) == 0 {
			return tSeq(parts[1:]...), true
		}
	}
	return nil, false
}

func loadsFromPtr(v *T) bool { return mentions(v, "ptr") }

func isOmitGuard(t *T, codec *T) (ptr, tag *T, ok bool) {
	// if(omit(C, P), ε, sub(C, P, TAG))
	if t.Op != "if" || t.A[0].Op != "omit" || len(seqParts(t.A[1])) != 0 || t.A[2].Op != "sub" {
		return nil, nil, false
	}
	o, s := t.A[0], t.A[2]
	if !eq(o.A[0], s.A[0]) || !eq(o.A[1], s.A[1]) {
		return nil, nil, false
	}
	if codec != nil && !eq(codec, s.A[0]) {
		return nil, nil, false
	}
	return s.A[1], s.A[2], true
}

type specFn func(body *T) (bool, string)

func specScalar(atom string) specFn {
	return func(b *T) (bool, string) {
		p := seqParts(b)
		if len(p) == 2 && eq(p[0], rawTag) && p[1].Op == atom && loadsFromPtr(p[1].A[0]) && p[1].A[0].Op != "if" {
			return true, ""
		}
		return false, "expected tag · " + atom + "(value loaded from ptr)"
	}
}

func specBool(b *T) (bool, string) {
	p := seqParts(b)
	if len(p) == 2 && eq(p[0], rawTag) && p[1].Op == "varuint" {
		v := p[1].A[0]
		if v.Op == "if" && loadsFromPtr(v.A[0]) && eq(v.A[1], tConst(1)) && eq(v.A[2], tConst(0)) {
			return true, ""
		}
	}
	return false, "expected tag · varuint(1 if true else 0)"
}

func specFloat(width string, bits string) specFn {
	return func(b *T) (bool, string) {
		p := seqParts(b)
		if len(p) == 2 && eq(p[0], rawTag) && p[1].Op == "raw" {
			x := p[1].A[0]
			if x.Op == "slice" && x.A[0].Op == "le" && x.A[0].K == width {
				v := x.A[0].A[0]
				// the bits of the value itself: a plain access path from ptr, nothing
				// chosen or computed on the way (a NaN swapped for the canonical one
				// no longer round-trips its bit pattern)
				if v.Op == "call" && v.K == bits && loadsFromPtr(v) && len(v.A) == 1 && isAccessPathT(v.A[0]) {
					return true, ""
				}
			}
		}
		return false, "expected tag · little-endian " + width + " bytes of " + bits
	}
}

func specStringLike(b *T) (bool, string) {
	p := seqParts(b)
	if len(p) == 2 && p[0].Op == "if" && p[1].Op == "raw" && loadsFromPtr(p[1].A[0]) {
		hdr := seqParts(p[0].A[1])
		if p[0].A[0].String() == "nonempty(var{tag})" && len(hdr) == 2 && eq(hdr[0], rawTag) &&
			eq(hdr[1], mk("varuint", "", tLen(p[1].A[0]))) && len(seqParts(p[0].A[2])) == 0 {
			return true, ""
		}
	}
	return false, "expected [tag · varuint(len)] · bytes, the prefix only when the tag is non-empty"
}

func specTime(atom string) specFn {
	return func(b *T) (bool, string) {
		in, ok := unframe(b)
		if !ok {
			return false, "expected a length-delimited frame"
		}
		p := seqParts(in)
		if len(p) == 4 && eq(p[0], rawT(tagBytes(0, 1))) && eq(p[2], rawT(tagBytes(0, 2))) && p[1].Op == atom && p[3].Op == atom {
			if strings.Contains(p[1].A[0].String(), "field{Seconds}") && strings.Contains(p[3].A[0].String(), "field{Nanoseconds}") &&
				strings.Contains(p[1].A[0].String(), "upd{plenccodec.ptime.Set}") && loadsFromPtr(p[1].A[0]) {
				return true, ""
			}
			// the same written out: seconds = t.Unix(), nanoseconds = t.Nanosecond() of the time behind ptr
			strip := func(t *T) *T {
				for {
					switch {
					case (t.Op == "conv" || t.Op == "cast") && len(t.A) == 1:
						t = t.A[0]
					case t.Op == "deref" && len(t.A) == 1 && t.A[0].Op == "cast" && len(t.A[0].A) == 1 && t.A[0].A[0].Op == "addr" && len(t.A[0].A[0].A) == 1:
						// *(*uint64)(unsafe.Pointer(&x)): the same bits as an unsigned number
						t = t.A[0].A[0].A[0]
					default:
						return t
					}
				}
			}
			sec, ns := strip(p[1].A[0]), strip(p[3].A[0])
			if sec.Op == "call" && sec.K == "time.Unix" && ns.Op == "call" && ns.K == "time.Nanosecond" &&
				len(sec.A) == 1 && len(ns.A) == 1 && eq(sec.A[0], ns.A[0]) && loadsFromPtr(sec.A[0]) {
				return true, ""
			}
		}
		return false, "expected seconds as field 1 and nanoseconds as field 2, both " + atom + "s, both always written"
	}
}

func specStruct(b *T) (bool, string) {
	in, ok := unframe(b)
	if !ok {
		return false, "expected a length-delimited frame"
	}
	if in.Op == "loop" && in.K == "range" && len(in.A) == 2 && eq(in.A[0], mk("field", "fields", tVar("recv"))) {
		codec := mk("field", "codec", tVar("$r1"))
		ptr, tag, ok := isOmitGuard(in.A[1], codec)
		if ok && eq(tag, mk("field", "tag", tVar("$r1"))) && loadsFromPtr(ptr) && strings.Contains(ptr.String(), "field{offset}(var{$r1})") {
			return true, ""
		}
	}
	return false, "expected, for each field in declaration order: nothing if the field codec omits the value, else the field codec's encoding with the precomputed field tag"
}

func specPointer(b *T) (bool, string) {
	if b.Op == "if" && b.A[0].Op == "isnil" && len(seqParts(b.A[1])) == 0 && b.A[2].Op == "sub" {
		s := b.A[2]
		if eq(s.A[0], mk("field", "Underlying", tVar("recv"))) && eq(s.A[1], b.A[0].A[0]) && eq(s.A[2], tVar("tag")) && loadsFromPtr(s.A[1]) {
			return true, ""
		}
	}
	return false, "expected: nil pointer writes nothing, otherwise the pointee's encoding with the same tag"
}

var sliceLen = mk("field", "Len", mk("deref", "", mk("cast", "plenccodec.sliceHeader", tVar("ptr"))))
var sliceU = mk("field", "Underlying", mk("field", "BaseSliceWrapper", tVar("recv")))

func isElemPtr(t *T) bool {
	s := t.String()
	return strings.Contains(s, "field{Data}") && strings.Contains(s, "field{EltSize}") && strings.Contains(s, "var{$i1}")
}

func specPackedSlice(b *T) (bool, string) {
	in, ok := unframe(b)
	if !ok {
		return false, "expected a length-delimited frame"
	}
	if in.Op == "loop" && in.K == "count" && eq(in.A[0], sliceLen) {
		e := in.A[1]
		if e.Op == "sub" && eq(e.A[0], sliceU) && isElemPtr(e.A[1]) && e.A[2].Op == "nil" {
			return true, ""
		}
	}
	return false, "expected packed elements: each element's untagged encoding, nothing else"
}

func specCountedSlice(b *T) (bool, string) {
	p := seqParts(b)
	if len(p) == 3 && eq(p[0], rawTag) && eq(p[1], mk("varuint", "", sliceLen)) && p[2].Op == "loop" && p[2].K == "count" && eq(p[2].A[0], sliceLen) {
		e := seqParts(p[2].A[1])
		if len(e) == 2 && e[1].Op == "sub" && eq(e[1].A[0], sliceU) && isElemPtr(e[1].A[1]) && e[1].A[2].Op == "nil" &&
			eq(e[0], mk("varuint", "", phi(e[1]))) {
			return true, ""
		}
	}
	return false, "expected tag · count · (length · element)*, each length the size of the element that follows"
}

func specProtoSlice(b *T) (bool, string) {
	if b.Op == "loop" && b.K == "count" && eq(b.A[0], sliceLen) {
		e := b.A[1]
		if e.Op == "sub" && eq(e.A[0], sliceU) && isElemPtr(e.A[1]) && eq(e.A[2], tVar("tag")) {
			return true, ""
		}
	}
	return false, "expected one tagged element per entry (protobuf repeated field)"
}

func mapEntry(p []*T, recv *T) (bool, string) {
	// varuint(ENTRY) · K? · V?
	if len(p) != 3 || p[0].Op != "varuint" {
		return false, "expected entry = length · key? · value?"
	}
	kc, vc := mk("field", "keyCodec", recv), mk("field", "valueCodec", recv)
	kp, kt, ok1 := isOmitGuard(p[1], kc)
	vp, vt, ok2 := isOmitGuard(p[2], vc)
	if !ok1 || !ok2 || !eq(kt, mk("field", "keyTag", recv)) || !eq(vt, mk("field", "valueTag", recv)) {
		return false, "key must be written with the key codec and key tag, value with the value codec and value tag, each unless omitted"
	}
	if !strings.Contains(kp.String(), "$k1") || !strings.Contains(vp.String(), "mapiterelem") {
		return false, "key/value pointers must come from the map iterator"
	}
	if !eq(p[0].A[0], phi(tSeq(p[1], p[2]))) {
		return false, "entry length is not the size of key + value"
	}
	return true, ""
}

func specMap(b *T) (bool, string) {
	p := seqParts(b)
	recv := tVar("recv")
	if len(p) == 3 && eq(p[0], rawTag) && p[1].Op == "varuint" && p[1].A[0].Op == "call" && p[1].A[0].K == "maplen" &&
		p[2].Op == "loop" && p[2].K == "mapiter" && eq(p[2].A[0], tVar("ptr")) {
		return mapEntry(seqParts(p[2].A[1]), recv)
	}
	return false, "expected tag · count · entry*"
}

func specProtoMap(b *T) (bool, string) {
	recv := mk("field", "MapCodec", tVar("recv"))
	if b.Op == "loop" && b.K == "mapiter" && eq(b.A[0], tVar("ptr")) {
		p := seqParts(b.A[1])
		if len(p) == 4 && eq(p[0], rawTag) {
			return mapEntry(p[1:], recv)
		}
	}
	return false, "expected (tag · entry)* – one length-delimited entry per map element"
}

func specJSONMap(b *T) (bool, string) {
	p := seqParts(b)
	if len(p) == 3 && eq(p[0], rawTag) && p[1].Op == "varuint" && p[2].Op == "loop" && p[2].K == "rangemap" && eq(p[1].A[0], tLen(p[2].A[0])) {
		e := seqParts(p[2].A[1])
		k, v := tVar("$k1"), tVar("$r1")
		if len(e) == 5 && e[0].Op == "varuint" && eq(e[1], rawT(tagBytes(2, 1))) && eq(e[2], mk("varuint", "", tLen(k))) && eq(e[3], rawT(k)) &&
			eq(e[4], mk("sub", "appendJSONValue", v)) && eq(e[0].A[0], phi(tSeq(e[1:]...))) {
			return true, ""
		}
	}
	return false, "expected tag · count · (length · key as string field 1 · typed value)*"
}

func specJSONArray(b *T) (bool, string) {
	p := seqParts(b)
	if len(p) == 3 && eq(p[0], rawTag) && p[1].Op == "varuint" && p[2].Op == "loop" && p[2].K == "range" && eq(p[1].A[0], tLen(p[2].A[0])) {
		e := seqParts(p[2].A[1])
		v := tVar("$r1")
		if len(e) == 2 && e[0].Op == "varuint" && eq(e[1], mk("sub", "appendJSONValue", v)) && eq(e[0].A[0], phi(e[1])) {
			return true, ""
		}
	}
	return false, "expected tag · count · (length · typed value)*"
}

var codecSpecs = map[string]specFn{
	"plenccodec.IntCodec":             specScalar("varint"),
	"plenccodec.UintCodec":            specScalar("varuint"),
	"plenccodec.FlatIntCodec":         specScalar("varuint"),
	"plenccodec.BQTimestampCodec":     specScalar("varuint"),
	"plenccodec.BoolCodec":            specBool,
	"plenccodec.Float64Codec":         specFloat("8", "math.Float64bits"),
	"plenccodec.Float32Codec":         specFloat("4", "math.Float32bits"),
	"plenccodec.StringCodec":          specStringLike,
	"plenccodec.BytesCodec":           specStringLike,
	"plenccodec.InternedStringCodec":  specStringLike,
	"plenccodec.TimeCodec":            specTime("varint"),
	"plenccodec.TimeCompatCodec":      specTime("varuint"),
	"plenccodec.StructCodec":          specStruct,
	"plenccodec.PointerWrapper":       specPointer,
	"plenccodec.WTVarIntSliceWrapper": specPackedSlice,
	"plenccodec.WTFixedSliceWrapper":  specPackedSlice,
	"plenccodec.WTLengthSliceWrapper": specCountedSlice,
	"plenccodec.ProtoSliceWrapper":    specProtoSlice,
	"plenccodec.MapCodec":             specMap,
	"plenccodec.ProtoMapCodec":        specProtoMap,
	"plenccodec.JSONMapCodec":         specJSONMap,
	"plenccodec.JSONArrayCodec":       specJSONArray,
	"null.nullIntCodec":               specScalar("varint"),
	"null.nullBoolCodec":              specBool,
	"null.nullFloatCodec":             specFloat("8", "math.Float64bits"),
	"null.nullStringCodec":            specStringLike,
	"null.internedNullStringCodec":    specStringLike,
	"null.nullTimeCodec":              specTime("varint"),
}

func ruleSpec(c *Ctx, only func(name string) bool) {
	p := c.P
	for _, ct := range p.Codecs {
		if only != nil && !only(ct.Name) {
			continue
		}
		pos := ct.Methods["Append"].Fn.Pos()
		spec, ok := codecSpecs[ct.Name]
		if !ok {
			if p.codecUnreachable(ct) {
				c.Note("S.spec: %s has no entry in the format specification table and is not used by any code of the module (a codec shipped for users to register): its format is not part of the documented encoding of the accepted types - skipped", ct.Name)
				continue
			}
			c.Oblige("S.spec", false, pos, ct.Name, "emission grammar", "new codec type without an entry in the format specification table: needs classification", nil)
			continue
		}
		E := newEmit(p)
		a := E.methodTerm(ct, "Append")
		if len(E.undecided) > 0 {
			c.Oblige("S.spec", false, pos, ct.Name, "emission grammar", "cannot summarise Append: "+strings.Join(E.undecided, "; "), nil)
			continue
		}
		body, okb := stripBuf(a)
		if !okb {
			c.Oblige("S.spec", false, pos, ct.Name, "emission grammar", "Append does not extend the data parameter", nil)
			continue
		}
		good, why := spec(body)
		var facts map[string]any
		if !good {
			facts = map[string]any{"append_term": body.String()}
		}
		c.Oblige("S.spec", good, pos, ct.Name, "emission grammar", "the bytes Append emits must have the documented shape for all values: "+why, facts)
		c.Funcs[ct.Name+".Append"] = true
	}
}

// ruleJSONValueSpec: appendJSONValue = field 2 (type code) · [field 3 value].
func ruleJSONValueSpec(c *Ctx) {
	p := c.P
	af := p.findFunc("plenccodec", "", "appendJSONValue")
	if af == nil {
		c.Oblige("S.spec", false, token.NoPos, "plenccodec.appendJSONValue", "typed value grammar", "function not found", nil)
		return
	}
	E := newEmit(p)
	a := E.funcTerm(af.Obj, "appendJSONValue")
	body, okb := stripBuf(a)
	good := false
	why := "expected field 2 = type code, then the value as field 3 with the wire type of its codec"
	if okb && len(E.undecided) == 0 {
		parts := seqParts(body)
		if len(parts) == 2 && eq(parts[0], rawT(tagBytes(0, 2))) && parts[1].Op == "tswitch" {
			good = true
			codes := map[string]bool{}
			for _, cs := range parts[1].A[1:] {
				if strings.HasSuffix(cs.K, "!panic") {
					continue
				}
				e := seqParts(cs.A[0])
				if len(e) == 0 || e[0].Op != "varuint" {
					good = false
					continue
				}
				// a clause emits its code and its value field unconditionally: a value that is sometimes
				// written without its field 3 is invisible to the readers that were not changed with it
				for _, part := range e {
					if part.Op == "if" || part.Op == "tswitch" {
						good = false
						why = "clause " + cs.K + " emits conditionally (" + part.Op + "): the type code must always be followed by the same value field"
					}
				}
				code := e[0].A[0].String()
				if codes[code] {
					good = false
					why = "type code used twice"
				}
				codes[code] = true
				// the value field, when present, carries index 3
				rest := tSeq(e[1:]...).String()
				if len(e) > 1 && !strings.Contains(rest, "tagbytes(k{") {
					good = false
				}
				if len(e) > 1 && !strings.Contains(rest, ", k{3})") {
					good = false
					why = "value field is not field 3"
				}
			}
		}
	}
	c.Oblige("S.spec", good, af.Decl.Pos(), "plenccodec.appendJSONValue", "typed value grammar", why, nil)
}

// ruleFieldTag: the per-field tag is AppendTag(nil, <field codec>.WireType(), <field index>).
func ruleFieldTag(c *Ctx) {
	p := c.P
	fn := p.findFunc("plenccodec", "", "BuildStructCodec")
	if fn == nil {
		c.Oblige("T.fieldtag", false, token.NoPos, "plenccodec.BuildStructCodec", "field.tag", "function not found", nil)
		return
	}
	ok := false
	got := ""
	ast.Inspect(fn.Decl.Body, func(n ast.Node) bool {
		as, isAs := n.(*ast.AssignStmt)
		if !isAs || len(as.Lhs) != 1 || len(as.Rhs) != 1 {
			return true
		}
		sel, isSel := as.Lhs[0].(*ast.SelectorExpr)
		if !isSel || sel.Sel.Name != "tag" {
			return true
		}
		got = p.str(as.Rhs[0])
		ok = got == "plenccore.AppendTag(nil, fc.WireType(), field.index)"
		return true
	})
	// fc is what is stored as the field codec
	fcOK := false
	ast.Inspect(fn.Decl.Body, func(n ast.Node) bool {
		as, isAs := n.(*ast.AssignStmt)
		if isAs && len(as.Lhs) == 1 && p.str(as.Lhs[0]) == "field.codec" && p.str(as.Rhs[0]) == "fc" {
			fcOK = true
		}
		return true
	})
	c.Oblige("T.fieldtag", ok && fcOK, fn.Decl.Pos(), fn.Name(), "field.tag = AppendTag(nil, field codec's wire type, field index)",
		fmt.Sprintf("tags are varint(index<<3|wiretype) of the field's own codec and index; found %q (field.codec = fc: %v)", got, fcOK), nil)
	c.Floor("T.fieldtag", 1)
}

// isAccessPathT: the term is a load along a path of dereferences, casts and
// field selections from a variable - no conditional, call or arithmetic.
func isAccessPathT(t *T) bool {
	switch t.Op {
	case "var":
		return true
	case "deref", "cast", "field", "addr", "reinterp":
		for _, a := range t.A {
			if !isAccessPathT(a) {
				return false
			}
		}
		return len(t.A) > 0
	}
	return false
}
