package main

func ruleSameDescriptor(c *Ctx) {}

func ruleProtoGrammar(c *Ctx) {}
