package main

import (
	"sort"
	"strconv"
	"strings"
)

// T is an immutable symbolic term with a canonical string form. Terms cover
// ordinary value expressions, emission effects (what an Append writes) and
// size expressions (what a Size returns).
type T struct {
	Op string
	K  string
	A  []*T
	s  string
}

func (t *T) String() string {
	if t == nil {
		return "<nil>"
	}
	if t.s != "" {
		return t.s
	}
	var sb strings.Builder
	sb.WriteString(t.Op)
	if t.K != "" {
		sb.WriteString("{" + t.K + "}")
	}
	if len(t.A) > 0 {
		sb.WriteString("(")
		for i, a := range t.A {
			if i > 0 {
				sb.WriteString(", ")
			}
			sb.WriteString(a.String())
		}
		sb.WriteString(")")
	}
	t.s = sb.String()
	return t.s
}

func mk(op, k string, args ...*T) *T { return &T{Op: op, K: k, A: args} }

func eq(a, b *T) bool { return a.String() == b.String() }

func tConst(k int64) *T   { return mk("k", strconv.FormatInt(k, 10)) }
func tVar(name string) *T { return mk("var", name) }

var tEps = mk("seq", "")

func isConstT(t *T) (int64, bool) {
	if t.Op == "k" {
		v, err := strconv.ParseInt(t.K, 10, 64)
		return v, err == nil
	}
	return 0, false
}

// seq: concatenation of emissions (flattened, ε dropped).
func tSeq(parts ...*T) *T {
	var out []*T
	for _, p := range parts {
		if p == nil {
			continue
		}
		if p.Op == "seq" {
			out = append(out, p.A...)
		} else {
			out = append(out, p)
		}
	}
	if len(out) == 1 {
		return out[0]
	}
	return mk("seq", "", out...)
}

func seqParts(t *T) []*T {
	if t.Op == "seq" {
		return t.A
	}
	return []*T{t}
}

// add: AC-normalised sum with constant folding.
func tAdd(parts ...*T) *T {
	var out []*T
	var k int64
	var flat func(p *T)
	flat = func(p *T) {
		if p == nil {
			return
		}
		if p.Op == "add" {
			for _, a := range p.A {
				flat(a)
			}
			return
		}
		if v, ok := isConstT(p); ok {
			k += v
			return
		}
		out = append(out, p)
	}
	for _, p := range parts {
		flat(p)
	}
	sort.Slice(out, func(i, j int) bool { return out[i].String() < out[j].String() })
	if k != 0 {
		out = append(out, tConst(k))
	}
	if len(out) == 0 {
		return tConst(0)
	}
	if len(out) == 1 {
		return out[0]
	}
	return mk("add", "", out...)
}

func addParts(t *T) []*T {
	if t.Op == "add" {
		return t.A
	}
	if v, ok := isConstT(t); ok && v == 0 {
		return nil
	}
	return []*T{t}
}

func tMul(parts ...*T) *T {
	var out []*T
	k := int64(1)
	var flat func(p *T)
	flat = func(p *T) {
		if p.Op == "mul" {
			for _, a := range p.A {
				flat(a)
			}
			return
		}
		if v, ok := isConstT(p); ok {
			k *= v
			return
		}
		out = append(out, p)
	}
	for _, p := range parts {
		flat(p)
	}
	if k == 0 {
		return tConst(0)
	}
	sort.Slice(out, func(i, j int) bool { return out[i].String() < out[j].String() })
	if k != 1 {
		out = append(out, tConst(k))
	}
	if len(out) == 0 {
		return tConst(1)
	}
	if len(out) == 1 {
		return out[0]
	}
	return mk("mul", "", out...)
}

func tNot(c *T) *T {
	if c.Op == "not" {
		return c.A[0]
	}
	if c.Op == "k" {
		if c.K == "true" {
			return mk("k", "false")
		}
		if c.K == "false" {
			return mk("k", "true")
		}
	}
	return mk("not", "", c)
}

// tIf: conditional; negated conditions are normalised by swapping, equal
// branches collapse, and a common prefix (seq) or common summands (add) are
// factored out so that "if c {data = append(data, x)}" becomes data·if(c, x, ε).
func tIf(c, a, b *T) *T {
	if c.Op == "not" {
		return tIf(c.A[0], b, a)
	}
	if c.Op == "k" && c.K == "true" {
		return a
	}
	if c.Op == "k" && c.K == "false" {
		return b
	}
	if eq(a, b) {
		return a
	}
	// if(c, true, false) is c, if(c, false, true) its negation
	if a.Op == "k" && b.Op == "k" {
		if a.K == "true" && b.K == "false" {
			return c
		}
		if a.K == "false" && b.K == "true" {
			return tNot(c)
		}
	}
	// seq factoring
	if a.Op == "seq" || b.Op == "seq" || isEmission(a) || isEmission(b) {
		pa, pb := seqParts(a), seqParts(b)
		n := 0
		for n < len(pa) && n < len(pb) && eq(pa[n], pb[n]) {
			n++
		}
		if n > 0 {
			return tSeq(tSeq(pa[:n]...), tIf(c, tSeq(pa[n:]...), tSeq(pb[n:]...)))
		}
		// common suffix: if(c, x·B, B) = if(c, x, ε)·B (an early return for
		// one form repeats the body in both arms)
		m := 0
		for m < len(pa) && m < len(pb) && eq(pa[len(pa)-1-m], pb[len(pb)-1-m]) {
			m++
		}
		if m > 0 {
			return tSeq(tIf(c, tSeq(pa[:len(pa)-m]...), tSeq(pb[:len(pb)-m]...)), tSeq(pa[len(pa)-m:]...))
		}
	}
	// add factoring
	if a.Op == "add" || b.Op == "add" {
		// positive constant summands: factor out the smaller one (if(c, x+17, 16) = 16 + if(c, x+1, 0))
		constOfSum := func(t *T) int64 {
			for _, x := range addParts(t) {
				if v, ok := isConstT(x); ok {
					return v
				}
			}
			if v, ok := isConstT(t); ok {
				return v
			}
			return 0
		}
		if ka, kb := constOfSum(a), constOfSum(b); ka > 0 && kb > 0 && ka != kb {
			m := ka
			if kb < m {
				m = kb
			}
			return tAdd(tConst(m), tIf(c, tAdd(a, tConst(-m)), tAdd(b, tConst(-m))))
		}
		ma := map[string]int{}
		for _, x := range addParts(a) {
			ma[x.String()]++
		}
		var common, ra, rb []*T
		for _, y := range addParts(b) {
			if ma[y.String()] > 0 {
				ma[y.String()]--
				common = append(common, y)
			} else {
				rb = append(rb, y)
			}
		}
		cm := map[string]int{}
		for _, x := range common {
			cm[x.String()]++
		}
		for _, x := range addParts(a) {
			if cm[x.String()] > 0 {
				cm[x.String()]--
			} else {
				ra = append(ra, x)
			}
		}
		if len(common) > 0 {
			return tAdd(tAdd(common...), tIf(c, tAdd(ra...), tAdd(rb...)))
		}
	}
	return mk("if", "", c, a, b)
}

func isEmission(t *T) bool {
	switch t.Op {
	case "raw", "varuint", "varint", "fix", "tagc", "sub", "buf":
		return true
	case "seq":
		return true
	case "loop":
		return isEmission(t.A[len(t.A)-1])
	case "tswitch":
		for _, c := range t.A[1:] {
			if len(c.A) > 0 && isEmission(c.A[0]) {
				return true
			}
		}
		return false
	case "if":
		return isEmission(t.A[1]) || isEmission(t.A[2])
	}
	return false
}

// phi maps an emission term to the size it occupies.
func phi(t *T) *T {
	switch t.Op {
	case "seq":
		var parts []*T
		for _, a := range t.A {
			parts = append(parts, phi(a))
		}
		return tAdd(parts...)
	case "buf":
		return tConst(0) // the incoming buffer itself
	case "raw":
		return tLen(t.A[0])
	case "varuint":
		return tSzu(t.A[0])
	case "varint":
		return mk("szi", "", t.A[0])
	case "fix":
		k, _ := strconv.ParseInt(t.K, 10, 64)
		return tConst(k)
	case "tagc":
		return mk("sztag", "", t.A...)
	case "sub":
		if t.K != "" {
			return mk("subsz", pairedSizeFunc[t.K], t.A...)
		}
		return mk("subsz", "", t.A...)
	case "if":
		return tIf(t.A[0], phi(t.A[1]), phi(t.A[2]))
	case "loop":
		return tLoop(t.K, t.A[:len(t.A)-1], phi(t.A[len(t.A)-1]))
	case "tswitch":
		var cl []*T
		for _, a := range t.A[1:] {
			cl = append(cl, mk("case", a.K, phi(a.A[0])))
		}
		return mk("tswitch", "", append([]*T{t.A[0]}, cl...)...)
	case "panic":
		return t
	}
	return mk("phi?", "", t)
}

func tLen(x *T) *T {
	switch x.Op {
	case "le": // little-endian fixed array
		k, _ := strconv.ParseInt(x.K, 10, 64)
		return tConst(k)
	case "slice":
		return tLen(x.A[0])
	case "nil":
		return tConst(0)
	case "bytes": // append(data, b0, b1, …): one byte per operand
		return tConst(int64(len(x.A)))
	case "cast", "deref":
		// a value of fixed array type [N]T: its length is N
		if strings.HasPrefix(x.K, "[") {
			if i := strings.Index(x.K, "]"); i > 1 {
				if n, err := strconv.ParseInt(x.K[1:i], 10, 64); err == nil {
					return tConst(n)
				}
			}
		}
	}
	return mk("len", "", x)
}

// tLoop: loop(kind; space...; body). A size loop whose body is a constant K
// over a counted space normalises to K*N.
func tLoop(kind string, space []*T, body *T) *T {
	if kind == "range" && len(space) == 1 {
		// `for i := range s { e := &s[i] … }` is `for _, e := range s`: s[$kN] is the element $rN,
		// and a field read through its address is the field
		body = rewriteT(body, func(t *T) *T {
			if t.Op == "index" && len(t.A) == 2 && eq(t.A[0], space[0]) && t.A[1].Op == "var" && strings.HasPrefix(t.A[1].K, "$k") {
				return tVar("$r" + strings.TrimPrefix(t.A[1].K, "$k"))
			}
			if t.Op == "field" && len(t.A) == 1 && t.A[0].Op == "addr" && len(t.A[0].A) == 1 {
				return mk("field", t.K, t.A[0].A[0])
			}
			return t
		})
	}
	if kind == "count" && len(space) == 1 && space[0].Op == "len" && len(space[0].A) == 1 {
		// `for i := 0; i < len(s); i++ { … s[i] … }` with i used for nothing
		// else is `for _, e := range s`
		var iv string
		nb := rewriteT(body, func(t *T) *T {
			if t.Op == "index" && len(t.A) == 2 && eq(t.A[0], space[0].A[0]) && t.A[1].Op == "var" && strings.HasPrefix(t.A[1].K, "$i") && (iv == "" || iv == t.A[1].K) {
				iv = t.A[1].K
				return tVar("$r" + strings.TrimPrefix(iv, "$i"))
			}
			return t
		})
		if iv != "" && !mentions(nb, "$i") {
			return tLoop("range", []*T{space[0].A[0]}, nb)
		}
	}
	if v, ok := isConstT(body); ok && v == 0 {
		return tConst(0)
	}
	if body.Op == "seq" && len(body.A) == 0 {
		return tEps
	}
	if kind == "count" && len(space) == 1 && !mentions(body, "$") && !isEmission(body) {
		return tMul(space[0], body)
	}
	return mk("loop", kind, append(append([]*T{}, space...), body)...)
}

func mentions(t *T, prefix string) bool {
	if t.Op == "var" && strings.HasPrefix(t.K, prefix) {
		return true
	}
	for _, a := range t.A {
		if mentions(a, prefix) {
			return true
		}
	}
	return false
}

// subst replaces variables by name.
func substT(t *T, m map[string]*T) *T {
	if t.Op == "var" {
		if r, ok := m[t.K]; ok {
			return r
		}
		return t
	}
	if len(t.A) == 0 {
		return t
	}
	args := make([]*T, len(t.A))
	changed := false
	for i, a := range t.A {
		args[i] = substT(a, m)
		if args[i] != a {
			changed = true
		}
	}
	if !changed {
		return t
	}
	return rebuild(t.Op, t.K, args)
}

// rebuild re-applies the normalising constructors.
func rebuild(op, k string, args []*T) *T {
	switch op {
	case "seq":
		return tSeq(args...)
	case "add":
		return tAdd(args...)
	case "mul":
		return tMul(args...)
	case "if":
		return tIf(args[0], args[1], args[2])
	case "not":
		return tNot(args[0])
	case "len":
		return tLen(args[0])
	case "loop":
		return tLoop(k, args[:len(args)-1], args[len(args)-1])
	}
	return mk(op, k, args...)
}

// tSzu: size of a varuint. SizeVarUint(v) is 1 for v < 0x80 (checked against
// the primitive's own first guard by rule T.szu-small); it distributes over
// conditionals.
func tSzu(x *T) *T {
	if v, ok := isConstT(x); ok && v >= 0 && v < 0x80 {
		return tConst(1)
	}
	if x.Op == "if" {
		return tIf(x.A[0], tSzu(x.A[1]), tSzu(x.A[2]))
	}
	return mk("szu", "", x)
}

// pairedSizeFunc: emission functions that are never inlined (they are
// recursive); their size partner is checked against them by its own S.law
// instance, which is the induction hypothesis for every use.
var pairedSizeFunc = map[string]string{"appendJSONValue": "sizeJSONValue"}

// rewriteT applies fn bottom-up.
func rewriteT(t *T, fn func(*T) *T) *T {
	if len(t.A) == 0 {
		return fn(t)
	}
	args := make([]*T, len(t.A))
	for i, a := range t.A {
		args[i] = rewriteT(a, fn)
	}
	return fn(rebuild(t.Op, t.K, args))
}
