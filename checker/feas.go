package main

import (
	"go/constant"
	"go/token"

	"golang.org/x/tools/go/ssa"
)

// ---------------------------------------------------------------------------
// FEAS: feasibility under forced values. A few values of a function (the load
// of an option field, the result of typ.Kind(), of subc.WireType()) are forced
// to constants; branch conditions that become decidable prune the control-flow
// graph, everything else stays free (both arms feasible). What is asked of the
// result is which values of interest still reach a use. This decides "the
// option selects codec X" or "element wire type K gets wrapper W" without
// caring how the test is written (switch, if/else chain, negation, a default
// overwritten under the condition, || with other disjuncts).

type feas struct {
	f        *ssa.Function
	leaf     func(ssa.Value) (constant.Value, bool)
	feasible map[[2]*ssa.BasicBlock]bool
	reach    map[*ssa.BasicBlock]bool
	sawLeaf  bool
	nilConst bool // the nil constant evaluates to a value of its own (for "err == nil" under a forced error)
}

func (fe *feas) eval(v ssa.Value, depth int) (constant.Value, bool) {
	if depth > 8 {
		return nil, false
	}
	if c, ok := fe.leaf(v); ok {
		fe.sawLeaf = true
		return c, true
	}
	switch x := v.(type) {
	case *ssa.Const:
		if x.Value != nil {
			return x.Value, true
		}
		if fe.nilConst {
			return feasNil, true
		}
	case *ssa.Convert:
		return fe.eval(x.X, depth+1)
	case *ssa.ChangeType:
		return fe.eval(x.X, depth+1)
	case *ssa.UnOp:
		if x.Op == token.NOT {
			if r, ok := fe.eval(x.X, depth+1); ok && r.Kind() == constant.Bool {
				return constant.MakeBool(!constant.BoolVal(r)), true
			}
		}
	case *ssa.BinOp:
		switch x.Op {
		case token.EQL, token.NEQ, token.LSS, token.LEQ, token.GTR, token.GEQ:
			a, oka := fe.eval(x.X, depth+1)
			b, okb := fe.eval(x.Y, depth+1)
			if oka && okb && a.Kind() == b.Kind() && a.Kind() != constant.Unknown {
				if a.Kind() == constant.Bool {
					if x.Op == token.EQL || x.Op == token.NEQ {
						return constant.MakeBool((constant.BoolVal(a) == constant.BoolVal(b)) == (x.Op == token.EQL)), true
					}
					return nil, false
				}
				return constant.MakeBool(constant.Compare(a, x.Op, b)), true
			}
		}
	case *ssa.Phi:
		var val constant.Value
		for i, e := range x.Edges {
			if !fe.feasible[[2]*ssa.BasicBlock{x.Block().Preds[i], x.Block()}] {
				continue
			}
			r, ok := fe.eval(e, depth+1)
			if !ok {
				return nil, false
			}
			if val != nil && !constant.Compare(val, token.EQL, r) {
				return nil, false
			}
			val = r
		}
		return val, val != nil
	}
	return nil, false
}

// feasNil / feasNonNil stand for "the nil constant" and "some value that is not nil".
var (
	feasNil    = constant.MakeString("<nil>")
	feasNonNil = constant.MakeString("<non-nil>")
)

func feasibleUnder(f *ssa.Function, leaf func(ssa.Value) (constant.Value, bool)) *feas {
	if len(f.Blocks) == 0 {
		return &feas{f: f, leaf: leaf, feasible: map[[2]*ssa.BasicBlock]bool{}, reach: map[*ssa.BasicBlock]bool{}}
	}
	return feasibleFrom(f, f.Blocks[0], false, leaf)
}

// feasibleFrom explores from block start only (what can follow it); edges
// back into start are not taken: executing it again yields fresh values, to
// which the forcing does not apply.
func feasibleFrom(f *ssa.Function, start *ssa.BasicBlock, nilConst bool, leaf func(ssa.Value) (constant.Value, bool)) *feas {
	fe := &feas{f: f, leaf: leaf, nilConst: nilConst, feasible: map[[2]*ssa.BasicBlock]bool{}, reach: map[*ssa.BasicBlock]bool{}}
	fe.reach[start] = true
	work := []*ssa.BasicBlock{start}
	for len(work) > 0 {
		b := work[len(work)-1]
		work = work[:len(work)-1]
		succs := b.Succs
		if iff, ok := b.Instrs[len(b.Instrs)-1].(*ssa.If); ok {
			if r, known := fe.eval(iff.Cond, 0); known && r.Kind() == constant.Bool {
				if constant.BoolVal(r) {
					succs = b.Succs[:1]
				} else {
					succs = b.Succs[1:]
				}
			}
		}
		for _, sc := range succs {
			e := [2]*ssa.BasicBlock{b, sc}
			if sc == start && start != f.Blocks[0] {
				continue
			}
			if !fe.feasible[e] {
				// a newly feasible edge can only widen what later φ-nodes may be: revisit
				fe.feasible[e] = true
				fe.reach[sc] = true
				work = append(work, sc)
			}
		}
	}
	return fe
}

// live: v reaches a use other than a φ-node through feasible edges only.
func (fe *feas) live(v ssa.Value) bool {
	seen := map[ssa.Value]bool{}
	var walk func(v ssa.Value) bool
	walk = func(v ssa.Value) bool {
		if seen[v] {
			return false
		}
		seen[v] = true
		refs := v.Referrers()
		if refs == nil {
			return false
		}
		for _, r := range *refs {
			if !fe.reach[r.Block()] {
				continue
			}
			switch x := r.(type) {
			case *ssa.Phi:
				for i, e := range x.Edges {
					if e == v && fe.feasible[[2]*ssa.BasicBlock{x.Block().Preds[i], x.Block()}] && walk(x) {
						return true
					}
				}
			case *ssa.DebugRef:
			default:
				return true
			}
		}
		return false
	}
	return walk(v)
}
