package main

import (
	"go/constant"
	"go/token"

	"golang.org/x/tools/go/ssa"
)

// ---------------------------------------------------------------------------
// FEAS: feasibility under forced values. A few values of a function (the load
// of an option field, the result of typ.Kind(), of subc.WireType()) are forced
// to constants; branch conditions that become decidable prune the control-flow
// graph, everything else stays free (both arms feasible). What is asked of the
// result is which values of interest still reach a use. This decides "the
// option selects codec X" or "element wire type K gets wrapper W" without
// caring how the test is written (switch, if/else chain, negation, a default
// overwritten under the condition, || with other disjuncts).

type feas struct {
	f        *ssa.Function
	leaf     func(ssa.Value) (constant.Value, bool)
	feasible map[[2]*ssa.BasicBlock]bool
	reach    map[*ssa.BasicBlock]bool
	sawLeaf  bool
	nilConst bool // the nil constant evaluates to a value of its own (for "err == nil" under a forced error)
	heapFwd  bool // a load of a field the function stores exactly once evaluates to the stored value (h.Len = count; … i < h.Len)
}

func (fe *feas) eval(v ssa.Value, depth int) (constant.Value, bool) {
	if depth > 8 {
		return nil, false
	}
	if c, ok := fe.leaf(v); ok {
		fe.sawLeaf = true
		return c, true
	}
	switch x := v.(type) {
	case *ssa.Const:
		if x.Value != nil {
			return x.Value, true
		}
		if fe.nilConst {
			return feasNil, true
		}
	case *ssa.Convert:
		return fe.eval(x.X, depth+1)
	case *ssa.ChangeType:
		return fe.eval(x.X, depth+1)
	case *ssa.UnOp:
		if x.Op == token.NOT {
			if r, ok := fe.eval(x.X, depth+1); ok && r.Kind() == constant.Bool {
				return constant.MakeBool(!constant.BoolVal(r)), true
			}
		}
		if x.Op == token.MUL && fe.heapFwd {
			if fa, ok := x.X.(*ssa.FieldAddr); ok {
				var stored ssa.Value
				n := 0
				for _, b := range fe.f.Blocks {
					for _, in := range b.Instrs {
						if st, ok := in.(*ssa.Store); ok {
							if fa2, ok := st.Addr.(*ssa.FieldAddr); ok && fa2.Field == fa.Field && sameEntryAddr(fa2.X, fa.X, 0) {
								stored = st.Val
								n++
							}
						}
					}
				}
				if n == 1 {
					return fe.eval(stored, depth+1)
				}
			}
		}
	case *ssa.BinOp:
		switch x.Op {
		case token.ADD, token.SUB:
			if fe.heapFwd {
				a, oka := fe.eval(x.X, depth+1)
				b, okb := fe.eval(x.Y, depth+1)
				if oka && okb && a.Kind() == constant.Int && b.Kind() == constant.Int {
					return constant.BinaryOp(a, x.Op, b), true
				}
			}
		case token.EQL, token.NEQ, token.LSS, token.LEQ, token.GTR, token.GEQ:
			a, oka := fe.eval(x.X, depth+1)
			b, okb := fe.eval(x.Y, depth+1)
			// nothing unsigned is below zero
			if isUnsigned(x.X.Type()) {
				if oka && !okb && a.Kind() == constant.Int && constant.Sign(a) == 0 {
					switch x.Op {
					case token.GTR:
						return constant.MakeBool(false), true
					case token.LEQ:
						return constant.MakeBool(true), true
					}
				}
				if okb && !oka && b.Kind() == constant.Int && constant.Sign(b) == 0 {
					switch x.Op {
					case token.LSS:
						return constant.MakeBool(false), true
					case token.GEQ:
						return constant.MakeBool(true), true
					}
				}
			}
			if oka && okb && a.Kind() == b.Kind() && a.Kind() != constant.Unknown {
				if a.Kind() == constant.Bool {
					if x.Op == token.EQL || x.Op == token.NEQ {
						return constant.MakeBool((constant.BoolVal(a) == constant.BoolVal(b)) == (x.Op == token.EQL)), true
					}
					return nil, false
				}
				return constant.MakeBool(constant.Compare(a, x.Op, b)), true
			}
		}
	case *ssa.Call:
		if bi, ok := x.Common().Value.(*ssa.Builtin); ok && bi.Name() == "len" && fe.heapFwd && len(x.Common().Args) == 1 {
			return fe.evalLen(x.Common().Args[0], depth+1)
		}
	case *ssa.Phi:
		var val constant.Value
		for i, e := range x.Edges {
			if !fe.feasible[[2]*ssa.BasicBlock{x.Block().Preds[i], x.Block()}] {
				continue
			}
			r, ok := fe.eval(e, depth+1)
			if !ok {
				return nil, false
			}
			if val != nil && !constant.Compare(val, token.EQL, r) {
				return nil, false
			}
			val = r
		}
		return val, val != nil
	}
	return nil, false
}

// feasNil / feasNonNil stand for "the nil constant" and "some value that is not nil".
var (
	feasNil    = constant.MakeString("<nil>")
	feasNonNil = constant.MakeString("<non-nil>")
)

func feasibleUnder(f *ssa.Function, leaf func(ssa.Value) (constant.Value, bool)) *feas {
	if len(f.Blocks) == 0 {
		return &feas{f: f, leaf: leaf, feasible: map[[2]*ssa.BasicBlock]bool{}, reach: map[*ssa.BasicBlock]bool{}}
	}
	return feasibleFrom(f, f.Blocks[0], false, leaf)
}

// feasibleFrom explores from block start only (what can follow it); edges
// back into start are not taken: executing it again yields fresh values, to
// which the forcing does not apply.
func feasibleFrom(f *ssa.Function, start *ssa.BasicBlock, nilConst bool, leaf func(ssa.Value) (constant.Value, bool)) *feas {
	return feasibleFromOpt(f, start, nilConst, false, leaf)
}

func feasibleFromOpt(f *ssa.Function, start *ssa.BasicBlock, nilConst, heapFwd bool, leaf func(ssa.Value) (constant.Value, bool)) *feas {
	fe := &feas{f: f, leaf: leaf, nilConst: nilConst, heapFwd: heapFwd, feasible: map[[2]*ssa.BasicBlock]bool{}, reach: map[*ssa.BasicBlock]bool{}}
	fe.reach[start] = true
	work := []*ssa.BasicBlock{start}
	for len(work) > 0 {
		b := work[len(work)-1]
		work = work[:len(work)-1]
		succs := b.Succs
		if iff, ok := b.Instrs[len(b.Instrs)-1].(*ssa.If); ok {
			if r, known := fe.eval(iff.Cond, 0); known && r.Kind() == constant.Bool {
				if constant.BoolVal(r) {
					succs = b.Succs[:1]
				} else {
					succs = b.Succs[1:]
				}
			}
		}
		for _, sc := range succs {
			e := [2]*ssa.BasicBlock{b, sc}
			if sc == start && start != f.Blocks[0] {
				continue
			}
			if !fe.feasible[e] {
				// a newly feasible edge can only widen what later φ-nodes may be: revisit
				fe.feasible[e] = true
				fe.reach[sc] = true
				work = append(work, sc)
			}
		}
	}
	return fe
}

// live: v reaches a use other than a φ-node through feasible edges only.
func (fe *feas) live(v ssa.Value) bool {
	seen := map[ssa.Value]bool{}
	var walk func(v ssa.Value) bool
	walk = func(v ssa.Value) bool {
		if seen[v] {
			return false
		}
		seen[v] = true
		refs := v.Referrers()
		if refs == nil {
			return false
		}
		for _, r := range *refs {
			if !fe.reach[r.Block()] {
				continue
			}
			switch x := r.(type) {
			case *ssa.Phi:
				for i, e := range x.Edges {
					if e == v && fe.feasible[[2]*ssa.BasicBlock{x.Block().Preds[i], x.Block()}] && walk(x) {
						return true
					}
				}
			case *ssa.DebugRef:
			default:
				return true
			}
		}
		return false
	}
	return walk(v)
}

// evalLen: the length of a slice value built by make / re-slicing / merging.
func (fe *feas) evalLen(v ssa.Value, depth int) (constant.Value, bool) {
	if depth > 8 {
		return nil, false
	}
	switch x := v.(type) {
	case *ssa.MakeSlice:
		return fe.eval(x.Len, depth+1)
	case *ssa.Slice:
		if x.High == nil {
			return nil, false
		}
		hi, ok := fe.eval(x.High, depth+1)
		if !ok || hi.Kind() != constant.Int {
			return nil, false
		}
		if x.Low == nil {
			return hi, true
		}
		lo, ok := fe.eval(x.Low, depth+1)
		if !ok || lo.Kind() != constant.Int {
			return nil, false
		}
		return constant.BinaryOp(hi, token.SUB, lo), true
	case *ssa.ChangeType:
		return fe.evalLen(x.X, depth+1)
	case *ssa.Phi:
		var val constant.Value
		for i, e := range x.Edges {
			if !fe.feasible[[2]*ssa.BasicBlock{x.Block().Preds[i], x.Block()}] {
				continue
			}
			r, ok := fe.evalLen(e, depth+1)
			if !ok {
				return nil, false
			}
			if val != nil && !constant.Compare(val, token.EQL, r) {
				return nil, false
			}
			val = r
		}
		return val, val != nil
	}
	return nil, false
}
