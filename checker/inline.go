package main

import (
	"bytes"
	_ "embed"
	"fmt"
	"go/ast"
	"go/constant"
	"go/token"
	"go/types"
	"os"
	"sort"
	"strings"

	"golang.org/x/tools/go/ast/astutil"
	"golang.org/x/tools/go/packages"
)

// ---------------------------------------------------------------------------
// De-extraction pre-pass.
//
// Most rules are anchored on named functions of the library (the kind switch of
// CodecForTypeRegistry, BuildStructCodec's field loop, the readers). A
// behaviour-preserving "extract function" refactoring moves part of such a body
// into a new helper and the anchor no longer contains what the rule inspects.
// Rather than teach every rule about helpers, the loader undoes the extraction:
// a function that
//   - is not one of the functions the rules were written against (census.txt),
//   - is unexported, not generic, declared in the package that calls it,
//   - is called statically at exactly one site and referenced nowhere else,
//   - has no defer, label, goto or recover, and whose returns can be turned into
//     assignments without a jump (tail position, error propagation to the
//     caller's "if err != nil { return ... }", or an if/else split),
// is substituted into its single call site in an in-memory overlay of the
// source, the helper is deleted from the overlay, and the overlay is what every
// engine analyses. The substitution is semantics-preserving by construction
// (parameters are bound once in evaluation order or replaced by caller locals
// the helper cannot write; colliding locals are renamed; free identifiers are
// checked to resolve to the same objects at the call site), and the overlay is
// type-checked again: if it does not type-check the pre-pass is abandoned and
// the tree is analysed as written. Positions inside substituted code point at
// the helper's own file through line directives.

//go:embed census.txt
var censusText string

var census, censusSig = func() (map[string]bool, map[string]string) {
	m := map[string]bool{}
	sg := map[string]string{}
	for _, l := range strings.Split(censusText, "\n") {
		if l = strings.TrimSpace(l); l != "" {
			name, sig, _ := strings.Cut(l, "\t")
			m[name] = true
			sg[name] = sig
		}
	}
	return m, sg
}()

// funcSigString: the signature without the receiver, package-qualified by path.
func funcSigString(fn *types.Func) string {
	sig := fn.Type().(*types.Signature)
	q := func(p *types.Package) string { return p.Path() }
	var b strings.Builder
	b.WriteString("func(")
	for i := 0; i < sig.Params().Len(); i++ {
		if i > 0 {
			b.WriteString(", ")
		}
		if sig.Variadic() && i == sig.Params().Len()-1 {
			b.WriteString("...")
		}
		b.WriteString(types.TypeString(sig.Params().At(i).Type(), q))
	}
	b.WriteString(") (")
	for i := 0; i < sig.Results().Len(); i++ {
		if i > 0 {
			b.WriteString(", ")
		}
		b.WriteString(types.TypeString(sig.Results().At(i).Type(), q))
	}
	b.WriteString(")")
	return b.String()
}

// renameBack: an unexported function of the census that is gone, while exactly
// one new function with the same package, receiver type and signature has
// appeared, has been renamed. The overlay gives it its census name back (at the
// declaration and every use), so that the rules anchored on that name find it.
func renameBack(pkgs []*packages.Package, fset *token.FileSet, read func(string) []byte) (map[string][]srcEdit, []string) {
	present := map[string]*types.Func{}
	declOf := map[*types.Func]*ast.FuncDecl{}
	pkgOf := map[*types.Func]*packages.Package{}
	loaded := map[string]bool{}
	for _, pk := range pkgs {
		loaded[shortPkg(pk.PkgPath)] = true
		for _, file := range pk.Syntax {
			for _, d := range file.Decls {
				if fd, ok := d.(*ast.FuncDecl); ok {
					if fn, ok := pk.TypesInfo.Defs[fd.Name].(*types.Func); ok {
						present[funcFullName(fn)] = fn
						declOf[fn] = fd
						pkgOf[fn] = pk
					}
				}
			}
		}
	}
	prefix := func(full string) string {
		if i := strings.LastIndex(full, "."); i >= 0 {
			return full[:i]
		}
		return ""
	}
	var missing []string
	for name := range census {
		if present[name] == nil {
			missing = append(missing, name)
		}
	}
	sort.Strings(missing)
	edits := map[string][]srcEdit{}
	var notes []string
	used := map[*types.Func]bool{}
	for _, m := range missing {
		last := m[strings.LastIndex(m, ".")+1:]
		if ast.IsExported(last) || censusSig[m] == "" {
			continue
		}
		var cands []*types.Func
		for full, fn := range present {
			if census[full] || prefix(full) != prefix(m) || fn.Exported() || used[fn] {
				continue
			}
			if funcSigString(fn) == censusSig[m] {
				cands = append(cands, fn)
			}
		}
		// the other missing names must not compete for the same candidate
		rivals := 0
		for _, o := range missing {
			if o != m && prefix(o) == prefix(m) && censusSig[o] == censusSig[m] {
				rivals++
			}
		}
		if len(cands) != 1 || rivals > 0 {
			continue
		}
		fn := cands[0]
		// the census name must be free in the package
		if pkgOf[fn].Types.Scope().Lookup(last) != nil && fn.Type().(*types.Signature).Recv() == nil {
			continue
		}
		used[fn] = true
		add := func(id *ast.Ident) {
			pos := fset.PositionFor(id.Pos(), false)
			edits[pos.Filename] = append(edits[pos.Filename], srcEdit{pos.Offset, pos.Offset + len(id.Name), last})
		}
		add(declOf[fn].Name)
		for _, pk := range pkgs {
			for id, obj := range pk.TypesInfo.Uses {
				if obj == fn {
					add(id)
				}
			}
		}
		notes = append(notes, fmt.Sprintf("function %s (not in the census) has the package, receiver and signature of the missing %s and no rival: analysed under that name", funcFullName(fn), m))
	}
	return edits, notes
}

func funcFullName(fn *types.Func) string {
	sig := fn.Type().(*types.Signature)
	if r := sig.Recv(); r != nil {
		t := r.Type()
		if p, ok := t.(*types.Pointer); ok {
			t = p.Elem()
		}
		if n, ok := t.(*types.Named); ok {
			return shortPkg(fn.Pkg().Path()) + "." + n.Obj().Name() + "." + fn.Name()
		}
	}
	return shortPkg(fn.Pkg().Path()) + "." + fn.Name()
}

type srcEdit struct {
	lo, hi int
	text   string
}

// renderRange copies src[lo:hi] applying the edits that lie inside it; an edit
// nested inside another one is ignored (the outer replacement was rendered with
// the inner ones already applied).
func renderRange(src []byte, lo, hi int, edits []srcEdit) string {
	var in []srcEdit
	for _, e := range edits {
		if e.lo >= lo && e.hi <= hi {
			in = append(in, e)
		}
	}
	sort.SliceStable(in, func(i, j int) bool {
		if in[i].lo != in[j].lo {
			return in[i].lo < in[j].lo
		}
		return in[i].hi > in[j].hi
	})
	var b strings.Builder
	pos := lo
	for _, e := range in {
		if e.lo < pos {
			continue // nested in an edit already applied
		}
		b.Write(src[pos:e.lo])
		b.WriteString(e.text)
		pos = e.hi
		if e.lo == e.hi {
			// pure insertion: several insertions at one offset keep their order
			continue
		}
	}
	if pos < hi {
		b.Write(src[pos:hi])
	}
	return b.String()
}

type inlineSite struct {
	callee     *types.Func
	decl       *ast.FuncDecl
	calleeFile *ast.File
	pkg        *packages.Package
	callerDecl *ast.FuncDecl
	callerFile *ast.File
	call       *ast.CallExpr
	path       []ast.Node // enclosing interval path, innermost first
	uses       int        // references to the helper in the module (all of them calls)
	// some call site is in the helper's own file (its imports are then still needed)
	sameFileCaller bool
}

// a helper with a few call sites is substituted into each of them (one per
// caller per round); the declaration goes with the last one
const maxInlineSites = 4

type inliner struct {
	fset *token.FileSet
	pkg  *packages.Package
	info *types.Info
	site *inlineSite
	src  []byte // callee file
	csrc []byte // caller file
	off  func(token.Pos) int

	edits   []srcEdit // in callee file coordinates
	mode    int       // 1 assign, 2 return, 3 expr
	lhs     []string  // assign targets ("_" dropped)
	errIdx  int       // result index propagated by the caller, -1 if none
	propRet []ast.Expr
	propVar types.Object
	// a non-propagating return may hand a non-nil error to the caller's test
	errMayBeSet bool
	// continuation specialisation: the caller's "if cond {A} else {B}" right
	// after the call tests results that every return of the helper fixes to
	// constants; each return then continues with the branch it selects
	cont     *ast.IfStmt
	lhsObjs  []types.Object
	contSync string
	fail     string
}

func (r *inliner) failf(format string, a ...any) {
	if r.fail == "" {
		r.fail = fmt.Sprintf(format, a...)
	}
}

func (r *inliner) text(n ast.Node) string {
	return renderRange(r.src, r.off(n.Pos()), r.off(n.End()), r.edits)
}

func hasCall(e ast.Expr) bool {
	found := false
	ast.Inspect(e, func(n ast.Node) bool {
		switch n.(type) {
		case *ast.CallExpr, *ast.UnaryExpr, *ast.IndexExpr, *ast.StarExpr, *ast.SliceExpr, *ast.TypeAssertExpr, *ast.BinaryExpr:
			// anything that can panic, block or have an effect
			found = true
		}
		return !found
	})
	return found
}

func isNilOrConst(info *types.Info, e ast.Expr) bool {
	tv, ok := info.Types[e]
	return ok && (tv.IsNil() || tv.Value != nil)
}

// terminates reports whether a statement list ends in a return or a panic call.
func terminates(list []ast.Stmt) bool {
	if len(list) == 0 {
		return false
	}
	switch s := list[len(list)-1].(type) {
	case *ast.ReturnStmt:
		return true
	case *ast.ExprStmt:
		if c, ok := s.X.(*ast.CallExpr); ok {
			if id, ok := c.Fun.(*ast.Ident); ok && id.Name == "panic" {
				return true
			}
		}
	case *ast.BlockStmt:
		return terminates(s.List)
	case *ast.SwitchStmt:
		return clausesTerminate(s.Body)
	case *ast.TypeSwitchStmt:
		return clausesTerminate(s.Body)
	case *ast.ForStmt:
		return s.Cond == nil && !hasBreak(s.Body)
	case *ast.IfStmt:
		if s.Else == nil {
			return false
		}
		if !terminates(s.Body.List) {
			return false
		}
		switch e := s.Else.(type) {
		case *ast.BlockStmt:
			return terminates(e.List)
		case *ast.IfStmt:
			return terminates([]ast.Stmt{e})
		}
	}
	return false
}

// clausesTerminate: the switch has a default, no break out of it, and every
// clause ends in a terminating statement or a fallthrough.
func clausesTerminate(body *ast.BlockStmt) bool {
	hasDefault := false
	for _, cl := range body.List {
		cc, ok := cl.(*ast.CaseClause)
		if !ok {
			return false
		}
		if cc.List == nil {
			hasDefault = true
		}
		if n := len(cc.Body); n > 0 {
			if br, ok := cc.Body[n-1].(*ast.BranchStmt); ok && br.Tok == token.FALLTHROUGH {
				continue
			}
		}
		if !terminates(cc.Body) {
			return false
		}
	}
	return hasDefault && !hasBreak(body)
}

// hasBreak: an unlabelled break that leaves the statement whose body this is
// (labelled breaks are refused elsewhere).
func hasBreak(body *ast.BlockStmt) bool {
	found := false
	var walk func(n ast.Node)
	walk = func(n ast.Node) {
		ast.Inspect(n, func(m ast.Node) bool {
			if found || m == nil {
				return false
			}
			if m != n {
				switch m.(type) {
				case *ast.ForStmt, *ast.RangeStmt, *ast.SwitchStmt, *ast.TypeSwitchStmt, *ast.SelectStmt, *ast.FuncLit:
					return false
				}
			}
			if br, ok := m.(*ast.BranchStmt); ok && br.Tok == token.BREAK {
				found = true
			}
			return true
		})
	}
	walk(body)
	return found
}

// definitelyNonNilErr: E is fmt.Errorf(...)/errors.New(...), or an identifier v
// returned directly inside "if v != nil {".
func (r *inliner) definitelyNonNilErr(e ast.Expr, encl *ast.IfStmt) bool {
	e = ast.Unparen(e)
	if c, ok := e.(*ast.CallExpr); ok {
		if sel, ok := c.Fun.(*ast.SelectorExpr); ok {
			if fn, ok := r.info.Uses[sel.Sel].(*types.Func); ok && fn.Pkg() != nil {
				full := fn.Pkg().Path() + "." + fn.Name()
				return full == "fmt.Errorf" || full == "errors.New"
			}
		}
		return false
	}
	if id, ok := e.(*ast.Ident); ok && encl != nil {
		if be, ok := ast.Unparen(encl.Cond).(*ast.BinaryExpr); ok && be.Op == token.NEQ {
			if x, ok := ast.Unparen(be.X).(*ast.Ident); ok && isNilOrConst(r.info, be.Y) {
				return r.info.Uses[x] != nil && r.info.Uses[x] == r.info.Uses[id]
			}
		}
	}
	return false
}

func (r *inliner) isPropReturn(s *ast.ReturnStmt, encl *ast.IfStmt) bool {
	if r.mode != 1 || r.errIdx < 0 || len(s.Results) <= r.errIdx {
		return false
	}
	if len(s.Results) != len(r.lhs) {
		return false
	}
	if !r.definitelyNonNilErr(s.Results[r.errIdx], encl) {
		return false
	}
	for i, e := range s.Results {
		if i != r.errIdx && hasCall(e) {
			return false
		}
	}
	return true
}

// movableBranch: the statements can be copied to another place of the same
// function: no break/continue/goto/labels (a lone return is always fine).
func movableBranch(b *ast.BlockStmt) bool {
	if len(b.List) == 1 {
		if _, ok := b.List[0].(*ast.ReturnStmt); ok {
			return true
		}
	}
	ok := true
	ast.Inspect(b, func(n ast.Node) bool {
		switch x := n.(type) {
		case *ast.BranchStmt:
			// an unlabelled continue still continues the caller's loop: the returns it
			// is copied to are never inside a loop of the helper; a break could be
			// captured by a switch of the helper
			if x.Tok != token.CONTINUE || x.Label != nil {
				ok = false
			}
		case *ast.ForStmt, *ast.RangeStmt:
			// a continue inside a loop of the branch itself is fine either way
		case *ast.LabeledStmt, *ast.FuncLit, *ast.DeferStmt:
			ok = false
		}
		return ok
	})
	return ok
}

func movableElse(e ast.Stmt) bool {
	if b, ok := e.(*ast.BlockStmt); ok {
		return movableBranch(b)
	}
	return false
}

// evalCont evaluates the caller's condition for one return of the helper.
func (r *inliner) evalCont(cond ast.Expr, rs *ast.ReturnStmt, encl *ast.IfStmt) (val, ok bool) {
	cinfo := r.cinfo()
	cond = ast.Unparen(cond)
	slot := func(e ast.Expr) ast.Expr {
		id, isID := ast.Unparen(e).(*ast.Ident)
		if !isID || len(rs.Results) != len(r.lhsObjs) {
			return nil
		}
		o := cinfo.Uses[id]
		if o == nil {
			return nil
		}
		for i, lo := range r.lhsObjs {
			if lo == o {
				return rs.Results[i]
			}
		}
		return nil
	}
	switch x := cond.(type) {
	case *ast.Ident:
		if e := slot(x); e != nil {
			if tv, ok := r.info.Types[e]; ok && tv.Value != nil && tv.Value.Kind() == constant.Bool {
				return constant.BoolVal(tv.Value), true
			}
		}
	case *ast.UnaryExpr:
		if x.Op == token.NOT {
			v, ok := r.evalCont(x.X, rs, encl)
			return !v, ok
		}
	case *ast.BinaryExpr:
		switch x.Op {
		case token.LAND, token.LOR:
			a, oka := r.evalCont(x.X, rs, encl)
			b, okb := r.evalCont(x.Y, rs, encl)
			if oka && okb {
				if x.Op == token.LAND {
					return a && b, true
				}
				return a || b, true
			}
			if oka && ((x.Op == token.LAND && !a) || (x.Op == token.LOR && a)) {
				return a, true
			}
		case token.EQL, token.NEQ:
			for _, pr := range [][2]ast.Expr{{x.X, x.Y}, {x.Y, x.X}} {
				e := slot(pr[0])
				if e == nil {
					continue
				}
				ctv, okc := cinfo.Types[pr[1]]
				if !okc {
					continue
				}
				etv := r.info.Types[e]
				eq, known := false, false
				switch {
				case ctv.IsNil():
					if etv.IsNil() {
						eq, known = true, true
					} else if r.definitelyNonNilErr(e, encl) {
						eq, known = false, true
					}
				case ctv.Value != nil && etv.Value != nil:
					eq, known = constant.Compare(etv.Value, token.EQL, ctv.Value), true
				}
				if known {
					if x.Op == token.NEQ {
						eq = !eq
					}
					return eq, true
				}
			}
		}
	}
	return false, false
}

// walkReturns visits the return statements below the statements (not inside
// function literals); encl is the if statement whose body the return is a
// direct child of, if any.
func walkReturns(list []ast.Stmt, encl *ast.IfStmt, fn func(*ast.ReturnStmt, *ast.IfStmt)) {
	for _, s := range list {
		switch x := s.(type) {
		case *ast.ReturnStmt:
			fn(x, encl)
		case *ast.BlockStmt:
			walkReturns(x.List, nil, fn)
		case *ast.IfStmt:
			walkReturns(x.Body.List, x, fn)
			if x.Else != nil {
				walkReturns([]ast.Stmt{x.Else}, nil, fn)
			}
		case *ast.SwitchStmt:
			for _, cl := range x.Body.List {
				walkReturns(cl.(*ast.CaseClause).Body, nil, fn)
			}
		case *ast.TypeSwitchStmt:
			for _, cl := range x.Body.List {
				walkReturns(cl.(*ast.CaseClause).Body, nil, fn)
			}
		case *ast.SelectStmt:
			for _, cl := range x.Body.List {
				walkReturns(cl.(*ast.CommClause).Body, nil, fn)
			}
		case *ast.ForStmt:
			walkReturns(x.Body.List, nil, fn)
		case *ast.RangeStmt:
			walkReturns(x.Body.List, nil, fn)
		case *ast.LabeledStmt:
			walkReturns([]ast.Stmt{x.Stmt}, nil, fn)
		}
	}
}

// containsPlainReturn: a return below s that is not an error propagation.
func (r *inliner) containsPlainReturn(s ast.Stmt) bool {
	found := false
	walkReturns([]ast.Stmt{s}, nil, func(rs *ast.ReturnStmt, encl *ast.IfStmt) {
		if r.mode == 2 || !r.isPropReturn(rs, encl) {
			found = true
		}
	})
	return found
}

func (r *inliner) rewriteReturn(s *ast.ReturnStmt, encl *ast.IfStmt, tail bool) {
	lo, hi := r.off(s.Pos()), r.off(s.End())
	sig := r.site.callee.Type().(*types.Signature)
	results := s.Results
	var resText []string
	if len(results) == 0 && sig.Results().Len() > 0 {
		// bare return with named results
		for i := 0; i < sig.Results().Len(); i++ {
			resText = append(resText, r.name(sig.Results().At(i)))
		}
	} else {
		for _, e := range results {
			resText = append(resText, r.text(e))
		}
	}
	switch r.mode {
	case 2:
		if len(results) == 0 && sig.Results().Len() > 0 {
			r.edits = append(r.edits, srcEdit{lo, hi, "return " + strings.Join(resText, ", ")})
		}
		return
	case 3:
		if !tail {
			r.failf("return that is not in tail position")
			return
		}
		var keep []string
		for i, e := range results {
			if hasCall(e) {
				keep = append(keep, resText[i])
			}
		}
		txt := ""
		if len(keep) > 0 {
			txt = strings.Repeat("_, ", len(keep)-1) + "_ = " + strings.Join(keep, ", ")
		}
		r.edits = append(r.edits, srcEdit{lo, hi, txt})
		return
	}
	// mode 1
	if len(results) > 0 && r.isPropReturn(s, encl) {
		var out []string
		for _, pe := range r.propRet {
			if id, ok := ast.Unparen(pe).(*ast.Ident); ok && r.cinfo().Uses[id] == r.propVar {
				out = append(out, resText[r.errIdx])
			} else {
				out = append(out, string(r.csrc[r.coff(pe.Pos()):r.coff(pe.End())]))
			}
		}
		r.edits = append(r.edits, srcEdit{lo, hi, "return " + strings.Join(out, ", ")})
		return
	}
	if !tail {
		r.failf("return that is neither in tail position nor an error propagation")
		return
	}
	if r.errIdx >= 0 && !(len(results) == len(r.lhs) && r.info.Types[results[r.errIdx]].IsNil()) {
		r.errMayBeSet = true
	}
	if len(resText) == 1 && len(r.lhs) > 1 {
		// return g(...) spreading a tuple
		r.edits = append(r.edits, srcEdit{lo, hi, strings.Join(r.lhs, ", ") + " = " + resText[0]})
		return
	}
	if len(resText) != len(r.lhs) {
		r.failf("result count mismatch")
		return
	}
	// split "L1, L2 = e1, nil" into sequential assignments when the later
	// operands are constants (same meaning, and the shape the rules know)
	allLaterConst := true
	for i := 1; i < len(results); i++ {
		if !isNilOrConst(r.info, results[i]) {
			allLaterConst = false
		}
	}
	if len(results) == 0 {
		allLaterConst = false
	}
	var stmts []string
	if allLaterConst || len(r.lhs) == 1 {
		for i := range r.lhs {
			if r.lhs[i] == "_" {
				if len(results) > i && hasCall(results[i]) {
					stmts = append(stmts, "_ = "+resText[i])
				}
				continue
			}
			if r.lhs[i] == resText[i] {
				continue
			}
			stmts = append(stmts, r.lhs[i]+" = "+resText[i])
		}
	} else {
		var ls, rs []string
		for i := range r.lhs {
			if r.lhs[i] == "_" && !(len(results) > i && hasCall(results[i])) {
				continue
			}
			ls = append(ls, r.lhs[i])
			rs = append(rs, resText[i])
		}
		if len(ls) > 0 {
			stmts = append(stmts, strings.Join(ls, ", ")+" = "+strings.Join(rs, ", "))
		}
	}
	txt := strings.Join(stmts, "; ")
	if r.cont != nil {
		v, ok := r.evalCont(r.cont.Cond, s, encl)
		if !ok {
			r.failf("continuation not decided at a return")
			return
		}
		var blk *ast.BlockStmt
		if v {
			blk = r.cont.Body
		} else if r.cont.Else != nil {
			blk = r.cont.Else.(*ast.BlockStmt)
		}
		if blk != nil && len(blk.List) > 0 {
			first := r.fset.Position(blk.List[0].Pos())
			back := r.fset.Position(s.End())
			txt += fmt.Sprintf("\n/*line %s:%d:%d*/", first.Filename, first.Line, first.Column) +
				string(r.csrc[r.coff(blk.List[0].Pos()):r.coff(blk.List[len(blk.List)-1].End())]) +
				fmt.Sprintf("\n/*line %s:%d:%d*/", back.Filename, back.Line, back.Column)
		}
	}
	r.edits = append(r.edits, srcEdit{lo, hi, txt})
}

func (r *inliner) cinfo() *types.Info { return r.pkg.TypesInfo }
func (r *inliner) coff(p token.Pos) int {
	return r.fset.PositionFor(p, false).Offset
}

var _ = bytes.MinRead

func (r *inliner) name(o types.Object) string { return o.Name() }

func (r *inliner) procList(list []ast.Stmt, tail bool, encl *ast.IfStmt) {
	for i, s := range list {
		if r.fail != "" {
			return
		}
		last := i == len(list)-1
		if ifs, ok := s.(*ast.IfStmt); ok && !last && r.mode != 2 && r.containsPlainReturn(ifs) {
			// if c { ...; return X } rest  ==>  if c { ...; L = X } else { rest }
			chainEnd := ifs
			for {
				if !terminates(chainEnd.Body.List) {
					r.failf("early return in a branch that does not end in a return")
					return
				}
				next, ok := chainEnd.Else.(*ast.IfStmt)
				if !ok {
					break
				}
				chainEnd = next
			}
			if chainEnd.Else != nil {
				r.failf("early return in an if/else with statements after it")
				return
			}
			r.procStmt(ifs, tail, nil)
			at := r.off(ifs.End())
			r.edits = append(r.edits, srcEdit{at, at, " else {"})
			r.procList(list[i+1:], tail, nil)
			end := r.off(list[len(list)-1].End())
			r.edits = append(r.edits, srcEdit{end, end, "\n}"})
			return
		}
		if sw, ok := s.(*ast.SwitchStmt); ok && !last && r.mode != 2 && r.containsPlainReturn(sw) {
			// switch { case a: ...; return X }; rest   ==>   switch { case a: ...; L = X; default: rest }
			if r.switchToDefault(sw.Body, list[i+1:], tail) {
				r.procStmt(sw, tail, nil)
				return
			}
			r.failf("return inside a switch that has statements after it")
			return
		}
		r.procStmt(s, tail && last, encl)
	}
}

// switchToDefault moves the statements after a switch without default, all of
// whose clauses end in a return, into a new default clause.
func (r *inliner) switchToDefault(body *ast.BlockStmt, rest []ast.Stmt, tail bool) bool {
	for _, cl := range body.List {
		cc, ok := cl.(*ast.CaseClause)
		if !ok || cc.List == nil || !terminates(cc.Body) {
			return false
		}
	}
	if hasBreak(body) || len(rest) == 0 {
		return false
	}
	r.procList(rest, tail, nil)
	if r.fail != "" {
		return false
	}
	lo, hi := r.off(rest[0].Pos()), r.off(rest[len(rest)-1].End())
	txt := renderRange(r.src, lo, hi, r.edits)
	r.edits = append(r.edits, srcEdit{lo, hi, ""})
	at := r.off(body.Rbrace)
	r.edits = append(r.edits, srcEdit{at, at, "default:\n" + txt + "\n"})
	return true
}

func (r *inliner) procStmt(s ast.Stmt, tail bool, encl *ast.IfStmt) {
	if r.fail != "" || s == nil {
		return
	}
	switch x := s.(type) {
	case *ast.ReturnStmt:
		r.rewriteReturn(x, encl, tail)
	case *ast.BlockStmt:
		r.procList(x.List, tail, nil)
	case *ast.IfStmt:
		r.procList(x.Body.List, tail, x)
		if x.Else != nil {
			r.procStmt(x.Else, tail, nil)
		}
	case *ast.SwitchStmt:
		for _, cl := range x.Body.List {
			r.procList(cl.(*ast.CaseClause).Body, tail, nil)
		}
	case *ast.TypeSwitchStmt:
		for _, cl := range x.Body.List {
			r.procList(cl.(*ast.CaseClause).Body, tail, nil)
		}
	case *ast.SelectStmt:
		for _, cl := range x.Body.List {
			r.procList(cl.(*ast.CommClause).Body, tail, nil)
		}
	case *ast.ForStmt:
		r.procList(x.Body.List, false, nil)
	case *ast.RangeStmt:
		r.procList(x.Body.List, false, nil)
	case *ast.LabeledStmt, *ast.DeferStmt:
		r.failf("label or defer in the helper")
	case *ast.BranchStmt:
		if x.Tok == token.GOTO || x.Label != nil {
			r.failf("goto or labelled branch in the helper")
		}
	}
}

// findInlineSites lists the helper functions that qualify, with their single
// call site.
func findInlineSites(pkgs []*packages.Package) []*inlineSite {
	type useRec struct {
		id  *ast.Ident
		pkg *packages.Package
	}
	uses := map[*types.Func][]useRec{}
	for _, pk := range pkgs {
		for id, obj := range pk.TypesInfo.Uses {
			if fn, ok := obj.(*types.Func); ok && inModule(fn.Pkg()) {
				uses[fn] = append(uses[fn], useRec{id, pk})
			}
		}
	}
	ifaceMethods := map[string]bool{"String": true, "Error": true}
	for _, pk := range pkgs {
		for _, tv := range pk.TypesInfo.Types {
			if tv.Type == nil {
				continue
			}
			if it, ok := tv.Type.Underlying().(*types.Interface); ok {
				for i := 0; i < it.NumMethods(); i++ {
					ifaceMethods[it.Method(i).Name()] = true
				}
			}
		}
	}
	// census functions that are gone: a new function of the same package and
	// signature may be one of them in another guise (a method that became a plain
	// function); it is left standing so that the rules can find it by its role
	presentNames := map[string]bool{}
	for _, pk := range pkgs {
		for _, obj := range pk.TypesInfo.Defs {
			if fn, ok := obj.(*types.Func); ok {
				presentNames[funcFullName(fn)] = true
			}
		}
	}
	pkgPart := func(full string) string {
		slash := strings.LastIndex(full, "/")
		if dot := strings.Index(full[slash+1:], "."); dot >= 0 {
			return full[:slash+1+dot]
		}
		return full
	}
	missingSig := map[string]bool{}
	for name := range census {
		if !presentNames[name] && censusSig[name] != "" {
			missingSig[pkgPart(name)+"|"+censusSig[name]] = true
		}
	}
	var out []*inlineSite
	for _, pk := range pkgs {
		for _, file := range pk.Syntax {
			for _, d := range file.Decls {
				fd, ok := d.(*ast.FuncDecl)
				if !ok || fd.Body == nil || fd.Type.TypeParams != nil {
					continue
				}
				fn, ok := pk.TypesInfo.Defs[fd.Name].(*types.Func)
				if !ok || fn.Exported() || fn.Name() == "init" || fn.Name() == "main" || fn.Name() == "_" {
					continue
				}
				if census[funcFullName(fn)] {
					continue
				}
				if missingSig[pkgPart(funcFullName(fn))+"|"+funcSigString(fn)] {
					continue
				}
				sig := fn.Type().(*types.Signature)
				if sig.Recv() != nil {
					if n, ok := derefT(sig.Recv().Type()).(*types.Named); !ok || n.TypeParams().Len() > 0 {
						continue
					}
					if ifaceMethods[fn.Name()] {
						continue // may be called through an interface
					}
				}
				us := uses[fn]
				if len(us) == 0 || len(us) > maxInlineSites {
					continue
				}
				sort.Slice(us, func(i, j int) bool { return us[i].id.Pos() < us[j].id.Pos() })
				var sites []*inlineSite
				for _, u := range us {
					if u.pkg != pk {
						sites = nil
						break
					}
					// locate the use
					var cfile *ast.File
					for _, f := range pk.Syntax {
						if f.Pos() <= u.id.Pos() && u.id.Pos() < f.End() {
							cfile = f
						}
					}
					if cfile == nil {
						sites = nil
						break
					}
					path, _ := astutil.PathEnclosingInterval(cfile, u.id.Pos(), u.id.End())
					var call *ast.CallExpr
					var callerDecl *ast.FuncDecl
					ci := -1
					for i, n := range path {
						if c, ok := n.(*ast.CallExpr); ok && call == nil {
							f := ast.Unparen(c.Fun)
							if f == ast.Node(u.id) {
								call, ci = c, i
							} else if sel, ok := f.(*ast.SelectorExpr); ok && sel.Sel == u.id {
								call, ci = c, i
							}
						}
						if fdd, ok := n.(*ast.FuncDecl); ok {
							callerDecl = fdd
						}
						if _, ok := n.(*ast.FuncLit); ok {
							callerDecl = nil
							break
						}
					}
					if call == nil || callerDecl == nil || callerDecl == fd {
						sites = nil
						break
					}
					sites = append(sites, &inlineSite{callee: fn, decl: fd, calleeFile: file, pkg: pk,
						callerDecl: callerDecl, callerFile: cfile, call: call, path: path[ci:], uses: len(us)})
				}
				out = append(out, sites...)
			}
		}
	}
	sort.SliceStable(out, func(i, j int) bool { return funcFullName(out[i].callee) < funcFullName(out[j].callee) })
	return out
}

func derefT(t types.Type) types.Type {
	if p, ok := t.(*types.Pointer); ok {
		return p.Elem()
	}
	return t
}

// inlineOne produces the edits (per file name) that substitute site.callee into
// its call site, or a reason why not.
func inlineOne(fset *token.FileSet, site *inlineSite, read func(string) []byte) (map[string][]srcEdit, string) {
	pk := site.pkg
	info := pk.TypesInfo
	calleeName := fset.PositionFor(site.decl.Pos(), false).Filename
	callerName := fset.PositionFor(site.callerDecl.Pos(), false).Filename
	r := &inliner{fset: fset, pkg: pk, info: info, site: site, src: read(calleeName), csrc: read(callerName), errIdx: -1}
	r.off = func(p token.Pos) int { return fset.PositionFor(p, false).Offset }
	if r.src == nil || r.csrc == nil {
		return nil, "source not readable"
	}
	call := site.call
	sig := site.callee.Type().(*types.Signature)

	// --- expression helpers: a function whose body is one "return <expr>" called with
	// arguments that have no effects is replaced by that expression wherever the call stands
	// (predicates such as hasTrailingComma(data) in an if condition)
	if ed, ok := inlineExpr(fset, site, r); ok {
		return ed, ""
	}
	// --- the statement the call sits in
	if len(site.path) < 2 {
		return nil, "call is not a statement"
	}
	var stmt ast.Stmt
	var define bool
	var lhsExprs []ast.Expr
	parent := site.path[1]
	if p, ok := parent.(*ast.ParenExpr); ok {
		_ = p
		return nil, "parenthesised call"
	}
	switch st := parent.(type) {
	case *ast.AssignStmt:
		if len(st.Rhs) != 1 || ast.Unparen(st.Rhs[0]) != ast.Expr(call) || (st.Tok != token.ASSIGN && st.Tok != token.DEFINE) {
			return nil, "call is one operand of a larger assignment"
		}
		if len(st.Lhs) != sig.Results().Len() {
			return nil, "assignment arity"
		}
		stmt, define, lhsExprs, r.mode = st, st.Tok == token.DEFINE, st.Lhs, 1
	case *ast.ReturnStmt:
		if len(st.Results) != 1 {
			return nil, "call is one operand of a larger return"
		}
		stmt, r.mode = st, 2
	case *ast.ExprStmt:
		stmt, r.mode = st, 3
	case *ast.IfStmt:
		// if f(args) { … }: first give the condition a name - if cond_inl := f(args); cond_inl { … } -
		// the next round substitutes the helper into that init statement
		if st.Init == nil && ast.Unparen(st.Cond) == ast.Expr(call) && sig.Results().Len() == 1 {
			callerName := fset.PositionFor(site.callerDecl.Pos(), false).Filename
			lo, hi := r.coff(st.Cond.Pos()), r.coff(st.Cond.End())
			txt := "cond_inl := " + string(r.csrc[lo:hi]) + "; cond_inl"
			return map[string][]srcEdit{callerName: {{lo, hi, txt}}}, "~normalised"
		}
		return nil, "call is inside an if header"
	default:
		return nil, fmt.Sprintf("call is inside a %T", parent)
	}
	if len(site.path) < 3 {
		return nil, "no enclosing statement list"
	}
	var list []ast.Stmt
	ifInit := false
	var ifStmt *ast.IfStmt
	switch g := site.path[2].(type) {
	case *ast.BlockStmt:
		list = g.List
	case *ast.CaseClause:
		list = g.Body
	case *ast.CommClause:
		list = g.Body
	case *ast.IfStmt:
		if g.Init == stmt && r.mode == 1 {
			ifInit, ifStmt = true, g
		} else {
			return nil, "call in an if header"
		}
	default:
		return nil, fmt.Sprintf("statement is inside a %T", g)
	}
	idx := -1
	for i, s := range list {
		if s == stmt {
			idx = i
		}
	}
	if !ifInit && idx < 0 {
		return nil, "statement not found in its list"
	}

	// --- helper body restrictions
	bad := ""
	ast.Inspect(site.decl.Body, func(n ast.Node) bool {
		switch x := n.(type) {
		case *ast.CallExpr:
			if id, ok := x.Fun.(*ast.Ident); ok && id.Name == "recover" {
				bad = "recover"
			}
		case *ast.Ident:
			if info.Uses[x] == site.callee {
				bad = "recursive"
			}
		}
		return bad == ""
	})
	if bad != "" {
		return nil, bad
	}
	if sig.Variadic() && !call.Ellipsis.IsValid() {
		return nil, "variadic packing"
	}

	// --- parameters
	recvPathSubst, recvPathRoot, exactRecv := "", "", false
	type param struct {
		obj  *types.Var
		arg  ast.Expr
		text string // receiver reached through embedded fields: the explicit path
	}
	var params []param
	if recv := sig.Recv(); recv != nil {
		sel, ok := ast.Unparen(call.Fun).(*ast.SelectorExpr)
		if !ok {
			return nil, "method not called through a selector"
		}
		// make the implicit parts of the method call explicit: the path through
		// embedded fields, and the & or * the call adds
		selInfo := info.Selections[sel]
		tv, okT := info.Types[sel.X]
		if selInfo == nil || !okT {
			return nil, "receiver not resolved"
		}
		rtext := ""
		cur := tv.Type
		if len(selInfo.Index()) > 1 {
			rtext = string(r.csrc[r.coff(sel.X.Pos()):r.coff(sel.X.End())])
			for _, ix := range selInfo.Index()[:len(selInfo.Index())-1] {
				st, ok := derefT(cur).Underlying().(*types.Struct)
				if !ok || ix >= st.NumFields() {
					return nil, "promoted method through a non-struct"
				}
				rtext += "." + st.Field(ix).Name()
				cur = st.Field(ix).Type()
			}
		}
		exactPath := false
		switch {
		case types.Identical(cur, recv.Type()):
			exactPath = rtext != ""
		case types.Identical(types.NewPointer(cur), recv.Type()):
			if rtext == "" {
				rtext = string(r.csrc[r.coff(sel.X.Pos()):r.coff(sel.X.End())])
			}
			rtext = "(&" + rtext + ")"
		case types.Identical(cur, types.NewPointer(recv.Type())):
			if rtext == "" {
				rtext = string(r.csrc[r.coff(sel.X.Pos()):r.coff(sel.X.End())])
			}
			rtext = "(*" + rtext + ")"
		default:
			return nil, "implicit receiver conversion"
		}
		var ro *types.Var
		if site.decl.Recv != nil && len(site.decl.Recv.List) == 1 && len(site.decl.Recv.List[0].Names) == 1 {
			ro, _ = info.Defs[site.decl.Recv.List[0].Names[0]].(*types.Var)
		}
		params = append(params, param{ro, sel.X, rtext})
		if exactPath {
			if _, isPtr := recv.Type().(*types.Pointer); isPtr {
				if id, ok := ast.Unparen(sel.X).(*ast.Ident); ok {
					if v, ok := info.Uses[id].(*types.Var); ok && v.Parent() != nil && v.Parent() != pk.Types.Scope() {
						// x.Embedded of pointer type, x a local: the same pointer wherever it is read
						recvPathSubst = rtext
						recvPathRoot = id.Name
					}
				}
			}
			exactRecv = true
		}
	}
	if len(call.Args) != sig.Params().Len() {
		return nil, "argument spread"
	}
	pi := 0
	for _, f := range site.decl.Type.Params.List {
		if len(f.Names) == 0 {
			params = append(params, param{nil, call.Args[pi], ""})
			pi++
			continue
		}
		for _, nm := range f.Names {
			o, _ := info.Defs[nm].(*types.Var)
			params = append(params, param{o, call.Args[pi], ""})
			pi++
		}
	}

	// objects declared by the helper (params, results, locals), writes, literals
	declared := map[types.Object]bool{}
	written := map[types.Object]bool{}
	hasLit := false
	ast.Inspect(site.decl, func(n ast.Node) bool {
		switch x := n.(type) {
		case *ast.Ident:
			if o := info.Defs[x]; o != nil {
				if _, isVar := o.(*types.Var); isVar {
					declared[o] = true
				} else if _, isC := o.(*types.Const); isC {
					declared[o] = true
				} else if _, isT := o.(*types.TypeName); isT {
					declared[o] = true
				}
			}
		case *ast.FuncLit:
			hasLit = true
		case *ast.AssignStmt:
			for _, l := range x.Lhs {
				if id, ok := ast.Unparen(l).(*ast.Ident); ok {
					if o := info.Uses[id]; o != nil {
						written[o] = true
					}
				}
			}
		case *ast.IncDecStmt:
			if id, ok := ast.Unparen(x.X).(*ast.Ident); ok {
				written[info.Uses[id]] = true
			}
		case *ast.UnaryExpr:
			if x.Op == token.AND {
				if id, ok := ast.Unparen(x.X).(*ast.Ident); ok {
					written[info.Uses[id]] = true
				}
			}
		case *ast.RangeStmt:
			for _, e := range []ast.Expr{x.Key, x.Value} {
				if id, ok := e.(*ast.Ident); ok && x.Tok == token.ASSIGN {
					written[info.Uses[id]] = true
				}
			}
		}
		return true
	})
	delete(declared, nil)
	// implicit objects of type switches are in Implicits, not Defs: refuse them
	for n := range info.Implicits {
		if cc, ok := n.(*ast.CaseClause); ok && cc.Pos() >= site.decl.Pos() && cc.End() <= site.decl.End() {
			return nil, "type switch binding in the helper"
		}
	}

	// names visible/used at the call site that a helper local could capture
	taken := map[string]bool{}
	subst := map[types.Object]string{}
	var bind []param
	for _, p := range params {
		if p.obj == nil || p.obj.Name() == "_" {
			if hasCall(p.arg) {
				bind = append(bind, p) // evaluated for effect
			}
			continue
		}
		if p.text != "" && recvPathSubst != "" && p.text == recvPathSubst && !written[p.obj] && !hasLit {
			subst[p.obj] = recvPathSubst
			taken[recvPathRoot] = true
			continue
		}
		if sel, ok := ast.Unparen(p.arg).(*ast.SelectorExpr); ok && p.text == "" && !written[p.obj] && !hasLit {
			// a package function (pkg.F) or a method value of a caller local (x.M)
			// passed as a function: calls through the parameter become static calls
			if xid, ok := sel.X.(*ast.Ident); ok {
				okSub := false
				if _, isPkg := info.Uses[xid].(*types.PkgName); isPkg {
					_, okSub = info.Uses[sel.Sel].(*types.Func)
				} else if xv, isVar := info.Uses[xid].(*types.Var); isVar && xv.Parent() != nil && xv.Parent() != pk.Types.Scope() && !xv.IsField() {
					if si := info.Selections[sel]; si != nil && si.Kind() == types.MethodVal {
						okSub = true
					}
				}
				if tv, okT := info.Types[p.arg]; okSub && okT && types.Identical(tv.Type, p.obj.Type()) {
					subst[p.obj] = string(r.csrc[r.coff(p.arg.Pos()):r.coff(p.arg.End())])
					taken[xid.Name] = true
					continue
				}
			}
		}
		if id, ok := ast.Unparen(p.arg).(*ast.Ident); ok && p.text == "" && !written[p.obj] && !hasLit {
			switch ao := info.Uses[id].(type) {
			case *types.Var:
				if ao.Parent() != nil && ao.Parent() != pk.Types.Scope() && !ao.IsField() && types.Identical(ao.Type(), p.obj.Type()) {
					subst[p.obj] = id.Name
					taken[id.Name] = true
					continue
				}
			case *types.Nil:
				// typed by the parameter: keep a binding so that its type is kept
			}
		}
		bind = append(bind, p)
	}
	for _, l := range lhsExprs {
		ast.Inspect(l, func(n ast.Node) bool {
			if id, ok := n.(*ast.Ident); ok {
				taken[id.Name] = true
			}
			return true
		})
	}
	// the caller's propagate statement
	if r.mode == 1 && !ifInit && idx+1 < len(list) {
		if ifs, ok := list[idx+1].(*ast.IfStmt); ok && ifs.Init == nil && ifs.Else == nil && len(ifs.Body.List) == 1 {
			if be, ok := ast.Unparen(ifs.Cond).(*ast.BinaryExpr); ok && be.Op == token.NEQ && isNilOrConst(info, be.Y) {
				if x, ok := ast.Unparen(be.X).(*ast.Ident); ok {
					if ret, ok := ifs.Body.List[0].(*ast.ReturnStmt); ok {
						xo := info.Uses[x]
						for i, l := range lhsExprs {
							if id, ok := l.(*ast.Ident); ok {
								lo := info.Uses[id]
								if lo == nil {
									lo = info.Defs[id]
								}
								if lo != nil && lo == xo && types.Identical(sig.Results().At(i).Type(), types.Universe.Lookup("error").Type()) {
									r.errIdx = i
									r.propVar = xo
								}
							}
						}
						if r.errIdx >= 0 {
							ok := true
							lhsObjs := map[types.Object]bool{}
							for _, l := range lhsExprs {
								if id, isID := l.(*ast.Ident); isID {
									if o := info.Uses[id]; o != nil {
										lhsObjs[o] = true
									} else if o := info.Defs[id]; o != nil {
										lhsObjs[o] = true
									}
								}
							}
							for _, e := range ret.Results {
								if id, isID := ast.Unparen(e).(*ast.Ident); isID && info.Uses[id] == xo {
									continue
								}
								ast.Inspect(e, func(n ast.Node) bool {
									if id, isID := n.(*ast.Ident); isID && lhsObjs[info.Uses[id]] {
										ok = false
									}
									return ok
								})
								if hasCall(e) {
									// evaluated once either way, but keep it simple
									if _, isCall := ast.Unparen(e).(*ast.CallExpr); !isCall {
										ok = false
									}
								}
								ast.Inspect(e, func(n ast.Node) bool {
									if id, isID := n.(*ast.Ident); isID {
										taken[id.Name] = true
									}
									return true
								})
							}
							if ok {
								r.propRet = ret.Results
							} else {
								r.errIdx = -1
							}
						}
					}
				}
			}
		}
	}

	// continuation specialisation (when plain error propagation does not apply)
	for _, l := range lhsExprs {
		var o types.Object
		if id, ok := l.(*ast.Ident); ok {
			if o = info.Uses[id]; o == nil {
				o = info.Defs[id]
			}
		}
		r.lhsObjs = append(r.lhsObjs, o)
	}
	if r.mode == 1 && r.errIdx < 0 {
		var cand *ast.IfStmt
		if ifInit {
			cand = ifStmt
		} else if idx+1 < len(list) {
			if ifs, ok := list[idx+1].(*ast.IfStmt); ok && ifs.Init == nil {
				cand = ifs
			}
		}
		if cand != nil && movableBranch(cand.Body) && (cand.Else == nil || movableElse(cand.Else)) {
			decided, any := true, false
			walkReturns(site.decl.Body.List, nil, func(rs *ast.ReturnStmt, encl *ast.IfStmt) {
				any = true
				if _, ok := r.evalCont(cand.Cond, rs, encl); !ok {
					decided = false
				}
			})
			if decided && any {
				r.cont = cand
				ast.Inspect(cand, func(n ast.Node) bool {
					if id, ok := n.(*ast.Ident); ok {
						taken[id.Name] = true
					}
					return true
				})
			}
		}
	}

	// --- free identifiers must mean the same thing at the call site
	callerScope := pk.Types.Scope().Innermost(call.Pos())
	if callerScope == nil {
		return nil, "no scope at the call site"
	}
	needImport := map[string]string{} // name -> path
	var callerFileScope *types.Scope
	for s := callerScope; s != nil; s = s.Parent() {
		if s.Parent() == pk.Types.Scope() {
			callerFileScope = s
		}
	}
	okFree := ""
	ast.Inspect(site.decl, func(n ast.Node) bool {
		id, ok := n.(*ast.Ident)
		if !ok || okFree != "" {
			return okFree == ""
		}
		o := info.Uses[id]
		if o == nil || declared[o] {
			return true
		}
		if v, isVar := o.(*types.Var); isVar && v.IsField() {
			return true
		}
		if _, isFn := o.(*types.Func); isFn && o.Parent() == nil {
			return true // method, reached through a selector
		}
		if o.Parent() == nil {
			return true
		}
		if pn, isPkg := o.(*types.PkgName); isPkg {
			_, found := callerScope.LookupParent(id.Name, call.Pos())
			if found == nil && callerFileScope != nil {
				needImport[id.Name] = pn.Imported().Path()
				return true
			}
			if fpn, ok := found.(*types.PkgName); ok && fpn.Imported().Path() == pn.Imported().Path() {
				return true
			}
			okFree = "package name " + id.Name + " means something else at the call site"
			return false
		}
		if o.Parent() == pk.Types.Scope() || o.Parent() == types.Universe {
			_, found := callerScope.LookupParent(id.Name, call.Pos())
			if found != o {
				okFree = "identifier " + id.Name + " is shadowed at the call site"
				return false
			}
			return true
		}
		// a parameter or result: handled by substitution/binding
		return true
	})
	if okFree != "" {
		return nil, okFree
	}

	// --- renames: helper locals that collide with names used by the substitution
	renames := map[types.Object]string{}
	for o := range declared {
		if _, isSub := subst[o]; isSub {
			continue
		}
		if taken[o.Name()] {
			renames[o] = o.Name() + "_inl"
		}
	}
	// bound parameters always get a private name: their initialiser mentions caller names
	for _, p := range bind {
		if p.obj != nil && p.obj.Name() != "_" {
			renames[p.obj] = p.obj.Name() + "_inl"
		}
	}
	ast.Inspect(site.decl.Body, func(n ast.Node) bool {
		id, ok := n.(*ast.Ident)
		if !ok {
			return true
		}
		o := info.Uses[id]
		if o == nil {
			o = info.Defs[id]
		}
		if o == nil {
			return true
		}
		if s, ok := subst[o]; ok {
			if s != id.Name {
				r.edits = append(r.edits, srcEdit{r.off(id.Pos()), r.off(id.End()), s})
			}
			return true
		}
		if nn, ok := renames[o]; ok {
			r.edits = append(r.edits, srcEdit{r.off(id.Pos()), r.off(id.End()), nn})
		}
		return true
	})
	// composite literal keys "{typ: typ}" - a key identifier that is a struct
	// field resolves through Uses to the field (IsField), so it is not renamed.

	// --- targets
	var pre []string // declarations in front of the block
	for i, l := range lhsExprs {
		t := string(r.csrc[r.coff(l.Pos()):r.coff(l.End())])
		if id, ok := l.(*ast.Ident); ok && id.Name == "_" {
			t = "_"
		} else if define {
			if id, ok := l.(*ast.Ident); ok && info.Defs[id] != nil {
				// new variable: declare it with the helper's result type as written
				ft := resultTypeExpr(site.decl, i)
				if ft == nil {
					return nil, "result type not found"
				}
				pre = append(pre, "var "+id.Name+" "+string(r.src[r.off(ft.Pos()):r.off(ft.End())]))
			}
		} else if hasCall(l) {
			return nil, "assignment target with effects"
		}
		r.lhs = append(r.lhs, t)
	}

	// --- body
	r.procList(site.decl.Body.List, true, nil)
	if r.fail != "" {
		return nil, r.fail
	}
	if r.mode != 2 && sig.Results().Len() > 0 && !terminates(site.decl.Body.List) {
		return nil, "helper body does not end in a return"
	}
	var b strings.Builder
	for _, d := range pre {
		b.WriteString(d + "\n")
	}
	b.WriteString("{\n")
	if r.errIdx >= 0 && !r.errMayBeSet && r.lhs[r.errIdx] != "_" {
		// the caller's test of the error is dropped below: keep the variable "used"
		b.WriteString("_ = " + r.lhs[r.errIdx] + "\n")
	}
	if r.cont != nil {
		// the test that read the targets is gone: keep them "used"
		for _, l := range lhsExprs {
			if id, ok := l.(*ast.Ident); ok && id.Name != "_" {
				b.WriteString("_ = " + id.Name + "\n")
			}
		}
	}
	if len(bind) > 0 {
		var ls, rs []string
		for _, p := range bind {
			n := "_"
			if p.obj != nil && p.obj.Name() != "_" {
				n = renames[p.obj]
			}
			ls = append(ls, n)
			at := string(r.csrc[r.coff(p.arg.Pos()):r.coff(p.arg.End())])
			if p.text != "" {
				at = p.text
			}
			sameType := false
			if tv, ok := info.Types[p.arg]; ok && p.obj != nil && p.text == "" && tv.Type != nil && types.Identical(tv.Type, p.obj.Type()) && !tv.IsNil() {
				// go/types records the type an untyped constant argument is converted TO, so `'{'` handed to
				// a byte parameter looks typed here: a constant argument always keeps the explicit conversion
				if b, isB := tv.Type.(*types.Basic); (!isB || b.Info()&types.IsUntyped == 0) && tv.Value == nil {
					sameType = true
				}
			}
			if p.text != "" && exactRecv && p.text[0] != '(' {
				sameType = true
			}
			if p.obj != nil && !sameType {
				// keep the parameter's type (untyped constants, nil, interface conversion)
				if te := paramTypeExpr(site.decl, p.obj, info); te != nil {
					at = "(" + string(r.src[r.off(te.Pos()):r.off(te.End())]) + ")(" + at + ")"
				} else {
					return nil, "parameter type not found"
				}
			}
			rs = append(rs, at)
		}
		allBlank := true
		for _, l := range ls {
			if l != "_" {
				allBlank = false
			}
		}
		op := " := "
		if allBlank {
			op = " = "
		}
		b.WriteString(strings.Join(ls, ", ") + op + strings.Join(rs, ", ") + "\n")
		for _, l := range ls {
			if l != "_" {
				b.WriteString("_ = " + l + "\n")
			}
		}
	}
	// named results
	if site.decl.Type.Results != nil {
		for _, f := range site.decl.Type.Results.List {
			for _, nm := range f.Names {
				if nm.Name == "_" {
					continue
				}
				o := info.Defs[nm]
				n := nm.Name
				if nn, ok := renames[o]; ok {
					n = nn
				}
				b.WriteString("var " + n + " " + string(r.src[r.off(f.Type.Pos()):r.off(f.Type.End())]) + "\n_ = " + n + "\n")
			}
		}
	}
	bl := fset.Position(site.decl.Body.Lbrace) // adjusted: the line in the file as written
	fmt.Fprintf(&b, "//line %s:%d\n", bl.Filename, bl.Line)
	body := renderRange(r.src, r.off(site.decl.Body.Lbrace)+1, r.off(site.decl.Body.Rbrace), r.edits)
	b.WriteString(strings.TrimLeft(body, " \t"))
	if !strings.HasSuffix(body, "\n") {
		b.WriteString("\n")
	}
	b.WriteString("}")

	edits := map[string][]srcEdit{}
	resync := func(p token.Pos) string {
		pp := fset.Position(p)
		return fmt.Sprintf("/*line %s:%d:%d*/", pp.Filename, pp.Line, pp.Column)
	}
	if r.cont != nil && ifInit {
		lo, hi := r.coff(ifStmt.Pos()), r.coff(ifStmt.End())
		edits[callerName] = append(edits[callerName], srcEdit{lo, hi, "{\n" + b.String() + "\n}" + resync(ifStmt.End())})
	} else if r.cont != nil {
		lo, hi := r.coff(stmt.Pos()), r.coff(r.cont.End())
		edits[callerName] = append(edits[callerName], srcEdit{lo, hi, b.String() + resync(r.cont.End())})
	} else if ifInit {
		// if <init>; cond {...}  ==>  { <inlined>; if cond {...} }
		lo := r.coff(ifStmt.Pos())
		hi := r.coff(ifStmt.Cond.Pos())
		edits[callerName] = append(edits[callerName],
			srcEdit{lo, hi, "{\n" + b.String() + "\n" + resync(ifStmt.Cond.Pos()) + "if "},
			srcEdit{r.coff(ifStmt.End()), r.coff(ifStmt.End()), "\n}" + resync(ifStmt.End())})
	} else {
		lo, hi := r.coff(stmt.Pos()), r.coff(stmt.End())
		edits[callerName] = append(edits[callerName], srcEdit{lo, hi, b.String() + resync(stmt.End())})
		if r.errIdx >= 0 && !r.errMayBeSet {
			// every path that reaches the caller's "if err != nil" now has err == nil:
			// the test is dead, as it was before the extraction
			nx := list[idx+1]
			nlo, nhi := r.coff(nx.Pos()), r.coff(nx.End())
			edits[callerName] = append(edits[callerName], srcEdit{nlo, nhi, strings.Repeat("\n", bytes.Count(r.csrc[nlo:nhi], []byte("\n")))})
		}
	}
	// imports the caller's file lacks
	if len(needImport) > 0 {
		var names []string
		for n := range needImport {
			names = append(names, n)
		}
		sort.Strings(names)
		at := r.coff(site.callerFile.Name.End())
		txt := ""
		for _, n := range names {
			txt += fmt.Sprintf("; import %s %q", n, needImport[n])
		}
		edits[callerName] = append(edits[callerName], srcEdit{at, at, txt})
	}
	return edits, ""
}

// deleteHelper: the edits that remove the helper's declaration (keeping the
// line count) and blank the imports only it used.
func deleteHelper(fset *token.FileSet, site *inlineSite, read func(string) []byte) map[string][]srcEdit {
	info := site.pkg.TypesInfo
	calleeName := fset.PositionFor(site.decl.Pos(), false).Filename
	src := read(calleeName)
	off := func(p token.Pos) int { return fset.PositionFor(p, false).Offset }
	r := &struct {
		src []byte
		off func(token.Pos) int
	}{src, off}
	edits := map[string][]srcEdit{}
	sameFileCallers := site.sameFileCaller
	// delete the helper (keeping the line count)
	dlo := r.off(site.decl.Pos())
	if site.decl.Doc != nil {
		dlo = r.off(site.decl.Doc.Pos())
	}
	dhi := r.off(site.decl.End())
	if site.calleeFile != nil && true {
		usedOutside := map[types.Object]bool{}
		ast.Inspect(site.calleeFile, func(n ast.Node) bool {
			if n == ast.Node(site.decl) {
				return false
			}
			if id, ok := n.(*ast.Ident); ok {
				if pn, ok := info.Uses[id].(*types.PkgName); ok {
					usedOutside[pn] = true
				}
			}
			return true
		})
		usedInside := map[types.Object]bool{}
		ast.Inspect(site.decl, func(n ast.Node) bool {
			if id, ok := n.(*ast.Ident); ok {
				if pn, ok := info.Uses[id].(*types.PkgName); ok {
					usedInside[pn] = true
				}
			}
			return true
		})
		sameFile := sameFileCallers
		for _, imp := range site.calleeFile.Imports {
			var pn types.Object
			if imp.Name != nil {
				pn = info.Defs[imp.Name]
			} else {
				pn = info.Implicits[imp]
			}
			if pn == nil || !usedInside[pn] || usedOutside[pn] || sameFile {
				continue
			}
			edits[calleeName] = append(edits[calleeName], srcEdit{r.off(imp.Pos()), r.off(imp.End()), "_ " + imp.Path.Value})
		}
	}
	nl := bytes.Count(r.src[dlo:dhi], []byte("\n"))
	edits[calleeName] = append(edits[calleeName], srcEdit{dlo, dhi, strings.Repeat("\n", nl)})
	return edits
}

func resultTypeExpr(fd *ast.FuncDecl, i int) ast.Expr {
	if fd.Type.Results == nil {
		return nil
	}
	k := 0
	for _, f := range fd.Type.Results.List {
		n := len(f.Names)
		if n == 0 {
			n = 1
		}
		if i < k+n {
			return f.Type
		}
		k += n
	}
	return nil
}

func paramTypeExpr(fd *ast.FuncDecl, o *types.Var, info *types.Info) ast.Expr {
	lists := []*ast.FieldList{fd.Recv, fd.Type.Params}
	for _, fl := range lists {
		if fl == nil {
			continue
		}
		for _, f := range fl.List {
			for _, nm := range f.Names {
				if info.Defs[nm] == o {
					if _, isEll := f.Type.(*ast.Ellipsis); isEll {
						return nil
					}
					return f.Type
				}
			}
		}
	}
	return nil
}

// deextract computes the overlay; notes describe what was substituted or why a
// candidate was left alone.
func deextract(repo string, first []*packages.Package, fset *token.FileSet, loadLight func(map[string][]byte) ([]*packages.Package, *token.FileSet, error)) (map[string][]byte, []string) {
	overlay := map[string][]byte{}
	var notes []string
	pkgs := first
	refused := map[string]bool{}
	{
		var mod []*packages.Package
		for _, pk := range pkgs {
			if strings.HasPrefix(pk.PkgPath, modPath) {
				mod = append(mod, pk)
			}
		}
		readDisk := func(name string) []byte {
			b, _ := os.ReadFile(name)
			return b
		}
		if ed, ns := renameBack(mod, fset, readDisk); len(ed) > 0 {
			for f, es := range ed {
				src := readDisk(f)
				overlay[f] = []byte(renderRange(src, 0, len(src), es))
			}
			np, nf, err := loadLight(overlay)
			if err != nil {
				overlay = map[string][]byte{}
				notes = append(notes, "rename recovery abandoned, the overlay does not type-check: "+err.Error())
			} else {
				pkgs, fset = np, nf
				notes = append(notes, ns...)
			}
		}
	}
	for round := 0; round < 10; round++ {
		var mod []*packages.Package
		for _, pk := range pkgs {
			if strings.HasPrefix(pk.PkgPath, modPath) {
				mod = append(mod, pk)
			}
		}
		sites := findInlineSites(mod)
		if len(sites) == 0 {
			break
		}
		read := func(name string) []byte {
			if b, ok := overlay[name]; ok {
				return b
			}
			b, err := os.ReadFile(name)
			if err != nil {
				return nil
			}
			return b
		}
		touched := []*ast.FuncDecl{}
		touchedCallee := []*ast.FuncDecl{}
		done := map[*types.Func][]*inlineSite{}
		fileEdits := map[string][]srcEdit{}
		progress := false
		for _, s := range sites {
			name := funcFullName(s.callee)
			if refused[name] {
				continue
			}
			clash := false
			for _, t := range touched {
				if t == s.callerDecl || (t == s.decl && s.uses == 1) {
					clash = true
				}
			}
			for _, t := range touchedCallee {
				if t == s.decl && s.uses == 1 {
					clash = true // deleting needs the other sites gone first
				}
				if t == s.callerDecl {
					clash = true // the helper body another site copies must stay as loaded
				}
			}
			// a helper whose body contains another candidate's call site waits a round
			for _, o := range sites {
				if o != s && o.callerDecl == s.decl && !refused[funcFullName(o.callee)] {
					clash = true
				}
			}
			if clash {
				continue
			}
			ed, why := inlineOne(fset, s, read)
			if why == "~normalised" {
				for f, es := range ed {
					fileEdits[f] = append(fileEdits[f], es...)
				}
				touched = append(touched, s.callerDecl)
				touchedCallee = append(touchedCallee, s.decl)
				progress = true
				continue
			}
			if why != "" {
				refused[name] = true
				notes = append(notes, fmt.Sprintf("helper %s (not in the census, one call site in %s) left as written: %s", name, funcFullName(pkgFunc(s)), why))
				continue
			}
			for f, es := range ed {
				fileEdits[f] = append(fileEdits[f], es...)
			}
			touched = append(touched, s.callerDecl)
			if s.uses == 1 {
				touched = append(touched, s.decl)
			} else {
				touchedCallee = append(touchedCallee, s.decl)
			}
			done[s.callee] = append(done[s.callee], s)
			notes = append(notes, fmt.Sprintf("helper %s substituted into its call site in %s", name, funcFullName(pkgFunc(s))))
			progress = true
		}
		// a helper all of whose call sites are gone is deleted
		for _, ss := range done {
			if len(ss) != ss[0].uses {
				continue
			}
			for _, x := range ss {
				if fset.PositionFor(x.callerDecl.Pos(), false).Filename == fset.PositionFor(x.decl.Pos(), false).Filename {
					ss[0].sameFileCaller = true
				}
			}
			for f, es := range deleteHelper(fset, ss[0], read) {
				fileEdits[f] = append(fileEdits[f], es...)
			}
		}
		if !progress {
			break
		}
		for f, es := range fileEdits {
			src := read(f)
			overlay[f] = []byte(renderRange(src, 0, len(src), es))
		}
		if d := os.Getenv("PLENCHECK_DUMP_OVERLAY"); d != "" {
			for f, b := range overlay {
				os.WriteFile(d+"/"+fmt.Sprintf("r%d_", round)+f[strings.LastIndex(f, "/")+1:], b, 0o644)
			}
		}
		np, nf, err := loadLight(overlay)
		if err != nil {
			return nil, append(notes, "de-extraction abandoned, the overlay does not type-check: "+err.Error())
		}
		pkgs, fset = np, nf
	}
	if len(overlay) == 0 {
		return nil, notes
	}
	return overlay, notes
}

func pkgFunc(s *inlineSite) *types.Func {
	if fn, ok := s.pkg.TypesInfo.Defs[s.callerDecl.Name].(*types.Func); ok {
		return fn
	}
	return s.callee
}

// inlineExpr: pure expression substitution (see inlineOne).
func inlineExpr(fset *token.FileSet, site *inlineSite, r *inliner) (map[string][]srcEdit, bool) {
	info := site.pkg.TypesInfo
	pk := site.pkg
	body := site.decl.Body.List
	if len(body) != 1 {
		return nil, false
	}
	ret, ok := body[0].(*ast.ReturnStmt)
	if !ok || len(ret.Results) != 1 {
		return nil, false
	}
	sig := site.callee.Type().(*types.Signature)
	if sig.Recv() != nil || sig.Variadic() || len(site.call.Args) != sig.Params().Len() {
		return nil, false
	}
	hasLit := false
	ast.Inspect(ret, func(n ast.Node) bool {
		if _, ok := n.(*ast.FuncLit); ok {
			hasLit = true
		}
		return true
	})
	if hasLit {
		return nil, false
	}
	// arguments: no effects, and of exactly the parameter's type (no implicit conversion to drop)
	argText := map[types.Object]string{}
	pi := 0
	for _, fl := range site.decl.Type.Params.List {
		for _, nm := range fl.Names {
			a := site.call.Args[pi]
			pi++
			if hasCallOnly(a) {
				return nil, false
			}
			tv, ok := info.Types[a]
			o := info.Defs[nm]
			if !ok || o == nil || tv.Type == nil || !types.Identical(tv.Type, o.Type()) {
				return nil, false
			}
			argText[o] = "(" + string(r.csrc[r.coff(a.Pos()):r.coff(a.End())]) + ")"
		}
		if len(fl.Names) == 0 {
			return nil, false
		}
	}
	// free identifiers resolve alike at the call site
	callerScope := pk.Types.Scope().Innermost(site.call.Pos())
	if callerScope == nil {
		return nil, false
	}
	okFree := true
	var edits []srcEdit
	ast.Inspect(ret.Results[0], func(n ast.Node) bool {
		id, ok := n.(*ast.Ident)
		if !ok {
			return true
		}
		o := info.Uses[id]
		if o == nil {
			return true
		}
		if t, ok := argText[o]; ok {
			edits = append(edits, srcEdit{r.off(id.Pos()), r.off(id.End()), t})
			return true
		}
		if v, isVar := o.(*types.Var); isVar && v.IsField() {
			return true
		}
		if o.Parent() == nil {
			return true
		}
		if pn, isPkg := o.(*types.PkgName); isPkg {
			_, found := callerScope.LookupParent(id.Name, site.call.Pos())
			if fpn, ok := found.(*types.PkgName); !ok || fpn.Imported().Path() != pn.Imported().Path() {
				okFree = false
			}
			return true
		}
		if o.Parent() == pk.Types.Scope() || o.Parent() == types.Universe {
			if _, found := callerScope.LookupParent(id.Name, site.call.Pos()); found != o {
				okFree = false
			}
			return true
		}
		okFree = false // a local of the helper: there are none in a single return
		return true
	})
	if !okFree {
		return nil, false
	}
	calleeName := fset.PositionFor(site.decl.Pos(), false).Filename
	callerName := fset.PositionFor(site.callerDecl.Pos(), false).Filename
	_ = calleeName
	txt := "(" + renderRange(r.src, r.off(ret.Results[0].Pos()), r.off(ret.Results[0].End()), edits) + ")"
	lo, hi := r.coff(site.call.Pos()), r.coff(site.call.End())
	return map[string][]srcEdit{callerName: {{lo, hi, txt}}}, true
}

// hasCallOnly: the expression contains a call (or a receive / function literal) - anything
// whose repeated or reordered evaluation could be observed.
func hasCallOnly(e ast.Expr) bool {
	found := false
	ast.Inspect(e, func(n ast.Node) bool {
		switch x := n.(type) {
		case *ast.CallExpr:
			// conversions and len/cap are harmless
			if id, ok := x.Fun.(*ast.Ident); ok && (id.Name == "len" || id.Name == "cap") {
				return true
			}
			found = true
		case *ast.FuncLit:
			found = true
		case *ast.UnaryExpr:
			if x.Op == token.ARROW {
				found = true
			}
		}
		return !found
	})
	return found
}
