package main

import (
	"fmt"
	"go/ast"
	"go/constant"
	"go/token"
	"go/types"
	"sort"
	"strings"

	"golang.org/x/tools/go/ssa"
)

// ---------------------------------------------------------------------------
// J.escape: value-set analysis of appendString over the 256 byte values.

type byteEval struct {
	info   *types.Info
	cObj   types.Object // the loop byte variable
	strObj types.Object // the string parameter the bytes are taken from
	c      int64
	hex    string
}

// evalInt evaluates an integer expression in which the only variable is c.
func (e *byteEval) evalInt(x ast.Expr) (int64, bool) {
	x = ast.Unparen(x)
	if v := constOf(e.info, x); v != nil {
		if v.Kind() == constant.String {
			return 0, false
		}
		i, ok := constant.Int64Val(constant.ToInt(v))
		return i, ok
	}
	switch t := x.(type) {
	case *ast.Ident:
		if e.info.Uses[t] == e.cObj {
			return e.c, true
		}
	case *ast.BinaryExpr:
		a, ok1 := e.evalInt(t.X)
		b, ok2 := e.evalInt(t.Y)
		if !ok1 || !ok2 {
			return 0, false
		}
		switch t.Op {
		case token.SHR:
			return (a & 0xff) >> uint(b), true
		case token.SHL:
			return (a << uint(b)) & 0xff, true
		case token.AND:
			return a & b, true
		case token.OR:
			return a | b, true
		case token.ADD:
			return (a + b) & 0xff, true
		case token.SUB:
			return (a - b) & 0xff, true
		case token.REM:
			if b != 0 {
				return a % b, true
			}
		case token.QUO:
			if b != 0 {
				return a / b, true
			}
		}
	case *ast.IndexExpr:
		// hex[...]
		if v := constOf(e.info, t.X); v != nil && v.Kind() == constant.String {
			s := constant.StringVal(v)
			i, ok := e.evalInt(t.Index)
			if ok && i >= 0 && int(i) < len(s) {
				return int64(s[i]), true
			}
		}
	case *ast.CallExpr:
		// byte(x) conversions
		if tv, ok := e.info.Types[t.Fun]; ok && tv.IsType() && len(t.Args) == 1 {
			return e.evalInt(t.Args[0])
		}
	}
	return 0, false
}

func (e *byteEval) evalBool(x ast.Expr) (bool, bool) {
	x = ast.Unparen(x)
	switch t := x.(type) {
	case *ast.BinaryExpr:
		switch t.Op {
		case token.LAND, token.LOR:
			a, ok1 := e.evalBool(t.X)
			b, ok2 := e.evalBool(t.Y)
			if !ok1 || !ok2 {
				return false, false
			}
			if t.Op == token.LAND {
				return a && b, true
			}
			return a || b, true
		case token.LSS, token.LEQ, token.GTR, token.GEQ, token.EQL, token.NEQ:
			a, ok1 := e.evalInt(t.X)
			b, ok2 := e.evalInt(t.Y)
			if !ok1 || !ok2 {
				return false, false
			}
			switch t.Op {
			case token.LSS:
				return a < b, true
			case token.LEQ:
				return a <= b, true
			case token.GTR:
				return a > b, true
			case token.GEQ:
				return a >= b, true
			case token.EQL:
				return a == b, true
			case token.NEQ:
				return a != b, true
			}
		}
	case *ast.UnaryExpr:
		if t.Op == token.NOT {
			v, ok := e.evalBool(t.X)
			return !v, ok
		}
	}
	return false, false
}

// appendCall: the bytes `append(buf, ...)` adds.
func (e *byteEval) appendCall(x ast.Expr, buf types.Object) ([]byte, bool) {
	var out []byte
	call, ok := x.(*ast.CallExpr)
	if !ok {
		return nil, false
	}
	fid, ok := call.Fun.(*ast.Ident)
	if !ok || fid.Name != "append" || len(call.Args) < 2 {
		return nil, false
	}
	if a0, ok := call.Args[0].(*ast.Ident); !ok || e.info.Uses[a0] != buf {
		return nil, false
	}
	if call.Ellipsis.IsValid() {
		v := constOf(e.info, call.Args[1])
		if v == nil || v.Kind() != constant.String {
			return nil, false
		}
		return append(out, constant.StringVal(v)...), true
	}
	for _, a := range call.Args[1:] {
		b, ok := e.evalInt(a)
		if !ok {
			return nil, false
		}
		out = append(out, byte(b))
	}
	return out, true
}

// emit interprets a statement list for the current byte and returns the bytes
// appended to the buffer variable.
func (e *byteEval) emit(stmts []ast.Stmt, buf types.Object) ([]byte, bool) {
	var out []byte
	for _, st := range stmts {
		switch s := st.(type) {
		case *ast.AssignStmt:
			// data = append(data, ...)
			if len(s.Lhs) != 1 || len(s.Rhs) != 1 {
				return nil, false
			}
			id, ok := s.Lhs[0].(*ast.Ident)
			if !ok || (e.info.Uses[id] != buf && e.info.Defs[id] != buf) {
				return nil, false
			}
			o, ok := e.appendCall(s.Rhs[0], buf)
			if !ok {
				return nil, false
			}
			out = append(out, o...)
		case *ast.ReturnStmt:
			// `return append(data, '"')` for `data = append(data, '"'); return data`
			if len(s.Results) != 1 {
				return nil, false
			}
			if id, ok := s.Results[0].(*ast.Ident); ok && e.info.Uses[id] == buf {
				continue
			}
			o, ok := e.appendCall(s.Results[0], buf)
			if !ok {
				return nil, false
			}
			out = append(out, o...)
		case *ast.IfStmt:
			if s.Init != nil {
				return nil, false
			}
			cond, ok := e.evalBool(s.Cond)
			if !ok {
				return nil, false
			}
			var body []ast.Stmt
			if cond {
				body = s.Body.List
			} else if s.Else != nil {
				switch el := s.Else.(type) {
				case *ast.BlockStmt:
					body = el.List
				case *ast.IfStmt:
					body = []ast.Stmt{el}
				}
			}
			o, ok := e.emit(body, buf)
			if !ok {
				return nil, false
			}
			out = append(out, o...)
		case *ast.SwitchStmt:
			if s.Init != nil {
				// switch c := v[i]; ... - the byte variable defined by the switch itself
				as, ok := s.Init.(*ast.AssignStmt)
				if !ok || as.Tok != token.DEFINE || len(as.Lhs) != 1 || len(as.Rhs) != 1 || e.strObj == nil {
					return nil, false
				}
				ix, ok := as.Rhs[0].(*ast.IndexExpr)
				if !ok {
					return nil, false
				}
				if id, ok := ix.X.(*ast.Ident); !ok || e.info.Uses[id] != e.strObj {
					return nil, false
				}
				lid, ok := as.Lhs[0].(*ast.Ident)
				if !ok {
					return nil, false
				}
				e.cObj = e.info.Defs[lid]
			}
			var tag int64
			if s.Tag != nil {
				var ok bool
				tag, ok = e.evalInt(s.Tag)
				if !ok {
					return nil, false
				}
			}
			var chosen, def *ast.CaseClause
			for _, cs := range s.Body.List {
				cc := cs.(*ast.CaseClause)
				if len(cc.List) == 0 {
					def = cc
					continue
				}
				for _, ce := range cc.List {
					if s.Tag == nil {
						// tagless switch: the first clause with a true condition
						bv, ok := e.evalBool(ce)
						if !ok {
							return nil, false
						}
						if bv && chosen == nil {
							chosen = cc
						}
						continue
					}
					v, ok := e.evalInt(ce)
					if !ok {
						return nil, false
					}
					if v == tag && chosen == nil {
						chosen = cc
					}
				}
			}
			if chosen == nil {
				chosen = def
			}
			if chosen != nil {
				o, ok := e.emit(chosen.Body, buf)
				if !ok {
					return nil, false
				}
				out = append(out, o...)
			}
		case *ast.BlockStmt:
			o, ok := e.emit(s.List, buf)
			if !ok {
				return nil, false
			}
			out = append(out, o...)
		case *ast.EmptyStmt:
		default:
			return nil, false
		}
	}
	return out, true
}

// validEscape: out is a valid JSON string-body encoding of byte b.
func validEscape(b byte, out []byte) bool {
	needs := b < 0x20 || b == '"' || b == '\\'
	if !needs {
		return len(out) == 1 && out[0] == b
	}
	s := string(out)
	switch s {
	case `\"`:
		return b == '"'
	case `\\`:
		return b == '\\'
	case `\n`:
		return b == '\n'
	case `\r`:
		return b == '\r'
	case `\t`:
		return b == '\t'
	case `\b`:
		return b == '\b'
	case `\f`:
		return b == '\f'
	}
	if len(out) == 6 && out[0] == '\\' && out[1] == 'u' {
		v := 0
		for _, h := range out[2:] {
			v <<= 4
			switch {
			case h >= '0' && h <= '9':
				v |= int(h - '0')
			case h >= 'a' && h <= 'f':
				v |= int(h-'a') + 10
			case h >= 'A' && h <= 'F':
				v |= int(h-'A') + 10
			default:
				return false
			}
		}
		return v == int(b)
	}
	return false
}

func ruleJSONEscape(c *Ctx) {
	p := c.P
	fn := p.jsonEscaper()
	if fn == nil {
		c.Oblige("J.escape", false, token.NoPos, "plenccodec.JSONOutput.appendString", "function", "not found", nil)
		return
	}
	info := fn.Pkg.TypesInfo
	params := paramObjs(info, fn.Decl)
	var buf, str types.Object
	for _, po := range params {
		if po == nil {
			continue
		}
		if isByteSlice(po.Type()) {
			buf = po
		} else if b, ok := po.Type().Underlying().(*types.Basic); ok && b.Kind() == types.String {
			str = po
		}
	}
	// shape: data = append(data, '"'); for i := 0; i < len(v); i++ { c := v[i]; <body> }; data = append(data, '"'); return data
	var loop *ast.ForStmt
	var pre, post []ast.Stmt
	for _, st := range fn.Decl.Body.List {
		switch s := st.(type) {
		case *ast.ForStmt:
			loop = s
		case *ast.RangeStmt:
			c.Oblige("J.escape", false, s.Pos(), fn.Name(), "loop shape", "appendString ranges over runes or uses an unrecognised loop: undecided", nil)
			return
		case *ast.ReturnStmt:
			if len(s.Results) == 1 {
				if _, isCall := s.Results[0].(*ast.CallExpr); isCall && loop != nil {
					post = append(post, st)
				}
			}
		default:
			if loop == nil {
				pre = append(pre, st)
			} else {
				post = append(post, st)
			}
		}
	}
	if loop == nil || buf == nil || str == nil {
		c.Oblige("J.escape", false, fn.Decl.Pos(), fn.Name(), "loop shape", "cannot find the byte loop: undecided", nil)
		return
	}
	ev := &byteEval{info: info, strObj: str}
	q1, ok1 := ev.emit(pre, buf)
	q2, ok2 := ev.emit(post, buf)
	c.Oblige("J.escape", ok1 && ok2 && string(q1) == `"` && string(q2) == `"`, fn.Decl.Pos(), fn.Name(), "string is wrapped in quotes",
		fmt.Sprintf("opening %q closing %q", q1, q2), nil)
	// loop body: first statement defines c := v[i]
	body := loop.Body.List
	if len(body) == 0 {
		c.Oblige("J.escape", false, loop.Pos(), fn.Name(), "loop body", "empty", nil)
		return
	}
	rest := body[1:]
	if sw, isSw := body[0].(*ast.SwitchStmt); isSw && sw.Init != nil {
		// switch c := v[i]; { ... }: emit binds the byte variable when it meets the switch
		rest = body
	} else {
		as, ok := body[0].(*ast.AssignStmt)
		if !ok || as.Tok != token.DEFINE || len(as.Lhs) != 1 {
			c.Oblige("J.escape", false, loop.Pos(), fn.Name(), "loop body", "first statement is not c := v[i]: undecided", nil)
			return
		}
		ix, ok := as.Rhs[0].(*ast.IndexExpr)
		if !ok {
			c.Oblige("J.escape", false, loop.Pos(), fn.Name(), "loop body", "first statement is not c := v[i]: undecided", nil)
			return
		}
		if id, ok := ix.X.(*ast.Ident); !ok || info.Uses[id] != str {
			c.Oblige("J.escape", false, loop.Pos(), fn.Name(), "loop body", "byte is not taken from the string parameter", nil)
			return
		}
		ev.cObj = info.Defs[as.Lhs[0].(*ast.Ident)]
	}
	var bad []string
	undecided := false
	for b := 0; b < 256; b++ {
		ev.c = int64(b)
		out, ok := ev.emit(rest, buf)
		if !ok {
			undecided = true
			break
		}
		if !validEscape(byte(b), out) {
			bad = append(bad, fmt.Sprintf("0x%02x->%q", b, out))
		}
	}
	if undecided {
		c.Oblige("J.escape", false, loop.Pos(), fn.Name(), "escaping of all 256 byte values", "a statement of the escaping loop is outside the forms the value-set analysis understands: undecided", nil)
		return
	}
	msg := "every byte below 0x20, the quote and the backslash are emitted as a valid JSON escape that decodes to the same byte; every other byte is emitted unchanged"
	if len(bad) > 0 {
		if len(bad) > 8 {
			bad = append(bad[:8], "…")
		}
		msg += "; violated for " + strings.Join(bad, ", ")
	}
	c.Oblige("J.escape", len(bad) == 0, loop.Pos(), fn.Name(), "escaping of all 256 byte values", msg, nil)
	// loop covers every byte: for i := 0; i < len(v); i++
	full := false
	if loop.Cond != nil {
		if be, ok := loop.Cond.(*ast.BinaryExpr); ok && be.Op == token.LSS {
			if call, ok := be.Y.(*ast.CallExpr); ok && len(call.Args) == 1 {
				if id, ok := call.Args[0].(*ast.Ident); ok && info.Uses[id] == str {
					if init, ok := loop.Init.(*ast.AssignStmt); ok && len(init.Rhs) == 1 {
						if v, ok := constInt(info, init.Rhs[0]); ok && v == 0 {
							if inc, ok := loop.Post.(*ast.IncDecStmt); ok && inc.Tok == token.INC {
								full = true
							}
						}
					}
				}
			}
		}
	}
	c.Oblige("J.escape", full, loop.Pos(), fn.Name(), "loop visits every byte of the string", "for i := 0; i < len(v); i++", nil)
	c.Floor("J.escape", 3)
}

// ---------------------------------------------------------------------------
// J.float / J.int

func ruleJSONNumbers(c *Ctx) {
	p := c.P
	pk := p.pkg("plenccodec")
	n := 0
	// J.float / J.nonfinite: the float methods and the unexported helpers they call
	floatFns := map[*ssa.Function]string{}
	for _, m := range []string{"Float64", "Float32"} {
		root := p.ssaFunc("plenccodec.JSONOutput." + m)
		if root == nil {
			c.Oblige("J.float", false, token.NoPos, "plenccodec.JSONOutput."+m, "function", "not found", nil)
			continue
		}
		seen := map[*ssa.Function]bool{}
		var visit func(f *ssa.Function, depth int)
		visit = func(f *ssa.Function, depth int) {
			if seen[f] || depth > 3 || len(f.Blocks) == 0 {
				return
			}
			seen[f] = true
			if _, ok := floatFns[f]; !ok {
				floatFns[f] = m
			}
			for _, b := range f.Blocks {
				for _, in := range b.Instrs {
					if call, ok := in.(*ssa.Call); ok {
						if cal := call.Common().StaticCallee(); cal != nil && cal.Pkg != nil && cal.Pkg.Pkg == pk.Types {
							switch cal.Name() {
							case "prefix", "punctuate":
							default:
								visit(cal, depth+1)
							}
						}
					}
				}
			}
		}
		visit(root, 0)
		reach := 0
		for f := range seen {
			for _, b := range f.Blocks {
				for _, in := range b.Instrs {
					if call, ok := in.(*ssa.Call); ok {
						if cal := call.Common().StaticCallee(); cal != nil && (cal.String() == "strconv.AppendFloat" || cal.String() == "strconv.FormatFloat") {
							reach++
						}
					}
				}
			}
		}
		c.Oblige("J.float", reach > 0, root.Pos(), ssaFuncName(root), "writes its number with strconv.AppendFloat",
			"the float methods must format through strconv (shortest round-tripping representation)", nil)
	}
	var fns []*ssa.Function
	for f := range floatFns {
		fns = append(fns, f)
	}
	sort.Slice(fns, func(i, j int) bool { return ssaFuncName(fns[i]) < ssaFuncName(fns[j]) })
	stripF := func(v ssa.Value) ssa.Value {
		for {
			switch x := v.(type) {
			case *ssa.Convert:
				v = x.X
			case *ssa.ChangeType:
				v = x.X
			default:
				return v
			}
		}
	}
	for _, f := range fns {
		name := ssaFuncName(f)
		for _, b := range f.Blocks {
			for _, in := range b.Instrs {
				call, ok := in.(*ssa.Call)
				if !ok {
					continue
				}
				cal := call.Common().StaticCallee()
				if cal != nil && cal.Pkg != nil && cal.Pkg.Pkg.Path() == "strconv" && cal.Name() != "AppendFloat" && cal.Name() != "FormatFloat" {
					n++
					c.Oblige("J.float", false, call.Pos(), name, "strconv."+cal.Name()+" in the float path",
						"a float is written by strconv.AppendFloat only: formatting it through an integer (or anything else) is wrong outside that type's range - int64(1e19) is not 1e19", nil)
					continue
				}
				if cal == nil || (cal.String() != "strconv.AppendFloat" && cal.String() != "strconv.FormatFloat") {
					continue
				}
				args := call.Common().Args
				if cal.Name() == "AppendFloat" {
					args = args[1:]
				}
				n++
				kInt := func(v ssa.Value) (int64, bool) {
					if k, ok := stripF(v).(*ssa.Const); ok && k.Value != nil && k.Value.Kind() == constant.Int {
						return k.Int64(), true
					}
					return 0, false
				}
				fmtb, ok1 := kInt(args[1])
				prec, ok2 := kInt(args[2])
				bits, ok3 := kInt(args[3])
				srcBits := int64(64)
				if cv, ok := args[0].(*ssa.Convert); ok {
					if bt, ok := cv.X.Type().Underlying().(*types.Basic); ok && bt.Kind() == types.Float32 {
						srcBits = 32
					}
				}
				good := ok1 && ok2 && ok3 && (fmtb == 'g' || fmtb == 'e' || fmtb == 'f' || fmtb == 'G' || fmtb == 'E') && prec == -1 && (bits == 64 || (bits == 32 && srcBits == 32))
				c.Oblige("J.float", good, call.Pos(), name, "strconv."+cal.Name()+" format",
					fmt.Sprintf("floats must be written with the shortest representation that parses back to the same number: format %c precision %d bit size %d (source %d bits)", rune(fmtb), prec, bits, srcBits), nil)
				// J.nonfinite: NaN and both infinities are excluded on the way here
				val := stripF(args[0])
				nan, pinf, ninf := false, false, false
				conds, truths := controllingConds(b)
				for i, cnd := range conds {
					t := truths[i]
					for {
						u, ok := cnd.(*ssa.UnOp)
						if !ok || u.Op != token.NOT {
							break
						}
						cnd, t = u.X, !t
					}
					switch x := cnd.(type) {
					case *ssa.Call:
						g := x.Common().StaticCallee()
						if g == nil || t || len(x.Common().Args) == 0 || stripF(x.Common().Args[0]) != val {
							continue
						}
						switch g.String() {
						case "math.IsNaN":
							nan = true
						case "math.IsInf":
							if k, ok := kInt(x.Common().Args[1]); ok {
								if k >= 0 {
									pinf = true
								}
								if k <= 0 {
									ninf = true
								}
							}
						}
					case *ssa.BinOp:
						if stripF(x.X) == val && stripF(x.Y) == val {
							// v != v is the NaN test
							if (x.Op == token.NEQ && !t) || (x.Op == token.EQL && t) {
								nan = true
							}
						}
					}
				}
				c.Oblige("J.nonfinite", nan && pinf && ninf, call.Pos(), name, "NaN and the infinities never reach strconv."+cal.Name(),
					fmt.Sprintf("strconv writes them as NaN, +Inf and -Inf, which are not JSON: the call must be reached only when math.IsNaN and math.IsInf (both signs) of the same value are false (NaN excluded %v, +Inf %v, -Inf %v)", nan, pinf, ninf), nil)
			}
		}
	}
	c.Floor("J.nonfinite", 1)
	for obj, decl := range p.FuncDecl {
		if p.DeclPkg[obj] != pk || decl.Body == nil {
			continue
		}
		if r := obj.Type().(*types.Signature).Recv(); r == nil || typeName(r.Type()) != "JSONOutput" {
			continue
		}
		info := pk.TypesInfo
		ast.Inspect(decl.Body, func(x ast.Node) bool {
			call, ok := x.(*ast.CallExpr)
			if !ok {
				return true
			}
			cal := callee(info, call)
			if cal == nil || cal.Pkg() == nil || cal.Pkg().Path() != "strconv" {
				return true
			}
			switch cal.Name() {
			case "AppendInt", "AppendUint":
				n++
				base, ok := constInt(info, call.Args[2])
				c.Oblige("J.int", ok && base == 10, call.Pos(), funcName(obj), "strconv."+cal.Name()+" base", "JSON numbers are decimal", nil)
			}
			return true
		})
	}
	c.Floor("J.float", 2)
	c.Floor("J.int", 2)
}

// ---------------------------------------------------------------------------
// T.reset

func ruleJSONReset(c *Ctx) {
	p := c.P
	fn := p.findFunc("plenccodec", "JSONOutput", "Reset")
	if fn == nil {
		c.Oblige("T.reset", false, token.NoPos, "plenccodec.JSONOutput.Reset", "function", "not found", nil)
		return
	}
	info := fn.Pkg.TypesInfo
	recv := recvObj(info, fn.Decl)
	st, _ := deref(recv.Type()).Underlying().(*types.Struct)
	assigned := map[string]string{}
	for _, s := range fn.Decl.Body.List {
		as, ok := s.(*ast.AssignStmt)
		if !ok || len(as.Lhs) != 1 {
			continue
		}
		sel, ok := as.Lhs[0].(*ast.SelectorExpr)
		if !ok {
			continue
		}
		if id, ok := sel.X.(*ast.Ident); ok && info.Uses[id] == recv {
			assigned[sel.Sel.Name] = p.str(as.Rhs[0])
		}
	}
	for i := 0; i < st.NumFields(); i++ {
		f := st.Field(i)
		rhs, ok := assigned[f.Name()]
		good := ok
		if ok {
			switch f.Type().Underlying().(type) {
			case *types.Slice:
				good = rhs == "j."+f.Name()+"[:0]" || rhs == "nil"
			default:
				v := rhs
				good = v == "0" || v == "false" || v == `""`
			}
		}
		c.Oblige("T.reset", good, fn.Decl.Pos(), fn.Name(), "Reset clears field "+f.Name(),
			"after Reset the outputter must behave like a new one: every field returns to its zero state (found: "+rhs+")", nil)
	}
	c.Floor("T.reset", 4)
}

// ---------------------------------------------------------------------------
// J.protocol

type joutMethod struct {
	calls            []string // helper calls on the receiver, in order
	appends          []string // constant strings/bytes appended to j.data
	incDepth, pushes int
	pushState        string
	setsInField      bool
}

// localConstExpr: e names a local variable that is given a value exactly once,
// by a := whose right-hand side is a constant (possibly converted: the form the
// de-extraction pre-pass binds a helper's parameters in) - the constant
// expression; otherwise e itself.
func localConstExpr(info *types.Info, body *ast.BlockStmt, e ast.Expr) ast.Expr {
	id, ok := ast.Unparen(e).(*ast.Ident)
	if !ok {
		return e
	}
	v, ok := info.Uses[id].(*types.Var)
	if !ok {
		return e
	}
	var rhs ast.Expr
	n := 0
	ast.Inspect(body, func(x ast.Node) bool {
		switch s := x.(type) {
		case *ast.AssignStmt:
			for i, l := range s.Lhs {
				if lid, ok := l.(*ast.Ident); ok && (info.Defs[lid] == types.Object(v) || info.Uses[lid] == types.Object(v)) {
					n++
					if len(s.Lhs) == len(s.Rhs) {
						rhs = s.Rhs[i]
					}
				}
			}
		case *ast.IncDecStmt:
			if lid, ok := s.X.(*ast.Ident); ok && info.Uses[lid] == types.Object(v) {
				n += 2
			}
		case *ast.UnaryExpr:
			if lid, ok := s.X.(*ast.Ident); ok && s.Op == token.AND && info.Uses[lid] == types.Object(v) {
				n += 2
			}
		}
		return true
	})
	if n != 1 || rhs == nil {
		return e
	}
	for {
		rhs = ast.Unparen(rhs)
		call, ok := rhs.(*ast.CallExpr)
		if !ok || len(call.Args) != 1 {
			break
		}
		if tv, ok := info.Types[call.Fun]; !ok || !tv.IsType() {
			break
		}
		rhs = call.Args[0]
	}
	if constOf(info, rhs) == nil {
		return e
	}
	return rhs
}

func analyseJOut(p *Prog, fn *fnRef) joutMethod {
	info := fn.Pkg.TypesInfo
	recv := recvObj(info, fn.Decl)
	var m joutMethod
	ast.Inspect(fn.Decl.Body, func(n ast.Node) bool {
		switch x := n.(type) {
		case *ast.CallExpr:
			if esc := p.jsonEscaper(); esc != nil && callee(info, x) == esc.Obj {
				// the escaper, whether it is a method of the outputter or a plain function
				m.calls = append(m.calls, "appendString")
			} else if sel, ok := x.Fun.(*ast.SelectorExpr); ok {
				if id, ok := sel.X.(*ast.Ident); ok && info.Uses[id] == recv {
					switch sel.Sel.Name {
					case "prefix", "punctuate", "end":
						m.calls = append(m.calls, sel.Sel.Name)
					}
				}
			}
			if id, ok := x.Fun.(*ast.Ident); ok && id.Name == "append" && len(x.Args) >= 2 {
				if sel, ok := x.Args[0].(*ast.SelectorExpr); ok {
					switch sel.Sel.Name {
					case "data":
						for _, a := range x.Args[1:] {
							a = localConstExpr(info, fn.Decl.Body, a)
							if v := constOf(info, a); v != nil {
								if v.Kind() == constant.String {
									m.appends = append(m.appends, constant.StringVal(v))
								} else if i, ok := constant.Int64Val(constant.ToInt(v)); ok {
									m.appends = append(m.appends, string(rune(i)))
								}
							}
						}
					case "stack":
						m.pushes++
						ast.Inspect(x.Args[1], func(y ast.Node) bool {
							if kv, ok := y.(*ast.KeyValueExpr); ok {
								m.pushState = constName(info, localConstExpr(info, fn.Decl.Body, kv.Value))
							}
							return true
						})
					}
				}
			}
		case *ast.IncDecStmt:
			if sel, ok := x.X.(*ast.SelectorExpr); ok && sel.Sel.Name == "depth" && x.Tok == token.INC {
				m.incDepth++
			}
		case *ast.AssignStmt:
			if len(x.Lhs) == 1 {
				if sel, ok := x.Lhs[0].(*ast.SelectorExpr); ok && sel.Sel.Name == "inField" {
					if v := constOf(info, x.Rhs[0]); v != nil && v.ExactString() == "true" {
						m.setsInField = true
					}
				}
			}
		}
		return true
	})
	return m
}

func ruleJSONProtocol(c *Ctx) {
	p := c.P
	scalars := []string{"Int64", "Uint64", "Float64", "Float32", "String", "Raw", "Bool", "Time"}
	for _, name := range scalars {
		fn := p.findFunc("plenccodec", "JSONOutput", name)
		if fn == nil {
			c.Oblige("J.protocol", false, token.NoPos, "plenccodec.JSONOutput."+name, name, "not found", nil)
			continue
		}
		m := analyseJOut(p, fn)
		calls := strings.Join(m.calls, ",")
		ok := calls == "prefix,punctuate" || calls == "prefix,appendString,punctuate"
		// a scalar whose whole body hands the value to another scalar of the same
		// outputter (Float32 -> Float64) follows that one's protocol
		if calls == "" && len(fn.Decl.Body.List) == 1 {
			if es, isExpr := fn.Decl.Body.List[0].(*ast.ExprStmt); isExpr {
				if call, isCall := es.X.(*ast.CallExpr); isCall {
					if sel, isSel := call.Fun.(*ast.SelectorExpr); isSel {
						if id, isID := sel.X.(*ast.Ident); isID && fn.Pkg.TypesInfo.Uses[id] == recvObj(fn.Pkg.TypesInfo, fn.Decl) && sel.Sel.Name != name {
							for _, other := range scalars {
								if other == sel.Sel.Name {
									ok, calls = true, "delegates to "+other
								}
							}
						}
					}
				}
			}
		}
		// straight-line: no branching in scalar methods
		branch := false
		ast.Inspect(fn.Decl.Body, func(n ast.Node) bool {
			switch n.(type) {
			case *ast.IfStmt, *ast.ForStmt, *ast.SwitchStmt, *ast.ReturnStmt:
				branch = true
			}
			return true
		})
		c.Oblige("J.protocol", ok && !branch, fn.Decl.Pos(), fn.Name(), "prefix(); emit; punctuate()",
			"every scalar is emitted as indentation/prefix, the value, then the separator for its position - each helper exactly once, in that order (found "+calls+")", nil)
	}
	type cont struct {
		name, calls, app, state string
		start                   bool
	}
	for _, w := range []cont{
		{"StartObject", "prefix", "{\n", "stateKey", true},
		{"StartArray", "prefix", "[\n", "stateValue", true},
		{"EndObject", "end,prefix,punctuate", "}", "", false},
		{"EndArray", "end,prefix,punctuate", "]", "", false},
	} {
		fn := p.findFunc("plenccodec", "JSONOutput", w.name)
		if fn == nil {
			c.Oblige("J.protocol", false, token.NoPos, "plenccodec.JSONOutput."+w.name, w.name, "not found", nil)
			continue
		}
		m := analyseJOut(p, fn)
		ok := strings.Join(m.calls, ",") == w.calls && strings.Join(m.appends, "") == w.app
		if w.start {
			ok = ok && m.incDepth == 1 && m.pushes == 1 && m.pushState == w.state
		} else {
			ok = ok && m.incDepth == 0 && m.pushes == 0
		}
		c.Oblige("J.protocol", ok, fn.Decl.Pos(), fn.Name(), w.name+" protocol",
			fmt.Sprintf("expected helpers [%s], text %q, push %s; found helpers %v, text %q, depth++ ×%d, push ×%d %s", w.calls, w.app, w.state, m.calls, strings.Join(m.appends, ""), m.incDepth, m.pushes, m.pushState), nil)
	}
	// NameField
	if fn := p.findFunc("plenccodec", "JSONOutput", "NameField"); fn != nil {
		m := analyseJOut(p, fn)
		c.Oblige("J.protocol", strings.Join(m.calls, ",") == "prefix,appendString,punctuate" && m.setsInField, fn.Decl.Pos(), fn.Name(), "NameField protocol",
			fmt.Sprintf("prefix, inField = true, escaped name, punctuate (found %v, inField set: %v)", m.calls, m.setsInField), nil)
	}
	// punctuate: exhaustive over the states with the right separators. Decided
	// with FEAS: the load of the top entry's state is forced to each state in
	// turn; the constant bytes appended and the state stored on the feasible
	// paths are what that state does (however the dispatch is written).
	if f := p.ssaFunc("plenccodec.JSONOutput.punctuate"); f != nil {
		fpk := p.pkg("plenccodec")
		states := constsOfType(fpk, "state")
		stateVal := map[string]constant.Value{}
		valName := map[string]string{}
		for n := range states {
			if k, ok := fpk.Types.Scope().Lookup(n).(*types.Const); ok {
				stateVal[n] = k.Val()
				valName[k.Val().ExactString()] = n
			}
		}
		seen := map[string]string{}
		next := map[string]string{}
		for n := range states {
			n := n
			fe := feasibleUnder(f, func(v ssa.Value) (constant.Value, bool) {
				u, ok := v.(*ssa.UnOp)
				if !ok || u.Op != token.MUL {
					return nil, false
				}
				fa, ok := u.X.(*ssa.FieldAddr)
				if ok && fieldName(fa) == "state" {
					return stateVal[n], true
				}
				return nil, false
			})
			// the stack is not empty
			for _, b := range f.Blocks {
				if !fe.reach[b] {
					continue
				}
				for _, in := range b.Instrs {
					switch x := in.(type) {
					case *ssa.Call:
						if bi, ok := x.Common().Value.(*ssa.Builtin); ok && bi.Name() == "append" && len(x.Common().Args) == 2 {
							seen[n] += appendedConstBytes(x.Common().Args[1])
						}
					case *ssa.Store:
						if fa, ok := x.Addr.(*ssa.FieldAddr); ok && fieldName(fa) == "state" {
							if k, ok := x.Val.(*ssa.Const); ok && k.Value != nil {
								next[n] = valName[k.Value.ExactString()]
							} else {
								next[n] = "?"
							}
						}
					}
				}
			}
		}
		ok := len(states) == 3 && seen["stateKey"] == ": " && next["stateKey"] == "stateObjValue" &&
			seen["stateObjValue"] == ",\n" && next["stateObjValue"] == "stateKey" && seen["stateValue"] == ",\n" && (next["stateValue"] == "" || next["stateValue"] == "stateValue")
		c.Oblige("J.protocol", ok, f.Pos(), "plenccodec.JSONOutput.punctuate", "punctuate: key→\": \"→value→\",\\n\"→key; array value→\",\\n\"",
			fmt.Sprintf("separators %v transitions %v over %d states", seen, next, len(states)), nil)
	}
	c.Floor("J.protocol", 14)
}

// appendedConstBytes: the constant bytes a variadic append operand stands for
// ("lit"... or a small array of constant bytes); "?" if not constant.
func appendedConstBytes(v ssa.Value) string {
	switch x := v.(type) {
	case *ssa.Const:
		if x.Value != nil && x.Value.Kind() == constant.String {
			return constant.StringVal(x.Value)
		}
	case *ssa.Convert:
		return appendedConstBytes(x.X)
	case *ssa.Slice:
		// append(data, 'a', 'b'): new [2]byte with constant stores
		if al, ok := x.X.(*ssa.Alloc); ok {
			if arr, ok := deref(al.Type()).Underlying().(*types.Array); ok {
				out := make([]byte, arr.Len())
				filled := 0
				for _, r := range *al.Referrers() {
					ia, ok := r.(*ssa.IndexAddr)
					if !ok {
						continue
					}
					ik, ok := ia.Index.(*ssa.Const)
					if !ok {
						return "?"
					}
					for _, r2 := range *ia.Referrers() {
						if st, ok := r2.(*ssa.Store); ok {
							k, ok := st.Val.(*ssa.Const)
							if !ok || k.Value == nil {
								return "?"
							}
							i, _ := constant.Int64Val(ik.Value)
							b, _ := constant.Int64Val(k.Value)
							if i >= 0 && int(i) < len(out) {
								out[i] = byte(b)
								filled++
							}
						}
					}
				}
				if filled == len(out) {
					return string(out)
				}
			}
		}
	}
	return "?"
}

// jsonEscaper: the function that escapes strings for the JSON outputter - the
// method JSONOutput.appendString, or (when it has been renamed or turned into a
// plain function) the module function that JSONOutput.String hands its string
// parameter to and that returns the extended buffer.
func (p *Prog) jsonEscaper() *fnRef {
	if fn := p.findFunc("plenccodec", "JSONOutput", "appendString"); fn != nil {
		return fn
	}
	sf := p.findFunc("plenccodec", "JSONOutput", "String")
	if sf == nil || sf.Decl.Body == nil {
		return nil
	}
	info := sf.Pkg.TypesInfo
	strs := map[types.Object]bool{}
	for _, po := range paramObjs(info, sf.Decl) {
		if po != nil {
			if b, ok := po.Type().Underlying().(*types.Basic); ok && b.Info()&types.IsString != 0 {
				strs[po] = true
			}
		}
	}
	var found *fnRef
	n := 0
	ast.Inspect(sf.Decl.Body, func(x ast.Node) bool {
		call, ok := x.(*ast.CallExpr)
		if !ok {
			return true
		}
		obj := callee(info, call)
		if obj == nil || obj.Pkg() == nil || obj.Pkg() != sf.Obj.Pkg() {
			return true
		}
		sig := obj.Type().(*types.Signature)
		if sig.Results().Len() != 1 || !isByteSlice(sig.Results().At(0).Type()) {
			return true
		}
		for _, a := range call.Args {
			if id, ok := ast.Unparen(a).(*ast.Ident); ok && strs[info.Uses[id]] {
				if ref := p.refOf(obj); ref != nil && ref.Decl.Body != nil {
					found = ref
					n++
				}
			}
		}
		return true
	})
	if n != 1 {
		return nil
	}
	return found
}
