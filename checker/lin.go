package main

import (
	"fmt"
	"math/big"
	"sort"
	"strings"
)

// Lin is a linear expression  Σ coef[t]·t + K  over integer terms.
type Lin struct {
	C map[int]int64 // term id -> coefficient (never 0)
	K *big.Int
}

func linConst(k int64) Lin  { return Lin{C: map[int]int64{}, K: big.NewInt(k)} }
func linBig(k *big.Int) Lin { return Lin{C: map[int]int64{}, K: new(big.Int).Set(k)} }
func linTerm(t int) Lin     { return Lin{C: map[int]int64{t: 1}, K: big.NewInt(0)} }
func (a Lin) isConst() bool { return len(a.C) == 0 }
func (a Lin) clone() Lin {
	c := Lin{C: make(map[int]int64, len(a.C)), K: new(big.Int).Set(a.K)}
	for k, v := range a.C {
		c.C[k] = v
	}
	return c
}

// overflowed is set when a coefficient computation leaves int64; the
// expression is then unusable and the prover answers "not proved".
var errCoef = fmt.Errorf("coefficient overflow")

func mulOK(a, b int64) (int64, bool) {
	if a == 0 || b == 0 {
		return 0, true
	}
	r := a * b
	if r/b != a || (a == -1 && b == -1<<63) || (b == -1 && a == -1<<63) {
		return 0, false
	}
	return r, true
}

func addOK(a, b int64) (int64, bool) {
	r := a + b
	if (a > 0 && b > 0 && r < 0) || (a < 0 && b < 0 && r >= 0) {
		return 0, false
	}
	return r, true
}

func (a Lin) add(b Lin) (Lin, bool) { return a.addScaled(b, 1) }
func (a Lin) sub(b Lin) (Lin, bool) { return a.addScaled(b, -1) }

func (a Lin) addScaled(b Lin, s int64) (Lin, bool) {
	r := a.clone()
	for t, v := range b.C {
		m, ok := mulOK(v, s)
		if !ok {
			return r, false
		}
		n, ok := addOK(r.C[t], m)
		if !ok {
			return r, false
		}
		if n == 0 {
			delete(r.C, t)
		} else {
			r.C[t] = n
		}
	}
	r.K.Add(r.K, new(big.Int).Mul(b.K, big.NewInt(s)))
	return r, true
}

func (a Lin) scale(s int64) (Lin, bool) {
	z := linConst(0)
	return z.addScaled(a, s)
}

func (a Lin) addK(k int64) Lin {
	r := a.clone()
	r.K.Add(r.K, big.NewInt(k))
	return r
}

func (a Lin) key() string {
	ts := make([]int, 0, len(a.C))
	for t := range a.C {
		ts = append(ts, t)
	}
	sort.Ints(ts)
	var sb strings.Builder
	for _, t := range ts {
		fmt.Fprintf(&sb, "%d*%d,", a.C[t], t)
	}
	sb.WriteString(a.K.String())
	return sb.String()
}

// Ineq is  E >= 0.
type Ineq struct{ E Lin }

func geq(a, b Lin) (Ineq, bool) { // a >= b
	e, ok := a.sub(b)
	return Ineq{e}, ok
}
func leq(a, b Lin) (Ineq, bool) { return geq(b, a) }
func gt(a, b Lin) (Ineq, bool) { // a > b  <=> a-b-1 >= 0
	e, ok := a.sub(b)
	if !ok {
		return Ineq{}, false
	}
	return Ineq{e.addK(-1)}, true
}
func lt(a, b Lin) (Ineq, bool) { return gt(b, a) }

// negate: not(E>=0)  <=>  -E-1 >= 0 (integers)
func (q Ineq) negate() (Ineq, bool) {
	e, ok := q.E.scale(-1)
	if !ok {
		return Ineq{}, false
	}
	return Ineq{e.addK(-1)}, true
}

func gcd64(a, b int64) int64 {
	if a < 0 {
		a = -a
	}
	if b < 0 {
		b = -b
	}
	for b != 0 {
		a, b = b, a%b
	}
	return a
}

// normalise divides by the gcd of the coefficients and floors the constant
// (integer tightening).
func (q Ineq) normalise() Ineq {
	var g int64
	for _, v := range q.E.C {
		g = gcd64(g, v)
	}
	if g <= 1 {
		return q
	}
	r := Lin{C: make(map[int]int64, len(q.E.C)), K: new(big.Int)}
	for t, v := range q.E.C {
		r.C[t] = v / g
	}
	// floor division of K by g
	bg := big.NewInt(g)
	m := new(big.Int)
	r.K.DivMod(q.E.K, bg, m) // Euclidean: m >= 0, so Div is floor for positive g
	return Ineq{r}
}

const fmCap = 4000

// infeasible decides (soundly: true only if really infeasible over Q, hence
// over Z) whether the conjunction of cs has no solution, by Fourier–Motzkin
// elimination with integer tightening.
func infeasible(cs []Ineq) bool {
	cur := make([]Ineq, 0, len(cs))
	seen := map[string]bool{}
	add := func(dst *[]Ineq, q Ineq) (contradiction bool) {
		q = q.normalise()
		if q.E.isConst() {
			return q.E.K.Sign() < 0
		}
		k := q.E.key()
		if seen[k] {
			return false
		}
		seen[k] = true
		*dst = append(*dst, q)
		return false
	}
	for _, q := range cs {
		if add(&cur, q) {
			return true
		}
	}
	for {
		if len(cur) == 0 {
			return false
		}
		// pick the variable with the smallest pos*neg product
		type pn struct{ p, n int }
		cnt := map[int]*pn{}
		for _, q := range cur {
			for t, v := range q.E.C {
				c := cnt[t]
				if c == nil {
					c = &pn{}
					cnt[t] = c
				}
				if v > 0 {
					c.p++
				} else {
					c.n++
				}
			}
		}
		if len(cnt) == 0 {
			return false
		}
		best, bestCost := -1, 0
		vars := make([]int, 0, len(cnt))
		for t := range cnt {
			vars = append(vars, t)
		}
		sort.Ints(vars)
		for _, t := range vars {
			c := cnt[t]
			cost := c.p*c.n - c.p - c.n
			if best == -1 || cost < bestCost {
				best, bestCost = t, cost
			}
		}
		var pos, neg, rest []Ineq
		for _, q := range cur {
			v := q.E.C[best]
			switch {
			case v > 0:
				pos = append(pos, q)
			case v < 0:
				neg = append(neg, q)
			default:
				rest = append(rest, q)
			}
		}
		if len(pos)*len(neg)+len(rest) > fmCap {
			return false // give up: not proved
		}
		next := rest
		seen = map[string]bool{}
		for _, q := range rest {
			seen[q.E.key()] = true
		}
		for _, p := range pos {
			for _, n := range neg {
				a, b := p.E.C[best], -n.E.C[best] // a>0, b>0 ; combine b*p + a*n
				g := gcd64(a, b)
				a, b = a/g, b/g
				e1, ok1 := p.E.scale(b)
				if !ok1 {
					continue
				}
				e2, ok2 := e1.addScaled(n.E, a)
				if !ok2 {
					continue
				}
				delete(e2.C, best)
				if add(&next, Ineq{e2}) {
					return true
				}
			}
		}
		cur = next
	}
}

// entails: facts ⊢ goal, using only facts connected to the goal's terms.
func entails(facts []Ineq, goal Ineq) bool {
	ng, ok := goal.negate()
	if !ok {
		return false
	}
	// relevance closure
	rel := map[int]bool{}
	for t := range ng.E.C {
		rel[t] = true
	}
	used := make([]bool, len(facts))
	changed := true
	for changed {
		changed = false
		for i, f := range facts {
			if used[i] {
				continue
			}
			touch := false
			for t := range f.E.C {
				if rel[t] {
					touch = true
					break
				}
			}
			if !touch {
				continue
			}
			used[i] = true
			changed = true
			for t := range f.E.C {
				rel[t] = true
			}
		}
	}
	sel := []Ineq{ng}
	for i, f := range facts {
		if used[i] {
			sel = append(sel, f)
		} else if f.E.isConst() && f.E.K.Sign() < 0 {
			return true // contradictory facts: unreachable point
		}
	}
	return infeasible(sel)
}
