// plencheck decides structural clauses of the plenc properties C01..C20 by
// static analysis of /repo's current working tree (go/packages, go/types,
// go/ssa). It never runs plenc code.
package main

import (
	"encoding/json"
	"flag"
	"fmt"
	"os"
	"sort"
	"strconv"
	"time"
)

var props = map[string]*propInfo{}

func register(p *propInfo) { props[p.ID] = p }

func main() {
	prop := flag.String("property", "", "property id (C01..C20)")
	tier := flag.String("tier", "quick", "quick|thorough")
	repo := flag.String("repo", "/repo", "repository root")
	replay := flag.String("replay", "", "replay file: re-run the property of that finding and report whether the finding is still present")
	list := flag.Bool("list", false, "list properties")
	dump := flag.String("dump", "", "debug dumps")
	flag.Parse()
	if t := os.Getenv("VERIF_TIER"); t == "quick" || t == "thorough" {
		*tier = t
	}
	seed := 0
	if s := os.Getenv("VERIF_SEED"); s != "" {
		if v, err := strconv.Atoi(s); err == nil {
			seed = v
		}
	}
	if *list {
		var ids []string
		for id := range props {
			ids = append(ids, id)
		}
		sort.Strings(ids)
		for _, id := range ids {
			fmt.Println(id)
		}
		return
	}
	replayKey := ""
	if *replay != "" {
		b, err := os.ReadFile(*replay)
		if err != nil {
			fmt.Println("cannot read replay file:", err)
			os.Exit(2)
		}
		var f Finding
		if err := json.Unmarshal(b, &f); err != nil {
			fmt.Println("bad replay file:", err)
			os.Exit(2)
		}
		*prop = f.Property
		replayKey = f.Key
	}
	if *dump != "" {
		p, err := loadProg(*repo)
		if err != nil {
			fmt.Println(err)
			os.Exit(2)
		}
		debugDump(p, *dump)
		return
	}
	info := props[*prop]
	if info == nil {
		fmt.Printf("unknown property %q\n", *prop)
		os.Exit(2)
	}
	start := time.Now()
	p, err := loadProg(*repo)
	if err != nil {
		fmt.Printf("cannot analyse %s: %v\n", *repo, err)
		fmt.Printf("VIOLATION property=%s replay=%s\n", *prop, "<load-failure>")
		os.Exit(1)
	}
	c := newCtx(p, *prop, *tier)
	func() {
		defer func() {
			if r := recover(); r != nil {
				c.Findings = append(c.Findings, Finding{Property: *prop, Rule: "internal", Func: "-",
					Key: "internal|panic", Pos: "-", Msg: fmt.Sprintf("checker panicked: %v (an analysis that crashes decides nothing)", r)})
				if os.Getenv("PLENCHECK_DEBUG") != "" {
					panic(r)
				}
			}
		}()
		info.Run(c)
	}()
	if replayKey != "" {
		for _, f := range c.Findings {
			if f.Key == replayKey {
				fmt.Printf("replay: finding still present\n  %s at %s\n  %s\n", f.Key, f.Pos, f.Msg)
				fmt.Printf("VIOLATION property=%s replay=%s\n", *prop, *replay)
				os.Exit(1)
			}
		}
		fmt.Printf("replay: finding %q no longer present on the current tree\n", replayKey)
		os.Exit(0)
	}
	var th map[string]any
	if *tier == "thorough" {
		th = runThorough(c, info, *repo)
	}
	os.Exit(finish(c, info, seed, start, th))
}
