package main

func init() {
	register(&propInfo{
		ID:          "C01",
		Explanation: "Decides necessary structural conditions of the round trip, not the round trip itself: (T.reg) every RegisterCodec row attaches a codec to a Go type whose size and identity equal the memory type the codec's methods reinterpret ptr as; (T.mem) Omit/Read/Size/Append of each codec agree on that memory type; (T.kind) each reflect.Kind clause of CodecForTypeRegistry maps named types to the basic type of the same kind and every registered basic kind has a clause; (T.omit0) every Omit is a disjunction of zero tests so omission can only drop a zero value; (T.slicewrap) the slice wrapper is chosen by element wire type as documented. (X.tightguard) the count and length rejections accepted as bound checks reject only what cannot fit; (S.spec, proto-mode codecs) the writers whose readers take an empty body for zero/absent keep to the documented shape.",
		NotDecided:  "Equality of decoded and original values for all types and values (runtime values; no sound static bound in reach); pointer/slice/map composition; boundary values.",
		Assumptions: []string{"A1", "A5"},
		Run: func(c *Ctx) {
			ruleStructNoLoad(c)
			ruleCountZero(c)
			// round 12: a field with an index is encoded whatever its other tags say; nil bytes stay nil
			ruleBuildGuards(c)
			ruleBytesNil(c)
			ruleReg(c)
			ruleMemAll(c)
			ruleKind(c)
			ruleOmit0(c)
			ruleSliceWrap(c)
			ruleSliceWrapOnly(c)
			rulePendingKey(c)
			ruleRegDescriptor(c)
			ruleInternKey(c)
			ruleSetLen(c)
			ruleCountLoop(c)
			rulePtrTag(c)
			ruleEntryPresence(c)
			ruleSameTag(c)
			// every documented field index (0 included) is accepted by the builder (C01-r14-m1)
			ruleIndexEnds(c)
			ruleProtoMapEntry(c)
			rulePointerWrapper(c)
			ruleOverlayKey(c)
			ruleNewFresh(c)
			ruleLeadCountEmpty(c)
			ruleEfaceDirect(c)
			// a value whose encoding the reader turns away, skips or does not store does not come back
			ruleRepeatedNesting(c)
			ruleRejects(c, decodeBound(c.P), nil)
			// the length/count rejections X.rejects accepts as bound checks reject only what cannot fit
			ruleTightGuards(c, decodeBound(c.P), nil)
			c.Floor("X.tightguard", 22)
			ruleVarSize(c)
			ruleScalarStore(c)
			ruleDispatchKnown(c)
			ruleReadLookup(c)
			rulePtime(c)
			// nested values are framed by the size their codec reports: size = appended length is a
			// necessary condition of the round trip (the reader slices the body by that length)
			ruleSizeLaw(c)
			ruleFrame(c)
			// the proto-mode codecs' readers take an empty body for the zero value / an absent entry: the writers
			// must keep to the documented shape (a Timestamp always carries its fields, an entry its key and value)
			ruleProtoGrammar(c)
			ruleEmitLemmas(c)
			// a value decoded into uncleared scratch or a re-used slot is not the value that was encoded
			ruleClearBeforeRead(c)
		},
	})
}
