package main

import (
	"strings"

	"golang.org/x/tools/go/ssa"
)

func init() {
	register(&propInfo{
		ID:          "C02",
		Explanation: "Decides the *shape* of the bytes each shipped encoder emits, for all values at once, against a specification of the documented format written independently in the checker (README.md, plenccore/wire.go): (S.spec) the symbolic emission term of every codec's Append - tag · zig-zag varint for signed ints; tag · plain varint for unsigned/flat ints and bools (1/0); tag · little-endian 4/8 bytes for floats; [tag · varuint(len)] · bytes for strings and byte slices; a length-delimited frame around seconds=field 1 / nanoseconds=field 2 for times; a frame around each non-omitted field in declaration order with its precomputed tag for structs; nothing for nil and the pointee's encoding otherwise for pointers; packed elements for scalar slices; tag · count · (length · element)* for slices of length-delimited elements and maps (entries key=field 1, value=field 2, each unless omitted) - with every length prefix equal to Φ of what follows; (T.fieldtag) field tags are AppendTag(nil, field codec's wire type, field index); (T.wireconst/T.tagfmt/T.varint-deleg) wire-type constants 0,1,2,3,5, tag layout index<<3|wt, signed = unsigned∘zig-zag; (T.order/T.anyorder) fields encoded by ranging over the field slice and decoded by index with only the offset carried between fields; (T.slicewrap) packed vs counted selection by element wire type. A change applied consistently to Append, Size and Read changes the term and is caught. (X.eface.direct) a value passed by value is encoded from the value, not from the interface word; (X.dom.build) the index in a tag is the decimal number in the struct tag; (X.clear.*, X.tightguard) Unmarshal reads omitted fields of a re-used scratch key or element as zero and turns away no length or count the writer produces.",
		NotDecided:  "That AppendVarUint's loop is LEB128 and ZigZag is the protobuf bijection (numeric, see C18); golden-file bytes.",
		Assumptions: []string{"A4", "A5"},
		Run: func(c *Ctx) {
			ruleSpec(c, func(n string) bool {
				return !strings.HasPrefix(n, "plenccodec.Proto") && n != "plenccodec.TimeCompatCodec"
			})
			c.Floor("S.spec", 24)
			ruleJSONValueSpec(c)
			ruleOmitSpec(c)
			ruleRejects(c, decodeBound(c.P), nil)
			ruleSameTag(c)
			// "fields in any order": a field reader succeeds only after the whole input is scanned (C02-r14-m3)
			ruleFullScan(c)
			ruleFieldTag(c)
			ruleNoSort(c)
			ruleWireConsts(c)
			ruleTagFormat(c)
			ruleVarintDelegation(c)
			ruleSliceWrap(c)
			ruleStructDescriptorOrderOnly(c)
			ruleAnyOrder(c, lightBound(c.P, "plenccodec.StructCodec.Read"))
			ruleMapDescriptor(c)
			ruleReg(c)
			ruleOverlayKey(c)
			// "every length prefix is exact": prefixes are written from Size
			ruleSizeLaw(c)
			ruleFrame(c)
			ruleLookupStateless(c, []string{"plenccodec.StructCodec.Read"})
			// the varint of every tag, length and value has the protobuf length; a pointer field keeps its option
			ruleVarSize(c)
			rulePtrTag(c)
			rulePtime(c)
			// named types get the codec of their own kind; the proto codecs' bytes are documented too
			ruleKind(c)
			ruleProtoGrammar(c)
			// the bytes of a value passed by value are those of the value (not of the interface word); the index in a
			// tag is the decimal number written in the struct tag; and "Unmarshal accepts any such encoding": a re-used
			// scratch key or element is cleared first, so fields the encoding omits read as zero
			ruleEfaceDirect(c)
			ruleBuildGuards(c)
			ruleClearBeforeRead(c)
			// a length or count the writer legitimately produces is not turned away
			ruleTightGuards(c, decodeBound(c.P), nil)
		},
	})
}

// ruleStructDescriptorOrderOnly: T.order (encoder ranges over the field slice).
func ruleStructDescriptorOrderOnly(c *Ctx) {
	sub := newCtx(c.P, c.Prop, c.Tier)
	ruleStructDescriptor(sub)
	for _, f := range sub.Findings {
		if f.Rule == "T.order" {
			c.Findings = append(c.Findings, f)
		}
	}
	if r := sub.Rules["T.order"]; r != nil {
		c.Rules["T.order"] = r
	}
}

// lightBound: loop structure of single functions without running the analysis.
func lightBound(p *Prog, names ...string) *Bound {
	return newBound(p, p.funcsByName(names...), func(*ssa.Function, *ssa.Parameter) bool { return false }, nil, nil)
}
