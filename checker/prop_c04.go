package main

import (
	"fmt"

	"golang.org/x/tools/go/ssa"
)

// decodeBound runs BOUND over the decode closure with the input bytes as the
// taint source. Cached per process.
var decodeBoundCache *Bound

func decodeBound(p *Prog) *Bound {
	if decodeBoundCache != nil {
		return decodeBoundCache
	}
	funcs := p.decodeClosure()
	B := newBound(p, funcs,
		func(fn *ssa.Function, prm *ssa.Parameter) bool { return isByteSlice(prm.Type()) },
		func(fn *ssa.Function) bool {
			// preconditions only for unexported helpers that are not interface methods
			return isUnexportedFunc(fn)
		}, nil)
	B.run()
	decodeBoundCache = B
	return B
}

func init() {
	register(&propInfo{
		ID:          "C04",
		Explanation: "Decides, for every function in the decode closure (all Codec.Read implementations of the module, Unmarshal, Descriptor.Read and the plenccore readers, closed under static callees and all in-module implementations of interface invokes), that every slice expression, index expression and stdlib precondition that involves the input bytes is in range (0 <= low <= high <= len, 0 <= i < len), that every allocation whose size derives from the input is proved 0 <= size <= len(data), that every loop has a variable proved to make progress bounded by the input length, and that every reader meets the contract err == nil => 0 <= n <= len(data) its callers rely on. Method: SSA-based abstract interpretation with linear-inequality facts (dominating branch conditions, callee contracts, Houdini-inferred loop invariants and helper pre/post-conditions) decided by Fourier-Motzkin elimination inside the analyser. (B.rawview) no slice or string header is made over raw memory (unsafe.Slice/unsafe.String) with a length that is not a constant - such a header is believed by every later copy and index; a loop bound loaded from the decode target (a capacity left by an earlier part of the input) counts as input-controlled.",
		NotDecided:  "Stack depth on deeply nested input; 'promptly' beyond the linear iteration bound; heap growth across a sequence of calls (intern table); division by a zero Size of a user codec; nil-dereference of codec fields.",
		Assumptions: []string{"A1", "A2", "A3", "A4", "A5", "A6"},
		Run: func(c *Ctx) {
			B := decodeBound(c.P)
			B.obligations(c, boundOpts{prop: "C04", onlyTainted: true, progress: true, alloc: true, contracts: true})
			ruleRawViews(c, B.funcs, false)
			ruleNilDeref(c, B.funcs, "decode closure")
			ruleGrowth(c)
			ruleNestedAlloc(c, B)
			ruleInternGrowth(c)
			c.Floor("B.slice", 60)
			c.Floor("B.contract", 40)
			c.Floor("B.progress", 15)
			c.Floor("B.alloc", 5)
			var sum []string
			for _, f := range B.funcs {
				for _, s := range B.contractSummary(f) {
					sum = append(sum, ssaFuncName(f)+": "+s)
				}
			}
			c.Extra["inferred_contracts"] = sum
			c.Note("decode closure: %d functions", len(B.funcs))
			_ = fmt.Sprint
		},
	})
}
