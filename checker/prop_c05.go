package main

func init() {
	register(&propInfo{
		ID:          "C05",
		Explanation: "Decides the Size/Append/framing laws for every codec of the universe (28 types incl. JSON, BigQuery, null) and the JSON value functions: the encoder bodies are evaluated symbolically over the typed AST into emission terms (append → RAW/VARUINT/VARINT/FIX/SUB atoms, conditionals, loops and type switches as term constructors, module helpers inlined, recursive definitions as atoms with their partner) and (S.law) Size(ptr, tag) must be syntactically equal, after AC-normalisation, to Φ(Append(data, ptr, tag)) - i.e. the reported size is the number of appended bytes for all values, with and without tag, and by induction over SUB for all nestings; (S.frame) a length-delimited codec's tagged form is tag · varuint(Φ(body)) · body with the same body as the untagged form (every length prefix is exact); (S.pair) Append and Size come from the same type; (T.mem) all pointer-taking methods of a codec reinterpret ptr as the same type; (T.fixedsize/T.szu-small) the two lemmas used (fixed-width codecs' Size ignores ptr; SizeVarUint(v)=1 for v<0x80) are checked against the code.",
		NotDecided:  "'Reading a body back consumes exactly its length' (BOUND only proves <=); that the primitives SizeVarUint/AppendVarUint agree numerically (C18, not applicable part).",
		Assumptions: []string{"A4", "A5"},
		Run: func(c *Ctx) {
			ruleSizeLaw(c)
			ruleFrame(c)
			ruleMemAll(c)
			ruleEmitLemmas(c)
		},
	})
}
