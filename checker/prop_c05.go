package main

import "strings"

func init() {
	register(&propInfo{
		ID:          "C05",
		Explanation: "Decides the Size/Append/framing laws for every codec of the universe (28 types incl. JSON, BigQuery, null) and the JSON value functions: the encoder bodies are evaluated symbolically over the typed AST into emission terms (append → RAW/VARUINT/VARINT/FIX/SUB atoms, conditionals, loops and type switches as term constructors, module helpers inlined, recursive definitions as atoms with their partner) and (S.law) Size(ptr, tag) must be syntactically equal, after AC-normalisation, to Φ(Append(data, ptr, tag)) - i.e. the reported size is the number of appended bytes for all values, with and without tag, and by induction over SUB for all nestings; (S.frame) a length-delimited codec's tagged form is tag · varuint(Φ(body)) · body with the same body as the untagged form (every length prefix is exact); (S.pair) Append and Size come from the same type; (B.exact) for every length-delimited leaf/struct codec (strings, bytes, interned strings, structs, times, the null string/time codecs) BOUND infers and re-derives on every run the contract err == nil => n == len(data): reading a body back consumes exactly its length; (T.mem) all pointer-taking methods of a codec reinterpret ptr as the same type; (T.fixedsize/T.szu-small) the two lemmas used (fixed-width codecs' Size ignores ptr; SizeVarUint(v)=1 for v<0x80) are checked against the code.",
		NotDecided:  "Exact consumption for the slice wrappers and map codecs (needs a relation between their counting and reading loops; only <= is proved there); that the primitives SizeVarUint/AppendVarUint agree numerically (C18, not applicable part).",
		Assumptions: []string{"A4", "A5"},
		Run: func(c *Ctx) {
			ruleSizeLaw(c)
			ruleFrame(c)
			ruleMemAll(c)
			ruleEmitLemmas(c)
			ruleExactConsumption(c)
			ruleConsumed(c, decodeBound(c.P), nil)
			ruleVarSize(c)
			// a repeated-form key/value/element inside a map or slice has no frame of its own
			ruleRepeatedNesting(c)
		},
	})
}

// ruleExactConsumption: B.exact.
func ruleExactConsumption(c *Ctx) {
	p := c.P
	B := decodeBound(p)
	for _, ct := range p.Codecs {
		consts, delegated, ok := p.wireInfo(ct)
		if !ok || delegated || len(consts) != 1 || consts[0] != "WTLength" {
			continue
		}
		if strings.Contains(ct.Name, "SliceWrapper") || strings.Contains(ct.Name, "ProtoMap") {
			continue // containers: exactness depends on the relation between two loops, not decided
		}
		f := p.SSA.FuncValue(ct.Methods["Read"].Fn)
		have := map[string]bool{}
		for _, s := range B.contractSummary(f) {
			have[s] = true
		}
		okc := have["post: err==nil => n >= len(data)"] && have["post: err==nil => n <= len(data)"]
		c.Oblige("B.exact", okc, f.Pos(), ct.Name, "Read consumes exactly len(data)",
			"a length-delimited body is handed to its codec as exactly its bytes; the codec must report having consumed all of them (n == len(data)), otherwise the enclosing reader desynchronises", nil)
	}
	c.Floor("B.exact", 9)
}
