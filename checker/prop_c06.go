package main

func init() {
	register(&propInfo{
		ID:          "C06",
		Explanation: "Decides the prefix/append-only/purity clauses: (X.appendonly) in every function of the encode closure (Omit/Size/Append of all codecs, Marshal and their callees) the []byte parameter is never resliced or indexed and every returned buffer is that parameter extended by appends - for Marshal, every success return is data extended by appends or a fresh buffer created under data == nil; (X.ro) encoders store only into their own locals; (X.pure) the encode closure consults no clock, randomness, pool, shared table or package-level variable that is written after initialisation, so the bytes depend on the value and immutable codec configuration only; (T.delegate) the package-level Marshal is a pure delegate of the default instance. (X.marshal.omit) every Append call in Marshal is dominated by the false outcome of the same codec's Omit: by-value and by-pointer arguments are written or omitted alike.",
		NotDecided:  "By-value vs by-pointer equivalence (whether reflect stores a dynamic type indirectly in the interface is a runtime ABI fact: by-value pointer-shaped structs crash, described in DESIGN.md, no rule reports it); map-order determinism is excluded by the property.",
		Assumptions: []string{"A4", "A5"},
		Run: func(c *Ctx) {
			ruleMarshalOmit(c)
			// round 13: Marshal follows one level of pointer only
			ruleMarshalDeref(c)
			ruleAppendOnly(c)
			ruleEncodeRO(c)
			rulePure(c)
			ruleDelegate(c, []string{"Marshal"})
			ruleEfaceDirect(c)
			// history independence: what a tagged use registers must not change a later untagged use
			rulePendingKey(c)
			ruleAppendTarget(c)
			ruleRegistryKey(c)
			// the bytes do not depend on which codec happened to be built first: an option selects its codec
			// under its own (type, tag) key
			ruleOptionScope(c)
			ruleKeySelf(c)
			ruleMarshalViaCodec(c)
			// Marshal(buf, v) = buf + Marshal(nil, v): what an encoder appends is what it sizes
			ruleSizeLaw(c)
			ruleFrame(c)
		},
	})
}
