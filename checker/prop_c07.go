package main

func init() {
	register(&propInfo{
		ID:          "C07",
		Explanation: "plenc has no locks around codecs: safety rests on immutability after publication plus three synchronised structures. The check decides that discipline for all interleavings at once: (X.write) no Store or map update in the API closure (decode, encode, Descriptor, New) targets codec receiver state or a package-level variable; (X.atomic) a field published through sync/atomic is accessed only through sync/atomic; (X.cow) a map obtained from an atomic load is never updated and a map published atomically is created in the publishing function; (X.syncfield) sync.Map/sync.Pool/sync.Mutex fields are used only through their methods; (X.publish) no codec under construction is handed to a registry that forwards StoreOrSwap to the shared sync.Map.",
		NotDecided:  "That concurrent results equal the sequential ones beyond race-freedom of the enumerated state; liveness; the mutex in addString is not required (lost updates still return private copies).",
		Assumptions: []string{"A3", "A5"},
		Run: func(c *Ctx) {
			// round 13: a pool's New allocates
			rulePoolFresh(c)
			// round 11: a lock that is not released on some path blocks every later user
			ruleLockPaired(c)
			ruleSharedRecvWrites(c)
			rulePublishWinner(c)
			ruleNoStateCache(c)
			ruleAtomicFields(c)
			ruleSyncFields(c)
			rulePublish(c)
			rulePoolLifetime(c)
			rulePublishAtomic(c)
			ruleAppendTarget(c)
			ruleSharedStateInventory(c)
		},
	})
}
