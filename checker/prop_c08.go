package main

import (
	"fmt"
	"go/ast"
	"go/constant"
	"go/token"
	"go/types"
	"reflect"
	"strings"

	"golang.org/x/tools/go/ssa"
)

// dominatedByBranch: block b is dominated by successor idx of the If ending block d
// (and that successor is entered only from d).
func dominatedByBranch(d *ssa.BasicBlock, idx int, b *ssa.BasicBlock) bool {
	if idx >= len(d.Succs) {
		return false
	}
	s := d.Succs[idx]
	if len(s.Preds) != 1 {
		return false
	}
	return s == b || s.Dominates(b)
}

// nonNilAt: value v is known non-nil at block b through a dominating nil test.
func nonNilAt(f *ssa.Function, v ssa.Value, b *ssa.BasicBlock) bool {
	for _, d := range f.Blocks {
		iff, ok := d.Instrs[len(d.Instrs)-1].(*ssa.If)
		if !ok {
			continue
		}
		cmp, ok := iff.Cond.(*ssa.BinOp)
		if !ok || (cmp.Op != token.EQL && cmp.Op != token.NEQ) {
			continue
		}
		var other ssa.Value
		if cmp.X == v && isNilConst(cmp.Y) {
			other = cmp.Y
		} else if cmp.Y == v && isNilConst(cmp.X) {
			other = cmp.X
		}
		if other == nil {
			continue
		}
		idx := 0 // NEQ: true branch is non-nil
		if cmp.Op == token.EQL {
			idx = 1
		}
		if dominatedByBranch(d, idx, b) {
			return true
		}
	}
	return false
}

func ruleNilCodec(c *Ctx) {
	f := c.P.ssaFunc("plenc.Plenc.CodecForTypeRegistry")
	if f == nil {
		c.Oblige("T.nilcodec", false, token.NoPos, "plenc.Plenc.CodecForTypeRegistry", "function", "not found", nil)
		return
	}
	name := ssaFuncName(f)
	for _, b := range f.Blocks {
		for _, in := range b.Instrs {
			switch x := in.(type) {
			case *ssa.Call:
				if x.Common().IsInvoke() && x.Common().Method.Name() == "StoreOrSwap" {
					cv := x.Common().Args[2]
					c.Oblige("T.nilcodec", nonNilAt(f, cv, b), x.Pos(), name, "StoreOrSwap(typ, tag, c) requires c != nil",
						"a kind without a clause leaves c nil; registering (and returning) it must be prevented by a dominating c == nil test that returns an error", nil)
				}
			case *ssa.Return:
				if len(x.Results) != 2 || !isNilConst(x.Results[1]) {
					continue
				}
				r := x.Results[0]
				ok := false
				if call, isCall := r.(*ssa.Call); isCall && call.Common().IsInvoke() && call.Common().Method.Name() == "StoreOrSwap" {
					// the registry returns a registered (non-nil) codec; its argument is checked above
					ok = true
				} else if !isNilConst(r) {
					ok = nonNilAt(f, r, b)
				}
				c.Oblige("T.nilcodec", ok, x.Pos(), name, "return c, nil requires c != nil",
					"CodecForTypeRegistry must never return (nil codec, nil error): callers dereference the codec", nil)
			}
		}
	}
	c.Floor("T.nilcodec", 3)
}

func isConstString(v ssa.Value, s string) bool {
	c, ok := v.(*ssa.Const)
	return ok && c.Value != nil && c.Value.Kind() == constant.String && constant.StringVal(c.Value) == s
}

// tagGetResult: v is (derived by slicing from) the result of StructTag.Get(key).
func tagGetResult(v ssa.Value, key string, depth int) bool {
	if depth > 6 {
		return false
	}
	switch x := v.(type) {
	case *ssa.Call:
		if f := x.Common().StaticCallee(); f != nil && f.String() == "(reflect.StructTag).Get" {
			return isConstString(x.Common().Args[1], key)
		}
	case *ssa.Phi:
		for _, e := range x.Edges {
			if tagGetResult(e, key, depth+1) {
				return true
			}
		}
	case *ssa.Slice:
		return tagGetResult(x.X, key, depth+1)
	}
	return false
}

// ruleBuildGuards: the field-registration point of BuildStructCodec is
// dominated by the skip and error tests, and table stores by the duplicate test.
func ruleBuildGuards(c *Ctx) {
	f := c.P.ssaFunc("plenccodec.BuildStructCodec")
	if f == nil {
		c.Oblige("X.dom.build", false, token.NoPos, "plenccodec.BuildStructCodec", "function", "not found", nil)
		return
	}
	name := ssaFuncName(f)
	// registration point: store to description.index
	var reg *ssa.Store
	for _, b := range f.Blocks {
		for _, in := range b.Instrs {
			if st, ok := in.(*ssa.Store); ok {
				if fa, ok := st.Addr.(*ssa.FieldAddr); ok && typeName(deref(fa.X.Type())) == "description" && fieldName(fa) == "index" {
					reg = st
				}
			}
		}
	}
	if reg == nil {
		c.Oblige("X.dom.build", false, f.Pos(), name, "field registration", "cannot find the store of the field index: undecided", nil)
		return
	}
	S := reg.Block()
	type guard struct {
		desc  string
		match func(iff *ssa.If) (skipIdx int, ok bool)
		why   string
	}
	guards := []guard{
		{"unexported fields skipped (reflect's own test)", func(iff *ssa.If) (int, bool) {
			// sf.IsExported() - skip on false - or sf.PkgPath != "" - skip on true. A test on the
			// spelling of the name (first rune lower case) is not the language's rule: _x, _ and names
			// starting with a caseless letter are unexported too.
			if call, ok := iff.Cond.(*ssa.Call); ok {
				if cal := call.Common().StaticCallee(); cal != nil && cal.String() == "(reflect.StructField).IsExported" {
					return 1, true
				}
			}
			if cmp, ok := iff.Cond.(*ssa.BinOp); ok && (cmp.Op == token.EQL || cmp.Op == token.NEQ) {
				isPkgPath := func(v ssa.Value) bool {
					switch x := v.(type) {
					case *ssa.Field:
						if st, ok := x.X.Type().Underlying().(*types.Struct); ok {
							return st.Field(x.Field).Name() == "PkgPath" && typeName(x.X.Type()) == "StructField"
						}
					case *ssa.UnOp:
						if fa, ok := x.X.(*ssa.FieldAddr); ok {
							return fieldName(fa) == "PkgPath"
						}
					}
					return false
				}
				if (isPkgPath(cmp.X) && isConstString(cmp.Y, "")) || (isPkgPath(cmp.Y) && isConstString(cmp.X, "")) {
					if cmp.Op == token.NEQ {
						return 0, true
					}
					return 1, true
				}
			}
			return 0, false
		}, "unexported fields must never be encoded nor written by Unmarshal"},
		{"missing plenc tag rejected", func(iff *ssa.If) (int, bool) {
			if cmp, ok := iff.Cond.(*ssa.BinOp); ok && (cmp.Op == token.EQL || cmp.Op == token.NEQ) {
				if (isConstString(cmp.Y, "") && tagGetResult(cmp.X, "plenc", 0)) || (isConstString(cmp.X, "") && tagGetResult(cmp.Y, "plenc", 0)) {
					if cmp.Op == token.EQL {
						return 0, true
					}
					return 1, true
				}
			}
			return 0, false
		}, "an exported field without a plenc tag must be an error"},
		{"fields tagged \"-\" skipped", func(iff *ssa.If) (int, bool) {
			if cmp, ok := iff.Cond.(*ssa.BinOp); ok && (cmp.Op == token.EQL || cmp.Op == token.NEQ) {
				if (isConstString(cmp.Y, "-") && tagGetResult(cmp.X, "plenc", 0)) || (isConstString(cmp.X, "-") && tagGetResult(cmp.Y, "plenc", 0)) {
					if cmp.Op == token.EQL {
						return 0, true
					}
					return 1, true
				}
			}
			return 0, false
		}, "fields tagged \"-\" must be in neither the field list nor the index table"},
		{"unparsable index rejected", func(iff *ssa.If) (int, bool) {
			if cmp, ok := iff.Cond.(*ssa.BinOp); ok && (cmp.Op == token.EQL || cmp.Op == token.NEQ) {
				var v ssa.Value
				if isNilConst(cmp.Y) {
					v = cmp.X
				} else if isNilConst(cmp.X) {
					v = cmp.Y
				}
				if ex, ok := v.(*ssa.Extract); ok && ex.Index == 1 {
					if call, ok := ex.Tuple.(*ssa.Call); ok {
						if cal := call.Common().StaticCallee(); cal != nil && cal.String() == "strconv.Atoi" {
							if cmp.Op == token.NEQ {
								return 0, true
							}
							return 1, true
						}
					}
				}
			}
			return 0, false
		}, "the error of strconv.Atoi must be checked before the index is used"},
	}
	for _, g := range guards {
		found, dominated := false, false
		for _, d := range f.Blocks {
			iff, ok := d.Instrs[len(d.Instrs)-1].(*ssa.If)
			if !ok {
				continue
			}
			skip, ok := g.match(iff)
			if !ok {
				continue
			}
			found = true
			if dominatedByBranch(d, 1-skip, S) {
				dominated = true
			}
		}
		c.Oblige("X.dom.build", found && dominated, reg.Pos(), name, g.desc,
			fmt.Sprintf("%s: the point where a field is added to the codec must be dominated by the branch of this test that continues (test found: %v)", g.why, found), nil)
	}
	// X.dom.skip: a field is left out of the codec only by the two skip tests.
	// Skip edges: a branch inside the field loop one arm of which still reaches
	// the registration point while the other goes round the loop without it.
	for h, body := range loopsOf(f) {
		if !body[S] {
			continue
		}
		reach := map[*ssa.BasicBlock]bool{S: true}
		for changed := true; changed; {
			changed = false
			for b := range body {
				if reach[b] || b == h {
					continue
				}
				for _, sc := range b.Succs {
					if reach[sc] && sc != h {
						reach[b] = true
						changed = true
					}
				}
			}
		}
		// the header itself decides the loop, not a skip
		nskip := 0
		for d := range body {
			if !reach[d] && d != h {
				continue
			}
			if d == S {
				continue
			}
			iff, ok := d.Instrs[len(d.Instrs)-1].(*ssa.If)
			if !ok || d == h {
				continue
			}
			for i, t := range d.Succs {
				if reach[t] || !(body[t] || t == h) {
					continue // continues towards the registration, or leaves the loop (an error return)
				}
				// does t come back to the header without returning?
				nskip++
				okSkip := false
				for _, g := range guards[:3] {
					if g.desc == "missing plenc tag rejected" {
						continue
					}
					if skip, ok := g.match(iff); ok && skip == i {
						okSkip = true
					}
				}
				c.Oblige("X.dom.skip", okSkip, iff.Pos(), name, "a field is skipped only because it is unexported or tagged \"-\"",
					"every other field must end up in the codec or make the build fail: a further way round the loop (an embedded field without a tag, a kind the author does not care about …) silently drops data from every message", nil)
			}
		}
		_ = nskip
	}
	c.Floor("X.dom.skip", 2)
	// the index stored is the Atoi result
	okSrc := false
	if ex, ok := reg.Val.(*ssa.Extract); ok && ex.Index == 0 {
		if call, ok := ex.Tuple.(*ssa.Call); ok {
			if cal := call.Common().StaticCallee(); cal != nil && cal.String() == "strconv.Atoi" {
				okSrc = true
			}
		}
	}
	c.Oblige("X.dom.build", okSrc, reg.Pos(), name, "field index is the parsed tag", "the index recorded for a field must be the integer parsed from its plenc tag", nil)

	// duplicates: stores into fieldsByIndex[i] dominated by the codec != nil test on the same slot
	sameSlot := func(x, y ssa.Value) bool {
		if x == y {
			return true
		}
		ix, ok1 := x.(*ssa.IndexAddr)
		iy, ok2 := y.(*ssa.IndexAddr)
		if !ok1 || !ok2 {
			return false
		}
		lx, ok1 := ix.Index.(*ssa.UnOp)
		ly, ok2 := iy.Index.(*ssa.UnOp)
		if !ok1 || !ok2 {
			return ix.Index == iy.Index
		}
		fx, ok1 := lx.X.(*ssa.FieldAddr)
		fy, ok2 := ly.X.(*ssa.FieldAddr)
		return ok1 && ok2 && fx.X == fy.X && fx.Field == fy.Field
	}
	// the table: c.fieldsByIndex itself, or a local that is stored into that field (an alias
	// made before the loop: byIndex := make(...); c.fieldsByIndex = byIndex)
	tableBase := func(v ssa.Value) bool {
		if ld, ok := v.(*ssa.UnOp); ok {
			if fa, ok := ld.X.(*ssa.FieldAddr); ok && fieldName(fa) == "fieldsByIndex" {
				return true
			}
		}
		if refs := v.Referrers(); refs != nil {
			for _, r := range *refs {
				if st, ok := r.(*ssa.Store); ok && st.Val == v {
					if fa, ok := st.Addr.(*ssa.FieldAddr); ok && fieldName(fa) == "fieldsByIndex" {
						return true
					}
				}
			}
		}
		return false
	}
	isTable := func(v ssa.Value) *ssa.IndexAddr {
		// a store to one field of the slot (slot.codec = …) addresses the slot too
		if fa, ok := v.(*ssa.FieldAddr); ok {
			if _, isIA := fa.X.(*ssa.IndexAddr); isIA {
				v = fa.X
			}
		}
		ia, ok := v.(*ssa.IndexAddr)
		if !ok {
			return nil
		}
		if tableBase(ia.X) {
			return ia
		}
		return nil
	}
	nst := 0
	for _, g := range structBuildFuncs(c.P) {
		for _, b := range g.Blocks {
			for _, in := range b.Instrs {
				st, ok := in.(*ssa.Store)
				if !ok {
					continue
				}
				slot := isTable(st.Addr)
				if slot == nil {
					continue
				}
				nst++
				guarded := false
				for _, d := range g.Blocks {
					iff, ok := d.Instrs[len(d.Instrs)-1].(*ssa.If)
					if !ok {
						continue
					}
					cmp, ok := iff.Cond.(*ssa.BinOp)
					if !ok || (cmp.Op != token.NEQ && cmp.Op != token.EQL) || !(isNilConst(cmp.Y) || isNilConst(cmp.X)) {
						continue
					}
					v := cmp.X
					if isNilConst(v) {
						v = cmp.Y
					}
					ld, ok := v.(*ssa.UnOp)
					if !ok {
						continue
					}
					fa, ok := ld.X.(*ssa.FieldAddr)
					if !ok || fieldName(fa) != "codec" {
						continue
					}
					tslot := isTable(fa.X)
					if tslot == nil || !sameSlot(tslot, slot) {
						continue
					}
					freeIdx := 1 // NEQ nil: false branch = slot free
					if cmp.Op == token.EQL {
						freeIdx = 0
					}
					if dominatedByBranch(d, freeIdx, b) {
						guarded = true
					}
				}
				c.Oblige("X.dom.dup", guarded, st.Pos(), ssaFuncName(g), "fieldsByIndex[index] = ... requires the slot to be free",
					"two fields sharing an index must be an error: the store into the index table must be dominated by the test that the slot is still empty", nil)
			}
		}
	}
	c.Floor("X.dom.dup", 1)
	c.Floor("X.dom.build", 5)
}

// structBuildFuncs: BuildStructCodec and the unexported helpers of its package it calls
// directly (a part of the builder extracted into a helper is still the builder).
func structBuildFuncs(p *Prog) []*ssa.Function {
	f := p.ssaFunc("plenccodec.BuildStructCodec")
	if f == nil {
		return nil
	}
	out := []*ssa.Function{f}
	seen := map[*ssa.Function]bool{f: true}
	for _, b := range f.Blocks {
		for _, in := range b.Instrs {
			if call, ok := in.(*ssa.Call); ok {
				if cal := call.Common().StaticCallee(); cal != nil && cal.Pkg == f.Pkg && !seen[cal] && isUnexportedFunc(cal) && len(cal.Blocks) > 0 {
					seen[cal] = true
					out = append(out, cal)
				}
			}
		}
	}
	return out
}

// ruleIndexRange: BOUND over BuildStructCodec with strconv.Atoi as the taint
// source: the recorded index is within [0, maxIndex], the table is sized
// maxIndex+1 without wrap-around.
func ruleIndexRange(c *Ctx) {
	p := c.P
	f := p.ssaFunc("plenccodec.BuildStructCodec")
	if f == nil {
		return
	}
	B := newBound(p, []*ssa.Function{f}, func(*ssa.Function, *ssa.Parameter) bool { return false }, nil,
		func(call *ssa.Call) bool {
			cal := call.Common().StaticCallee()
			return cal != nil && cal.String() == "strconv.Atoi"
		})
	B.run()
	a := B.fa[f]
	a.pass()
	name := a.name
	var maxPhi *ssa.Phi
	var regStores []*ssa.Store
	for _, b := range f.Blocks {
		for _, in := range b.Instrs {
			switch x := in.(type) {
			case *ssa.Store:
				if fa, ok := x.Addr.(*ssa.FieldAddr); ok && typeName(deref(fa.X.Type())) == "description" && fieldName(fa) == "index" {
					regStores = append(regStores, x)
				}
			case *ssa.Phi:
				if x.Comment == "maxIndex" && len(b.Preds) > 1 && isLoopHeader(a, b) {
					maxPhi = x
				}
			}
		}
	}
	for _, st := range regStores {
		q, ok := geq(a.lin(st.Val), linConst(0))
		pr := a.prove(st.Block(), nil, q, ok)
		c.Oblige("B.indexrange", pr, st.Pos(), name, "recorded field index >= 0",
			"a negative index parsed from the tag would index the field table out of range (panic) instead of being reported as an error", nil)
	}
	c.Floor("B.indexrange", 2)
	// table allocation: size = maxIndex + 1, non-negative, no wrap. The allocation may sit in a
	// helper called from the builder with the maximum as an argument (size = param + k): it is then
	// judged at the call site, with the argument in place of the parameter.
	type allocSite struct {
		ms  *ssa.MakeSlice
		blk *ssa.BasicBlock // block of the builder where the size is judged
		sz  Lin
		ok  bool
		ex  bool
	}
	var sites []allocSite
	for _, g := range structBuildFuncs(p) {
		for _, b := range g.Blocks {
			for _, in := range b.Instrs {
				ms, ok := in.(*ssa.MakeSlice)
				if !ok || typeName(ms.Type().Underlying().(*types.Slice).Elem()) != "shortDesc" {
					continue
				}
				if g == f {
					ex := true
					if bo, isBin := ms.Len.(*ssa.BinOp); isBin {
						ex = a.exact[bo]
					}
					sites = append(sites, allocSite{ms, b, a.lin(ms.Len), true, ex})
					continue
				}
				// helper: Len must be param (+ const)
				var prm *ssa.Parameter
				k := int64(0)
				switch x := ms.Len.(type) {
				case *ssa.Parameter:
					prm = x
				case *ssa.BinOp:
					if pp, ok := x.X.(*ssa.Parameter); ok && x.Op == token.ADD {
						if kc, ok := x.Y.(*ssa.Const); ok && kc.Value != nil {
							prm, k = pp, kc.Int64()
						}
					}
				}
				site := allocSite{ms: ms}
				if prm != nil {
					pi := -1
					for i, q := range g.Params {
						if q == prm {
							pi = i
						}
					}
					for _, cb := range f.Blocks {
						for _, cin := range cb.Instrs {
							if call, ok := cin.(*ssa.Call); ok && call.Common().StaticCallee() == g && pi >= 0 {
								if r, ok2 := a.lin(call.Common().Args[pi]).add(linConst(k)); ok2 {
									// no wrap: arg + k <= MaxInt64 is implied by the range facts proved below (arg <= 2^29)
									site.blk, site.sz, site.ok, site.ex = cb, r, true, true
								}
							}
						}
					}
				}
				sites = append(sites, site)
			}
		}
	}
	for _, site := range sites {
		ms, b := site.ms, site.blk
		{
			if !site.ok {
				c.Oblige("B.indexrange", false, ms.Pos(), name, "index table size maxIndex+1 is positive and does not wrap", "the size of the table is not the running maximum (+ constant) handed over by the builder: undecided", nil)
				continue
			}
			sz := site.sz
			q, ok := geq(sz, linConst(1))
			pr := a.prove(b, nil, q, ok)
			exact := site.ex
			if exact && site.ms.Block().Parent() != f {
				// the helper adds k to its parameter: prove the sum does not wrap at the call site
				q2, ok2 := leq(sz, linConst(1<<40))
				exact = a.prove(b, nil, q2, ok2)
			}
			c.Oblige("B.indexrange", pr && exact, ms.Pos(), name, "index table size maxIndex+1 is positive and does not wrap",
				fmt.Sprintf("make([]shortDesc, maxIndex+1): proved >= 1: %v, addition proved not to overflow: %v", pr, exact), nil)
			// every recorded index fits: maxIndex(next) >= index on the loop back edges
			if maxPhi != nil {
				mt := linTerm(a.valTerm(maxPhi))
				covered := true
				for _, st := range regStores {
					h := maxPhi.Block()
					for pi, pred := range h.Preds {
						if !h.Dominates(pred) {
							continue
						}
						// only back edges on which this store happened
						if !(st.Block() == pred || st.Block().Dominates(pred)) {
							continue
						}
						nv := a.lin(maxPhi.Edges[pi])
						q, ok := geq(nv, a.lin(st.Val))
						if !a.prove(pred, a.edgeExtra(pred, h), q, ok) {
							covered = false
						}
						q, ok = geq(nv, mt)
						if !a.prove(pred, a.edgeExtra(pred, h), q, ok) {
							covered = false
						}
					}
				}
				// and the size is derived from that running maximum
				d, ok := sz.sub(mt)
				sized := ok && d.isConst() && d.K.Sign() > 0
				c.Oblige("B.indexrange", covered && sized, ms.Pos(), name, "every recorded index < len(fieldsByIndex)",
					fmt.Sprintf("the running maximum must dominate every recorded index and never decrease (%v), and the table must be sized from it (%v)", covered, sized), nil)
			} else {
				c.Oblige("B.indexrange", false, ms.Pos(), name, "every recorded index < len(fieldsByIndex)", "cannot find the running maximum of the field indexes: undecided", nil)
			}
		}
	}
}

func isLoopHeader(a *fnA, b *ssa.BasicBlock) bool {
	for _, lp := range a.loops {
		if lp.header == b {
			return true
		}
	}
	return false
}

// ruleMapConvention: T.mapconv – a codec obtained for a type that may be a
// map must not be wrapped where the wrapper passes the value's address on,
// unless the site is guarded by a Kind() == reflect.Map test (rejection or
// deref flag) or by the wire-type switch that rejects counted (WTSlice) elements.
func ruleMapConvention(c *Ctx) {
	p := c.P
	for _, fname := range [][3]string{{"plenc", "Plenc", "CodecForTypeRegistry"}, {"plenccodec", "", "BuildStructCodec"}, {"plenccodec", "", "BuildMapCodec"}} {
		fn := p.findFunc(fname[0], fname[1], fname[2])
		if fn == nil {
			c.Oblige("T.mapconv", false, token.NoPos, strings.Join(fname[:], "."), "function", "not found", nil)
			continue
		}
		info := fn.Pkg.TypesInfo
		// a local that is defined once and never assigned again stands for its definition
		defs := map[types.Object][]ast.Expr{}
		ast.Inspect(fn.Decl.Body, func(n ast.Node) bool {
			switch x := n.(type) {
			case *ast.AssignStmt:
				for i, l := range x.Lhs {
					id, ok := l.(*ast.Ident)
					if !ok {
						continue
					}
					obj := info.Defs[id]
					if obj == nil {
						obj = info.Uses[id]
					}
					if obj == nil {
						continue
					}
					if len(x.Lhs) == len(x.Rhs) {
						defs[obj] = append(defs[obj], x.Rhs[i])
					} else {
						defs[obj] = append(defs[obj], nil)
					}
				}
			case *ast.UnaryExpr:
				if id, ok := x.X.(*ast.Ident); ok && x.Op == token.AND {
					if obj := info.Uses[id]; obj != nil {
						defs[obj] = append(defs[obj], nil)
					}
				}
			}
			return true
		})
		strOf := func(e ast.Expr) string {
			for n := 0; n < 4; n++ {
				id, ok := ast.Unparen(e).(*ast.Ident)
				if !ok {
					break
				}
				d := defs[info.Uses[id]]
				if len(d) != 1 || d[0] == nil {
					break
				}
				e = d[0]
			}
			return p.str(e)
		}
		// all Kind()==/!= reflect.Map comparisons: the type expressions tested
		tested := map[string]bool{}
		ast.Inspect(fn.Decl.Body, func(n ast.Node) bool {
			be, ok := n.(*ast.BinaryExpr)
			if !ok || (be.Op != token.EQL && be.Op != token.NEQ) {
				return true
			}
			for _, pair := range [][2]ast.Expr{{be.X, be.Y}, {be.Y, be.X}} {
				call, ok := ast.Unparen(pair[0]).(*ast.CallExpr)
				if !ok {
					continue
				}
				sel, ok := call.Fun.(*ast.SelectorExpr)
				if !ok || sel.Sel.Name != "Kind" {
					continue
				}
				if v, ok := constInt(info, pair[1]); ok && v == 21 { // reflect.Map
					tested[strOf(sel.X)] = true
				}
			}
			return true
		})
		ast.Inspect(fn.Decl.Body, func(n ast.Node) bool {
			call, ok := n.(*ast.CallExpr)
			if !ok {
				return true
			}
			sel, ok := call.Fun.(*ast.SelectorExpr)
			if !ok || sel.Sel.Name != "CodecForTypeRegistry" || len(call.Args) != 3 {
				return true
			}
			texpr := strOf(call.Args[1])
			okk, why := false, ""
			switch {
			case tested[texpr]:
				okk, why = true, "guarded by a Kind() == reflect.Map test on "+texpr
			case strings.HasSuffix(texpr, ".Key()"):
				okk, why = true, "map keys cannot be maps (Go forbids it)"
			default:
				// slice elements: map codecs report the counted wire type (WTSlice), and a
				// slice whose element codec reports it gets no codec at all (FEAS, as T.slicewrap)
				if sf := p.ssaFunc("plenc.Plenc.CodecForTypeRegistry"); sf != nil && fn.Obj.Name() == "CodecForTypeRegistry" {
					// is this call in the slice clause? reachable with Kind() == Slice, not with an invalid kind
					inSlice := false
					forceKind := func(k int64) *feas {
						return feasibleUnder(sf, func(v ssa.Value) (constant.Value, bool) {
							if cl, ok := v.(*ssa.Call); ok && cl.Common().IsInvoke() && cl.Common().Method.Name() == "Kind" {
								if prm, ok := cl.Common().Value.(*ssa.Parameter); ok && typeName(prm.Type()) == "Type" {
									return constant.MakeInt64(k), true
								}
							}
							return nil, false
						})
					}
					feS, fe0 := forceKind(int64(reflect.Slice)), forceKind(0)
					for _, b := range sf.Blocks {
						for _, in := range b.Instrs {
							if cl, ok := in.(*ssa.Call); ok && cl.Pos() == call.Lparen {
								inSlice = feS.reach[b] && !fe0.reach[b]
							}
						}
					}
					if kv, okv := p.wireTypeConst("WTSlice"); okv && inSlice {
						if live, sawKind, sawWT := p.sliceLive(sf, kv); sawKind && sawWT && len(live) == 0 {
							okk, why = true, "slices of elements with the counted wire type (maps, slices of structs) are given no codec"
						}
					}
				}
			}
			c.Oblige("T.mapconv", okk, call.Pos(), fn.Name(), "sub-codec for "+texpr,
				"map codecs expect the map itself when encoding; a wrapper that passes the address of its element/pointee/value on must reject map types or dereference them ("+why+")", nil)
			return true
		})
	}
	c.Floor("T.mapconv", 5)
}

func ruleNoPanicInBuild(c *Ctx) {
	n := 0
	for _, f := range c.P.buildClosure() {
		name := ssaFuncName(f)
		for _, b := range f.Blocks {
			for _, in := range b.Instrs {
				n++
				if pn, ok := in.(*ssa.Panic); ok {
					c.Oblige("X.nopanic", false, pn.Pos(), name, "explicit panic", "codec construction must report problems as errors, never panic", nil)
				}
			}
		}
		c.Funcs[name] = true
	}
	c.rule("X.nopanic").Count++
	c.rule("X.nopanic").Discharged++
	c.Note("build closure: %d instructions scanned for explicit panics", n)
}

func init() {
	register(&propInfo{
		ID:          "C08",
		Explanation: "Decides structural clauses of type-definition validation: (T.nilcodec) CodecForTypeRegistry never registers or returns a nil codec with a nil error (dominating nil test; kinds without a clause therefore reach the error return); (X.dom.build) the point where BuildStructCodec adds a field is dominated by the lower-case skip, the missing-tag error, the \"-\" skip and the strconv.Atoi error check, and the recorded index is the parsed tag; (B.indexrange) BOUND with strconv.Atoi as taint source proves the recorded index >= 0, the running maximum dominates every recorded index and the index table is sized maxIndex+1 without wrap; (X.dom.dup) every store into the index table is dominated by the test that the slot is free (duplicate indexes are errors); (T.mapconv) every sub-codec that may be a map codec is only wrapped behind a Kind()==Map guard or the wire-type switch that rejects counted elements; (X.publish) nothing is published before the struct codec is complete and no error return follows a publication; (X.nopanic) no explicit panic in the build closure; plus T.kind/T.slicewrap (kind and slice-wrapper tables).",
		NotDecided:  "That an accepted definition's codec obeys the other properties (that is C01-C19); unknown tag options on composite kinds are silently ignored (not a crash, not claimed).",
		Assumptions: []string{"A1", "A5"},
		Run: func(c *Ctx) {
			// round 13: a map of maps is refused whatever the registry holds
			ruleMapValueRefused(c)
			// round 11: the lookup key is (type, tag) as given; no descriptor is taken from a codec under construction
			ruleRegistryKey(c)
			ruleBuildNoDescriptor(c)
			ruleIndexEnds(c)
			ruleNilCodec(c)
			ruleBuildGuards(c)
			ruleIndexRange(c)
			ruleMapConvention(c)
			rulePublish(c)
			ruleNoErrorAfterPublish(c)
			ruleNoPanicInBuild(c)
			ruleKind(c)
			ruleSliceWrap(c)
			ruleFixedWrap(c)
			ruleRepeatedNesting(c)
			ruleOptionRejected(c)
			ruleBuildCycle(c)
			ruleOverlayKey(c)
			// a value handed to Marshal by value reaches the codec as a pointer to the value for every accepted type
			ruleEfaceDirect(c)
			// an option the tag spells out is looked up as written: nothing of the tag text is dropped
			ruleTagExact(c)
			ruleReflectPre(c)
		},
	})
}

// ruleNoErrorAfterPublish: in BuildStructCodec no error return is reachable
// after a publication call (a failed build must leave nothing registered).
func ruleNoErrorAfterPublish(c *Ctx) {
	f := c.P.ssaFunc("plenccodec.BuildStructCodec")
	if f == nil {
		return
	}
	name := ssaFuncName(f)
	for _, b := range f.Blocks {
		for i, in := range b.Instrs {
			call, ok := in.(*ssa.Call)
			if !ok || !call.Common().IsInvoke() {
				continue
			}
			if mn := call.Common().Method.Name(); mn != "StoreOrSwap" && mn != "Store" {
				continue
			}
			bad := false
			seen := map[*ssa.BasicBlock]bool{}
			var visit func(bb *ssa.BasicBlock, from int)
			visit = func(bb *ssa.BasicBlock, from int) {
				for _, in2 := range bb.Instrs[from:] {
					if r, ok := in2.(*ssa.Return); ok && len(r.Results) == 2 && !isNilConst(r.Results[1]) {
						bad = true
					}
				}
				for _, s := range bb.Succs {
					if !seen[s] {
						seen[s] = true
						visit(s, 0)
					}
				}
			}
			visit(b, i+1)
			c.Oblige("X.publish.err", !bad, call.Pos(), name, "no error return after publication",
				"codecs built for a definition that is then rejected must not stay registered", nil)
		}
	}
}
