package main

import (
	"strings"

	"golang.org/x/tools/go/ssa"
)

func init() {
	register(&propInfo{
		ID:          "C09",
		Explanation: "Decides the structural presence rules: (T.ptr) PointerWrapper.Omit/Size/Append never consult the pointee's Omit and pass the tag through unchanged (a present zero keeps its tag), and PointerWrapper.Read allocates under the nil test and always delegates, returning exactly the delegated Read's results (no early return on empty data); (T.null.omit) for every codec of package null Omit is the negation of the Valid flag and nothing else; (T.null.read) every success return of their Read is dominated by a store of true to Valid or a SetValid call; (T.presence) Descriptor() sets ExplicitPresence for exactly PointerWrapper and the null codecs; (X.clear.mapslot) a map entry without a value resets the slot mapassign returned, so an encoded nil reads back nil even into a map that already holds the key; (X.entry.presence) the branch of readMapEntry that treats the value as absent is controlled by a test of the tag index, not by the remaining length alone (the key is omitted when zero and a present value may have an empty body: D19, fixed); (X.clear.*) decode targets in re-used slices/pools are cleared before a codec reads into them; (T.nested-presence, T.ptr-repeated) PointerWrapper is built only around a codec that has no presence of its own and that writes something for an empty value (today neither holds: known findings D32, D46); (T.slice-presence) the slice wrappers are built with the element codec's explicit presence looked at (today only the fixed-width one is: known finding D48, null types as slice elements); (X.tightguard) count and length guards of the map, slice and struct readers reject only what cannot fit, so a one-byte entry is not turned away.",
		NotDecided:  "Value-level round trips; that user-supplied codecs with an empty body behave (A4).",
		Assumptions: []string{"A5"},
		Run: func(c *Ctx) {
			rulePointerWrapper(c)
			ruleNullCodecs(c)
			ruleNullValue(c)
			rulePresenceFlag(c)
			ruleMapSlot(c)
			ruleEntryPresence(c)
			ruleNestedPresence(c)
			ruleProtoMapEntry(c)
			rulePresenceStore(c)
			ruleMapDescriptor(c)
			// a present empty value overwrites what the target held; absent keys/values of a proto map stay off the wire
			ruleScalarStore(c)
			ruleProtoGrammar(c)
			// presence in the walker's output: null exactly for an absent value that can be absent
			ruleNullOnlyForPresence(c)
			ruleDelegateNonEmpty(c)
			// null types as slice elements (known finding D48)
			ruleSlicePresence(c)
			// stale memory in a re-used slot reads an encoded nil back as the old non-nil pointer
			ruleClearBeforeRead(c)
			// a present value stays on the wire even when its body is empty: the tagged form always writes the tag
			ruleFrame(c)
			// an entry or element whose key and value are both absent/zero is one byte long: a count or length
			// guard that asks for more per entry turns such a map or slice away
			ruleTightGuards(c, decodeBound(c.P), func(n string) bool {
				return strings.Contains(n, "MapCodec") || strings.Contains(n, "SliceWrapper") || strings.Contains(n, "StructCodec")
			})
			c.Floor("X.tightguard", 5)
		},
	})
	register(&propInfo{
		ID:          "C10",
		Explanation: "Decides that re-used memory is never read into uncleared and that the struct codec leaves absent fields alone: (X.clear.pool) every Codec.Read whose target is memory from a sync.Pool (traced interprocedurally from Pool.Get to the parameter that receives it) is dominated by a typedmemclr/typedmemmove-zero of that pointer; (X.clear.slice) every Codec.Read into an element of a backing array reached through the target's slice header is preceded on every path by a fresh allocation of the array or a clearing call/loop (must-pass-through on the CFG), scalar wrappers being exempt because (X.scalarstore) every scalar codec's success return is dominated by a store to the target; (X.clear.mapslot) every path from mapassign to a success return writes the value slot through the value codec or clears it (an entry without a value resets an existing key's slot); (X.absent) StructCodec.Read passes the target only to field codecs' Read and never stores into it; (X.state) the shared mutable state reachable from decode/encode/build is exactly {MapCodec.kPool, InternedStringCodec.strings+Mutex, baseRegistry.codecRegistry} and no package-level variable is written after init.",
		NotDecided:  "The merge rules as value-level statements; that the clearing loop's range covers the read loop's range (only must-pass-through is shown).",
		Assumptions: []string{"A3", "A4", "A5"},
		Run: func(c *Ctx) {
			// round 11: existing maps are merged into; codec choice does not depend on what is cached; an index that is not a field's is skipped; the struct reader never reads the target
			ruleMapKeep(c)
			ruleKeySelf(c)
			ruleReadLookup(c)
			ruleStructNoLoad(c)
			ruleClearBeforeRead(c)
			rulePoolLifetime(c)
			ruleMapSlot(c)
			ruleScalarStore(c)
			ruleLeafReadFresh(c)
			ruleGrowCopy(c)
			ruleSetLen(c)
			ruleCountLoop(c)
			ruleStructUntouched(c)
			rulePointerWrapper(c)
			ruleMapSlotMerge(c)
			ruleCommaOk(c, internFuncs)
			ruleClearJSON(c)
			ruleNewFresh(c)
			ruleInternKey(c)
			ruleNoAliasDecode(c, func(f *ssa.Function) bool {
				n := ssaFuncName(f)
				return strings.Contains(n, "Interned") || strings.Contains(n, "interned")
			})
			ruleSharedStateInventory(c)
		},
	})
}
