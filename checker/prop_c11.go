package main

func init() {
	register(&propInfo{
		ID:          "C11",
		Explanation: "Aliasing is structural and is decided for the whole closure. Decode side: a forward alias-taint analysis over every function that handles the input bytes (sources: the []byte parameters of all Codec.Read implementations, Unmarshal, the Descriptor walker and the plenccore readers, propagated interprocedurally to callees) proves that no value sharing memory with the input buffer is stored into the target, codec state, a map, a shared table/pool, or returned (string([]byte), []byte(string) and append onto a fresh slice are the only taint killers; slicing, unsafe.String/Slice, pointer casts, uintptr arithmetic and phi propagate), and that nothing stores, copies or appends into the input. Encode side: every Store in the encode closure targets the function's own locals (never the value being marshalled, codec state or globals), the output buffer is only ever appended to (no reslice, no index) and every returned buffer is the data parameter extended by appends. (B.rawview) no unsafe.Slice/unsafe.String view is made over the data parameter in the decode closure.",
		NotDecided:  "Behaviour of user-supplied codecs (A4); what Go's append does with the caller's spare capacity (allowed by the property).",
		Assumptions: []string{"A3", "A4", "A5"},
		Run: func(c *Ctx) {
			ruleNoAliasDecode(c, nil)
			c.Floor("X.taint.store", 25)
			// a string or slice header made over the input's memory is an alias the taint rules cannot see through
			ruleRawViews(c, c.P.decodeClosure(), true)
			ruleEncodeRO(c)
			ruleAppendOnly(c)
		},
	})
}
