package main

import (
	"go/token"
	"strings"

	"golang.org/x/tools/go/ssa"
)

// ruleRepeatedReader: the default slice reader keeps the repeated-field branch.
func ruleRepeatedReader(c *Ctx) {
	p := c.P
	f := p.ssaFunc("plenccodec.WTLengthSliceWrapper.Read")
	if f == nil {
		c.Oblige("X.dom.repeated", false, token.NoPos, "plenccodec.WTLengthSliceWrapper.Read", "function", "not found", nil)
		return
	}
	name := ssaFuncName(f)
	ok := false
	entry := f.Blocks[0]
	if iff, isIf := entry.Instrs[len(entry.Instrs)-1].(*ssa.If); isIf {
		if cmp, isCmp := iff.Cond.(*ssa.BinOp); isCmp && cmp.Op == token.EQL {
			var wt ssa.Value
			for _, prm := range f.Params {
				if typeName(prm.Type()) == "WireType" {
					wt = prm
				}
			}
			isLen := func(v ssa.Value) bool {
				cst, ok := v.(*ssa.Const)
				if !ok {
					return false
				}
				k, ok := constBig(cst)
				return ok && k.Int64() == 2
			}
			if (cmp.X == wt && isLen(cmp.Y)) || (cmp.Y == wt && isLen(cmp.X)) {
				th := entry.Succs[0]
				for _, in := range th.Instrs {
					if call, isCall := in.(*ssa.Call); isCall {
						if cal := call.Common().StaticCallee(); cal != nil && cal.Name() == "readAsWTLength" {
							ok = true
						}
					}
				}
			}
		}
	}
	c.Oblige("X.dom.repeated", ok, f.Pos(), name, "wt == WTLength dispatches to the appending reader",
		"a default-mode instance must decode the protobuf repeated-field form of a slice: the reader must branch on the wire type found in the data", nil)
	// the appending readers append exactly one element
	for _, fn := range []string{"plenccodec.WTLengthSliceWrapper.readAsWTLength", "plenccodec.ProtoSliceWrapper.Read"} {
		g := p.ssaFunc(fn)
		if g == nil {
			c.Oblige("X.dom.repeated", false, token.NoPos, fn, "function", "not found", nil)
			continue
		}
		reads, incs := 0, 0
		for _, b := range g.Blocks {
			for _, in := range b.Instrs {
				switch x := in.(type) {
				case *ssa.Call:
					if x.Common().IsInvoke() && x.Common().Method.Name() == "Read" {
						reads++
					}
				case *ssa.Store:
					if fa, ok := x.Addr.(*ssa.FieldAddr); ok && fieldName(fa) == "Len" && typeName(deref(fa.X.Type())) == "sliceHeader" {
						if bo, ok := x.Val.(*ssa.BinOp); ok && bo.Op == token.ADD {
							if cst, ok := bo.Y.(*ssa.Const); ok {
								if k, ok := constBig(cst); ok && k.Int64() == 1 {
									// increment of the same header's Len
									if ld, ok := bo.X.(*ssa.UnOp); ok {
										if fa2, ok := ld.X.(*ssa.FieldAddr); ok && fa2.X == fa.X && fieldName(fa2) == "Len" {
											incs++
										}
									}
								}
							}
						}
					}
				}
			}
		}
		c.Oblige("X.dom.repeated", reads == 1 && incs == 1, g.Pos(), fn, "reads one element and appends it",
			"each occurrence of a repeated field appends exactly one element to the slice", nil)
	}
	c.Floor("X.dom.repeated", 3)
}

// ruleProtoWireTypes: proto-mode codecs use only standard protobuf wire types.
func ruleProtoWireTypes(c *Ctx) {
	p := c.P
	for _, name := range []string{"plenccodec.ProtoMapCodec", "plenccodec.ProtoSliceWrapper", "plenccodec.TimeCompatCodec"} {
		ct := p.codec(name)
		if ct == nil {
			c.Oblige("T.protowt", false, token.NoPos, name, "type", "not found", nil)
			continue
		}
		consts, _, ok := p.wireInfo(ct)
		good := ok && len(consts) == 1 && consts[0] == "WTLength"
		c.Oblige("T.protowt", good, ct.Methods["WireType"].Fn.Pos(), name, "WireType() == WTLength",
			"repeated fields, map entries and timestamps are length-delimited (wire type 2) in standard protobuf; wire type 3 must not appear in proto mode", nil)
	}
	for wt := range p.wireTypesInUse() {
		_, ok := wireSpec[wt]
		c.Oblige("T.protowt", ok, token.NoPos, "plenccodec", "wire type "+wt+" in use", "only wire types 0,1,2,3,5 may be reported by codecs (4, the deprecated end-group, by nobody)", nil)
	}
	c.Floor("T.protowt", 7)
}

func init() {
	register(&propInfo{
		ID:          "C12",
		Explanation: "Decides the structural clauses of proto-compatible mode: (X.who.option) each option field is read at exactly one decision point, on the method's own receiver (each switch changes only its own encoding); (X.dom.option) setting ProtoCompatibleArrays (or the proto tag) selects ProtoSliceWrapper and otherwise WTLengthSliceWrapper, ProtoCompatibleTime selects TimeCompatCodec and otherwise TimeCodec - a negated, ignored or constant-folded option does not count; (T.protowt) ProtoMapCodec, ProtoSliceWrapper and TimeCompatCodec report wire type 2 and nobody reports the deprecated wire type 4; (X.dom.repeated) the default slice reader dispatches wt == WTLength to a reader that reads one element and appends it; (S.spec/S.law, from EMIT) the proto-mode emission grammars are the protobuf ones and every length is exact; (X.rejects) the proto-mode readers (ProtoMapCodec, ProtoSliceWrapper, TimeCompatCodec) return an error of their own only for an enumerated reason - truncation, overflow, a length beyond the data, an unknown wire type. (X.state, X.who.registries) no package-level or otherwise shared mutable state through which one instance's switches could reach another instance's codecs.",
		NotDecided:  "Cross-configuration round trips as values; conformance of the bytes with a real protobuf implementation beyond the grammar.",
		Assumptions: []string{"A4", "A5"},
		Run: func(c *Ctx) {
			ruleOptionScope(c)
			// "each switch changes only its own encoding": no state shared between instances through which one
			// instance's options could reach another's codecs
			ruleSharedStateInventory(c)
			ruleDefaultPlencScope(c)
			ruleProtoWireTypes(c)
			ruleRepeatedReader(c)
			ruleGrowth(c)
			ruleProtoGrammar(c)
			ruleRepeatedNesting(c)
			ruleToplevelRepeated(c)
			ruleProtoMapEntry(c)
			ruleClearBeforeRead(c)
			ruleDispatchKnown(c)
			ruleDelegateNonEmpty(c)
			ruleViaRegistry(c)
			rulePointerWrapper(c)
			rulePtime(c)
			ruleOverlayKey(c)
			ruleEntryPresence(c)
			ruleSameTag(c)
			// "every length is exact": the size/frame laws of every codec that can appear in proto-mode output
			ruleSizeLaw(c)
			ruleFrame(c)
			// the proto-mode readers turn input away only for the enumerated reasons: a range check on a decoded
			// timestamp refuses bytes the proto-mode writer produces (C12-r14-m2)
			ruleRejects(c, decodeBound(c.P), func(n string) bool { return strings.Contains(n, "Proto") || strings.Contains(n, "TimeCompat") })
			c.Floor("X.rejects", 1)
		},
	})
}
