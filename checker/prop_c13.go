package main

import "strings"

func init() {
	register(&propInfo{
		ID:          "C13",
		Explanation: "Decides that the schema-less walker's case analysis mirrors the codecs': (T.walker-exh) Descriptor.read has a clause for every FieldType constant; (T.walker-codec) each scalar clause decodes with a codec whose own Descriptor reports that field type and emits one value per decode; (T.walker-split) in readAsSlice a field type is in the packed clause iff every codec reporting it uses a scalar wire type, in the counted clause iff some codec reporting it is length-delimited, and in neither if it can only be counted; (X.oneoutput) every path round the counted element loop of readAsSlice passes through the element reader (no dropped empty elements); (S.same-desc) codecs with equal descriptors have equal emission grammars - except the listed known findings (proto-mode codecs); the walker is part of the decode closure, so C04's obligations cover it. (T.jsondispatch.walker, round 15) the walker's case for every JSON type code calls the output method or nested walk of that kind, with a descriptor of that kind.",
		NotDecided:  "Equality of the rendered JSON with the typed decode; invalid JSON from zero values / empty keys in string-keyed maps (state-dependent, see C15); descriptor serialisation round trips.",
		Assumptions: []string{"A4", "A5"},
		Run: func(c *Ctx) {
			// round 13: a present field with an empty body is rendered
			ruleWalkerEmptyField(c)
			// round 11: the JSON value encoding the walker reads, and integers written as numbers
			ruleJSONValueSpec(c)
			ruleJSONProtocol(c)
			ruleWalker(c)
			ruleWalkerOut(c)
			ruleDescriptorTags(c)
			ruleOneOutputPerElement(c)
			ruleNoSort(c)
			ruleSameDescriptor(c)
			ruleEntryPair(c)
			// object keys are the descriptor names
			ruleFieldName(c)
			// "valid JSON": the walker's strings and names reach the output only through the escaping loop
			ruleJSONEscape(c)
			ruleJSONRawString(c)
			ruleJSONTime(c)
			ruleDescMarshalers(c)
			ruleJSONWalkerOut(c)
			// "numbers exact": how the outputter formats the floats and integers the walker hands it
			ruleJSONNumbers(c)
			ruleFlatWalker(c)
			ruleMapKeyPlain(c)
			ruleNullOnlyForPresence(c)
			ruleMapEntryShape(c)
			ruleLeadCountEmpty(c)
			ruleStructDescriptor(c)
			// the walker reads by the descriptor: a descriptor that describes other bytes than the codec writes,
			// or that drops the presence flag the object/list decision rests on, changes the walk
			ruleWire(c)
			ruleLeafDescriptors(c)
			rulePresenceFlag(c)
			rulePresenceStore(c)
			ruleSkipAfterTag(c)
			ruleWalkerEntry(c)
			// the walker's case for each JSON type code calls the output method / nested walk of that very kind
			// (an object inside an array walked with the enclosing array's descriptor: C13-r15-m2)
			ruleJSONDispatch(c)
			// the walker's own guards are exact, and the outputter's table accesses are in range for every depth
			ruleTightGuards(c, decodeBound(c.P), func(n string) bool { return strings.Contains(n, "Descriptor.") })
			ruleJOutBounds(c)
			ruleLookupStateless(c, []string{"plenccodec.Descriptor.readAsStruct"})
		},
	})
}
