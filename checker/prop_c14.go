package main

func init() {
	register(&propInfo{
		ID:          "C14",
		Explanation: "Decides that each codec's Descriptor() mirrors what the codec encodes: (T.wire) Descriptor().Type and WireType() are in the documented relation for every codec; (T.desc-leaf) every codec type's resolved (Type, LogicalType) equals the table taken from the property statement (times carry the timestamp logical type, maps the map logical types, wrappers delegate to the wrapped codec); (T.desc-struct) StructCodec.Descriptor ranges over the same c.fields slice the encoder ranges over and sets Elements[i], Index and Name from fields[i].codec.Descriptor(), .index and .name, Type=Struct, TypeName=rtype.Name(), one element per encoded field; (T.name) BuildStructCodec sets the name to the Go field name and overrides it exactly under a non-empty json tag name; (T.desc-map) key/value descriptor indexes (1, 2) equal the indexes of the key/value wire tags, key parts come from the key codec and value parts from the value codec; (T.presence) ExplicitPresence for exactly pointer/null codecs; (X.dom.build) skipped and unexported fields never enter the field list; (T.key.overlay, T.key.self) the codec whose Descriptor a field gets is looked up under the field's own (type, tag option) - in the overlay registry used while a struct is built and in CodecForTypeRegistry; (T.kind) every reflect.Kind clause of CodecForTypeRegistry hands a named type to the codec of the basic type of that same kind, so `type Port uint16` is described as Uint and not as Int.",
		NotDecided:  "Recursion termination of Descriptor() on recursive types; exact names for odd json tags beyond 'text before the first comma'.",
		Assumptions: []string{"A5"},
		Run: func(c *Ctx) {
			ruleWire(c)
			ruleLeafDescriptors(c)
			ruleRegDescriptor(c)
			ruleDescriptorTags(c)
			ruleStructDescriptor(c)
			ruleDescriptorBodyClosed(c)
			ruleNoSort(c)
			ruleFieldName(c)
			ruleMapDescriptor(c)
			rulePresenceFlag(c)
			ruleBuildGuards(c)
			ruleDescMarshalers(c)
			ruleDescRecursion(c)
			rulePresenceStore(c)
			// the field's descriptor is that of the codec the field's (type, tag option) selects
			ruleOverlayKey(c)
			ruleKeySelf(c)
			// a named type is described by the codec of the basic type of its own kind (C14-r14-m3)
			ruleKind(c)
		},
	})
}
