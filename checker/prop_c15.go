package main

func init() {
	register(&propInfo{
		ID:          "C15",
		Explanation: "Necessary conditions of the JSON outputter, decided structurally: (J.escape) value-set analysis of appendString over all 256 byte values - the guards of its switch/if are folded for each byte and the bytes appended on the selected path must be a valid JSON escape decoding to that byte for 0x00-0x1f, the quote and the backslash, and the byte itself otherwise; the string is wrapped in quotes and the loop visits every byte; (J.float/J.int) every strconv.AppendFloat uses precision -1 (shortest representation that parses back) with a bit size not smaller than its argument's, integers are base 10; (J.nonfinite) every such call is reached only on the false branches of math.IsNaN and math.IsInf (both signs) of the value it formats - strconv would write NaN/+Inf/-Inf, which are not JSON; (T.reset) Reset returns every field of JSONOutput to its zero state (field list from go/types, so a field added later and not reset is caught); (J.protocol) each scalar method is prefix(); emit; punctuate() with each helper exactly once and no branching, Start*/End* push/pop exactly once with the right state and bracket, NameField sets inField, and punctuate's separators and state transitions are the key/value/array ones over exactly three states.",
		NotDecided:  "That the punctuation machine yields valid JSON for all nestings and adjacencies (a reachability question over an extracted state machine: model checking, another family); number/string parse-back as values; end()'s trailing-comma trimming.",
		Assumptions: []string{"A5"},
		Run: func(c *Ctx) {
			ruleJSONEscape(c)
			ruleJSONNumbers(c)
			ruleJSONEnd(c)
			ruleJSONReset(c)
			ruleJSONProtocol(c)
			ruleJSONRawString(c)
			ruleJSONTime(c)
			ruleJOutBounds(c)
		},
	})
}
