package main

import "strings"

func init() {
	register(&propInfo{
		ID:          "C16",
		Explanation: "The JSON-any codec dispatches on the dynamic type in four places; the check decides that the four tables are one table: for each clause of appendJSONValue's type switch (Go type, type code, codec, tag) sizeJSONValue has a clause for the same Go type with the same code, codec and tag length; readJSONKV has a case for that code that reads with the same codec into a local of the same Go type and stores it to *val; Descriptor.readJSONObjectKV has a case that decodes with the same grammar and makes exactly one output call; a value carried by its code alone (nil) needs an output on the walker's code path; both writers' default clauses panic (same unsupported set); type codes are pairwise distinct. Size == Append laws for the JSON codecs are decided under C05, bounds of the three readers under C04. (J.protocol, B.jout, round 15) the outputter the walk writes to follows the prefix/emit/punctuate protocol with the package's own escaper for keys, and its indexing is in range at every depth.",
		NotDecided:  "Round trip of trees as values; nil/empty interchangeability; behaviour as a skipped unknown field beyond the framing check.",
		Assumptions: []string{"A5"},
		Run: func(c *Ctx) {
			// round 11: string escaping of the rendered JSON
			ruleJSONEscape(c)
			ruleCountZero(c)
			ruleJSONDispatch(c)
			// the entry grammar of the two containers and of a typed value (one entry per element, never empty)
			ruleSpec(c, func(n string) bool { return strings.Contains(n, "JSON") })
			c.Floor("S.spec", 2)
			ruleJSONValueSpec(c)
			ruleCountLoop(c)
			ruleJSONWalkerOut(c)
			ruleClearJSON(c)
			ruleLeadCountEmpty(c)
			ruleTightGuards(c, decodeBound(c.P), func(n string) bool { return strings.Contains(n, "JSON") })
			c.Floor("X.tightguard", 8)
			ruleRejects(c, decodeBound(c.P), func(n string) bool { return strings.Contains(n, "JSON") })
			// what is sized is what is written (a value changed on the way out breaks the entry framing)
			ruleSizeLaw(c)
			ruleFrame(c)
			c.Floor("X.rejects", 8)
			// what the Descriptor walk of a JSON value hands to the outputter comes out as valid JSON at every depth:
			// the outputter's protocol and its bounds (C16-r15-m1, m3)
			ruleJSONProtocol(c)
			ruleJOutBounds(c)
		},
	})
}
