package main

func init() {
	register(&propInfo{
		ID:          "C17",
		Explanation: "Decides the scoping statement structurally: (X.who.default) the package-level defaultPlenc is referenced only by init and package-level functions of package plenc, and it is the only package-level variable that can hold registrations; (X.ownregistry) Plenc and baseRegistry methods touch only their own receiver's registry; (X.threadregistry) every recursive build call (pointer targets, slice elements, map keys/values, struct fields) is given the registry the lookup started from; (T.delegate) the six package-level functions are pure delegates of defaultPlenc with their arguments in order; (T.key) the registry key is built from (typ, tag) in Load, Store and StoreOrSwap and the Register*/CodecForType* methods pass (typ, tag) on unchanged; (X.dom.lookup) the kind switch is dominated by the miss branch of registry.Load(typ, tag), so registrations win over kind defaults; (T.kind) named types fall back to the codec of their underlying basic kind; (X.who.option) each ProtoCompatible option is read at exactly one decision point on the method's own receiver.",
		NotDecided:  "'Is the one used' is decided as lookup order and key identity, not by observing bytes.",
		Assumptions: []string{"A5"},
		Run: func(c *Ctx) {
			ruleDefaultPlencScope(c)
			ruleOwnRegistry(c)
			ruleDelegate(c, []string{"RegisterCodec", "RegisterCodecWithTag", "CodecForType", "CodecForTypeWithTag", "Marshal", "Unmarshal"})
			ruleRegistryKey(c)
			ruleLookupFirst(c)
			rulePtrTag(c)
			ruleViaRegistry(c)
			ruleOverlayKey(c)
			rulePendingKey(c)
			ruleKind(c)
			ruleOptionScope(c)
			ruleAddCodecs(c)
			ruleKeySelf(c)
			ruleMarshalViaCodec(c)
			ruleDefaultInit(c)
			ruleTagExact(c)
			ruleSliceWrapOnly(c)
		},
	})
}
