package main

import (
	"strings"

	"golang.org/x/tools/go/ssa"
)

func init() {
	register(&propInfo{
		ID:          "C18",
		Explanation: "Decides the Skip clause and the structural agreement of the primitives, not the 64-bit numerics: BOUND proves for plenccore.Skip that every return with a nil error satisfies 0 <= n <= len(data), that no slice/index can go out of range and that its loops make input-bounded progress (never panics, never over-runs, terminates); the inferred contracts of ReadVarUint/ReadVarInt/ReadTag (n <= len(data), |n| <= 10, index >= 0) that every decoder relies on are re-derived on each run; Skip has a clause for every wire type any codec reports; AppendVarInt/SizeVarInt/ReadVarInt are exactly the unsigned primitives composed with ZigZag/ZagZig; AppendTag, SizeTag and ReadTag agree on shift 3 and mask 7.",
		NotDecided:  "NOT APPLICABLE PART: 'for every uint64 append/read/size agree', zig-zag bijectivity and byte-length classes, tag round trip for all indexes quantify over 2^64 runtime values of pure bit arithmetic; deciding them statically needs bit-precise symbolic reasoning (a solver) or evaluation, both outside the static-analysis family.",
		Assumptions: []string{"A1", "A2", "A3", "A5"},
		Run: func(c *Ctx) {
			// round 11: an empty counted field is complete
			ruleCountZero(c)
			B := decodeBound(c.P)
			B.obligations(c, boundOpts{prop: "C18", onlyTainted: true, progress: true, alloc: true, contracts: true,
				filter: func(f *ssa.Function) bool { return strings.HasPrefix(ssaFuncName(f), "plenccore.") }})
			c.Floor("B.contract", 8)
			c.Floor("B.progress", 1)
			// contracts of the read primitives
			need := map[string][]string{
				"plenccore.ReadVarUint": {"post: r1 <= len(data)", "post: r1 <= 10", "post: r1 >= -10"},
				"plenccore.ReadVarInt":  {"post: r1 <= len(data)", "post: r1 <= 10", "post: r1 >= -10"},
				"plenccore.ReadTag":     {"post: r2 <= len(data)", "post: r2 <= 10", "post: r1 >= 0"},
			}
			for _, fn := range []string{"plenccore.ReadTag", "plenccore.ReadVarInt", "plenccore.ReadVarUint"} {
				f := c.P.ssaFunc(fn)
				have := map[string]bool{}
				if f != nil {
					for _, s := range B.contractSummary(f) {
						have[s] = true
					}
				}
				for _, w := range need[fn] {
					pos := f.Pos()
					c.Oblige("B.primcontract", have[w], pos, fn, w, "every decoder assumes this contract of the read primitive; it must be derivable from the primitive's body (binary.Uvarint's documented contract)", nil)
				}
			}
			c.Floor("B.primcontract", 9)
			ruleSkipExhaustive(c)
			// "returns exactly that field's length" for every well-formed field: Skip may not turn one away
			ruleTightGuards(c, B, func(n string) bool { return strings.HasPrefix(n, "plenccore.") })
			c.Floor("X.tightguard", 2)
			ruleVarintDelegation(c)
			ruleVarSize(c)
			ruleSkipVarint(c)
			ruleSkipUnknownWT(c)
			// Skip's WTSlice walk visits exactly count entries, the count taken as unsigned
			ruleCountLoop(c)
			ruleTagFormat(c)
			ruleWireConsts(c)
		},
	})
	register(&propInfo{
		ID:          "C03",
		Explanation: "Decides the structural facts schema evolution rests on: (T.skip-exh) Skip has a clause for every wire type any codec can report; (BOUND) Skip meets 0 <= n <= len(data) and never over-runs, and in every struct-like reader (StructCodec.Read, TimeCodec.Read, TimeCompatCodec.Read, Descriptor.readAsStruct/readAsMapEntry) the unknown-index path calls Skip on the rest of the data with the wire type read from the tag and advances the offset by exactly Skip's result (X.skipadvance); (X.who.name) field names are touched only by the builder and Descriptor(), so renames cannot change bytes; (T.anyorder) the struct field loop carries only the offset, so decoding is driven by the index found in the data, not by position; (T.byindex) the field table is indexed by the index read from the data.",
		NotDecided:  "That a shared index receives the same value in S and S' (value-level); framing agreement between each codec's writer and Skip's grammar is checked under C05/C02 (S.skip).",
		Assumptions: []string{"A1", "A2", "A3", "A4", "A5", "A6"},
		Run: func(c *Ctx) {
			// round 13: a nested value whose type lost its fields still consumes its whole body (the enclosing reader advances by the count returned)
			ruleExactConsumption(c)
			// round 11: holes in the index space, an emptied map value, an empty counted field at the end of the data
			ruleIndexEnds(c)
			ruleMapSlot(c)
			ruleCountZero(c)
			B := decodeBound(c.P)
			ruleSkipExhaustive(c)
			B.obligations(c, boundOpts{prop: "C03", onlyTainted: true, progress: true, alloc: false, contracts: true,
				filter: func(f *ssa.Function) bool {
					switch ssaFuncName(f) {
					case "plenccore.Skip", "plenccodec.StructCodec.Read", "plenccodec.TimeCodec.Read", "plenccodec.TimeCompatCodec.Read",
						"plenccodec.Descriptor.readAsStruct", "plenccodec.Descriptor.readAsMapEntry":
						return true
					}
					return false
				}})
			ruleSkipAdvance(c, B)
			ruleTightGuards(c, B, nil)
			c.Floor("X.tightguard", 22)
			ruleFullScan(c)
			ruleLookupStateless(c, []string{"plenccodec.StructCodec.Read", "plenccodec.Descriptor.readAsStruct"})
			ruleStructUntouched(c)
			ruleDispatchKnown(c)
			ruleCountLoop(c)
			ruleSkipAfterTag(c)
			ruleSkipUnknownWT(c)
			ruleSkipAnyWireType(c)
			ruleTagFormat(c)
			ruleReadLookup(c)
			// nested targets: a non-nil pointer is decoded into, not replaced, so fields absent below it survive
			rulePointerWrapper(c)
			ruleMapSlotMerge(c)
			ruleWalkerLookup(c)
			ruleOverlayKey(c)
			ruleRejects(c, B, nil)
			ruleFieldNameUse(c)
			ruleAnyOrder(c, B)
			ruleWireConsts(c)
		},
	})
}
