package main

import (
	"fmt"
	"go/token"
	"strings"

	"golang.org/x/tools/go/ssa"
)

// ruleOverrideOnlyRead: T.override – the interning codecs differ from their
// base only in Read.
func ruleOverrideOnlyRead(c *Ctx) {
	p := c.P
	for _, spec := range [][2]string{{"plenccodec.InternedStringCodec", "StringCodec"}, {"null.internedNullStringCodec", "nullStringCodec"}} {
		ct := p.codec(spec[0])
		if ct == nil {
			c.Oblige("T.override", false, token.NoPos, spec[0], "type", "not found", nil)
			continue
		}
		for _, m := range []string{"Size", "Append", "Omit", "WireType", "Descriptor"} {
			mr := ct.Methods[m]
			inherited := mr.Depth >= 1
			c.Oblige("T.override", inherited, mr.Fn.Pos(), spec[0], m+" inherited from the non-interning codec",
				fmt.Sprintf("the encoding of an interned field must be unchanged by the option: %s must resolve to the base codec's method (resolves to %s at embedding depth %d)", m, funcName(mr.Fn), mr.Depth), nil)
		}
		mr := ct.Methods["Read"]
		c.Oblige("T.override", mr.Depth == 0, mr.Fn.Pos(), spec[0], "Read overridden", "interning is implemented by Read alone", nil)
	}
	c.Floor("T.override", 12)
}

// ruleInternLookup: in BuildStructCodec the codec for an intern field is
// looked up with the empty tag and then switched to interning, and
// WithInterning hands out a fresh interner each time.
func ruleInternLookup(c *Ctx) {
	p := c.P
	f := p.ssaFunc("plenccodec.BuildStructCodec")
	if f == nil {
		c.Oblige("X.dom.intern", false, token.NoPos, "plenccodec.BuildStructCodec", "function", "not found", nil)
		return
	}
	name := ssaFuncName(f)
	ok := false
	for _, b := range f.Blocks {
		for _, in := range b.Instrs {
			call, isCall := in.(*ssa.Call)
			if !isCall || !call.Common().IsInvoke() || call.Common().Method.Name() != "CodecForTypeRegistry" {
				continue
			}
			tag := call.Common().Args[2]
			phi, isPhi := tag.(*ssa.Phi)
			if !isPhi {
				continue
			}
			// the edge taken when postfix == "intern" carries ""
			for i, e := range phi.Edges {
				if !isConstString(e, "") {
					continue
				}
				pred := phi.Block().Preds[i]
				for _, d := range f.Blocks {
					iff, isIf := d.Instrs[len(d.Instrs)-1].(*ssa.If)
					if !isIf {
						continue
					}
					cmp, isCmp := iff.Cond.(*ssa.BinOp)
					if !isCmp || cmp.Op != token.EQL || !(isConstString(cmp.Y, "intern") || isConstString(cmp.X, "intern")) {
						continue
					}
					if dominatedByBranch(d, 0, pred) {
						ok = true
					}
				}
			}
		}
	}
	c.Oblige("X.dom.intern", ok, f.Pos(), name, "intern fields are looked up with the empty tag",
		"the wire type and tag bytes of an interned field must be those of the plain field: the codec is looked up without the option and then switched to interning", nil)
	// every intern field gets the interning version of its *own* codec: what is
	// stored as the field's codec is either the codec just looked up or the
	// result of WithInterning() called on exactly that codec - never a codec
	// carried over from another field (a shared interner has the first field's
	// type: a null.String after a string would lose its Valid handling)
	{
		isLookup := func(v ssa.Value) bool {
			ex, ok := v.(*ssa.Extract)
			if !ok || ex.Index != 0 {
				return false
			}
			call, ok := ex.Tuple.(*ssa.Call)
			return ok && call.Common().IsInvoke() && call.Common().Method.Name() == "CodecForTypeRegistry"
		}
		var own func(v ssa.Value, depth int) bool
		own = func(v ssa.Value, depth int) bool {
			if depth > 8 {
				return false
			}
			if isLookup(v) {
				return true
			}
			switch x := v.(type) {
			case *ssa.Phi:
				for _, e := range x.Edges {
					if e == ssa.Value(x) {
						continue
					}
					if !own(e, depth+1) {
						return false
					}
				}
				// a φ of the field loop's header carries a value from an earlier field
				for _, pr := range x.Block().Preds {
					if x.Block().Dominates(pr) {
						return false
					}
				}
				return len(x.Edges) > 0
			case *ssa.Call:
				if x.Common().IsInvoke() && x.Common().Method.Name() == "WithInterning" {
					return own(x.Common().Value, depth+1)
				}
			case *ssa.TypeAssert:
				return own(x.X, depth+1)
			case *ssa.Extract:
				return own(x.Tuple, depth+1)
			case *ssa.ChangeInterface:
				return own(x.X, depth+1)
			case *ssa.MakeInterface:
				return own(x.X, depth+1)
			}
			return false
		}
		nst := 0
		for _, b := range f.Blocks {
			for _, in := range b.Instrs {
				st, isSt := in.(*ssa.Store)
				if !isSt {
					continue
				}
				fa, isFA := st.Addr.(*ssa.FieldAddr)
				if !isFA || typeName(deref(fa.X.Type())) != "description" || fieldName(fa) != "codec" {
					continue
				}
				nst++
				c.Oblige("X.dom.intern", own(st.Val, 0), st.Pos(), name, "a field's codec is its own lookup, or WithInterning() of it",
					"the interner of a field is made from the codec looked up for that field in the same pass of the loop; one interner shared between fields has the first field's codec type and table", nil)
			}
		}
		if nst == 0 {
			c.Oblige("X.dom.intern", false, f.Pos(), name, "store of the field codec", "not found", nil)
		}
	}
	for _, fn := range []string{"plenccodec.StringCodec.WithInterning", "null.nullStringCodec.WithInterning"} {
		wf := p.ssaFunc(fn)
		if wf == nil {
			c.Oblige("X.dom.intern", false, token.NoPos, fn, "function", "not found", nil)
			continue
		}
		fresh := true
		n := 0
		for _, b := range wf.Blocks {
			if r, isRet := b.Instrs[len(b.Instrs)-1].(*ssa.Return); isRet && len(r.Results) == 1 {
				n++
				rr := rootOf(r.Results[0])
				if !(rr.kind == rkLocal || rr.kind == rkFresh) {
					fresh = false
				}
			}
		}
		c.Oblige("X.dom.intern", fresh && n > 0, wf.Pos(), fn, "WithInterning returns a new codec",
			"every tagged field gets its own interner: the returned codec must be allocated by the call, not shared", nil)
	}
	c.Floor("X.dom.intern", 4)
}

var internFuncs = []string{"plenccodec.InternedStringCodec.Read", "plenccodec.InternedStringCodec.addString"}

func init() {
	register(&propInfo{
		ID:          "C19",
		Explanation: "Decides the aliasing/immutability/encoding-independence clauses of interning: (X.taint) on the intern path (InternedStringCodec.Read, addString, internedNullStringCodec.Read) no string or map key/value sharing memory with the input buffer is stored, inserted into a table, handed to an atomic store or returned - every inserted string is a string([]byte) copy; (X.atomic/X.cow) the table pointer is only accessed through sync/atomic, a table obtained by an atomic load is never updated in place and the table published is created by the publishing function, so a returned string never changes however the table grows; (T.override) the interning codecs inherit Size, Append, Omit, WireType and Descriptor from the non-interning codec and override only Read, so the encoding cannot depend on the option; (X.dom.intern) the codec for an intern field is looked up with the empty tag and WithInterning returns a freshly allocated codec per field; (T.null.read) the interned null string reader sets Valid.",
		NotDecided:  "That the decoded strings equal the non-interned ones under every history (lookup correctness of Go maps is trusted; equality is a value statement); allocation behaviour.",
		Assumptions: []string{"A3", "A5"},
		Run: func(c *Ctx) {
			// round 11: the interned codec is the type its users assert; the struct reader does not short-cut on the target's contents
			ruleInternType(c)
			ruleStructNoLoad(c)
			ruleNoAliasDecode(c, func(f *ssa.Function) bool {
				n := ssaFuncName(f)
				return strings.Contains(n, "Interned") || strings.Contains(n, "interned")
			})
			c.Floor("X.taint.store", 2)
			c.Floor("X.taint.map", 2)
			ruleAtomicFields(c)
			ruleOverrideOnlyRead(c)
			ruleInternLookup(c)
			ruleInternKey(c)
			ruleNullCodecs(c)
			ruleNullValue(c)
			ruleCommaOk(c, internFuncs)
			ruleInternSibling(c)
		},
	})
}
