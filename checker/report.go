package main

import (
	"bufio"
	"crypto/sha1"
	"encoding/hex"
	"encoding/json"
	"fmt"
	"go/token"
	"os"
	"path/filepath"
	"sort"
	"strings"
	"time"
)

// Finding is one failed obligation. Key = rule|package.func|construct and never
// contains a line number, so unrelated edits do not re-key it.
type Finding struct {
	Property string         `json:"property"`
	Rule     string         `json:"rule"`
	Func     string         `json:"func"`
	Key      string         `json:"key"`
	Pos      string         `json:"position"`
	Msg      string         `json:"explanation"`
	Facts    map[string]any `json:"facts,omitempty"`
}

type ruleStat struct {
	Count      int `json:"count"`
	Floor      int `json:"floor"`
	Discharged int `json:"discharged"`
}

// Ctx collects obligations for one property run.
type Ctx struct {
	P        *Prog
	Prop     string
	Tier     string
	Findings []Finding
	Rules    map[string]*ruleStat
	Samples  []map[string]any
	Funcs    map[string]bool
	Notes    []string
	Extra    map[string]any
	seenKeys map[string]bool
}

func newCtx(p *Prog, prop, tier string) *Ctx {
	c := &Ctx{P: p, Prop: prop, Tier: tier, Rules: map[string]*ruleStat{}, Funcs: map[string]bool{},
		Extra: map[string]any{}, seenKeys: map[string]bool{}}
	for _, n := range p.InlineNotes {
		c.Notes = append(c.Notes, "de-extraction: "+n)
	}
	return c
}

func (c *Ctx) rule(r string) *ruleStat {
	s := c.Rules[r]
	if s == nil {
		s = &ruleStat{}
		c.Rules[r] = s
	}
	return s
}

// Oblige records one obligation of rule r about construct in fn; ok says
// whether it was discharged.
func (c *Ctx) Oblige(r string, ok bool, pos token.Pos, fn, construct, msg string, facts map[string]any) {
	s := c.rule(r)
	s.Count++
	if fn != "" {
		c.Funcs[fn] = true
	}
	if ok {
		s.Discharged++
		if len(c.Samples) < 12 && (s.Discharged <= 2) {
			c.Samples = append(c.Samples, map[string]any{"rule": r, "func": fn, "construct": construct,
				"position": c.P.pos(pos), "status": "discharged", "why": msg})
		}
		return
	}
	key := r + "|" + fn + "|" + construct
	if c.seenKeys[key] {
		// the same construct reported twice (e.g. generic instances): one finding
		s.Count--
		return
	}
	c.seenKeys[key] = true
	c.Findings = append(c.Findings, Finding{Property: c.Prop, Rule: r, Func: fn, Key: key, Pos: c.P.pos(pos), Msg: msg, Facts: facts})
}

// Floor sets the vacuity floor of a rule: fewer instances than confirmed by
// hand means the rule has silently stopped matching.
func (c *Ctx) Floor(r string, floor int) {
	c.rule(r).Floor = floor
}

func (c *Ctx) Note(format string, a ...any) {
	c.Notes = append(c.Notes, fmt.Sprintf(format, a...))
}

// ---------------------------------------------------------------------------
// known findings

type knownEntry struct {
	Property string
	Key      string
	What     string
}

type knownFile struct {
	Known []knownEntry
	Fixed []string
}

func loadKnown(path string) (*knownFile, error) {
	kf := &knownFile{}
	f, err := os.Open(path)
	if err != nil {
		if os.IsNotExist(err) {
			return kf, nil
		}
		return nil, err
	}
	defer f.Close()
	sc := bufio.NewScanner(f)
	sc.Buffer(make([]byte, 1<<20), 1<<20)
	for sc.Scan() {
		line := strings.TrimSpace(sc.Text())
		if line == "" || strings.HasPrefix(line, "#") {
			continue
		}
		switch {
		case strings.HasPrefix(line, "known:"):
			rest := strings.TrimSpace(strings.TrimPrefix(line, "known:"))
			// known: property=C04 key=<key> :: <what fails>
			parts := strings.SplitN(rest, " :: ", 2)
			head := parts[0]
			what := ""
			if len(parts) == 2 {
				what = parts[1]
			}
			if !strings.HasPrefix(head, "property=") {
				return nil, fmt.Errorf("bad known line: %q", line)
			}
			sp := strings.SplitN(head, " key=", 2)
			if len(sp) != 2 {
				return nil, fmt.Errorf("bad known line: %q", line)
			}
			kf.Known = append(kf.Known, knownEntry{Property: strings.TrimPrefix(sp[0], "property="), Key: sp[1], What: what})
		case strings.HasPrefix(line, "fixed:"):
			kf.Fixed = append(kf.Fixed, line)
		default:
			return nil, fmt.Errorf("bad line in known findings: %q", line)
		}
	}
	return kf, sc.Err()
}

func (kf *knownFile) lookup(prop, key string) *knownEntry {
	for i := range kf.Known {
		if kf.Known[i].Property == prop && kf.Known[i].Key == key {
			return &kf.Known[i]
		}
	}
	return nil
}

// ---------------------------------------------------------------------------
// evidence + verdict

type propInfo struct {
	ID          string
	Explanation string   // the clause that is decided
	NotDecided  string   // what is not
	Assumptions []string // A1..A5 subset
	Run         func(c *Ctx)
}

var assumptionText = map[string]string{
	"A1": "A1: int and uintptr are 64 bits (amd64/arm64)",
	"A2": "A2: len(s) <= 2^62 for every slice/string, so len+len and len+10 do not wrap",
	"A3": "A3: trusted contracts for the standard library and the go:linkname'd runtime functions (binary.Uvarint: n<=len(buf), |n|<=10, n==0 short buffer, n<0 overflow; typedmemclr writes only its 2nd argument; mapassign copies the key; string([]byte)/append(nil,b...) copy)",
	"A4": "A4: user-supplied codecs obey the same Codec contracts every in-module implementation is checked against (assume-guarantee at the interface)",
	"A6": "A6: plenccodec.sliceHeader mirrors a Go slice header (0 <= Len, 0 <= Cap); fields of objects reached through pointers are not modified by callees between a guard and its use unless the function itself stores to them",
	"A5": "A5: go/types and go/ssa (x/tools v0.29.0) model the program faithfully; unsafe.Pointer arithmetic is modelled by pointer-root tracing",
}

func verifDir() string {
	if d := os.Getenv("VERIF_DIR"); d != "" {
		return d
	}
	exe, err := os.Executable()
	if err == nil {
		d := filepath.Dir(filepath.Dir(exe))
		if _, err := os.Stat(filepath.Join(d, "properties.jsonl")); err == nil {
			return d
		}
	}
	return "/verif"
}

// finish compares findings with the known-findings file, prints the verdict
// lines, writes evidence and replay files and returns the exit code.
func finish(c *Ctx, info *propInfo, seed int, start time.Time, thorough map[string]any) int {
	vd := verifDir()
	kf, err := loadKnown(filepath.Join(vd, "KNOWN_FINDINGS.txt"))
	if err != nil {
		fmt.Printf("cannot read KNOWN_FINDINGS.txt: %v\n", err)
		fmt.Printf("VIOLATION property=%s replay=%s\n", c.Prop, "<known-findings-unreadable>")
		return 1
	}
	// vacuity floors
	var ruleNames []string
	for r := range c.Rules {
		ruleNames = append(ruleNames, r)
	}
	sort.Strings(ruleNames)
	for _, r := range ruleNames {
		s := c.Rules[r]
		if s.Count < s.Floor {
			c.Findings = append(c.Findings, Finding{Property: c.Prop, Rule: "vacuity", Func: "-",
				Key: "vacuity|" + r, Pos: "-",
				Msg: fmt.Sprintf("rule %s matched %d instances, fewer than the floor %d confirmed by hand: the rule no longer sees the code it was written for", r, s.Count, s.Floor)})
		}
	}
	sort.SliceStable(c.Findings, func(i, j int) bool { return c.Findings[i].Key < c.Findings[j].Key })

	obligations, discharged := 0, 0
	for _, s := range c.Rules {
		obligations += s.Count
		discharged += s.Discharged
	}
	var knownHit []map[string]any
	var unlisted []Finding
	for _, f := range c.Findings {
		if ke := kf.lookup(c.Prop, f.Key); ke != nil {
			fmt.Printf("KNOWN-FINDING: property=%s %s at %s :: %s\n", c.Prop, f.Key, f.Pos, ke.What)
			knownHit = append(knownHit, map[string]any{"key": f.Key, "position": f.Pos, "what": ke.What})
			continue
		}
		unlisted = append(unlisted, f)
	}
	replayDir := filepath.Join(vd, "replay", c.Prop)
	os.RemoveAll(replayDir)
	code := 0
	var violSamples []map[string]any
	for _, f := range unlisted {
		code = 1
		os.MkdirAll(replayDir, 0o755)
		h := sha1.Sum([]byte(f.Key))
		path := filepath.Join(replayDir, hex.EncodeToString(h[:6])+".json")
		b, _ := json.MarshalIndent(f, "", " ")
		os.WriteFile(path, b, 0o644)
		fmt.Printf("finding: rule=%s func=%s at %s\n  construct: %s\n  %s\n", f.Rule, f.Func, f.Pos, f.Key, f.Msg)
		fmt.Printf("VIOLATION property=%s replay=%s\n", c.Prop, path)
		if len(violSamples) < 10 {
			violSamples = append(violSamples, map[string]any{"key": f.Key, "position": f.Pos, "explanation": f.Msg})
		}
	}

	var funcs []string
	for f := range c.Funcs {
		funcs = append(funcs, f)
	}
	sort.Strings(funcs)
	rules := map[string]any{}
	for _, r := range ruleNames {
		rules[r] = c.Rules[r]
	}
	samples := make([]any, 0, len(c.Samples))
	for _, s := range c.Samples {
		samples = append(samples, s)
	}
	if len(samples) == 0 {
		samples = append(samples, map[string]any{"note": "no discharged obligation sampled"})
	}
	cov := map[string]any{
		"explanation":        info.Explanation,
		"not_decided":        info.NotDecided,
		"obligations":        obligations,
		"discharged":         discharged,
		"rule_instances":     rules,
		"functions_analysed": funcs,
		"functions_count":    len(funcs),
		"packages_loaded":    len(c.P.Pkgs),
		"codec_universe":     len(c.P.Codecs),
		"known_findings":     knownHit,
		"unlisted_findings":  violSamples,
		"samples":            samples,
		"checker_cmd":        strings.Join(os.Args, " "),
		"trusted_base":       []string{"go/types", "go/ssa (x/tools v0.29.0)", "Go spec slice/index semantics", "stdlib contracts table (A3)"},
		"notes":              c.Notes,
	}
	for k, v := range c.Extra {
		cov[k] = v
	}
	for k, v := range thorough {
		cov[k] = v
	}
	var assumptions []string
	for _, a := range info.Assumptions {
		assumptions = append(assumptions, assumptionText[a])
	}
	ev := map[string]any{
		"property_id": c.Prop,
		"tier":        c.Tier,
		"seed":        seed,
		"level":       "other",
		"coverage":    cov,
		"assumptions": assumptions,
		"wall_s":      time.Since(start).Seconds(),
		"violations":  len(unlisted),
	}
	b, _ := json.MarshalIndent(ev, "", " ")
	evDir := filepath.Join(vd, "evidence")
	os.MkdirAll(evDir, 0o755)
	if err := os.WriteFile(filepath.Join(evDir, c.Prop+".json"), b, 0o644); err != nil {
		fmt.Printf("cannot write evidence: %v\n", err)
		return 1
	}
	fmt.Printf("%s %s: %d obligations, %d discharged, %d known findings, %d unlisted findings, %d functions, %.1fs\n",
		c.Prop, c.Tier, obligations, discharged, len(knownHit), len(unlisted), len(funcs), time.Since(start).Seconds())
	return code
}
