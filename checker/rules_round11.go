package main

import (
	"go/constant"
	"go/token"
	"go/types"
	"strings"

	"golang.org/x/tools/go/ssa"
)

// ---------------------------------------------------------------------------
// X.lock.paired: every acquisition of a sync.Mutex / sync.RWMutex in the
// module is released on every path to a return - by a deferred unlock that is
// registered before any return can be reached, or by an unlock call on each
// path. A leaked lock blocks every later user of the shared object forever.

func lockCallKind(in ssa.Instruction) (recv ssa.Value, kind string, deferred bool) {
	var cc *ssa.CallCommon
	switch x := in.(type) {
	case *ssa.Call:
		cc = x.Common()
	case *ssa.Defer:
		cc = x.Common()
		deferred = true
	default:
		return nil, "", false
	}
	cal := cc.StaticCallee()
	if cal == nil || cal.Pkg == nil || cal.Pkg.Pkg.Path() != "sync" || len(cc.Args) == 0 {
		return nil, "", false
	}
	switch cal.Name() {
	case "Lock", "RLock", "Unlock", "RUnlock":
		return cc.Args[0], cal.Name(), deferred
	}
	return nil, "", false
}

func ruleLockPaired(c *Ctx) {
	p := c.P
	n := 0
	for _, f := range p.moduleFuncs() {
		if len(f.Blocks) == 0 {
			continue
		}
		for _, b := range f.Blocks {
			for i, in := range b.Instrs {
				recv, kind, deferred := lockCallKind(in)
				if recv == nil || deferred || (kind != "Lock" && kind != "RLock") {
					continue
				}
				n++
				want := "Unlock"
				if kind == "RLock" {
					want = "RUnlock"
				}
				releases := func(in2 ssa.Instruction) bool {
					r2, k2, _ := lockCallKind(in2)
					return r2 != nil && k2 == want && sameEntryAddr(r2, recv, 0)
				}
				// search forward from the instruction after the lock
				leak := false
				seen := map[*ssa.BasicBlock]bool{}
				var walk func(bb *ssa.BasicBlock, from int)
				walk = func(bb *ssa.BasicBlock, from int) {
					for j := from; j < len(bb.Instrs); j++ {
						if releases(bb.Instrs[j]) {
							return
						}
						if _, isRet := bb.Instrs[j].(*ssa.Return); isRet {
							leak = true
							return
						}
					}
					for _, sc := range bb.Succs {
						if !seen[sc] {
							seen[sc] = true
							walk(sc, 0)
						}
					}
				}
				walk(b, i+1)
				c.Oblige("X.lock.paired", !leak, in.Pos(), ssaFuncName(f), kind+" is released on every path to a return",
					"a path from this "+kind+" reaches a return without a (deferred or direct) "+want+" of the same mutex: the next caller that needs it blocks forever", nil)
				c.Funcs[ssaFuncName(f)] = true
			}
		}
	}
	c.Floor("X.lock.paired", 1)
	_ = n
}

// ---------------------------------------------------------------------------
// X.map.keep: the map codecs allocate a map for the target only when the
// target holds none; a map that is there is merged into, whatever its size.

func ruleMapKeep(c *Ctx) {
	p := c.P
	for _, name := range []string{"plenccodec.MapCodec.Read", "plenccodec.JSONMapCodec.Read"} {
		f := p.ssaFunc(name)
		if f == nil || len(f.Params) < 3 {
			c.Oblige("X.map.keep", false, token.NoPos, name, "function", "not found", nil)
			continue
		}
		var ptr ssa.Value
		for _, prm := range f.Params {
			if isUnsafePointer(prm.Type()) {
				ptr = prm
			}
		}
		throughPtr := func(addr ssa.Value) bool {
			for i := 0; i < 4; i++ {
				switch x := addr.(type) {
				case *ssa.Convert:
					addr = x.X
					continue
				case *ssa.ChangeType:
					addr = x.X
					continue
				}
				break
			}
			return addr == ptr
		}
		// loads of the target's map and stores of a new one
		isTargetLoad := func(v ssa.Value) bool {
			u, ok := v.(*ssa.UnOp)
			return ok && u.Op == token.MUL && throughPtr(u.X)
		}
		var stores []*ssa.Store
		for _, b := range f.Blocks {
			for _, in := range b.Instrs {
				if st, ok := in.(*ssa.Store); ok && throughPtr(st.Addr) {
					stores = append(stores, st)
				}
			}
		}
		if len(stores) == 0 {
			c.Oblige("X.map.keep", false, f.Pos(), name, "store of a new map into the target", "not found: the rule no longer sees the code it was written for", nil)
			continue
		}
		fe := feasibleFrom(f, f.Blocks[0], true, func(v ssa.Value) (constant.Value, bool) {
			if isTargetLoad(v) {
				return feasNonNil, true
			}
			return nil, false
		})
		for _, st := range stores {
			c.Oblige("X.map.keep", fe.sawLeaf && !fe.reach[st.Block()], st.Pos(), name, "a new map replaces the target's only when the target has none",
				"map entries are merged by key into the map the target already holds: with the target's map forced non-nil the store of a fresh map must be unreachable (a size test beside the nil test throws the existing entries away)", nil)
		}
	}
	c.Floor("X.map.keep", 2)
}

// ---------------------------------------------------------------------------
// X.struct.noload: StructCodec.Read computes field addresses from the target
// pointer and hands them to the field codecs; it never looks at what the
// target holds (a shortcut keyed on the old contents makes the result depend
// on them, and skips what the codec would have done - setting Valid, say).

func ruleStructNoLoad(c *Ctx) {
	name := "plenccodec.StructCodec.Read"
	f := c.P.ssaFunc(name)
	if f == nil {
		c.Oblige("X.struct.noload", false, token.NoPos, name, "function", "not found", nil)
		return
	}
	var ptr ssa.Value
	for _, prm := range f.Params {
		if isUnsafePointer(prm.Type()) {
			ptr = prm
		}
	}
	var derived func(v ssa.Value, depth int) bool
	derived = func(v ssa.Value, depth int) bool {
		if v == ptr {
			return true
		}
		if depth > 8 {
			return false
		}
		switch x := v.(type) {
		case *ssa.Convert:
			return derived(x.X, depth+1)
		case *ssa.ChangeType:
			return derived(x.X, depth+1)
		case *ssa.BinOp:
			return derived(x.X, depth+1) || derived(x.Y, depth+1)
		case *ssa.Phi:
			for _, e := range x.Edges {
				if derived(e, depth+1) {
					return true
				}
			}
		case *ssa.Call:
			if bi, ok := x.Common().Value.(*ssa.Builtin); ok && bi.Name() == "Add" && len(x.Common().Args) > 0 {
				return derived(x.Common().Args[0], depth+1)
			}
		case *ssa.FieldAddr:
			return derived(x.X, depth+1)
		case *ssa.IndexAddr:
			return derived(x.X, depth+1)
		}
		return false
	}
	bad := token.NoPos
	n := 0
	for _, b := range f.Blocks {
		for _, in := range b.Instrs {
			if u, ok := in.(*ssa.UnOp); ok && u.Op == token.MUL && derived(u.X, 0) {
				bad = u.Pos()
			}
			if _, call, ok := codecReadTarget(in); ok && call != nil {
				n++
			}
		}
	}
	c.Oblige("X.struct.noload", !bad.IsValid() && n > 0, f.Pos(), name, "the target is addressed, never read",
		"the struct reader loads nothing through the target pointer: what a field held before must not decide whether its codec reads the data", nil)
	c.Floor("X.struct.noload", 1)
}

// ---------------------------------------------------------------------------
// T.index-range: the builder compares the parsed field index with the two ends
// of the documented range only (0 and maxFieldIndex); any other constant is a
// hole in the index space, and data using it is turned away.

func ruleIndexEnds(c *Ctx) {
	name := "plenccodec.BuildStructCodec"
	f := c.P.ssaFunc(name)
	if f == nil {
		c.Oblige("T.index-range", false, token.NoPos, name, "function", "not found", nil)
		return
	}
	var maxK constant.Value
	if f.Pkg != nil {
		if k, ok := f.Pkg.Pkg.Scope().Lookup("maxFieldIndex").(*types.Const); ok {
			maxK = k.Val()
		}
	}
	// the parsed index: first result of strconv.Atoi / ParseInt / ParseUint
	var idx []ssa.Value
	for _, b := range f.Blocks {
		for _, in := range b.Instrs {
			call, ok := in.(*ssa.Call)
			if !ok {
				continue
			}
			cal := call.Common().StaticCallee()
			if cal == nil || cal.Pkg == nil || cal.Pkg.Pkg.Path() != "strconv" {
				continue
			}
			for _, r := range *call.Referrers() {
				if ex, ok := r.(*ssa.Extract); ok && ex.Index == 0 {
					idx = append(idx, ex)
				}
			}
		}
	}
	isIdx := func(v ssa.Value) bool {
		v = stripConv(v)
		for _, x := range idx {
			if v == x {
				return true
			}
		}
		return false
	}
	n := 0
	for _, b := range f.Blocks {
		for _, in := range b.Instrs {
			bo, ok := in.(*ssa.BinOp)
			if !ok {
				continue
			}
			switch bo.Op {
			case token.LSS, token.LEQ, token.GTR, token.GEQ, token.EQL, token.NEQ:
			default:
				continue
			}
			var k *ssa.Const
			switch {
			case isIdx(bo.X):
				k, _ = bo.Y.(*ssa.Const)
			case isIdx(bo.Y):
				k, _ = bo.X.(*ssa.Const)
			}
			if k == nil || k.Value == nil {
				continue
			}
			n++
			okK := constant.Compare(k.Value, token.EQL, constant.MakeInt64(0)) ||
				(maxK != nil && (constant.Compare(k.Value, token.EQL, maxK) || constant.Compare(k.Value, token.EQL, constant.BinaryOp(maxK, token.ADD, constant.MakeInt64(1)))))
			c.Oblige("T.index-range", okK, bo.Pos(), name, "field index compared with "+k.Value.ExactString(),
				"every index from 0 to maxFieldIndex is a field number a struct may use and old data may carry: the builder compares the parsed index with the two ends of that range only", nil)
		}
	}
	if len(idx) == 0 {
		c.Oblige("T.index-range", false, f.Pos(), name, "parsed index", "no strconv call found: the rule no longer sees the code it was written for", nil)
	}
	c.Floor("T.index-range", 2)
	_ = n
}

// ---------------------------------------------------------------------------
// T.build-nodesc: the struct and map builders never ask a sub-codec for its
// Descriptor: a codec handed out while its struct is still under construction
// (recursive types) has a half-filled field table.

func ruleBuildNoDescriptor(c *Ctx) {
	p := c.P
	n := 0
	for _, name := range []string{"plenccodec.BuildStructCodec", "plenccodec.BuildMapCodec"} {
		f := p.ssaFunc(name)
		if f == nil {
			c.Oblige("T.build-nodesc", false, token.NoPos, name, "function", "not found", nil)
			continue
		}
		fns := []*ssa.Function{f}
		fns = append(fns, f.AnonFuncs...)
		// unexported helpers of the package called directly
		for _, b := range f.Blocks {
			for _, in := range b.Instrs {
				if call, ok := in.(*ssa.Call); ok {
					if cal := call.Common().StaticCallee(); cal != nil && cal.Pkg == f.Pkg && isUnexportedFunc(cal) && cal.Signature.Recv() == nil {
						fns = append(fns, cal)
					}
				}
			}
		}
		bad := token.NoPos
		for _, g := range fns {
			for _, b := range g.Blocks {
				for _, in := range b.Instrs {
					if call, ok := in.(*ssa.Call); ok && call.Common().IsInvoke() && call.Common().Method.Name() == "Descriptor" {
						bad = call.Pos()
					}
				}
			}
		}
		n++
		c.Oblige("T.build-nodesc", !bad.IsValid(), f.Pos(), name, "no Descriptor() of a sub-codec while building",
			"a sub-codec may be the struct codec that is still being built (a type that reaches itself): its field table is half filled and Descriptor() on it dereferences nil codecs - descriptors are computed on demand, after construction", nil)
	}
	c.Floor("T.build-nodesc", 2)
}

// ---------------------------------------------------------------------------
// T.intern-type: StringCodec.WithInterning hands back a *InternedStringCodec
// (the null package asserts that type and uses the result unchecked).

func ruleInternType(c *Ctx) {
	name := "plenccodec.StringCodec.WithInterning"
	f := c.P.ssaFunc(name)
	if f == nil {
		c.Oblige("T.intern-type", false, token.NoPos, name, "function", "not found", nil)
		return
	}
	n := 0
	for _, b := range f.Blocks {
		ret, ok := b.Instrs[len(b.Instrs)-1].(*ssa.Return)
		if !ok || len(ret.Results) != 1 {
			continue
		}
		n++
		good := false
		if mi, ok := ret.Results[0].(*ssa.MakeInterface); ok {
			good = strings.HasSuffix(mi.X.Type().String(), "plenccodec.InternedStringCodec") && isPointer(mi.X.Type())
		}
		c.Oblige("T.intern-type", good, ret.Pos(), name, "WithInterning returns a *InternedStringCodec",
			"the interned form of a string field must be the codec the plain one is compared with (T.intern-sibling), and null.String's interned codec is obtained by asserting exactly this type: a wrapper type makes the assertion fail and the first decode dereference nil", nil)
	}
	c.Floor("T.intern-type", 1)
	_ = n
}

func isPointer(t types.Type) bool {
	_, ok := t.Underlying().(*types.Pointer)
	return ok
}

// ---------------------------------------------------------------------------
// X.count.zero: a leading count of zero is a complete, valid encoding of an
// empty collection: once the count has been read as 0 no failure return is
// reachable (a check that wants at least one more byte whatever the count
// turns away an empty slice or map that ends the data).

func ruleCountZero(c *Ctx) {
	p := c.P
	n := 0
	for _, name := range []string{"plenccodec.WTLengthSliceWrapper.Read", "plenccodec.MapCodec.Read", "plenccodec.JSONArrayCodec.Read", "plenccodec.JSONMapCodec.Read",
		"plenccodec.Descriptor.readAsSlice", "plenccodec.Descriptor.readAsJSON", "plenccore.Skip"} {
		f := p.ssaFunc(name)
		if f == nil {
			c.Oblige("X.count.zero", false, token.NoPos, name, "function", "not found", nil)
			continue
		}
		for _, b := range f.Blocks {
			for _, in := range b.Instrs {
				cn, call := staticCalleeName(in)
				if call == nil || cn != "plenccore.ReadVarUint" {
					continue
				}
				// a leading count: read from the data parameter itself and used as a loop bound or size
				if prm, ok := call.Common().Args[0].(*ssa.Parameter); !ok || !isByteSlice(prm.Type()) {
					continue
				}
				var cnt *ssa.Extract
				for _, r := range *call.Referrers() {
					if ex, ok := r.(*ssa.Extract); ok && ex.Index == 0 {
						cnt = ex
					}
				}
				if cnt == nil {
					continue
				}
				// a count, not a length: not used as a slice bound of the data
				isLen := false
				var uses func(v ssa.Value, depth int)
				uses = func(v ssa.Value, depth int) {
					if depth > 4 || v.Referrers() == nil {
						return
					}
					for _, r := range *v.Referrers() {
						switch x := r.(type) {
						case *ssa.Slice:
							if _, isP := x.X.(*ssa.Parameter); isP {
								isLen = true
							}
						case *ssa.Convert:
							uses(x, depth+1)
						case *ssa.BinOp:
							if x.Op == token.ADD {
								uses(x, depth+1)
							}
						}
					}
				}
				uses(cnt, 0)
				if isLen {
					continue
				}
				n++
				fe := feasibleFromOpt(f, cnt.Block(), false, true, func(v ssa.Value) (constant.Value, bool) {
					if v == ssa.Value(cnt) {
						return constant.MakeInt64(0), true
					}
					return nil, false
				})
				bad := token.NoPos
				for bb := range fe.reach {
					if bb == cnt.Block() {
						continue
					}
					if ret, ok := bb.Instrs[len(bb.Instrs)-1].(*ssa.Return); ok && isFailureReturnLoose(f, ret) {
						// the n <= 0 test of the count's own varint belongs to the read, not to what follows it
						own := false
						if len(bb.Preds) == 1 {
							if ifi, ok := bb.Preds[0].Instrs[len(bb.Preds[0].Instrs)-1].(*ssa.If); ok {
								if bo, ok := ifi.Cond.(*ssa.BinOp); ok {
									for i, o := range []ssa.Value{bo.X, bo.Y} {
										_, otherConst := []ssa.Value{bo.Y, bo.X}[i].(*ssa.Const)
										if ex, ok := o.(*ssa.Extract); ok && ex.Tuple == cnt.Tuple && ex.Index == 1 && otherConst {
											own = true
										}
									}
								}
							}
						}
						if !own {
							bad = ret.Pos()
						}
					}
				}
				c.Oblige("X.count.zero", !bad.IsValid(), call.Pos(), name, "no failure once the leading count is 0",
					"a count of zero is the whole encoding of an empty slice or map: with the count forced to 0 no error return may be reachable (a 'more data must follow' test placed before the entry loop rejects an empty collection that ends the data)", nil)
			}
		}
	}
	c.Floor("X.count.zero", 5)
	_ = n
}

// ---------------------------------------------------------------------------
// G.maxindex: plenctag never hands out an index above maxIndex. The counter
// that is incremented and formatted into the new tag is forced to maxIndex:
// the formatting call must then be unreachable (the "no index left" error is
// taken instead). An off-by-one in that guard hands out maxIndex+1, which
// plenc refuses.
func ruleTagMaxIndex(c *Ctx) {
	p := c.P
	n := 0
	for _, f := range plenctagFuncs(p) {
		var maxK constant.Value
		if f.Pkg != nil {
			if k, ok := f.Pkg.Pkg.Scope().Lookup("maxIndex").(*types.Const); ok {
				maxK = k.Val()
			}
		}
		for _, b := range f.Blocks {
			for _, in := range b.Instrs {
				call, ok := in.(*ssa.Call)
				if !ok {
					continue
				}
				cal := call.Common().StaticCallee()
				if cal == nil || cal.Pkg == nil || cal.Pkg.Pkg.Path() != "strconv" || (cal.Name() != "Itoa" && cal.Name() != "FormatInt") {
					continue
				}
				// the formatted value is (running maximum) + 1: as a register, or as a
				// variable that is stored load+1 and loaded again
				arg := stripConv(call.Common().Args[0])
				var isBase func(v ssa.Value) bool
				if bo, ok := arg.(*ssa.BinOp); ok && bo.Op == token.ADD {
					base := bo.X
					if k, isK := bo.X.(*ssa.Const); isK && k.Value != nil {
						base = bo.Y
					}
					isBase = func(v ssa.Value) bool { return v == base }
				} else if ld, ok := arg.(*ssa.UnOp); ok && ld.Op == token.MUL {
					addr := ld.X
					incremented := false
					for _, b2 := range f.Blocks {
						for _, in2 := range b2.Instrs {
							if st, ok := in2.(*ssa.Store); ok && st.Addr == addr {
								if bo, ok := st.Val.(*ssa.BinOp); ok && bo.Op == token.ADD {
									if l2, ok := bo.X.(*ssa.UnOp); ok && l2.X == addr {
										incremented = true
									}
								}
							}
						}
					}
					if incremented {
						isBase = func(v ssa.Value) bool {
							u, ok := v.(*ssa.UnOp)
							return ok && u.Op == token.MUL && u.X == addr && u != ld
						}
					}
				}
				if isBase == nil {
					continue
				}
				n++
				good := false
				if maxK != nil {
					fe := feasibleUnder(f, func(v ssa.Value) (constant.Value, bool) {
						if isBase(v) {
							return maxK, true
						}
						return nil, false
					})
					good = fe.sawLeaf && !fe.reach[call.Block()]
				}
				c.Oblige("G.maxindex", good, call.Pos(), ssaFuncName(f), "no index above maxIndex is handed out",
					"with the running maximum forced to maxIndex the new index must not be formatted: the guard in front of the increment has to refuse at maxIndex itself (>=), otherwise maxIndex+1 is written and plenc rejects the struct", nil)
			}
		}
	}
	if n == 0 {
		c.Oblige("G.maxindex", false, token.NoPos, "cmd/plenctag", "increment-and-format of the running maximum", "not found: the rule no longer sees the code it was written for", nil)
	}
	c.Floor("G.maxindex", 1)
}

// ---------------------------------------------------------------------------
// X.bytes.nil: what BytesCodec.Read stores for an empty body is the nil slice
// (append onto nil), not an empty non-nil one: a nil []byte inside [][]byte or
// behind *[]byte is written with length 0 and must read back nil - the
// documented normalisation goes from empty to nil, not the other way.
func ruleBytesNil(c *Ctx) {
	name := "plenccodec.BytesCodec.Read"
	f := c.P.ssaFunc(name)
	if f == nil {
		c.Oblige("X.bytes.nil", false, token.NoPos, name, "function", "not found", nil)
		return
	}
	var data ssa.Value
	for _, prm := range f.Params {
		if isByteSlice(prm.Type()) {
			data = prm
		}
	}
	n := 0
	for _, b := range f.Blocks {
		for _, in := range b.Instrs {
			st, ok := in.(*ssa.Store)
			if !ok || !isByteSlice(st.Val.Type()) {
				continue
			}
			n++
			good := false
			if call, ok := st.Val.(*ssa.Call); ok {
				if bi, ok := call.Common().Value.(*ssa.Builtin); ok && bi.Name() == "append" && len(call.Common().Args) == 2 {
					k, isK := call.Common().Args[0].(*ssa.Const)
					good = isK && k.Value == nil && call.Common().Args[1] == data
				}
			}
			if k, isK := st.Val.(*ssa.Const); isK && k.Value == nil {
				good = true // an explicit nil for the empty case
			}
			c.Oblige("X.bytes.nil", good, st.Pos(), name, "the stored slice is append(nil, data...)",
				"an empty body must read back as the nil slice: a copy made with make+copy (or appended to a non-nil empty slice) turns nil into empty for [][]byte elements and *[]byte targets", nil)
		}
	}
	if n == 0 {
		c.Oblige("X.bytes.nil", false, f.Pos(), name, "store of the decoded bytes", "not found", nil)
	}
	c.Floor("X.bytes.nil", 1)
}

// ---------------------------------------------------------------------------
// Round 13.

// X.pool.fresh: the New function of every sync.Pool in the module hands out a
// value made by that very call (a call result or an allocation inside the
// function): a captured or stored value handed out again is one scratch area
// shared by every goroutine that finds the pool empty.
func rulePoolFresh(c *Ctx) {
	p := c.P
	n := 0
	for _, f := range p.moduleFuncs() {
		for _, b := range f.Blocks {
			for _, in := range b.Instrs {
				st, ok := in.(*ssa.Store)
				if !ok {
					continue
				}
				fa, ok := st.Addr.(*ssa.FieldAddr)
				if !ok || fieldName(fa) != "New" || !strings.HasSuffix(derefT(fa.X.Type()).String(), "sync.Pool") {
					continue
				}
				var nf *ssa.Function
				switch v := st.Val.(type) {
				case *ssa.MakeClosure:
					nf, _ = v.Fn.(*ssa.Function)
				case *ssa.Function:
					nf = v
				}
				n++
				good := nf != nil && len(nf.Blocks) > 0
				if good {
					// a bound method value (c.newKey) is a wrapper that calls the method: look through it
					for depth := 0; depth < 3; depth++ {
						if len(nf.Blocks) == 1 {
							var only *ssa.Call
							calls := 0
							for _, in2 := range nf.Blocks[0].Instrs {
								if cl, ok := in2.(*ssa.Call); ok {
									only = cl
									calls++
								}
							}
							if calls == 1 {
								if cal := only.Common().StaticCallee(); cal != nil && cal.Pkg == nf.Pkg && len(cal.Blocks) > 0 && (nf.Synthetic != "" || strings.Contains(nf.Name(), "$bound")) {
									nf = cal
									continue
								}
							}
						}
						break
					}
					for _, b2 := range nf.Blocks {
						ret, ok := b2.Instrs[len(b2.Instrs)-1].(*ssa.Return)
						if !ok || len(ret.Results) != 1 {
							continue
						}
						v := ret.Results[0]
						for i := 0; i < 4; i++ {
							switch x := v.(type) {
							case *ssa.MakeInterface:
								v = x.X
								continue
							case *ssa.ChangeType:
								v = x.X
								continue
							case *ssa.Convert:
								v = x.X
								continue
							}
							break
						}
						fresh := false
						switch x := v.(type) {
						case *ssa.Call:
							fresh = x.Block() != nil && x.Parent() == nf
						case *ssa.Alloc:
							fresh = x.Heap
						case *ssa.MakeSlice, *ssa.MakeMap:
							fresh = true
						}
						if !fresh {
							good = false
						}
					}
				}
				c.Oblige("X.pool.fresh", good, st.Pos(), ssaFuncName(f), "the pool's New makes a new value on every call",
					"a sync.Pool hands its scratch values to one user at a time only if New allocates: a New that returns a captured value gives every goroutine that finds the pool empty the same memory", nil)
			}
		}
	}
	c.Floor("X.pool.fresh", 1)
	_ = n
}

// X.marshal.deref: Marshal follows exactly one level of pointer. The data word
// of the interface is dereferenced only for a pointer to a map (the map codec
// wants the map itself): any other load through it - a loop that strips every
// level - dereferences a nil inner pointer that the pointer codec would have
// written as nothing.
func ruleMarshalDeref(c *Ctx) {
	name := "plenc.Plenc.Marshal"
	f := c.P.ssaFunc(name)
	if f == nil {
		c.Oblige("X.marshal.deref", false, token.NoPos, name, "function", "not found", nil)
		return
	}
	n := 0
	loops := loopsOf(f)
	for _, b := range f.Blocks {
		for _, in := range b.Instrs {
			u, ok := in.(*ssa.UnOp)
			if !ok || u.Op != token.MUL || !isUnsafePointer(u.Type()) {
				continue
			}
			cv, ok := u.X.(*ssa.Convert)
			if !ok || !isUnsafePointer(cv.X.Type()) {
				continue
			}
			// *(*unsafe.Pointer)(ptr)
			n++
			inLoop := false
			for _, body := range loops {
				if body[b] {
					inLoop = true
				}
			}
			underMap := false
			conds, truths := controllingConds(b)
			for i, cd := range conds {
				if bo, ok := cd.(*ssa.BinOp); ok && bo.Op == token.EQL && truths[i] {
					for _, o := range []ssa.Value{bo.X, bo.Y} {
						if k, ok := o.(*ssa.Const); ok && k.Value != nil {
							if v, ok := constant.Int64Val(constant.ToInt(k.Value)); ok && v == 21 { // reflect.Map
								underMap = true
							}
						}
					}
				}
			}
			c.Oblige("X.marshal.deref", underMap && !inLoop, u.Pos(), name, "the data word is dereferenced only for a pointer to a map, once",
				"Marshal takes the value or one pointer to it; following further pointer levels itself (instead of leaving them to the pointer codec, which writes a nil as nothing) dereferences nil for `var p *T; Marshal(buf, &p)`", nil)
		}
	}
	c.Floor("X.marshal.deref", 1)
	_ = n
}

// T.mapvalue-refused: a map whose values are maps is refused whatever the
// registry holds: with the value kind forced to Map no success return of
// BuildMapCodec is reachable.
func ruleMapValueRefused(c *Ctx) {
	name := "plenccodec.BuildMapCodec"
	f := c.P.ssaFunc(name)
	if f == nil {
		c.Oblige("T.mapvalue-refused", false, token.NoPos, name, "function", "not found", nil)
		return
	}
	var typ ssa.Value
	for _, prm := range f.Params {
		if typeName(prm.Type()) == "Type" {
			typ = prm
		}
	}
	isElemKind := func(v ssa.Value) bool {
		call, ok := v.(*ssa.Call)
		if !ok || !call.Common().IsInvoke() || call.Common().Method.Name() != "Kind" {
			return false
		}
		inner, ok := call.Common().Value.(*ssa.Call)
		return ok && inner.Common().IsInvoke() && inner.Common().Method.Name() == "Elem" && inner.Common().Value == typ
	}
	fe := feasibleUnder(f, func(v ssa.Value) (constant.Value, bool) {
		if isElemKind(v) {
			return constant.MakeInt64(21), true
		}
		return nil, false
	})
	bad := token.NoPos
	for _, b := range f.Blocks {
		if !fe.reach[b] {
			continue
		}
		if ret, ok := b.Instrs[len(b.Instrs)-1].(*ssa.Return); ok && !isFailureReturnLoose(f, ret) {
			bad = ret.Pos()
		}
	}
	c.Oblige("T.mapvalue-refused", fe.sawLeaf && !bad.IsValid(), f.Pos(), name, "a map of maps is refused unconditionally",
		"map codecs take the map itself when encoding and its address when decoding; as a map value neither convention can be met, so the type is refused - with the value kind forced to Map no success return may be reachable (a refusal that depends on what the registry holds lets the type through after the inner map has been used, and Marshal then dereferences nil)", nil)
	c.Floor("T.mapvalue-refused", 1)
}

// X.walker.emptyfield: in the walker's struct reader a field that is present
// with an empty body is still a field: the path to NameField is not decided
// by the length read for it.
func ruleWalkerEmptyField(c *Ctx) {
	name := "plenccodec.Descriptor.readAsStruct"
	f := c.P.ssaFunc(name)
	if f == nil {
		c.Oblige("X.walker.emptyfield", false, token.NoPos, name, "function", "not found", nil)
		return
	}
	nameBlocks := map[*ssa.BasicBlock]bool{}
	for _, b := range f.Blocks {
		for _, in := range b.Instrs {
			if call, ok := in.(*ssa.Call); ok && call.Common().IsInvoke() && call.Common().Method.Name() == "NameField" {
				nameBlocks[b] = true
			}
		}
	}
	n := 0
	for _, b := range f.Blocks {
		for _, in := range b.Instrs {
			cn, call := staticCalleeName(in)
			if call == nil || cn != "plenccore.ReadVarUint" {
				continue
			}
			var ln *ssa.Extract
			for _, r := range *call.Referrers() {
				if ex, ok := r.(*ssa.Extract); ok && ex.Index == 0 {
					ln = ex
				}
			}
			if ln == nil {
				continue
			}
			n++
			// with the length forced to 0, every way on from the read that does not
			// fail passes the NameField call: no way round it back to the field loop
			// or to a success return
			fe := feasibleFrom(f, b, false, func(v ssa.Value) (constant.Value, bool) {
				if v == ssa.Value(ln) {
					return constant.MakeInt64(0), true
				}
				return nil, false
			})
			bad := false
			seen := map[*ssa.BasicBlock]bool{b: true}
			work := []*ssa.BasicBlock{b}
			for len(work) > 0 {
				cur := work[len(work)-1]
				work = work[:len(work)-1]
				for _, sc := range cur.Succs {
					if !fe.feasible[[2]*ssa.BasicBlock{cur, sc}] || nameBlocks[sc] {
						continue
					}
					if sc != b && sc.Dominates(b) {
						bad = true // back to the loop without naming the field
					}
					if ret, ok := sc.Instrs[len(sc.Instrs)-1].(*ssa.Return); ok && !isFailureReturnLoose(f, ret) {
						bad = true
					}
					if !seen[sc] {
						seen[sc] = true
						work = append(work, sc)
					}
				}
			}
			c.Oblige("X.walker.emptyfield", !bad && len(nameBlocks) > 0, call.Pos(), name, "a field with an empty body is still named",
				"a present pointer to an empty string or to a zero struct is written as tag and length 0: the typed reader yields a non-nil pointer, so the walker must render the field - with the length forced to 0 no path from the length read leads back to the field loop or to a success return without passing NameField", nil)
		}
	}
	if n == 0 {
		c.Oblige("X.walker.emptyfield", false, f.Pos(), name, "length read", "not found", nil)
	}
	c.Floor("X.walker.emptyfield", 1)
}
