package main

import (
	"fmt"
	"go/token"
	"go/types"
	"sort"
	"strings"

	"golang.org/x/tools/go/ssa"
)

// ruleTagRound14: plenctag - G.skipreason.
//
// In the loop of the rewrite closure that sets f.Tag.Value, a field is left
// without a new tag only for one of the documented reasons: it is unexported
// (under -private exclusion), its tag does not parse (extractTags' error), the
// PARSED tag has a plenc key (tags.Get("plenc")), it declares several names,
// or no index is left. Every two-way branch of that loop of which exactly one
// side can still reach the store ("skip decision") must have a condition built
// only from those sources. A test on the raw tag text (strings.Contains(...,
// `plenc:"`)) is a different reason and is reported (C20-r14-m1).
func ruleTagRound14(c *Ctx) {
	p := c.P
	var rf *ssa.Function
	var storeBlocks []*ssa.BasicBlock
	for _, f := range plenctagFuncs(p) {
		if !strings.HasPrefix(ssaFuncName(f), "cmd/plenctag.config.rewrite$") {
			continue
		}
		for _, b := range f.Blocks {
			for _, in := range b.Instrs {
				if st, ok := in.(*ssa.Store); ok {
					if fa, ok := st.Addr.(*ssa.FieldAddr); ok && fieldName(fa) == "Value" && typeName(deref(fa.X.Type())) == "BasicLit" {
						if rf != nil && rf != f {
							continue
						}
						rf = f
						storeBlocks = append(storeBlocks, b)
					}
				}
			}
		}
	}
	if rf == nil {
		c.Oblige("G.skipreason", false, token.NoPos, "cmd/plenctag.config.rewrite", "rewrite closure", "cannot find the closure that sets tags: undecided", nil)
		return
	}
	name := ssaFuncName(rf)
	reach := func(from *ssa.BasicBlock, avoid *ssa.BasicBlock) map[*ssa.BasicBlock]bool {
		seen := map[*ssa.BasicBlock]bool{}
		var st []*ssa.BasicBlock
		if from != avoid {
			st = append(st, from)
			seen[from] = true
		}
		for len(st) > 0 {
			b := st[len(st)-1]
			st = st[:len(st)-1]
			for _, s := range b.Succs {
				if s != avoid && !seen[s] {
					seen[s] = true
					st = append(st, s)
				}
			}
		}
		return seen
	}
	isStore := map[*ssa.BasicBlock]bool{}
	for _, b := range storeBlocks {
		isStore[b] = true
	}
	// the loop of the store: blocks on a cycle through a store block; its header dominates them all
	scc := map[*ssa.BasicBlock]bool{}
	for _, sb := range storeBlocks {
		fw := reach(sb, nil)
		for _, b := range rf.Blocks {
			if fw[b] && reach(b, nil)[sb] {
				scc[b] = true
			}
		}
		if len(fw) > 0 && fw[sb] {
			scc[sb] = true
		}
	}
	var header *ssa.BasicBlock
	for b := range scc {
		all := true
		for o := range scc {
			if !b.Dominates(o) {
				all = false
			}
		}
		if all {
			header = b
		}
	}
	if header == nil {
		c.Oblige("G.skipreason", false, rf.Pos(), name, "loop of the tag store", "the store of f.Tag.Value is not inside a loop with a single header: undecided", nil)
		return
	}
	canStore := func(b *ssa.BasicBlock) bool {
		if isStore[b] {
			return true
		}
		for x := range reach(b, header) {
			if isStore[x] {
				return true
			}
		}
		return false
	}
	// sources of a condition
	type srcs struct {
		calls  []string
		fields []string
		other  []string
	}
	var collect func(v ssa.Value, s *srcs, seen map[ssa.Value]bool, depth int)
	collect = func(v ssa.Value, s *srcs, seen map[ssa.Value]bool, depth int) {
		if v == nil || seen[v] || depth > 30 {
			return
		}
		seen[v] = true
		switch x := v.(type) {
		case *ssa.Const:
		case *ssa.BinOp:
			collect(x.X, s, seen, depth+1)
			collect(x.Y, s, seen, depth+1)
		case *ssa.UnOp:
			if x.Op == token.MUL {
				if fa, ok := x.X.(*ssa.FieldAddr); ok {
					s.fields = append(s.fields, fieldName(fa))
					return
				}
				if _, ok := x.X.(*ssa.Alloc); ok {
					// a spilled local: its stored values
					for _, r := range *x.X.Referrers() {
						if st, ok := r.(*ssa.Store); ok && st.Addr == x.X {
							collect(st.Val, s, seen, depth+1)
						}
					}
					return
				}
				if fv, ok := x.X.(*ssa.FreeVar); ok {
					s.other = append(s.other, "captured "+fv.Name())
					return
				}
				s.other = append(s.other, "load "+x.X.String())
				return
			}
			collect(x.X, s, seen, depth+1)
		case *ssa.Phi:
			if bt, ok := x.Type().Underlying().(*types.Basic); !ok || bt.Info()&types.IsBoolean == 0 {
				// a number carried round the loops (the running maximum): state, not a reason
				return
			}
			for _, e := range x.Edges {
				collect(e, s, seen, depth+1)
			}
			// a materialised && / ||: the tests that select the edges
			for _, pr := range x.Block().Preds {
				for d := pr; d != nil; d = d.Idom() {
					if iff, ok := d.Instrs[len(d.Instrs)-1].(*ssa.If); ok && !d.Dominates(x.Block()) || d == pr {
						if iff2, ok2 := d.Instrs[len(d.Instrs)-1].(*ssa.If); ok2 {
							_ = iff
							collect(iff2.Cond, s, seen, depth+1)
						}
					}
					if d.Dominates(x.Block()) {
						break
					}
				}
			}
		case *ssa.Extract:
			collect(x.Tuple, s, seen, depth+1)
		case *ssa.Call:
			if cal := x.Common().StaticCallee(); cal != nil {
				nm := cal.String()
				if cal.Name() == "Get" && strings.Contains(nm, "structtag") && len(x.Common().Args) == 2 {
					if isConstString(x.Common().Args[1], "plenc") {
						s.calls = append(s.calls, `tags.Get("plenc")`)
					} else {
						s.calls = append(s.calls, "tags.Get(other key)")
					}
					return
				}
				s.calls = append(s.calls, nm)
				return
			}
			if b, ok := x.Common().Value.(*ssa.Builtin); ok && b.Name() == "len" {
				collect(x.Common().Args[0], s, seen, depth+1)
				return
			}
			s.other = append(s.other, "dynamic call")
		case *ssa.ChangeType:
			collect(x.X, s, seen, depth+1)
		case *ssa.Convert:
			collect(x.X, s, seen, depth+1)
		default:
			s.other = append(s.other, fmt.Sprintf("%T", v))
		}
	}
	okCall := func(n string) bool {
		switch {
		case n == `tags.Get("plenc")`:
			return true
		case strings.HasSuffix(n, ".extractTags"), strings.HasSuffix(n, ".hasExportedName"), strings.HasSuffix(n, ".isExcluded"):
			return strings.Contains(n, "cmd/plenctag")
		}
		return false
	}
	okField := map[string]bool{"excludePrivate": true, "Names": true, "Tag": true}
	var blocks []*ssa.BasicBlock
	for b := range scc {
		blocks = append(blocks, b)
	}
	sort.Slice(blocks, func(i, j int) bool { return blocks[i].Index < blocks[j].Index })
	n := 0
	for _, d := range blocks {
		if d == header {
			continue
		}
		iff, ok := d.Instrs[len(d.Instrs)-1].(*ssa.If)
		if !ok || len(d.Succs) != 2 {
			continue
		}
		if !canStore(d) && !isStore[d] {
			continue
		}
		a, b := d.Succs[0] != header && canStore(d.Succs[0]), d.Succs[1] != header && canStore(d.Succs[1])
		if a == b {
			continue
		}
		n++
		var s srcs
		collect(iff.Cond, &s, map[ssa.Value]bool{}, 0)
		var bad []string
		for _, cn := range s.calls {
			if !okCall(cn) {
				bad = append(bad, "call "+cn)
			}
		}
		for _, fn := range s.fields {
			if !okField[fn] {
				bad = append(bad, "field "+fn)
			}
		}
		bad = append(bad, s.other...)
		sort.Strings(bad)
		c.Oblige("G.skipreason", len(bad) == 0, iff.Cond.Pos(), name,
			fmt.Sprintf("skip decision #%d of the tagging loop", n),
			"a field is left untagged only because it is unexported, its tag does not parse, the parsed tag has a plenc key, it declares several names or no index is left; this decision also depends on: "+strings.Join(uniq(bad), ", "), nil)
	}
	c.Floor("G.skipreason", 4)
}

// ruleSameTag: X.wt.sametag - the wire type and the frame handed to a field
// reader come from the same tag. Where a reader slices its data up to a bound
// that is a result of tag-reading helper call(s) (readTagAndLength: offset,
// fieldEnd, index, wt) and hands that slice to a codec's Read, the wire type
// argument must be a result of exactly the same call(s). A value read framed
// by the second tag but typed by the first (the key's) mis-reads every value
// whose reader dispatches on the wire type (C01-r14-m3).
func ruleSameTag(c *Ctx) {
	p := c.P
	var src func(v ssa.Value, calls map[*ssa.Call]bool, seen map[ssa.Value]bool) bool
	src = func(v ssa.Value, calls map[*ssa.Call]bool, seen map[ssa.Value]bool) bool {
		if seen[v] {
			return true
		}
		seen[v] = true
		switch x := v.(type) {
		case *ssa.Phi:
			for _, e := range x.Edges {
				if !src(e, calls, seen) {
					return false
				}
			}
			return true
		case *ssa.Extract:
			if call, ok := x.Tuple.(*ssa.Call); ok {
				calls[call] = true
				return true
			}
		case *ssa.ChangeType:
			return src(x.X, calls, seen)
		}
		return false
	}
	n := 0
	for _, f := range p.decodeClosure() {
		name := ssaFuncName(f)
		for _, b := range f.Blocks {
			for _, in := range b.Instrs {
				call, ok := in.(*ssa.Call)
				if !ok {
					continue
				}
				cc := call.Common()
				var args []ssa.Value
				mname := ""
				if cc.IsInvoke() {
					mname = cc.Method.Name()
					args = cc.Args
				} else if sc := cc.StaticCallee(); sc != nil && sc.Signature.Recv() != nil && len(cc.Args) > 0 {
					mname = sc.Name()
					args = cc.Args[1:]
				}
				if mname != "Read" || len(args) != 3 || typeName(args[2].Type()) != "WireType" || !isByteSlice(args[0].Type()) {
					continue
				}
				sl, ok := args[0].(*ssa.Slice)
				if !ok || sl.High == nil {
					continue
				}
				hc := map[*ssa.Call]bool{}
				if !src(sl.High, hc, map[ssa.Value]bool{}) || len(hc) == 0 {
					continue
				}
				// the helper must be one that reports a wire type
				helper := true
				for hcall := range hc {
					sc := hcall.Common().StaticCallee()
					if sc == nil || sc.Pkg == nil || !inModule(sc.Pkg.Pkg) {
						helper = false
						break
					}
					hasWT := false
					res := sc.Signature.Results()
					for i := 0; i < res.Len(); i++ {
						if typeName(res.At(i).Type()) == "WireType" {
							hasWT = true
						}
					}
					if !hasWT {
						helper = false
					}
				}
				if !helper {
					continue
				}
				n++
				wc := map[*ssa.Call]bool{}
				pure := src(args[2], wc, map[ssa.Value]bool{})
				same := pure && len(wc) == len(hc)
				for k := range hc {
					if !wc[k] {
						same = false
					}
				}
				var hl, wl []string
				for k := range hc {
					hl = append(hl, p.pos(k.Pos()))
				}
				for k := range wc {
					wl = append(wl, p.pos(k.Pos()))
				}
				sort.Strings(hl)
				sort.Strings(wl)
				c.Oblige("X.wt.sametag", same, call.Pos(), name, fmt.Sprintf("Read #%d framed by a tag helper's result", n),
					fmt.Sprintf("the frame of this read ends where the tag read at [%s] says; its wire type must come from the same tag read(s), it comes from [%s] (pure: %v)", strings.Join(hl, ", "), strings.Join(wl, ", "), pure), nil)
			}
		}
	}
	c.Floor("X.wt.sametag", 2)
}

// ruleMarshalOmit: X.marshal.omit - Marshal writes a value exactly when the
// codec's Omit says it is not to be omitted, whatever way the value was handed
// in: every call of the codec's Append in (*Plenc).Marshal is dominated by the
// branch on which the codec's own Omit returned false. A second condition
// that lets some arguments (pointers, say) bypass the test makes
// Marshal(buf, &v) and Marshal(buf, v) disagree for zero values (C06-r15-m2).
func ruleMarshalOmit(c *Ctx) {
	f := c.P.ssaFunc("plenc.Plenc.Marshal")
	if f == nil {
		c.Oblige("X.marshal.omit", false, token.NoPos, "plenc.Plenc.Marshal", "function", "not found", nil)
		return
	}
	name := ssaFuncName(f)
	var omits []*ssa.Call
	var appends []*ssa.Call
	for _, b := range f.Blocks {
		for _, in := range b.Instrs {
			if call, ok := in.(*ssa.Call); ok && call.Common().IsInvoke() {
				switch call.Common().Method.Name() {
				case "Omit":
					omits = append(omits, call)
				case "Append":
					appends = append(appends, call)
				}
			}
		}
	}
	for _, ap := range appends {
		ok := false
		for _, om := range omits {
			if om.Common().Value != ap.Common().Value {
				continue // another codec's Omit
			}
			for _, d := range f.Blocks {
				iff, isIf := d.Instrs[len(d.Instrs)-1].(*ssa.If)
				if !isIf {
					continue
				}
				cond := iff.Cond
				neg := false
				for {
					u, isU := cond.(*ssa.UnOp)
					if !isU || u.Op != token.NOT {
						break
					}
					cond = u.X
					neg = !neg
				}
				if cond != ssa.Value(om) {
					continue
				}
				idx := 1 // Omit false: the else edge
				if neg {
					idx = 0
				}
				if dominatedByBranch(d, idx, ap.Block()) {
					ok = true
				}
			}
		}
		c.Oblige("X.marshal.omit", ok, ap.Pos(), name, "Append only where the codec's Omit returned false",
			"Marshal writes a value exactly when its codec does not omit it, for every way of handing the value in: this Append must be dominated by the false outcome of the same codec's Omit", nil)
	}
	c.Floor("X.marshal.omit", 1)
}
