package main

import (
	"fmt"
	"go/ast"
	"go/constant"
	"go/token"
	"go/types"
	"os"
	"strings"

	"golang.org/x/tools/go/ssa"
)

// ---------------------------------------------------------------------------
// X.fullscan: a field reader only succeeds after scanning the whole input:
// no success return inside the field loop.

func ruleFullScan(c *Ctx) {
	p := c.P
	names := []string{"plenccodec.StructCodec.Read", "plenccodec.TimeCodec.Read", "plenccodec.TimeCompatCodec.Read",
		"plenccodec.Descriptor.readAsStruct", "plenccodec.Descriptor.readAsMapEntry", "plenccodec.readJSONKV", "plenccodec.Descriptor.readJSONObjectKV"}
	for _, name := range names {
		f := p.ssaFunc(name)
		if f == nil {
			c.Oblige("X.fullscan", false, token.NoPos, name, "function", "not found", nil)
			continue
		}
		// loop bodies
		inLoop := map[*ssa.BasicBlock]bool{}
		for _, b := range f.Blocks {
			for _, s := range b.Succs {
				if s.Dominates(b) {
					stack := []*ssa.BasicBlock{b}
					inLoop[s] = true
					for len(stack) > 0 {
						n := stack[len(stack)-1]
						stack = stack[:len(stack)-1]
						if inLoop[n] && n != b {
							continue
						}
						inLoop[n] = true
						stack = append(stack, n.Preds...)
					}
				}
			}
		}
		n := 0
		for _, b := range f.Blocks {
			if b == f.Recover {
				continue
			}
			r, ok := b.Instrs[len(b.Instrs)-1].(*ssa.Return)
			if !ok || len(r.Results) == 0 {
				continue
			}
			if isFailureReturnLoose(f, r) {
				continue
			}
			// a success return: its block must not be reachable only from inside the loop body without passing the loop exit.
			// go/ssa places "return" blocks reached from inside a loop outside the natural loop; decide by dominance:
			// the return must be dominated by the loop header's exit edge (header -> block outside loop).
			okRet := true
			for h := range inLoop {
				isHeader := false
				for _, pr := range h.Preds {
					if h.Dominates(pr) {
						isHeader = true
					}
				}
				if !isHeader || !h.Dominates(b) {
					continue
				}
				// find the header's exit successor
				exitOK := false
				for _, s := range h.Succs {
					if !inLoop[s] && (s == b || s.Dominates(b)) {
						exitOK = true
					}
				}
				if !exitOK {
					okRet = false
				}
			}
			n++
			c.Oblige("X.fullscan", okRet, r.Pos(), name, "success return only after the field loop has consumed the whole input",
				"fields may appear in any order and unknown fields anywhere: a reader that returns success from inside the field loop stops decoding the fields that follow", nil)
		}
	}
	c.Floor("X.fullscan", 7)
}

// ---------------------------------------------------------------------------
// T.ptr-tag: the pointer case looks its target up with the same tag.

func rulePtrTag(c *Ctx) {
	p := c.P
	fn, ks := p.kindSwitch()
	if ks == nil {
		c.Oblige("T.ptr-tag", false, token.NoPos, "plenc.Plenc.CodecForTypeRegistry", "kind switch", "not found", nil)
		return
	}
	info := fn.Pkg.TypesInfo
	params := paramObjs(info, fn.Decl)
	var tagParam types.Object
	for _, po := range params {
		if po != nil && po.Name() == "tag" {
			tagParam = po
		}
	}
	found := false
	for _, st := range ks.Body.List {
		cc := st.(*ast.CaseClause)
		isPtr := false
		for _, e := range cc.List {
			if v, ok := constInt(info, e); ok && v == 22 { // reflect.Ptr
				isPtr = true
			}
		}
		if !isPtr {
			continue
		}
		ast.Inspect(cc, func(n ast.Node) bool {
			call, ok := n.(*ast.CallExpr)
			if !ok {
				return true
			}
			sel, ok := call.Fun.(*ast.SelectorExpr)
			if !ok || sel.Sel.Name != "CodecForTypeRegistry" || len(call.Args) != 3 {
				return true
			}
			found = true
			id, isID := ast.Unparen(call.Args[2]).(*ast.Ident)
			c.Oblige("T.ptr-tag", isID && info.Uses[id] == tagParam, call.Pos(), fn.Name(), "pointer target looked up with the field's tag",
				"a codec registered for (type, tag) must be used when that type with that tag option is a pointer target: the pointer case must pass its own tag on", nil)
			return true
		})
	}
	if !found {
		c.Oblige("T.ptr-tag", false, ks.Pos(), fn.Name(), "pointer target looked up with the field's tag", "no recursive lookup in the pointer clause", nil)
	}
	c.Floor("T.ptr-tag", 1)
}

// ---------------------------------------------------------------------------
// T.key.pending: the overlay records (typ, tag, codec) as given and the flush
// republishes exactly the recorded triple.

func rulePendingKey(c *Ctx) {
	p := c.P
	fn := p.findFunc("plenccodec", "", "BuildStructCodec")
	if fn == nil {
		c.Oblige("T.key.pending", false, token.NoPos, "plenccodec.BuildStructCodec", "function", "not found", nil)
		return
	}
	info := fn.Pkg.TypesInfo
	n := 0
	ast.Inspect(fn.Decl.Body, func(x ast.Node) bool {
		rs, ok := x.(*ast.RangeStmt)
		if !ok {
			return true
		}
		vid, ok := rs.Value.(*ast.Ident)
		if !ok {
			return true
		}
		vobj := info.Defs[vid]
		ast.Inspect(rs.Body, func(y ast.Node) bool {
			call, ok := y.(*ast.CallExpr)
			if !ok {
				return true
			}
			sel, ok := call.Fun.(*ast.SelectorExpr)
			if !ok || (sel.Sel.Name != "StoreOrSwap" && sel.Sel.Name != "Store") || len(call.Args) != 3 {
				return true
			}
			n++
			good := true
			for i, want := range []string{"typ", "tag", "codec"} {
				s, isSel := ast.Unparen(call.Args[i]).(*ast.SelectorExpr)
				if !isSel || s.Sel.Name != want {
					good = false
					continue
				}
				id, isID := s.X.(*ast.Ident)
				if !isID || info.Uses[id] != vobj {
					good = false
				}
			}
			c.Oblige("T.key.pending", good, call.Pos(), fn.Name(), "held-back codecs are published under their own (typ, tag)",
				"a codec built during construction must be registered under exactly the (type, tag) it was built for; publishing it under another tag makes later lookups of that type return the wrong codec", nil)
			return true
		})
		return true
	})
	// the overlay's StoreOrSwap records its own parameters
	so := p.findFunc("plenccodec", "wrappedCodecRegistry", "StoreOrSwap")
	if sf := p.ssaFunc("plenccodec.wrappedCodecRegistry.StoreOrSwap"); so != nil && sf != nil && len(sf.Params) == 4 {
		// every store into a field of a pendingCodec puts the parameter of that
		// role there: typ <- 2nd, tag <- 3rd, codec <- 4th (however the entry is built)
		want := map[string]ssa.Value{"typ": sf.Params[1], "tag": sf.Params[2], "codec": sf.Params[3]}
		got := map[string]bool{}
		good := true
		for _, b := range sf.Blocks {
			for _, in := range b.Instrs {
				st, ok := in.(*ssa.Store)
				if !ok {
					continue
				}
				fa, ok := st.Addr.(*ssa.FieldAddr)
				if !ok || typeName(derefT(fa.X.Type())) != "pendingCodec" {
					continue
				}
				fnm := fieldName(fa)
				if w, ok := want[fnm]; ok {
					if st.Val == w {
						got[fnm] = true
					} else {
						good = false
					}
				}
			}
		}
		good = good && got["typ"] && got["tag"] && got["codec"]
		n++
		c.Oblige("T.key.pending", good, so.Decl.Pos(), so.Name(), "overlay records (typ, tag, codec) as given", "the overlay must remember the key it was asked to store under", nil)
	}
	c.Floor("T.key.pending", 2)
}

// ---------------------------------------------------------------------------
// T.nosort: field order is declaration order – nothing in the struct codec
// builder, the struct descriptor or the walker sorts or binary-searches fields.

func ruleNoSort(c *Ctx) {
	p := c.P
	for _, name := range []string{"plenccodec.BuildStructCodec", "plenccodec.StructCodec.Descriptor", "plenccodec.StructCodec.append", "plenccodec.StructCodec.size",
		"plenccodec.Descriptor.readAsStruct", "plenccodec.Descriptor.readAsMapEntry", "plenccodec.MapCodec.Descriptor"} {
		f := p.ssaFunc(name)
		if f == nil {
			c.Oblige("T.nosort", false, token.NoPos, name, "function", "not found", nil)
			continue
		}
		bad := ""
		for _, g := range p.closure([]*ssa.Function{f}, func(x *ssa.Function) bool { return isBuildFunc(x) && x != f }) {
			for _, b := range g.Blocks {
				for _, in := range b.Instrs {
					if call, ok := in.(*ssa.Call); ok {
						if cal := call.Common().StaticCallee(); cal != nil && cal.Pkg != nil {
							if pk := cal.Pkg.Pkg.Path(); pk == "sort" || pk == "slices" {
								bad = cal.String()
							}
						}
					}
				}
			}
		}
		c.Oblige("T.nosort", bad == "", f.Pos(), name, "no sorting or binary search over fields",
			"fields are encoded, described and looked up in declaration order by their own index; sorting them or assuming sorted order ("+bad+") changes the bytes or drops fields of structs whose indexes are not ascending", nil)
	}
	c.Floor("T.nosort", 7)
	ruleWalkerLookup(c)
}

// ruleDescriptorBodyClosed: StructCodec.Descriptor does nothing but build the descriptor.
func ruleDescriptorBodyClosed(c *Ctx) {
	fn := c.P.findFunc("plenccodec", "StructCodec", "Descriptor")
	if fn == nil {
		return
	}
	extra := ""
	for _, st := range fn.Decl.Body.List {
		switch s := st.(type) {
		case *ast.DeclStmt, *ast.AssignStmt, *ast.RangeStmt, *ast.ReturnStmt:
		default:
			extra = c.P.str(s)
		}
	}
	c.Oblige("T.desc-struct", extra == "", fn.Decl.Pos(), fn.Name(), "Descriptor only declares, assigns, ranges over the fields and returns",
		"any further processing of the element list (reordering, filtering) breaks 'one element per encoded field, in declaration order': "+extra, nil)
}

// ---------------------------------------------------------------------------
// T.null.value: every success return of a null codec's Read is dominated by a
// write of the value (store to the value field, delegated Read into it, or SetValid).

func ruleNullValue(c *Ctx) {
	p := c.P
	for _, ct := range p.Codecs {
		if !strings.HasPrefix(ct.Name, "null.") {
			continue
		}
		f := p.SSA.FuncValue(ct.Methods["Read"].Fn)
		name := ssaFuncName(f)
		for _, b := range f.Blocks {
			r, ok := b.Instrs[len(b.Instrs)-1].(*ssa.Return)
			if !ok || isFailureReturnLoose(f, r) {
				continue
			}
			anchors := successAnchors(f, r)
			if len(anchors) == 0 {
				continue
			}
			wrote := true
			for _, a := range anchors {
				wroteA := false
				for _, d := range f.Blocks {
					if !(d == a || d.Dominates(a)) {
						continue
					}
					for _, in := range d.Instrs {
						switch x := in.(type) {
						case *ssa.Store:
							if fa, ok := x.Addr.(*ssa.FieldAddr); ok && fieldName(fa) != "Valid" {
								if rr := rootOf(x.Addr); rr.kind == rkParam && isPtrParam(f, rr.base) {
									wroteA = true
								}
							}
						case *ssa.Call:
							cc := x.Common()
							if cal := cc.StaticCallee(); cal != nil && cal.Name() == "SetValid" {
								wroteA = true
							}
							if cc.IsInvoke() || (cc.StaticCallee() != nil && cc.StaticCallee().Name() == "Read") {
								for _, ar := range cc.Args {
									if isUnsafePointer(ar.Type()) {
										if rr := rootOf(ar); rr.kind == rkParam && isPtrParam(f, rr.base) {
											wroteA = true
										}
									}
								}
							}
						}
					}
				}
				if !wroteA {
					wrote = false
				}
			}
			c.Oblige("T.null.value", wrote, r.Pos(), name, "success return writes the value",
				"a present value must overwrite whatever the (re-used) target held: every success path stores the decoded value, not only the Valid flag", nil)
		}
	}
	c.Floor("T.null.value", 6)
}

// ---------------------------------------------------------------------------
// plenctag: closed forms of the helper predicates

func ruleTagHelpers(c *Ctx) {
	p := c.P
	// isExcluded: early returns only affirm exclusion (constant true); the final return is false
	fn := p.findFunc("cmd/plenctag", "config", "isExcluded")
	if fn == nil {
		c.Oblige("G.excluded", false, token.NoPos, "cmd/plenctag.config.isExcluded", "function", "not found", nil)
	} else {
		ok, why := excludedIndependent(p)
		c.Oblige("G.excluded", ok, fn.Decl.Pos(), fn.Name(), "exclusion options are independent",
			"each of the sql/json options can only say 'excluded'; a key that is present but not \"-\" must not stop the other option from being consulted, and with no option set nothing is excluded: "+why, nil)
	}
	// the ast.Inspect callback always continues into children (nested struct types)
	var rf *ssa.Function
	for _, f := range plenctagFuncs(p) {
		if strings.HasPrefix(ssaFuncName(f), "cmd/plenctag.config.rewrite$") && f.Signature.Results().Len() == 1 && f.Signature.Params().Len() == 1 {
			if typeName(f.Signature.Params().At(0).Type()) == "Node" {
				rf = f
			}
		}
	}
	if rf == nil {
		c.Oblige("G.walkall", false, token.NoPos, "cmd/plenctag.config.rewrite", "inspect callback", "not found", nil)
	} else {
		good := true
		n := 0
		for _, b := range rf.Blocks {
			if r, ok := b.Instrs[len(b.Instrs)-1].(*ssa.Return); ok && len(r.Results) == 1 {
				n++
				cst, isC := r.Results[0].(*ssa.Const)
				if !isC || cst.Value == nil || cst.Value.ExactString() != "true" {
					good = false
				}
			}
		}
		c.Oblige("G.walkall", good && n > 0, rf.Pos(), ssaFuncName(rf), "the ast.Inspect callback always returns true",
			"struct types nest (anonymous structs in field types, function-local structs): returning false stops the walk below a node and leaves nested structs untagged", nil)
	}
	// first pass: the only ways round the max loop without reaching the update are 'no tag' and 'unparsable tag'
	if rf != nil {
		var maxPhi *ssa.Phi
		for _, b := range rf.Blocks {
			for _, in := range b.Instrs {
				if phi, ok := in.(*ssa.Phi); ok && phi.Comment == "maxPlenc" && maxPhi == nil {
					maxPhi = phi
				}
			}
		}
		good := maxPhi != nil
		why := ""
		if maxPhi != nil {
			h := maxPhi.Block()
			// loop body of the first loop
			body := map[*ssa.BasicBlock]bool{h: true}
			for _, pr := range h.Preds {
				if h.Dominates(pr) {
					stack := []*ssa.BasicBlock{pr}
					for len(stack) > 0 {
						n := stack[len(stack)-1]
						stack = stack[:len(stack)-1]
						if body[n] {
							continue
						}
						body[n] = true
						stack = append(stack, n.Preds...)
					}
				}
			}
			for bb := range body {
				if bb == h {
					continue
				}
				iff, ok := bb.Instrs[len(bb.Instrs)-1].(*ssa.If)
				if !ok {
					continue
				}
				okc := false
				if cmp, isCmp := iff.Cond.(*ssa.BinOp); isCmp {
					switch {
					case isNilConst(cmp.X) || isNilConst(cmp.Y):
						okc = true // f.Tag == nil, err != nil
					case cmp.X == ssa.Value(maxPhi) || cmp.Y == ssa.Value(maxPhi):
						okc = true // pl > maxPlenc
					}
				}
				if !okc {
					good = false
					why = "extra condition in the maximum scan: " + iff.Cond.String()
				}
			}
		}
		c.Oblige("G.twopass", good, rf.Pos(), ssaFuncName(rf), "the maximum scan sees every tagged field",
			"the first pass may skip a field only because it has no tag or its tag cannot be parsed; any other filter (e.g. unexported fields) lets new indexes collide with existing ones: "+why, nil)
	}
	_ = fmt.Sprint
}

// ---------------------------------------------------------------------------
// X.tightguard: a guard that rejects a length or count read from the data may
// only reject values that exceed the bytes remaining after the varint – a
// stricter guard turns away encodings the writer legitimately produces
// (e.g. an entry that ends exactly at the end of the data).

func ruleTightGuards(c *Ctx, B *Bound, filter func(name string) bool) {
	n := 0
	for _, f := range B.funcs {
		a := B.fa[f]
		if a == nil || (filter != nil && !filter(a.name)) {
			continue
		}
		a.pass()
		for _, b := range f.Blocks {
			iff, ok := b.Instrs[len(b.Instrs)-1].(*ssa.If)
			if !ok {
				continue
			}
			cmp, ok := iff.Cond.(*ssa.BinOp)
			if !ok {
				continue
			}
			switch cmp.Op {
			case token.GTR, token.GEQ, token.LSS, token.LEQ:
			default:
				continue
			}
			// which side is exactly a varint value read from the data?
			var x *ssa.Extract
			var call *ssa.Call
			for _, side := range []ssa.Value{cmp.X, cmp.Y} {
				if ex, ok := stripConv(side).(*ssa.Extract); ok && ex.Index == 0 {
					if cl, ok := ex.Tuple.(*ssa.Call); ok {
						if cal := cl.Common().StaticCallee(); cal != nil && (ssaFuncName(cal) == "plenccore.ReadVarUint") {
							x, call = ex, cl
						}
					}
				}
			}
			if x == nil {
				continue
			}
			// rejecting direction: the successor that returns an error
			rejIdx := -1
			for i, s := range b.Succs {
				if r, ok := s.Instrs[len(s.Instrs)-1].(*ssa.Return); ok && isFailureReturnLoose(f, r) {
					rejIdx = i
				}
			}
			if rejIdx < 0 {
				// with a deferred call the results are spilled and every return
				// goes through a common exit: the rejecting successor is the one
				// that makes an error value and goes straight to that exit
				makesErr := func(s *ssa.BasicBlock) bool {
					made := false
					for _, in := range s.Instrs {
						switch y := in.(type) {
						case *ssa.Call:
							if cal := y.Common().StaticCallee(); cal != nil && isErrorType(y.Type()) {
								made = true
							}
						case *ssa.MakeInterface:
							if isErrorType(y.Type()) {
								made = true
							}
						}
					}
					if !made {
						return false
					}
					switch t := s.Instrs[len(s.Instrs)-1].(type) {
					case *ssa.Return:
						return true
					case *ssa.Jump:
						nb := s.Succs[0]
						_, isRet := nb.Instrs[len(nb.Instrs)-1].(*ssa.Return)
						_ = t
						return isRet
					}
					return false
				}
				e0, e1 := makesErr(b.Succs[0]), makesErr(b.Succs[1])
				if e0 != e1 {
					rejIdx = 1
					if e0 {
						rejIdx = 0
					}
				}
			}
			if rejIdx < 0 {
				continue
			}
			// remaining bytes after the varint: len(S) - low - n
			arg := call.Common().Args[0]
			var rem Lin
			if sl, ok := arg.(*ssa.Slice); ok && sl.High == nil {
				low := linConst(0)
				if sl.Low != nil {
					low = a.lin(sl.Low)
				}
				r, ok := a.lenOfOperand(sl.X).sub(low)
				if !ok {
					continue
				}
				rem = r
			} else {
				rem = a.lenOf(arg)
			}
			var nres ssa.Value
			for _, r := range *call.Referrers() {
				if ex, ok := r.(*ssa.Extract); ok && ex.Index == 1 {
					nres = ex
				}
			}
			if nres == nil {
				continue
			}
			rem, ok = rem.sub(a.lin(nres))
			if !ok {
				continue
			}
			// facts: block facts + the condition in its rejecting direction
			a.edgeFacts = map[edgeKey][]Ineq{}
			a.condFacts(iff.Cond, rejIdx == 0, b, rejIdx, nil)
			extra := a.edgeFacts[edgeKey{b, rejIdx}]
			goal, okg := gt(a.lin(x), rem)
			proved := a.prove(b, extra, goal, okg)
			n++
			if os.Getenv("TIGHTDEBUG") != "" {
				fmt.Fprintln(os.Stderr, "tightguard", a.name, a.describe(cmp), proved, a.linString(goal.E), extra)
			}
			c.Oblige("X.tightguard", proved, iff.Cond.Pos(), a.name, "guard on "+a.describe(x)+" rejects only what does not fit: "+a.describe(cmp),
				"a length or count read from the data may be rejected only if it exceeds the bytes that remain after it ("+a.linString(rem)+"); a stricter test turns away valid encodings, e.g. a last entry that ends exactly at the end of the data", nil)
		}
		a.pass()
	}
	_ = n
}

// excludedIndependent decides isExcluded's shape by feasibility: with every
// option of the configuration forced on, a result that is not the constant
// true is reachable only after both the "sql" and the "json" key have been
// consulted; with every option forced off every result is the constant false.
func excludedIndependent(p *Prog) (bool, string) {
	f := p.ssaFunc("cmd/plenctag.config.isExcluded")
	if f == nil || len(f.Params) == 0 {
		return false, "function not found"
	}
	recv := f.Params[0]
	isOption := func(v ssa.Value) bool {
		if b, ok := v.Type().Underlying().(*types.Basic); !ok || b.Kind() != types.Bool {
			return false
		}
		switch x := v.(type) {
		case *ssa.Field:
			return x.X == recv
		case *ssa.UnOp:
			if fa, ok := x.X.(*ssa.FieldAddr); ok && x.Op == token.MUL {
				if fa.X == recv {
					return true
				}
				// value receiver spilled to a local
				if al, ok := fa.X.(*ssa.Alloc); ok {
					for _, r := range *al.Referrers() {
						if st, ok := r.(*ssa.Store); ok && st.Addr == al && st.Val == recv {
							return true
						}
					}
				}
			}
		}
		return false
	}
	consult := map[string]map[*ssa.BasicBlock]bool{"sql": {}, "json": {}}
	for _, b := range f.Blocks {
		for _, in := range b.Instrs {
			call, ok := in.(ssa.CallInstruction)
			if !ok {
				continue
			}
			for _, a := range call.Common().Args {
				if k, ok := a.(*ssa.Const); ok && k.Value != nil && k.Value.Kind() == constant.String {
					if m := consult[constant.StringVal(k.Value)]; m != nil {
						m[b] = true
					}
				}
			}
		}
	}
	for _, key := range []string{"sql", "json"} {
		if len(consult[key]) == 0 {
			return false, "the " + key + " key is never consulted"
		}
	}
	force := func(val bool) *feas {
		return feasibleUnder(f, func(v ssa.Value) (constant.Value, bool) {
			if isOption(v) {
				return constant.MakeBool(val), true
			}
			return nil, false
		})
	}
	// results reachable from the entry through feasible edges, not passing a block of avoid
	results := func(fe *feas, avoid map[*ssa.BasicBlock]bool) []ssa.Value {
		var out []ssa.Value
		seen := map[*ssa.BasicBlock]bool{}
		via := map[[2]*ssa.BasicBlock]bool{}
		var walk func(b *ssa.BasicBlock)
		walk = func(b *ssa.BasicBlock) {
			if seen[b] || avoid[b] {
				return
			}
			seen[b] = true
			for _, sc := range b.Succs {
				if fe.feasible[[2]*ssa.BasicBlock{b, sc}] {
					via[[2]*ssa.BasicBlock{b, sc}] = true
					walk(sc)
				}
			}
		}
		walk(f.Blocks[0])
		var expand func(v ssa.Value, depth int)
		expand = func(v ssa.Value, depth int) {
			if ph, ok := v.(*ssa.Phi); ok && depth < 6 {
				for i, e := range ph.Edges {
					if via[[2]*ssa.BasicBlock{ph.Block().Preds[i], ph.Block()}] && !avoid[ph.Block()] {
						expand(e, depth+1)
					}
				}
				return
			}
			out = append(out, v)
		}
		for b := range seen {
			if ret, ok := b.Instrs[len(b.Instrs)-1].(*ssa.Return); ok && len(ret.Results) == 1 {
				expand(ret.Results[0], 0)
			}
		}
		return out
	}
	isConstBool := func(v ssa.Value, want bool) bool {
		k, ok := v.(*ssa.Const)
		return ok && k.Value != nil && k.Value.Kind() == constant.Bool && constant.BoolVal(k.Value) == want
	}
	on := force(true)
	if !on.sawLeaf {
		return false, "no option of the configuration is tested"
	}
	for _, key := range []string{"sql", "json"} {
		for _, v := range results(on, consult[key]) {
			if !isConstBool(v, true) {
				return false, "with every option on, a result other than true is reached without consulting the " + key + " key"
			}
		}
	}
	off := force(false)
	for _, v := range results(off, nil) {
		if !isConstBool(v, false) {
			return false, "with every option off, a result other than false is reachable"
		}
	}
	return true, "decided under forced options"
}
