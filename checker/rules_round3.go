package main

import (
	"fmt"
	"go/ast"
	"go/constant"
	"go/token"
	"go/types"
	"reflect"
	"strings"

	"golang.org/x/tools/go/analysis"
	"golang.org/x/tools/go/analysis/checker"
	"golang.org/x/tools/go/analysis/passes/nilness"
	"golang.org/x/tools/go/ssa"
)

// ---------------------------------------------------------------------------
// B.nilderef: no dereference on a path where the pointer is known to be nil
// (x/tools' nilness facts, restricted to the functions of the given closure).

func ruleNilDeref(c *Ctx, funcs []*ssa.Function, label string) {
	p := c.P
	g, err := checker.Analyze([]*analysis.Analyzer{nilness.Analyzer}, p.Pkgs, nil)
	if err != nil {
		c.Oblige("B.nilderef", false, token.NoPos, label, "nilness analysis", "cannot run: "+err.Error(), nil)
		return
	}
	// position ranges of the closure's functions
	type rng struct {
		lo, hi token.Pos
		name   string
	}
	var rs []rng
	for _, f := range funcs {
		if syn := f.Syntax(); syn != nil {
			rs = append(rs, rng{syn.Pos(), syn.End(), ssaFuncName(f)})
		}
	}
	n := 0
	for _, act := range g.Roots {
		if act.Err != nil {
			c.Oblige("B.nilderef", false, token.NoPos, label, "nilness analysis of "+act.Package.PkgPath, act.Err.Error(), nil)
			continue
		}
		for _, d := range act.Diagnostics {
			if !strings.Contains(d.Message, "nil dereference") && !strings.Contains(d.Message, "nil pointer") {
				continue
			}
			for _, r := range rs {
				if d.Pos >= r.lo && d.Pos < r.hi {
					n++
					c.Oblige("B.nilderef", false, d.Pos, r.name, d.Message, "on this path the pointer has just been tested to be nil (or is the nil constant): the operation panics instead of returning an error", nil)
				}
			}
		}
	}
	// count one discharged obligation per analysed function (no finding inside it)
	st := c.rule("B.nilderef")
	st.Count += len(rs)
	st.Discharged += len(rs)
	c.Floor("B.nilderef", 50)
}

// ---------------------------------------------------------------------------
// X.growth: a backing array that is re-allocated while elements are appended
// one at a time must grow geometrically (amortised-linear allocation), and the
// old elements must be copied into a destination of the old length.

func ruleGrowth(c *Ctx) {
	p := c.P
	n := 0
	for _, f := range p.inputFuncs() {
		name := ssaFuncName(f)
		for _, b := range f.Blocks {
			for _, in := range b.Instrs {
				call, ok := in.(*ssa.Call)
				if !ok {
					continue
				}
				cal := call.Common().StaticCallee()
				if cal == nil {
					continue
				}
				switch cal.Name() {
				case "unsafe_NewArray":
					size := call.Common().Args[1]
					capLoad := findCapLoad(size, 0)
					if capLoad == nil {
						continue // sized from the input: B.alloc's business
					}
					n++
					okg, why := geometric(size, capLoad, 0)
					c.Oblige("X.growth", okg, call.Pos(), name, "re-allocation grows the capacity geometrically",
						"appending one element per repeated field into an array that grows by a constant makes allocation quadratic in the input; the new capacity must be a multiple (>= 2x) of the old one (or a constant when it was 0): "+why, nil)
				case "typedslicecopy":
					// dst header: local struct whose Len field was stored from the source header's Len
					n++
					dst := call.Common().Args[1]
					ok2 := false
					if ld, isLd := dst.(*ssa.UnOp); isLd {
						if al, isAl := ld.X.(*ssa.Alloc); isAl {
							for _, r := range *al.Referrers() {
								fa, isFA := r.(*ssa.FieldAddr)
								if !isFA || fieldName(fa) != "Len" {
									continue
								}
								for _, rr := range *fa.Referrers() {
									if st, isSt := rr.(*ssa.Store); isSt {
										if sl, isL := st.Val.(*ssa.UnOp); isL {
											if sfa, isF := sl.X.(*ssa.FieldAddr); isF && fieldName(sfa) == "Len" && typeName(deref(sfa.X.Type())) == "sliceHeader" {
												// the store must precede the call
												if st.Block() == call.Block() || st.Block().Dominates(call.Block()) {
													ok2 = true
												}
											}
										}
									}
								}
							}
						}
					}
					c.Oblige("X.growth", ok2, call.Pos(), name, "old elements copied into a destination of the old length",
						"typedslicecopy copies min(len(dst), len(src)) elements: the new header must carry the old length before the copy or the elements decoded so far are lost when the array is re-allocated", nil)
				}
			}
		}
	}
	c.Floor("X.growth", 4)
}

func findCapLoad(v ssa.Value, depth int) ssa.Value {
	if depth > 8 || v == nil {
		return nil
	}
	switch x := v.(type) {
	case *ssa.UnOp:
		if x.Op == token.MUL {
			if fa, ok := x.X.(*ssa.FieldAddr); ok && typeName(deref(fa.X.Type())) == "sliceHeader" && (fieldName(fa) == "Cap" || fieldName(fa) == "Len") {
				return x
			}
		}
	case *ssa.BinOp:
		if r := findCapLoad(x.X, depth+1); r != nil {
			return r
		}
		return findCapLoad(x.Y, depth+1)
	case *ssa.Convert:
		return findCapLoad(x.X, depth+1)
	case *ssa.Phi:
		for _, e := range x.Edges {
			if r := findCapLoad(e, depth+1); r != nil {
				return r
			}
		}
	}
	return nil
}

// geometric: v is cap*k (k>=2), possibly through conversions, or a phi of
// such a value and constants.
func geometric(v ssa.Value, capLoad ssa.Value, depth int) (bool, string) {
	if depth > 8 {
		return false, "too deep"
	}
	switch x := v.(type) {
	case *ssa.Const:
		return true, ""
	case *ssa.Convert:
		return geometric(x.X, capLoad, depth+1)
	case *ssa.BinOp:
		if x.Op == token.MUL {
			for _, pair := range [][2]ssa.Value{{x.X, x.Y}, {x.Y, x.X}} {
				if cst, ok := pair[1].(*ssa.Const); ok {
					if k, ok := constBig(cst); ok && k.Int64() >= 2 && findCapLoad(pair[0], 0) != nil {
						return true, ""
					}
				}
			}
		}
		if x.Op == token.SHL {
			if cst, ok := x.Y.(*ssa.Const); ok {
				if k, ok := constBig(cst); ok && k.Int64() >= 1 && findCapLoad(x.X, 0) != nil {
					return true, ""
				}
			}
		}
		return false, "new capacity is " + x.String()
	case *ssa.Phi:
		for _, e := range x.Edges {
			if ok, why := geometric(e, capLoad, depth+1); !ok {
				return false, why
			}
		}
		return true, ""
	}
	return false, "new capacity is " + v.String()
}

// ---------------------------------------------------------------------------
// T.walker-out: each scalar clause of the walker decodes into a local of the
// right Go type and emits through the matching Outputter method.

var walkerOutSpec = map[string][2]string{
	"FieldTypeInt":     {"int64", "Int64"},
	"FieldTypeFlatInt": {"int64|time.Time", "Int64|Time"},
	"FieldTypeUint":    {"uint64", "Uint64"},
	"FieldTypeFloat32": {"float32", "Float32"},
	"FieldTypeFloat64": {"float64", "Float64"},
	"FieldTypeString":  {"string", "String"},
	"FieldTypeBool":    {"bool", "Bool"},
	"FieldTypeTime":    {"time.Time", "Time"},
}

func ruleWalkerOut(c *Ctx) {
	p := c.P
	read := p.findFunc("plenccodec", "Descriptor", "read")
	if read == nil {
		return
	}
	info := read.Pkg.TypesInfo
	sw := fieldTypeSwitch(p, read)
	if sw == nil {
		return
	}
	for _, st := range sw.Body.List {
		cc := st.(*ast.CaseClause)
		for _, e := range cc.List {
			ft := constName(info, e)
			spec, ok := walkerOutSpec[ft]
			if !ok {
				continue
			}
			var locals, outs []string
			// decode targets: locals whose address is taken (n and err of an
			// inlined helper are plain result variables)
			addrTaken := map[types.Object]bool{}
			ast.Inspect(cc, func(n ast.Node) bool {
				if u, ok := n.(*ast.UnaryExpr); ok && u.Op == token.AND {
					if id, ok := ast.Unparen(u.X).(*ast.Ident); ok {
						addrTaken[info.Uses[id]] = true
					}
				}
				return true
			})
			ast.Inspect(cc, func(n ast.Node) bool {
				switch x := n.(type) {
				case *ast.ValueSpec:
					target := false
					for _, nm := range x.Names {
						if addrTaken[info.Defs[nm]] {
							target = true
						}
					}
					if x.Type != nil && target {
						locals = append(locals, typeStr(info.TypeOf(x.Type)))
					}
				case *ast.CallExpr:
					if sel, ok := x.Fun.(*ast.SelectorExpr); ok {
						if id, ok := sel.X.(*ast.Ident); ok && id.Name == "out" {
							outs = append(outs, sel.Sel.Name)
						}
					}
				}
				return true
			})
			good := len(locals) > 0 && len(locals) == len(outs)
			allowedT := strings.Split(spec[0], "|")
			allowedO := strings.Split(spec[1], "|")
			for i := range locals {
				okT, okO := false, false
				for j, a := range allowedT {
					if a == locals[i] {
						okT = true
						if i < len(outs) && j < len(allowedO) && allowedO[j] == outs[i] {
							okO = true
						}
					}
				}
				if !okT || !okO {
					good = false
				}
			}
			c.Oblige("T.walker-out", good, cc.Pos(), read.Name(), fmt.Sprintf("case %s decodes into %s and emits %s", ft, spec[0], spec[1]),
				fmt.Sprintf("the rendered value must have the Go type and Outputter method of the field type (a flat int is signed, a float32 is not widened before formatting …): found locals %v, output calls %v", locals, outs), nil)
		}
	}
	c.Floor("T.walker-out", 8)
}

// ---------------------------------------------------------------------------
// T.desc-tags: the Descriptor type survives its own plenc and JSON round trip:
// every field has a distinct plenc index and a distinct JSON name.

func ruleDescriptorTags(c *Ctx) {
	p := c.P
	cpk := p.pkg("plenccodec")
	obj := cpk.Types.Scope().Lookup("Descriptor")
	if obj == nil {
		c.Oblige("T.desc-tags", false, token.NoPos, "plenccodec.Descriptor", "type", "not found", nil)
		return
	}
	st, ok := obj.Type().Underlying().(*types.Struct)
	if !ok {
		return
	}
	plencSeen, jsonSeen := map[string]string{}, map[string]string{}
	for i := 0; i < st.NumFields(); i++ {
		f := st.Field(i)
		tag := reflect.StructTag(st.Tag(i))
		pl := tag.Get("plenc")
		idx := strings.Split(pl, ",")[0]
		okp := pl != "" && pl != "-" && plencSeen[idx] == ""
		plencSeen[idx] = f.Name()
		jn := f.Name()
		if jt, has := tag.Lookup("json"); has {
			if name := strings.Split(jt, ",")[0]; name != "" {
				jn = name
			}
		}
		okj := jn != "-" && jsonSeen[jn] == "" && f.Exported()
		prev := jsonSeen[jn]
		jsonSeen[jn] = f.Name()
		c.Oblige("T.desc-tags", okp && okj, f.Pos(), "plenccodec.Descriptor", "field "+f.Name()+" has its own plenc index and JSON name",
			fmt.Sprintf("a descriptor must be identical after being serialised and restored through plenc or encoding/json: plenc tag %q (unique: %v), JSON name %q (clashes with %q)", pl, okp, jn, prev), nil)
	}
	c.Floor("T.desc-tags", 7)
}

// ---------------------------------------------------------------------------
// T.reg.desc: a registration row's codec reports the field type that the
// (Go type, tag option) pair stands for.

func ruleRegDescriptor(c *Ctx) {
	p := c.P
	for _, r := range p.registrationRows() {
		if r.GoType == nil {
			continue
		}
		if _, isIface := r.Codec.Underlying().(*types.Interface); isIface {
			continue
		}
		nt := namedOf(r.Codec)
		if nt == nil {
			continue
		}
		var ct *CodecType
		for _, o := range p.Codecs {
			if o.Named == nt.Origin() {
				ct = o
			}
		}
		if ct == nil {
			continue
		}
		ft, _ := p.resolveDescType(ct, 0)
		want := ""
		switch r.Tag {
		case "flat":
			want = "FieldTypeFlatInt"
		case "intern":
			want = "FieldTypeString"
		case "":
			if b, ok := r.GoType.Underlying().(*types.Basic); ok {
				switch {
				case b.Info()&types.IsUnsigned != 0:
					want = "FieldTypeUint"
				case b.Info()&types.IsInteger != 0:
					want = "FieldTypeInt"
				case b.Kind() == types.Float32:
					want = "FieldTypeFloat32"
				case b.Kind() == types.Float64:
					want = "FieldTypeFloat64"
				case b.Info()&types.IsString != 0:
					want = "FieldTypeString"
				case b.Info()&types.IsBoolean != 0:
					want = "FieldTypeBool"
				}
			} else if isByteSlice(r.GoType) {
				want = "FieldTypeString"
			} else if typeStr(r.GoType) == "time.Time" {
				want = "FieldTypeTime"
			}
		}
		if want == "" {
			continue
		}
		c.Oblige("T.reg.desc", ft == want, r.Call.Pos(), r.In.Name(), fmt.Sprintf("%s[%q] is described as %s", typeStr(r.GoType), r.Tag, want),
			fmt.Sprintf("the codec registered for this (type, tag) must report the field type the descriptor documents for it; %s reports %s", ct.Name, ft), nil)
	}
	c.Floor("T.reg.desc", 23)
}

// ---------------------------------------------------------------------------
// J.rawstring: only Raw may append a caller-supplied string verbatim.

func ruleJSONRawString(c *Ctx) {
	p := c.P
	pk := p.pkg("plenccodec")
	n := 0
	for obj, decl := range p.FuncDecl {
		if p.DeclPkg[obj] != pk || decl.Body == nil {
			continue
		}
		r := obj.Type().(*types.Signature).Recv()
		if r == nil || typeName(r.Type()) != "JSONOutput" {
			continue
		}
		info := pk.TypesInfo
		params := map[types.Object]bool{}
		for _, po := range paramObjs(info, decl) {
			if po != nil {
				if b, ok := po.Type().Underlying().(*types.Basic); ok && b.Info()&types.IsString != 0 {
					params[po] = true
				}
			}
		}
		if esc := p.jsonEscaper(); len(params) == 0 || (esc != nil && obj == esc.Obj) {
			continue
		}
		n++
		bad := ""
		ast.Inspect(decl.Body, func(x ast.Node) bool {
			call, ok := x.(*ast.CallExpr)
			if !ok {
				return true
			}
			if id, ok := call.Fun.(*ast.Ident); ok && id.Name == "append" && call.Ellipsis.IsValid() && len(call.Args) == 2 {
				if a, ok := ast.Unparen(call.Args[1]).(*ast.Ident); ok && params[info.Uses[a]] {
					bad = "append(…, " + a.Name + "...)"
				}
			}
			return true
		})
		if obj.Name() == "Raw" {
			c.Oblige("J.rawstring", true, decl.Pos(), funcName(obj), "Raw is the only verbatim writer", "Raw is documented to write its argument unescaped", nil)
			continue
		}
		branch := false
		ast.Inspect(decl.Body, func(x ast.Node) bool {
			switch x.(type) {
			case *ast.IfStmt, *ast.SwitchStmt, *ast.ForStmt:
				branch = true
			}
			return true
		})
		c.Oblige("J.rawstring", bad == "" && !branch, decl.Pos(), funcName(obj), "strings and names always go through the escaper",
			"every byte of a string or field name must pass through appendString (which is proved to escape all 256 byte values); a fast path that copies the string verbatim under some condition lets unescaped bytes through: "+bad, nil)
	}
	c.Floor("J.rawstring", 3)
}

// ---------------------------------------------------------------------------
// S.spec.omit: what each codec omits is part of the format.

func ruleOmitSpec(c *Ctx) {
	p := c.P
	load := func(t *T) bool { return mentions(t, "ptr") }
	spec := map[string]func(o *T) bool{
		"zero":     func(o *T) bool { return o.Op == "iszero" && load(o.A[0]) },
		"false":    func(o *T) bool { return o.Op == "k" && o.K == "false" },
		"notbool":  func(o *T) bool { return o.Op == "not" && load(o.A[0]) && o.A[0].Op == "deref" },
		"empty":    func(o *T) bool { return o.Op == "not" && o.A[0].Op == "nonempty" && load(o.A[0].A[0]) },
		"nilptr":   func(o *T) bool { return o.Op == "isnil" && load(o.A[0]) },
		"nilself":  func(o *T) bool { return o.Op == "isnil" && eq(o.A[0], tVar("ptr")) },
		"iszero()": func(o *T) bool { return o.Op == "call" && strings.HasSuffix(o.K, "IsZero") && load(o) },
		"notvalid": func(o *T) bool {
			return o.Op == "not" && strings.Contains(o.A[0].String(), "field{Valid}") && load(o.A[0])
		},
		"nilorempty": func(o *T) bool {
			return o.Op == "or" && o.A[0].Op == "isnil" && eq(o.A[0].A[0], tVar("ptr")) && o.A[1].Op == "not" && o.A[1].A[0].Op == "nonempty"
		},
		"lenzero": func(o *T) bool {
			return o.Op == "iszero" && strings.Contains(o.A[0].String(), "field{Len}") && load(o.A[0])
		},
	}
	want := map[string]string{
		"plenccodec.IntCodec": "zero", "plenccodec.UintCodec": "zero", "plenccodec.FlatIntCodec": "zero",
		"plenccodec.Float32Codec": "zero", "plenccodec.Float64Codec": "zero", "plenccodec.BoolCodec": "notbool",
		"plenccodec.StringCodec": "empty", "plenccodec.BytesCodec": "empty", "plenccodec.InternedStringCodec": "empty",
		"plenccodec.TimeCodec": "iszero()", "plenccodec.TimeCompatCodec": "iszero()", "plenccodec.BQTimestampCodec": "iszero()",
		"plenccodec.StructCodec": "false", "plenccodec.PointerWrapper": "nilptr",
		"plenccodec.WTVarIntSliceWrapper": "lenzero", "plenccodec.WTFixedSliceWrapper": "lenzero", "plenccodec.WTLengthSliceWrapper": "lenzero", "plenccodec.ProtoSliceWrapper": "lenzero",
		"plenccodec.MapCodec": "nilself", "plenccodec.ProtoMapCodec": "nilself", "plenccodec.JSONMapCodec": "nilself", "plenccodec.JSONArrayCodec": "nilorempty",
		"null.nullIntCodec": "notvalid", "null.nullBoolCodec": "notvalid", "null.nullFloatCodec": "notvalid", "null.nullStringCodec": "notvalid",
		"null.internedNullStringCodec": "notvalid", "null.nullTimeCodec": "notvalid",
	}
	for _, ct := range p.Codecs {
		w, ok := want[ct.Name]
		pos := ct.Methods["Omit"].Fn.Pos()
		if !ok {
			if p.codecUnreachable(ct) {
				c.Note("S.spec.omit: %s is not in the omission table and not used by the module - skipped", ct.Name)
				continue
			}
			c.Oblige("S.spec.omit", false, pos, ct.Name, "omission rule", "new codec type without an entry in the omission table: needs classification", nil)
			continue
		}
		E := newEmit(p)
		o := E.funcTerm(ct.Methods["Omit"].Fn, ct.Name+".Omit")
		if len(E.undecided) > 0 {
			c.Oblige("S.spec.omit", false, pos, ct.Name, "omission rule", "cannot summarise Omit: "+strings.Join(E.undecided, "; "), nil)
			continue
		}
		c.Oblige("S.spec.omit", spec[w](o), pos, ct.Name, "omits exactly: "+w,
			"the documented format omits zero-valued plain fields, nil pointers, nil maps and empty slices and nothing else (a struct is always written, a null value is omitted when invalid): Omit evaluates to "+o.String(), nil)
	}
	c.Floor("S.spec.omit", 26)
}

// ---------------------------------------------------------------------------
// X.rejects: closed world of rejection reasons. A decoder may turn input away
// only for one of the enumerated reasons; any other error return needs
// classification (it may reject encodings the writer produces).

func ruleRejects(c *Ctx, B *Bound, filter func(name string) bool) {
	for _, f := range B.funcs {
		a := B.fa[f]
		if a == nil || recvTypeName(f) == "JSONOutput" || (filter != nil && !filter(a.name)) {
			continue
		}
		// only readers: functions with a []byte parameter and an error result
		rs := resultTypes(f)
		if len(rs) == 0 || !isErrorType(rs[len(rs)-1]) {
			continue
		}
		hasData := false
		for _, prm := range f.Params {
			if isByteSlice(prm.Type()) {
				hasData = true
			}
		}
		if !hasData {
			continue
		}
		for _, b := range f.Blocks {
			ret, ok := b.Instrs[len(b.Instrs)-1].(*ssa.Return)
			if !ok || b == f.Recover {
				continue
			}
			e := ret.Results[len(ret.Results)-1]
			call, isCall := e.(*ssa.Call)
			if !isCall {
				continue // propagation of a callee's error / nil
			}
			cal := call.Common().StaticCallee()
			if cal == nil || (cal.String() != "fmt.Errorf" && cal.String() != "errors.New") {
				continue
			}
			// the branch that leads here
			reason, okr := a.rejectionReason(b)
			c.Oblige("X.rejects", okr, ret.Pos(), a.name, "error return justified by: "+reason,
				"a decoder may reject input only for an enumerated reason (truncated/overflowing varint, length or count exceeding the remaining bytes, fixed-width value cut short, unknown wire type / type code / element type, callee error, nil target); any other validation may turn away encodings the writer legitimately produces and needs classification", nil)
		}
	}
	c.Floor("X.rejects", 40)
}

// rejectionReason classifies the condition under which block b (an error
// return) is entered.
func (a *fnA) rejectionReason(b *ssa.BasicBlock) (string, bool) {
	// walk up single-predecessor chain to the deciding If (error blocks may be shared by || conditions)
	if len(b.Preds) == 0 {
		return "entry", false
	}
	allOK := true
	var reasons []string
	for _, pred := range b.Preds {
		iff, ok := pred.Instrs[len(pred.Instrs)-1].(*ssa.If)
		if !ok {
			// switch default / fallthrough blocks: jump from a chain of comparisons
			reasons = append(reasons, "default clause")
			continue
		}
		truth := pred.Succs[0] == b
		r, ok := a.classifyCond(iff.Cond, truth, pred)
		reasons = append(reasons, r)
		if !ok {
			allOK = false
		}
	}
	return strings.Join(uniq(reasons), " / "), allOK
}

func (a *fnA) classifyCond(cond ssa.Value, truth bool, blk *ssa.BasicBlock) (string, bool) {
	switch x := cond.(type) {
	case *ssa.Phi:
		// a flag set on several paths: every way it can have the rejecting value
		// must be an enumerated reason
		if a.condDepth > 4 {
			break
		}
		a.condDepth++
		defer func() { a.condDepth-- }()
		var reasons []string
		all := true
		n := 0
		for i, e := range x.Edges {
			if k, isK := e.(*ssa.Const); isK && k.Value != nil && k.Value.Kind() == constant.Bool {
				if constant.BoolVal(k.Value) != truth {
					continue
				}
				all = false // set unconditionally on this path: the path's own branch is the reason, not classified here
				reasons = append(reasons, "flag set to a constant on one path")
				continue
			}
			n++
			r, ok := a.classifyCond(e, truth, x.Block().Preds[i])
			reasons = append(reasons, r)
			if !ok {
				all = false
			}
		}
		if n > 0 {
			return strings.Join(uniq(reasons), " / "), all
		}
	case *ssa.Call:
		if cal := x.Common().StaticCallee(); cal != nil && cal.String() == "(reflect.Value).IsNil" {
			return "nil target", true
		}
	case *ssa.UnOp:
		if x.Op == token.NOT {
			return a.classifyCond(x.X, !truth, blk)
		}
	case *ssa.BinOp:
		// callee error
		if isNilConst(x.X) || isNilConst(x.Y) {
			v := x.X
			if isNilConst(v) {
				v = x.Y
			}
			if isErrorType(v.Type()) {
				// the error must come from the library's own readers (a module function
				// or a Codec method): an error produced by a validation routine from
				// elsewhere (strconv.ParseFloat, utf8.Valid ...) is a new way of turning
				// away input and needs classification like any other test
				if src := foreignErrorSource(v, 0); src != "" {
					return "error of " + src, false
				}
				return "callee error", true
			}
			if _, isPtr := v.Type().Underlying().(*types.Pointer); isPtr {
				return "nil pointer argument", true
			}
			return "nil test", true
		}
		if call, ok := stripConv(x.X).(*ssa.Call); ok {
			if cal := call.Common().StaticCallee(); cal != nil && cal.String() == "(reflect.Value).Kind" {
				return "target is not a pointer", true
			}
		}
		if isIntLike(x.X.Type()) {
			// varint result n compared with a small constant
			for _, side := range []ssa.Value{x.X, x.Y} {
				if ex, ok := stripConv(side).(*ssa.Extract); ok {
					if cl, ok := ex.Tuple.(*ssa.Call); ok {
						if cal := cl.Common().StaticCallee(); cal != nil {
							n := ssaFuncName(cal)
							if (n == "plenccore.ReadVarUint" || n == "plenccore.ReadVarInt") && ex.Index == 1 || (n == "plenccore.ReadTag" && ex.Index == 2) {
								return "truncated or overflowing varint", true
							}
							if n == "plenccore.ReadVarUint" && ex.Index == 0 {
								// against what is left of the data - not against a constant: "count == 0",
								// "length > 1000" turn away encodings the writer produces
								other := x.Y
								if stripConv(x.Y) == ssa.Value(ex) {
									other = x.X
								}
								if _, isK := stripConv(other).(*ssa.Const); isK {
									return "a decoded length/count compared with a constant", false
								}
								return "length/count exceeds the remaining bytes (tightness checked by X.tightguard)", true
							}
						}
					}
					// n of a nested reader (packed element made no progress)
					if cl, ok := ex.Tuple.(*ssa.Call); ok && ex.Index == 0 && isIntLike(ex.Type()) {
						if _, isC := x.Y.(*ssa.Const); isC {
							_ = cl
							return "element reader made no progress", true
						}
					}
				}
			}
			// len(data) < K : fixed-width value cut short
			lx, ly := a.lin(x.X), a.lin(x.Y)
			for _, pair := range [][2]Lin{{lx, ly}, {ly, lx}} {
				if len(pair[0].C) == 1 && pair[1].isConst() {
					for t := range pair[0].C {
						if a.terms[t].isLen && a.taint[a.terms[t].v] {
							return "fixed-width value cut short", true
						}
					}
				}
			}
			// loop index over the bytes of a varint (Skip): i > 9
			if _, isC := x.Y.(*ssa.Const); isC {
				if phi, isPhi := stripConv(x.X).(*ssa.BinOp); isPhi {
					_ = phi
					return "varint longer than 10 bytes", true
				}
				if _, isPhi := stripConv(x.X).(*ssa.Phi); isPhi {
					return "varint longer than 10 bytes", true
				}
			}
			// offset >= len(data) before reading an entry
			d, ok := lx.sub(ly)
			if ok && len(d.C) == 2 {
				hasLen, hasPhi := false, false
				for t := range d.C {
					if a.terms[t].isLen {
						hasLen = true
					}
					if _, isPhi := a.terms[t].v.(*ssa.Phi); isPhi {
						hasPhi = true
					}
					if _, isPrm := a.terms[t].v.(*ssa.Parameter); isPrm && !a.terms[t].isLen {
						hasPhi = true
					}
				}
				if hasLen && hasPhi && (x.Op == token.GEQ || x.Op == token.LSS || x.Op == token.GTR || x.Op == token.LEQ) {
					return "entry starts beyond the end of the data", true
				}
			}
			// type code / wire type / field type comparisons (switch lowered to ==)
			if x.Op == token.EQL || x.Op == token.NEQ {
				if _, isC := x.Y.(*ssa.Const); isC {
					if x.Op == token.EQL && !truth || x.Op == token.NEQ && truth {
						return "unknown wire type / type code / element type", true
					}
					return "equality with a constant selects the error", false
				}
				return "equality test between input-derived quantities", false
			}
		}
		return "condition " + a.describe(x), false
	}
	return "condition " + cond.String(), false
}

// ---------------------------------------------------------------------------
// plenctag: error before output, index parsed from the tag name

func ruleTagRun(c *Ctx) {
	p := c.P
	f := p.ssaFunc("cmd/plenctag.run")
	if f == nil {
		c.Oblige("G.errorfirst", false, token.NoPos, "cmd/plenctag.run", "function", "not found", nil)
	} else {
		var rewriteErr *ssa.Extract
		var formatCall *ssa.Call
		for _, b := range f.Blocks {
			for _, in := range b.Instrs {
				call, ok := in.(*ssa.Call)
				if !ok {
					continue
				}
				cal := call.Common().StaticCallee()
				if cal == nil {
					continue
				}
				switch cal.Name() {
				case "rewrite":
					for _, r := range *call.Referrers() {
						if ex, ok := r.(*ssa.Extract); ok && ex.Index == 1 {
							rewriteErr = ex
						}
					}
				case "format":
					formatCall = call
				}
			}
		}
		ok := false
		if rewriteErr != nil && formatCall != nil {
			// what can follow the rewrite call when its error is not nil: the
			// format call must not be among it, however the test is written
			fe := feasibleFrom(f, rewriteErr.Block(), true, func(v ssa.Value) (constant.Value, bool) {
				if v == rewriteErr {
					return feasNonNil, true
				}
				return nil, false
			})
			ok = !fe.reach[formatCall.Block()]
		}
		c.Oblige("G.errorfirst", ok, f.Pos(), "cmd/plenctag.run", "nothing is written when rewriting reported an error",
			"a file with a malformed tag is only partially numbered (the maximum scan skipped it): writing that result produces duplicate indexes; format must run only on the err == nil branch of rewrite", nil)
	}
	pv := p.findFunc("cmd/plenctag", "", "plencValue")
	if pv == nil {
		c.Oblige("G.plencvalue", false, token.NoPos, "cmd/plenctag.plencValue", "function", "not found", nil)
		return
	}
	info := pv.Pkg.TypesInfo
	good := false
	got := ""
	ast.Inspect(pv.Decl.Body, func(n ast.Node) bool {
		call, ok := n.(*ast.CallExpr)
		if !ok {
			return true
		}
		if cal := callee(info, call); isPkgFunc(cal, "strconv", "Atoi") && len(call.Args) == 1 {
			got = p.str(call.Args[0])
			if sel, ok := ast.Unparen(call.Args[0]).(*ast.SelectorExpr); ok && sel.Sel.Name == "Name" {
				if v, ok := usedObj(info, sel).(*types.Var); ok && v.IsField() {
					good = true
				}
			}
		}
		return true
	})
	c.Oblige("G.plencvalue", good, pv.Decl.Pos(), pv.Name(), "existing index parsed from the tag's name",
		"a plenc tag may carry options (\"2,intern\"): the existing index is the tag's Name, not its whole value; found Atoi("+got+")", nil)
}

// nonNilAtInverseVal: block b is dominated by the branch where v == nil.
func nonNilAtInverseVal(f *ssa.Function, v ssa.Value, b *ssa.BasicBlock) bool {
	for _, d := range f.Blocks {
		iff, ok := d.Instrs[len(d.Instrs)-1].(*ssa.If)
		if !ok {
			continue
		}
		cmp, ok := iff.Cond.(*ssa.BinOp)
		if !ok || !((cmp.X == v && isNilConst(cmp.Y)) || (cmp.Y == v && isNilConst(cmp.X))) {
			continue
		}
		idx := 1 // NEQ: false branch is nil
		if cmp.Op == token.EQL {
			idx = 0
		}
		if dominatedByBranch(d, idx, b) {
			return true
		}
	}
	return false
}

// ---------------------------------------------------------------------------
// T.intern-key: the intern table is looked up by the string itself.

func ruleInternKey(c *Ctx) {
	p := c.P
	n := 0
	for _, fn := range []string{"plenccodec.InternedStringCodec.Read", "plenccodec.InternedStringCodec.addString"} {
		f := p.ssaFunc(fn)
		if f == nil {
			c.Oblige("T.intern-key", false, token.NoPos, fn, "function", "not found", nil)
			continue
		}
		for _, b := range f.Blocks {
			for _, in := range b.Instrs {
				var m, key ssa.Value
				switch x := in.(type) {
				case *ssa.Lookup:
					m, key = x.X, x.Index
				case *ssa.MapUpdate:
					m, key = x.Map, x.Key
				default:
					continue
				}
				mt, ok := m.Type().Underlying().(*types.Map)
				if !ok {
					continue
				}
				n++
				kb, isB := mt.Key().Underlying().(*types.Basic)
				vb, isV := mt.Elem().Underlying().(*types.Basic)
				okT := isB && isV && kb.Kind() == types.String && vb.Kind() == types.String
				// the key is the whole input converted to a string, or a table string
				okK := false
				if cv, isC := key.(*ssa.Convert); isC {
					if prm, isP := cv.X.(*ssa.Parameter); isP && isByteSlice(prm.Type()) {
						okK = true
					}
				}
				if _, isMU := in.(*ssa.MapUpdate); isMU {
					okK = isB && kb.Kind() == types.String
				}
				if mu, isMU := in.(*ssa.MapUpdate); isMU {
					fromRange := func(v ssa.Value) bool {
						ex, ok := v.(*ssa.Extract)
						if !ok {
							return false
						}
						_, isNext := ex.Tuple.(*ssa.Next)
						return isNext
					}
					freshCopy := func(v ssa.Value) bool {
						cv, ok := v.(*ssa.Convert)
						if !ok {
							return false
						}
						prm, isP := cv.X.(*ssa.Parameter)
						return isP && isByteSlice(prm.Type())
					}
					if !fromRange(mu.Key) {
						c.Oblige("T.intern-copy", freshCopy(mu.Key) && freshCopy(mu.Value), in.Pos(), fn, "a new table entry is string(data)",
							"strings handed out by the table never change: the entry must be the immutable copy the conversion string(data) makes - bytes packed into a buffer the codec keeps (and may rewind, grow or re-use) are not", nil)
					}
				}
				c.Oblige("T.intern-key", okT && okK, in.Pos(), fn, "intern table keyed by the string itself",
					"an interned field must decode to exactly the strings it would produce without the option: the table must be a map[string]string looked up with string(data) - a hash or a prefix as key returns another string on a collision", nil)
			}
		}
	}
	c.Floor("T.intern-key", 3)
	c.Floor("T.intern-copy", 1)
}

// ---------------------------------------------------------------------------
// B.consumed: a reader that has read a leading varint reports at least those bytes.

func ruleConsumed(c *Ctx, B *Bound, filter func(name string) bool) {
	for _, f := range B.funcs {
		a := B.fa[f]
		if a == nil || (filter != nil && !filter(a.name)) {
			continue
		}
		ct := B.contracts[origin(f)]
		if ct == nil || !ct.hasErr {
			continue
		}
		if _, ok := readerShape(f); !ok {
			continue
		}
		a.pass()
		// leading varint reads: ReadVarUint/ReadTag directly on a []byte parameter (offset 0)
		var leads []*ssa.Call
		for _, b := range f.Blocks {
			for _, in := range b.Instrs {
				call, ok := in.(*ssa.Call)
				if !ok {
					continue
				}
				cal := call.Common().StaticCallee()
				if cal == nil {
					continue
				}
				n := ssaFuncName(cal)
				if n != "plenccore.ReadVarUint" && n != "plenccore.ReadVarInt" && n != "plenccore.ReadTag" {
					continue
				}
				if prm, ok := call.Common().Args[0].(*ssa.Parameter); ok && isByteSlice(prm.Type()) {
					leads = append(leads, call)
				}
			}
		}
		for _, lead := range leads {
			var nres ssa.Value
			for _, r := range *lead.Referrers() {
				if ex, ok := r.(*ssa.Extract); ok && isIntLike(ex.Type()) && ex.Index == len(resultTypes(lead.Common().StaticCallee()))-1 {
					nres = ex
				}
			}
			if nres == nil {
				continue
			}
			for _, site := range a.retSites() {
				st, extra := a.siteStatus(site, true)
				if st == retFailure {
					continue
				}
				if !(lead.Block() == site.block || lead.Block().Dominates(site.block)) {
					continue
				}
				if !isIntLike(site.vals[0].Type()) {
					continue
				}
				q, ok := geq(a.lin(site.vals[0]), a.lin(nres))
				proved := a.prove(site.block, extra, q, ok)
				c.Oblige("B.consumed", proved, site.ret.Pos(), a.name, fmt.Sprintf("return %s >= bytes of the leading varint", a.describe(site.vals[0])),
					"a reader that has consumed a leading count/length varint must report at least those bytes: returning less makes the enclosing reader re-interpret them as the next field", nil)
			}
		}
	}
	c.Floor("B.consumed", 8)
}

// ---------------------------------------------------------------------------
// X.setlen: whole-slice readers set the slice length on every path.

func ruleSetLen(c *Ctx) {
	p := c.P
	for _, name := range []string{"plenccodec.WTFixedSliceWrapper.Read", "plenccodec.WTVarIntSliceWrapper.Read", "plenccodec.WTLengthSliceWrapper.Read"} {
		f := p.ssaFunc(name)
		if f == nil {
			c.Oblige("X.setlen", false, token.NoPos, name, "function", "not found", nil)
			continue
		}
		san := map[*ssa.BasicBlock]bool{}
		for _, b := range f.Blocks {
			for _, in := range b.Instrs {
				switch x := in.(type) {
				case *ssa.Store:
					if fa, ok := x.Addr.(*ssa.FieldAddr); ok && fieldName(fa) == "Len" && typeName(deref(fa.X.Type())) == "sliceHeader" {
						san[b] = true
					}
					// whole-header store *h = sliceHeader{…} does not count: the branch that keeps the array must set Len too
				case *ssa.Call:
					if cal := x.Common().StaticCallee(); cal != nil && cal.Name() == "readAsWTLength" {
						san[b] = true
					}
				}
			}
		}
		bad := false
		seen := map[*ssa.BasicBlock]bool{}
		var visit func(b *ssa.BasicBlock)
		visit = func(b *ssa.BasicBlock) {
			if san[b] || seen[b] {
				return
			}
			seen[b] = true
			if r, ok := b.Instrs[len(b.Instrs)-1].(*ssa.Return); ok && !isFailureReturnLoose(f, r) {
				bad = true
			}
			for _, s := range b.Succs {
				visit(s)
			}
		}
		visit(f.Blocks[0])
		c.Oblige("X.setlen", !bad, f.Pos(), name, "every success path stores the decoded length into the slice header",
			"a decoded slice holds exactly the encoded elements: when the existing backing array is re-used (capacity suffices) the length must still be set, otherwise a longer target keeps its stale tail and a shorter one drops the decoded elements", nil)
	}
	c.Floor("X.setlen", 3)
}

// ---------------------------------------------------------------------------
// T.viaregistry: every codec placed inside another codec comes from a
// registry lookup (so a registration wins at every position).

func ruleViaRegistry(c *Ctx) {
	p := c.P
	var derived func(v ssa.Value, depth int) bool
	derived = func(v ssa.Value, depth int) bool {
		if depth > 8 || v == nil {
			return false
		}
		switch x := v.(type) {
		case *ssa.Extract:
			if call, ok := x.Tuple.(*ssa.Call); ok {
				cc := call.Common()
				name := ""
				if cc.IsInvoke() {
					name = cc.Method.Name()
				} else if sc := cc.StaticCallee(); sc != nil {
					name = sc.Name()
				}
				switch name {
				case "CodecForTypeRegistry", "codecForBasicType", "BuildStructCodec", "BuildMapCodec":
					return x.Index == 0
				}
			}
			if ta, ok := x.Tuple.(*ssa.TypeAssert); ok {
				return derived(ta.X, depth+1)
			}
		case *ssa.Call:
			cc := x.Common()
			if cc.IsInvoke() {
				switch cc.Method.Name() {
				case "WithInterning":
					return derived(cc.Value, depth+1)
				case "Load", "StoreOrSwap":
					return true
				}
			}
		case *ssa.Phi:
			for _, e := range x.Edges {
				if !derived(e, depth+1) {
					return false
				}
			}
			return true
		case *ssa.TypeAssert:
			return derived(x.X, depth+1)
		case *ssa.ChangeInterface:
			return derived(x.X, depth+1)
		case *ssa.UnOp:
			// load of a local that only ever stores derived values
			if al, ok := x.X.(*ssa.Alloc); ok {
				okAll, any := true, false
				for _, r := range *al.Referrers() {
					if st, ok := r.(*ssa.Store); ok && st.Addr == al {
						any = true
						if !derived(st.Val, depth+1) {
							okAll = false
						}
					}
				}
				return any && okAll
			}
		}
		return false
	}
	n := 0
	for _, fn := range []string{"plenc.Plenc.CodecForTypeRegistry", "plenccodec.BuildStructCodec", "plenccodec.BuildMapCodec"} {
		f := p.ssaFunc(fn)
		if f == nil {
			c.Oblige("T.viaregistry", false, token.NoPos, fn, "function", "not found", nil)
			continue
		}
		for _, b := range f.Blocks {
			for _, in := range b.Instrs {
				st, ok := in.(*ssa.Store)
				if !ok {
					continue
				}
				fa, ok := st.Addr.(*ssa.FieldAddr)
				if !ok || typeName(st.Val.Type()) != "Codec" {
					continue
				}
				owner := typeName(deref(fa.X.Type()))
				fld := fieldName(fa)
				switch owner + "." + fld {
				case "PointerWrapper.Underlying", "BaseSliceWrapper.Underlying", "MapCodec.keyCodec", "MapCodec.valueCodec", "description.codec":
				default:
					continue
				}
				n++
				c.Oblige("T.viaregistry", derived(st.Val, 0), st.Pos(), fn, owner+"."+fld+" comes from a registry lookup",
					"the codec used for a pointer target, slice element, map key, map value or struct field must be obtained through CodecForTypeRegistry (registrations take precedence over kind defaults at every position); a codec literal placed directly bypasses the registry", nil)
			}
		}
	}
	c.Floor("T.viaregistry", 5)
}

// foreignErrorSource: the error value is produced by a call of a function that
// is neither in the module nor an interface method; returns its name.
func foreignErrorSource(v ssa.Value, depth int) string {
	if depth > 6 {
		return ""
	}
	switch x := v.(type) {
	case *ssa.Extract:
		return foreignErrorSource(x.Tuple, depth+1)
	case *ssa.Phi:
		for _, e := range x.Edges {
			if r := foreignErrorSource(e, depth+1); r != "" {
				return r
			}
		}
	case *ssa.Call:
		if x.Common().IsInvoke() {
			return ""
		}
		cal := x.Common().StaticCallee()
		if cal == nil {
			return ""
		}
		if o := origin(cal); o != nil && o.Pkg != nil && inModule(o.Pkg.Pkg) {
			return ""
		}
		if obj := cal.Object(); obj != nil && inModule(obj.Pkg()) {
			return ""
		}
		switch cal.String() {
		case "fmt.Errorf", "errors.New":
			return ""
		}
		return cal.String()
	}
	return ""
}
