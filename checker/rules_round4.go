package main

import (
	"fmt"
	"go/ast"
	"go/token"
	"go/types"
	"sort"
	"strings"

	"golang.org/x/tools/go/ssa"
)

// ---------------------------------------------------------------------------
// shared helpers

// controllingConds returns the branch conditions that control block b: for
// every dominator d of b that ends in an If, exactly one successor of which
// dominates (or is) b, the condition and the truth value under which b is
// reached.
func controllingConds(b *ssa.BasicBlock) (conds []ssa.Value, truths []bool) {
	for d := b.Idom(); d != nil; d = d.Idom() {
		ifi, ok := d.Instrs[len(d.Instrs)-1].(*ssa.If)
		if !ok {
			continue
		}
		t, f := d.Succs[0], d.Succs[1]
		td := t == b || t.Dominates(b)
		fd := f == b || f.Dominates(b)
		// a successor with several predecessors that dominates b is a merge point, not a branch arm
		if td && len(t.Preds) > 1 {
			td = false
		}
		if fd && len(f.Preds) > 1 {
			fd = false
		}
		if td == fd {
			continue
		}
		conds = append(conds, ifi.Cond)
		truths = append(truths, td)
	}
	return
}

// loopsOf returns header -> natural loop body for every back edge of f.
func loopsOf(f *ssa.Function) map[*ssa.BasicBlock]map[*ssa.BasicBlock]bool {
	out := map[*ssa.BasicBlock]map[*ssa.BasicBlock]bool{}
	for _, b := range f.Blocks {
		for _, s := range b.Succs {
			if !s.Dominates(b) {
				continue
			}
			body := out[s]
			if body == nil {
				body = map[*ssa.BasicBlock]bool{s: true}
				out[s] = body
			}
			stack := []*ssa.BasicBlock{b}
			for len(stack) > 0 {
				n := stack[len(stack)-1]
				stack = stack[:len(stack)-1]
				if body[n] {
					continue
				}
				body[n] = true
				stack = append(stack, n.Preds...)
			}
		}
	}
	return out
}

func staticCalleeName(in ssa.Instruction) (string, *ssa.Call) {
	call, ok := in.(*ssa.Call)
	if !ok {
		return "", nil
	}
	if cal := call.Common().StaticCallee(); cal != nil {
		return ssaFuncName(cal), call
	}
	return "", call
}

// ---------------------------------------------------------------------------
// X.entry.presence: a map entry's value is absent only when its tag is.
//
// readMapEntry resets the slot to the nil value when the entry carries no
// value. The key is omitted when it is the zero value, in which case the first
// tag of the entry is the value's; a present value may have an empty body
// (pointer to "" or to an all-zero struct). So "nothing is left after the
// first tag and length" does not mean "no value": the decision must look at
// the index of the tag that was read.

func ruleEntryPresence(c *Ctx) {
	name := "plenccodec.MapCodec.readMapEntry"
	f := c.P.ssaFunc(name)
	if f == nil {
		c.Oblige("X.entry.presence", false, token.NoPos, name, "function", "not found", nil)
		return
	}
	isTagIndex := func(v ssa.Value) bool {
		ex, ok := v.(*ssa.Extract)
		if !ok {
			return false
		}
		call, ok := ex.Tuple.(*ssa.Call)
		if !ok {
			return false
		}
		cal := call.Common().StaticCallee()
		if cal == nil {
			return false
		}
		switch cal.Name() {
		case "ReadTag":
			return ex.Index == 1
		default:
			// a helper that hands the tag's index on (readTagAndLength): whichever of its results is
			// ReadTag's index on its success returns
			return ex.Index == tagIndexResult(cal)
		}
	}
	var testsIndex func(v ssa.Value, depth int) bool
	testsIndex = func(v ssa.Value, depth int) bool {
		if depth > 4 {
			return false
		}
		switch x := v.(type) {
		case *ssa.BinOp:
			if x.Op == token.EQL || x.Op == token.NEQ {
				_, c1 := x.X.(*ssa.Const)
				_, c2 := x.Y.(*ssa.Const)
				if (isTagIndex(x.X) && c2) || (isTagIndex(x.Y) && c1) {
					return true
				}
			}
		case *ssa.UnOp:
			if x.Op == token.NOT {
				return testsIndex(x.X, depth+1)
			}
		case *ssa.Phi:
			// a boolean computed from the index earlier (hasValue := index == 2 || …): either an
			// edge value is the test, or the test decides which edge is taken (short-circuit form)
			for _, e := range x.Edges {
				if testsIndex(e, depth+1) {
					return true
				}
			}
			stop := x.Block().Idom()
			for _, pr := range x.Block().Preds {
				for d := pr; d != nil; d = d.Idom() {
					if ifi, ok := d.Instrs[len(d.Instrs)-1].(*ssa.If); ok && testsIndex(ifi.Cond, depth+1) {
						return true
					}
					if d == stop {
						break
					}
				}
			}
		}
		return false
	}
	n := 0
	for _, b := range f.Blocks {
		for _, in := range b.Instrs {
			cn, call := staticCalleeName(in)
			if call == nil || !strings.HasSuffix(cn, ".typedmemmove") {
				continue
			}
			// typedmemmove(type, val, c.vZero)
			args := call.Common().Args
			if len(args) != 3 {
				continue
			}
			ld, ok := args[2].(*ssa.UnOp)
			if !ok {
				continue
			}
			fa, ok := ld.X.(*ssa.FieldAddr)
			if !ok || fieldName(fa) != "vZero" {
				continue
			}
			n++
			conds, _ := controllingConds(b)
			ok2 := false
			for _, cd := range conds {
				if testsIndex(cd, 0) {
					ok2 = true
				}
			}
			c.Oblige("X.entry.presence", ok2, call.Pos(), name, "the 'entry has no value' branch is controlled by a test of the tag index",
				"the key of a map entry is omitted when it is the zero value, so the first tag read may be the value's, and a present value may have an empty body (a pointer to \"\" or to an all-zero struct): deciding 'no value' from the remaining length alone reads such an entry back as nil", nil)
		}
	}
	if n == 0 {
		c.Oblige("X.entry.presence", false, f.Pos(), name, "reset of the value slot to the nil value", "no typedmemmove(…, val, c.vZero) found: the rule no longer sees the code it was written for", nil)
	}
	c.Floor("X.entry.presence", 1)
}

// tagIndexResult: the position among f's results that carries the index read by ReadTag (-1: none).
func tagIndexResult(f *ssa.Function) int {
	if f == nil || len(f.Blocks) == 0 {
		return -1
	}
	var isIdx func(v ssa.Value, depth int) bool
	isIdx = func(v ssa.Value, depth int) bool {
		if depth > 6 {
			return false
		}
		switch x := v.(type) {
		case *ssa.Extract:
			if call, ok := x.Tuple.(*ssa.Call); ok {
				if cal := call.Common().StaticCallee(); cal != nil && cal.Name() == "ReadTag" && x.Index == 1 {
					return true
				}
			}
		case *ssa.Phi:
			for _, e := range x.Edges {
				if isIdx(e, depth+1) {
					return true
				}
			}
		case *ssa.UnOp:
			// named result spilled to a local
			if al, ok := x.X.(*ssa.Alloc); ok {
				for _, r := range *al.Referrers() {
					if st, ok := r.(*ssa.Store); ok && st.Addr == ssa.Value(al) && isIdx(st.Val, depth+1) {
						return true
					}
				}
			}
		case *ssa.Convert:
			return isIdx(x.X, depth+1)
		}
		return false
	}
	found := -1
	for _, b := range f.Blocks {
		ret, ok := b.Instrs[len(b.Instrs)-1].(*ssa.Return)
		if !ok {
			continue
		}
		for j, r := range ret.Results {
			if isIdx(r, 0) {
				found = j
			}
		}
	}
	return found
}

// ---------------------------------------------------------------------------
// X.entry.pair: the walker outputs exactly one name and one value for every
// entry of a string-keyed map, name first. Decided by exploring the function's
// CFG with the values of its boolean locals tracked (a finite typestate
// product: known booleans x names emitted {0,1,2+} x values emitted {0,1,2+}).

type flagState struct {
	blk, pred *ssa.BasicBlock
	env       string
	k, v      int
	dk, dv    bool
}

func ruleEntryPair(c *Ctx) {
	name := "plenccodec.Descriptor.readAsMapEntry"
	f := c.P.ssaFunc(name)
	if f == nil {
		c.Oblige("X.entry.pair", false, token.NoPos, name, "function", "not found", nil)
		return
	}
	type envT map[ssa.Value]bool
	encode := func(e envT) string {
		var ks []string
		for v, b := range e {
			ks = append(ks, fmt.Sprintf("%s=%v", v.Name(), b))
		}
		sort.Strings(ks)
		return strings.Join(ks, ",")
	}
	var eval func(e envT, v ssa.Value) (bool, bool)
	eval = func(e envT, v ssa.Value) (bool, bool) {
		switch x := v.(type) {
		case *ssa.Const:
			if b, ok := x.Type().Underlying().(*types.Basic); ok && b.Info()&types.IsBoolean != 0 && x.Value != nil {
				return x.Value.ExactString() == "true", true
			}
		case *ssa.UnOp:
			if x.Op == token.NOT {
				if b, ok := eval(e, x.X); ok {
					return !b, true
				}
			}
		}
		b, ok := e[v]
		return b, ok
	}
	// elemConst: v is &d.Elements[k] for constant k
	elemConst := func(v ssa.Value) (int, bool) {
		ia, ok := v.(*ssa.IndexAddr)
		if !ok {
			return 0, false
		}
		ld, ok := ia.X.(*ssa.UnOp)
		if !ok {
			return 0, false
		}
		fa, ok := ld.X.(*ssa.FieldAddr)
		if !ok || fieldName(fa) != "Elements" {
			return 0, false
		}
		k, ok := ia.Index.(*ssa.Const)
		if !ok || k.Value == nil {
			return 0, false
		}
		return int(k.Int64()), true
	}
	classify := func(e envT, in ssa.Instruction) string {
		call, ok := in.(*ssa.Call)
		if !ok {
			return ""
		}
		cc := call.Common()
		if cc.IsInvoke() {
			if typeName(cc.Value.Type()) != "Outputter" {
				return ""
			}
			switch cc.Method.Name() {
			case "String", "NameField":
				return "name"
			case "Raw", "Int64", "Uint64", "Float64", "Float32", "Bool", "Time":
				return "value"
			}
			return ""
		}
		cal := cc.StaticCallee()
		if cal == nil || ssaFuncName(cal) != "plenccodec.Descriptor.read" {
			return ""
		}
		// element 0 of a map entry is the key (output as the name), element 1 the value
		recv := cc.Args[0]
		if k, ok := elemConst(recv); ok {
			if k == 0 {
				return "data-name"
			}
			return "data-value"
		}
		for cond, truth := range e {
			bo, ok := cond.(*ssa.BinOp)
			if !ok || (bo.Op != token.EQL && bo.Op != token.NEQ) {
				continue
			}
			var other ssa.Value
			if bo.X == recv {
				other = bo.Y
			} else if bo.Y == recv {
				other = bo.X
			} else {
				continue
			}
			k, ok := elemConst(other)
			if !ok {
				continue
			}
			equal := truth == (bo.Op == token.EQL)
			if (k == 0) == equal {
				return "data-name"
			}
			return "data-value"
		}
		return "unknown"
	}
	type viol struct {
		pos  token.Pos
		what string
	}
	var viols []viol
	seen := map[flagState]bool{}
	returns := 0
	// dk, dv: the key / value field of the entry has been met in the data. The writer emits each at
	// most once, key first (MapCodec.append), so paths with other field sequences are not explored:
	// the property is about data plenc wrote.
	var explore func(b, pred *ssa.BasicBlock, e envT, k, v int, dk, dv bool)
	explore = func(b, pred *ssa.BasicBlock, e envT, k, v int, dk, dv bool) {
		// φ-nodes
		ne := envT{}
		for kk, vv := range e {
			ne[kk] = vv
		}
		if pred != nil {
			idx := -1
			for i, p := range b.Preds {
				if p == pred {
					idx = i
				}
			}
			vals := map[*ssa.Phi]*bool{}
			for _, in := range b.Instrs {
				phi, ok := in.(*ssa.Phi)
				if !ok {
					break
				}
				if bv, ok := eval(e, phi.Edges[idx]); ok {
					x := bv
					vals[phi] = &x
				} else {
					vals[phi] = nil
				}
			}
			for phi, pv := range vals {
				if pv == nil {
					delete(ne, phi)
				} else {
					ne[phi] = *pv
				}
			}
		}
		st := flagState{b, pred, encode(ne), k, v, dk, dv}
		if seen[st] {
			return
		}
		seen[st] = true
		// values computed in this block are recomputed on every visit
		for _, in := range b.Instrs {
			if _, isPhi := in.(*ssa.Phi); isPhi {
				continue
			}
			if v, ok := in.(ssa.Value); ok {
				delete(ne, v)
			}
		}
		for _, in := range b.Instrs {
			cl := classify(ne, in)
			switch cl {
			case "data-name":
				if dk || dv {
					return // not a field sequence the writer produces
				}
				dk, cl = true, "name"
			case "data-value":
				if dv {
					return
				}
				dv, cl = true, "value"
			}
			switch cl {
			case "unknown":
				viols = append(viols, viol{in.Pos(), "an element is output without the walker knowing whether it is the entry's key or its value"})
			case "name":
				if k < 2 {
					k++
				}
				if v > 0 {
					viols = append(viols, viol{in.Pos(), "a name is output after the entry's value"})
				}
			case "value":
				if k != 1 {
					viols = append(viols, viol{in.Pos(), fmt.Sprintf("a value is output after %d names", k)})
				}
				if v < 2 {
					v++
				}
			}
			switch x := in.(type) {
			case *ssa.Return:
				if b == f.Recover || isFailureReturnLoose(f, x) {
					return
				}
				// the exit for entries whose key is not a string (rendered as a struct by the caller)
				notString := false
				cds, _ := controllingConds(b)
				for _, cd := range cds {
					if bo, ok := cd.(*ssa.BinOp); ok && (bo.Op == token.EQL || bo.Op == token.NEQ) {
						for _, o := range []ssa.Value{bo.X, bo.Y} {
							if ld, ok := o.(*ssa.UnOp); ok {
								if fa, ok := ld.X.(*ssa.FieldAddr); ok && fieldName(fa) == "Type" {
									notString = true
								}
							}
						}
					}
				}
				if notString && k == 0 && v == 0 {
					return
				}
				returns++
				if k != 1 || v != 1 {
					cnt := func(n int) string {
						if n >= 2 {
							return "2 or more"
						}
						return fmt.Sprint(n)
					}
					viols = append(viols, viol{x.Pos(), fmt.Sprintf("a success return is reachable with %s names and %s values output", cnt(k), cnt(v))})
				}
				return
			case *ssa.If:
				if bv, ok := eval(ne, x.Cond); ok {
					if bv {
						explore(b.Succs[0], b, ne, k, v, dk, dv)
					} else {
						explore(b.Succs[1], b, ne, k, v, dk, dv)
					}
					return
				}
				te, fe := envT{}, envT{}
				for kk, vv := range ne {
					te[kk], fe[kk] = vv, vv
				}
				te[x.Cond], fe[x.Cond] = true, false
				if u, ok := x.Cond.(*ssa.UnOp); ok && u.Op == token.NOT {
					te[u.X], fe[u.X] = false, true
				}
				explore(b.Succs[0], b, te, k, v, dk, dv)
				explore(b.Succs[1], b, fe, k, v, dk, dv)
				return
			case *ssa.Jump:
				explore(b.Succs[0], b, ne, k, v, dk, dv)
				return
			}
		}
	}
	explore(f.Blocks[0], nil, envT{}, 0, 0, false, false)
	dedup := map[string]bool{}
	for _, vl := range viols {
		if dedup[vl.what] {
			continue
		}
		dedup[vl.what] = true
		c.Oblige("X.entry.pair", false, vl.pos, name, vl.what,
			"a string-keyed map is rendered as a JSON object, so every entry must output exactly one name and then one value; the key is omitted from the data when it is \"\" and the value when it is zero or nil, and the walker must supply them", nil)
	}
	if len(viols) == 0 {
		c.Oblige("X.entry.pair", returns > 0, f.Pos(), name, "every success return has output exactly one name and then one value",
			"explored all paths with the boolean locals tracked", map[string]any{"states": len(seen), "success_returns": returns})
	}
	c.Floor("X.entry.pair", 1)
}

// ---------------------------------------------------------------------------
// X.eface.direct: the data word of an interface holding a user value is a
// pointer to the value only for types that are not pointer-shaped.

func ruleEfaceDirect(c *Ctx) {
	p := c.P
	sites := 0
	for _, f := range p.moduleFuncs() {
		if f.Synthetic != "" {
			continue
		}
		fname := ssaFuncName(f)
		for _, b := range f.Blocks {
			for _, in := range b.Instrs {
				cn, call := staticCalleeName(in)
				if call == nil || !strings.HasSuffix(cn, ".unpackEFace") {
					continue
				}
				arg := call.Common().Args[0]
				switch x := arg.(type) {
				case *ssa.ChangeInterface:
					// reflect.Type and the like: the dynamic type is a pointer, the data word is that pointer
					sites++
					c.Oblige("X.eface.direct", true, call.Pos(), fname, "unpackEFace of "+typeName(x.X.Type()), "interface-to-interface conversion of a reflect.Type: the data word is the *rtype", nil)
					continue
				case *ssa.MakeInterface:
					sites++
					_, isMap := x.X.Type().Underlying().(*types.Map)
					_, isPtr := x.X.Type().Underlying().(*types.Pointer)
					if bt, ok := x.X.Type().Underlying().(*types.Basic); ok && bt.Kind() == types.UnsafePointer {
						isPtr = true
					}
					c.Oblige("X.eface.direct", isMap || isPtr, call.Pos(), fname, "unpackEFace of a value of static type "+x.X.Type().String(),
						"the data word of an interface built from a map or pointer is that map or pointer; for any other static type it points to a copy and the use must be reviewed", nil)
					continue
				}
				if _, ok := arg.Type().Underlying().(*types.Interface); !ok {
					continue
				}
				sites++
				// user value of unknown dynamic type: the function must wrap the data word for pointer-shaped types
				ok, why := efaceGuarded(p, f, call)
				c.Oblige("X.eface.direct", ok, call.Pos(), fname, "data word of an interface holding a caller's value is wrapped for pointer-shaped types",
					"a value whose type is pointer-shaped (a pointer, a map, or a struct/array with exactly one such field/element) is stored in the interface itself, so the data word is the value and not its address: Marshal of struct{P *T} by value must take the address of a copy"+why, nil)
			}
		}
	}
	c.Floor("X.eface.direct", 3)
}

func efaceGuarded(p *Prog, f *ssa.Function, call *ssa.Call) (bool, string) {
	// D: loads of (call).data
	var loads []ssa.Value
	for _, r := range *call.Referrers() {
		fa, ok := r.(*ssa.FieldAddr)
		if !ok || fieldName(fa) != "data" {
			continue
		}
		for _, r2 := range *fa.Referrers() {
			if u, ok := r2.(*ssa.UnOp); ok && u.Op == token.MUL {
				loads = append(loads, u)
			}
		}
	}
	if len(loads) == 0 {
		return false, " (no load of .data found)"
	}
	isD := func(v ssa.Value) bool {
		for _, l := range loads {
			if l == v {
				return true
			}
		}
		return false
	}
	// a store of D into a local whose address is then used, inside the true arm of a test of a verified predicate
	for _, b := range f.Blocks {
		for _, in := range b.Instrs {
			st, ok := in.(*ssa.Store)
			if !ok || !isD(st.Val) {
				continue
			}
			al, ok := st.Addr.(*ssa.Alloc)
			if !ok {
				continue
			}
			// address must be used as the pointer (converted to unsafe.Pointer)
			used := false
			for _, r := range *al.Referrers() {
				if cv, ok := r.(*ssa.Convert); ok && cv.Type().String() == "unsafe.Pointer" {
					used = true
				}
			}
			if !used {
				continue
			}
			conds, truths := controllingConds(b)
			var trueConds []ssa.Value
			for i, cd := range conds {
				if truths[i] {
					// a && b kept as a boolean (tagless switch case) stands for both
					trueConds = append(trueConds, expandTrueConds(cd, 0)...)
				}
			}
			for _, cd := range trueConds {
				pc, ok := cd.(*ssa.Call)
				if !ok {
					continue
				}
				cal := pc.Common().StaticCallee()
				if cal == nil || !inModule(cal.Pkg.Pkg) {
					continue
				}
				if why := verifyDirectIfacePredicate(p, cal); why != "" {
					return false, " (predicate " + cal.Name() + ": " + why + ")"
				}
				return true, ""
			}
		}
	}
	return false, " (no store of the data word into a local under a pointer-shape test)"
}

// verifyDirectIfacePredicate checks the shape of the predicate against the
// compiler's rule (types.IsDirectIface): pointer kinds true; struct iff one
// field and that field's type is; array iff one element and its type is.
func verifyDirectIfacePredicate(p *Prog, fn *ssa.Function) string {
	obj, _ := fn.Object().(*types.Func)
	if obj == nil {
		return "no declaration"
	}
	ref := p.refOf(obj)
	if ref == nil || ref.Decl.Body == nil {
		return "no body"
	}
	d := ref.Decl
	if d.Type.Params.NumFields() != 1 || len(d.Type.Params.List[0].Names) != 1 {
		return "expected one parameter"
	}
	prm := d.Type.Params.List[0].Names[0].Name
	var sw *ast.SwitchStmt
	for _, s := range d.Body.List {
		if x, ok := s.(*ast.SwitchStmt); ok {
			sw = x
		}
	}
	if sw == nil || sw.Tag == nil || p.str(sw.Tag) != prm+".Kind()" {
		return "expected a switch on " + prm + ".Kind()"
	}
	last, ok := d.Body.List[len(d.Body.List)-1].(*ast.ReturnStmt)
	if !ok || len(last.Results) != 1 || p.str(last.Results[0]) != "false" {
		return "expected a final return false"
	}
	kindsTrue := map[string]bool{}
	structOK, arrayOK, arraySeen := false, true, false
	for _, cl := range sw.Body.List {
		cc := cl.(*ast.CaseClause)
		if len(cc.Body) != 1 {
			return "case with more than one statement"
		}
		r, ok := cc.Body[0].(*ast.ReturnStmt)
		if !ok || len(r.Results) != 1 {
			return "case body is not a single return"
		}
		res := p.str(r.Results[0])
		for _, e := range cc.List {
			k := strings.TrimPrefix(p.str(e), "reflect.")
			switch k {
			case "Struct":
				want1 := fmt.Sprintf("%s.NumField() == 1 && %s(%s.Field(0).Type)", prm, d.Name.Name, prm)
				structOK = res == want1
				if !structOK {
					return "struct case is " + res
				}
			case "Array":
				arraySeen = true
				want1 := fmt.Sprintf("%s.Len() == 1 && %s(%s.Elem())", prm, d.Name.Name, prm)
				arrayOK = res == want1
				if !arrayOK {
					return "array case is " + res
				}
			default:
				if res != "true" {
					return "case " + k + " returns " + res
				}
				kindsTrue[k] = true
			}
		}
	}
	_ = arraySeen
	for k := range kindsTrue {
		switch k {
		case "Ptr", "Pointer", "Map", "Chan", "Func", "UnsafePointer":
		default:
			return "kind " + k + " is not pointer-shaped"
		}
	}
	if !(kindsTrue["Ptr"] || kindsTrue["Pointer"]) || !kindsTrue["Map"] {
		return "pointer and map kinds must be reported pointer-shaped"
	}
	if !structOK {
		return "no struct case"
	}
	return ""
}

// ---------------------------------------------------------------------------
// X.lookup.stateless: which field a tag selects depends on the tag's index
// and the codec alone, never on what was decoded before it.

func ruleLookupStateless(c *Ctx, names []string) {
	p := c.P
	for _, name := range names {
		f := p.ssaFunc(name)
		if f == nil {
			c.Oblige("X.lookup.stateless", false, token.NoPos, name, "function", "not found", nil)
			continue
		}
		loops := loopsOf(f)
		// the field loop: the loop containing the ReadTag call
		var header *ssa.BasicBlock
		var body map[*ssa.BasicBlock]bool
		for h, bd := range loops {
			for bb := range bd {
				for _, in := range bb.Instrs {
					if cn, _ := staticCalleeName(in); cn == "plenccore.ReadTag" {
						if header == nil || len(bd) > len(body) {
							header, body = h, bd
						}
					}
				}
			}
		}
		if header == nil {
			c.Oblige("X.lookup.stateless", false, f.Pos(), name, "field loop", "no loop around ReadTag found", nil)
			continue
		}
		var why string
		memo := map[ssa.Value]int{} // 1 in progress/ok, 2 bad
		var pure func(v ssa.Value, depth int) bool
		pure = func(v ssa.Value, depth int) bool {
			if depth > 40 {
				why = "derivation too deep"
				return false
			}
			if m, ok := memo[v]; ok {
				return m == 1
			}
			memo[v] = 1
			ok := func() bool {
				switch x := v.(type) {
				case *ssa.Const, *ssa.Global, *ssa.Function, *ssa.Builtin:
					return true
				case *ssa.Parameter:
					// the receiver (codec / descriptor) - not the data, not the target
					if len(f.Params) > 0 && x == f.Params[0] {
						return true
					}
					why = "depends on parameter " + x.Name()
					return false
				case *ssa.Extract:
					if call, ok := x.Tuple.(*ssa.Call); ok {
						if cal := call.Common().StaticCallee(); cal != nil && ssaFuncName(cal) == "plenccore.ReadTag" && x.Index == 1 {
							return true // the index of the tag just read
						}
					}
					return pure(x.Tuple, depth+1)
				case *ssa.Phi:
					if x.Block() == header {
						why = "depends on " + x.Comment + " (" + x.Name() + "), a value carried from one field to the next"
						return false
					}
					for _, e := range x.Edges {
						if !pure(e, depth+1) {
							return false
						}
					}
					return true
				case *ssa.Alloc:
					if !body[x.Block()] {
						why = "depends on local " + x.Comment + " declared outside the field loop (state carried from one field to the next)"
						return false
					}
					return true
				case *ssa.Call:
					cc := x.Common()
					if cc.IsInvoke() {
						why = "depends on a dynamic call " + cc.Method.Name()
						return false
					}
					for _, a := range cc.Args {
						if !pure(a, depth+1) {
							return false
						}
					}
					if _, isB := cc.Value.(*ssa.Builtin); isB {
						return true
					}
					if cal := cc.StaticCallee(); cal != nil {
						return true
					}
					why = "depends on an indirect call"
					return false
				case *ssa.UnOp:
					return pure(x.X, depth+1)
				case *ssa.FieldAddr:
					return pure(x.X, depth+1)
				case *ssa.Field:
					return pure(x.X, depth+1)
				case *ssa.IndexAddr:
					return pure(x.X, depth+1) && pure(x.Index, depth+1)
				case *ssa.Index:
					return pure(x.X, depth+1) && pure(x.Index, depth+1)
				case *ssa.BinOp:
					return pure(x.X, depth+1) && pure(x.Y, depth+1)
				case *ssa.Convert:
					return pure(x.X, depth+1)
				case *ssa.ChangeType:
					return pure(x.X, depth+1)
				case *ssa.Slice:
					return pure(x.X, depth+1)
				case *ssa.Lookup:
					return pure(x.X, depth+1) && pure(x.Index, depth+1)
				case *ssa.Range, *ssa.Next:
					why = "depends on map iteration order"
					return false
				}
				why = fmt.Sprintf("depends on %T", v)
				return false
			}()
			if !ok {
				memo[v] = 2
			}
			return ok
		}
		n := 0
		for bb := range body {
			for _, in := range bb.Instrs {
				call, ok := in.(*ssa.Call)
				if !ok {
					continue
				}
				cc := call.Common()
				var sel ssa.Value
				what := ""
				if cc.IsInvoke() && cc.Method.Name() == "Read" && typeName(cc.Value.Type()) == "Codec" {
					sel, what = cc.Value, "codec that reads the field"
				} else if cal := cc.StaticCallee(); cal != nil && ssaFuncName(cal) == "plenccodec.Descriptor.read" {
					sel, what = cc.Args[0], "descriptor element that reads the field"
				}
				if sel == nil {
					continue
				}
				n++
				why = ""
				ok2 := pure(sel, 0)
				msg := "fields may arrive in any order (reordered declarations, older writers): the reader chosen for a tag must be a function of the tag's index and the codec only"
				if !ok2 {
					msg += "; here it " + why
				}
				c.Oblige("X.lookup.stateless", ok2, call.Pos(), name, what+" is selected by the tag index alone", msg, nil)
			}
		}
		if n == 0 {
			c.Oblige("X.lookup.stateless", false, f.Pos(), name, "field read in the field loop", "no field read found in the loop", nil)
		}
	}
	c.Floor("X.lookup.stateless", len(names))
}

// ---------------------------------------------------------------------------
// T.walker-lookup: the walker chooses the element for a tag by comparing the
// element's own Index with the index read from the data; X.lookup.exhaustive:
// and it gives up only after it has looked at every element. The scan may live
// in the reader itself or in a helper it calls with the tag's index.

type lookupCtx struct {
	f     *ssa.Function
	isIdx func(v ssa.Value) bool
}

func elementsElem(v ssa.Value) (base, idx ssa.Value, ok bool) {
	ia, ok := v.(*ssa.IndexAddr)
	if !ok {
		return nil, nil, false
	}
	ld, ok := ia.X.(*ssa.UnOp)
	if !ok {
		return nil, nil, false
	}
	fa, ok := ld.X.(*ssa.FieldAddr)
	if !ok || fieldName(fa) != "Elements" {
		return nil, nil, false
	}
	return fa.X, ia.Index, true
}

func sameElementsElem(a, b ssa.Value) bool {
	if a == b {
		return true
	}
	ba, ia, ok1 := elementsElem(a)
	bb, ib, ok2 := elementsElem(b)
	if !ok1 || !ok2 || ba != bb {
		return false
	}
	if ia == ib {
		return true
	}
	ca, okA := ia.(*ssa.Const)
	cb, okB := ib.(*ssa.Const)
	return okA && okB && ca.Value != nil && cb.Value != nil && ca.Value.ExactString() == cb.Value.ExactString()
}

type idxCmp struct {
	elem ssa.Value
	blk  *ssa.BasicBlock // block reached when equal
}

func (lc *lookupCtx) comparisons() []idxCmp {
	var cmps []idxCmp
	for _, b := range lc.f.Blocks {
		ifi, ok := b.Instrs[len(b.Instrs)-1].(*ssa.If)
		if !ok {
			continue
		}
		bo, ok := ifi.Cond.(*ssa.BinOp)
		if !ok || (bo.Op != token.EQL && bo.Op != token.NEQ) {
			continue
		}
		idxField := func(v ssa.Value) ssa.Value {
			ld, ok := v.(*ssa.UnOp)
			if !ok {
				return nil
			}
			fa, ok := ld.X.(*ssa.FieldAddr)
			if !ok || fieldName(fa) != "Index" {
				return nil
			}
			return fa.X
		}
		var elem ssa.Value
		if e := idxField(bo.X); e != nil && lc.isIdx(bo.Y) {
			elem = e
		} else if e := idxField(bo.Y); e != nil && lc.isIdx(bo.X) {
			elem = e
		}
		if elem == nil {
			continue
		}
		eq := b.Succs[0]
		if bo.Op == token.NEQ {
			eq = b.Succs[1]
		}
		cmps = append(cmps, idxCmp{elem, eq})
	}
	return cmps
}

// selected decides whether every non-nil value sel can hold (at block `at`) is an element of
// d.Elements chosen where that element's Index equals the tag index.
func (lc *lookupCtx) selected(sel ssa.Value, at *ssa.BasicBlock, depth int) (bool, string) {
	cmps := lc.comparisons()
	okAll, why := true, ""
	seen := map[ssa.Value]bool{}
	var leaves func(v ssa.Value, at *ssa.BasicBlock)
	leaves = func(v ssa.Value, at *ssa.BasicBlock) {
		if seen[v] {
			return
		}
		seen[v] = true
		switch x := v.(type) {
		case *ssa.Phi:
			for i, e := range x.Edges {
				leaves(e, x.Block().Preds[i])
			}
			return
		case *ssa.Const:
			if x.IsNil() {
				return // the "not found" value
			}
		case *ssa.Call:
			// a lookup helper: a module function handed the tag index
			cal := x.Common().StaticCallee()
			if cal != nil && cal.Pkg != nil && inModule(cal.Pkg.Pkg) && depth < 2 && len(cal.Blocks) > 0 {
				pi := -1
				for i, a := range x.Common().Args {
					if lc.isIdx(a) {
						pi = i
					}
				}
				if pi < 0 {
					okAll, why = false, "the lookup helper "+cal.Name()+" is not given the tag's index"
					return
				}
				prm := cal.Params[pi]
				sub := &lookupCtx{f: cal, isIdx: func(v ssa.Value) bool {
					if cv, ok := v.(*ssa.Convert); ok {
						v = cv.X
					}
					return v == ssa.Value(prm)
				}}
				for _, b := range cal.Blocks {
					if ret, ok := b.Instrs[len(b.Instrs)-1].(*ssa.Return); ok && len(ret.Results) == 1 {
						if ok2, w := sub.selected(ret.Results[0], b, depth+1); !ok2 {
							okAll, why = false, "in "+cal.Name()+": "+w
						}
					}
				}
				if ok2, w := sub.exhaustive(); !ok2 {
					okAll, why = false, "in "+cal.Name()+": "+w
				}
				return
			}
		}
		if _, _, ok := elementsElem(v); !ok {
			okAll, why = false, "the element is not taken from d.Elements"
			return
		}
		// chosen by position: &d.Elements[pos] where pos was set to the loop index on the found path
		if _, idx, _ := elementsElem(v); idx != nil {
			if ph, isPhi := idx.(*ssa.Phi); isPhi {
				header := false
				for _, pr := range ph.Block().Preds {
					if ph.Block().Dominates(pr) {
						header = true
					}
				}
				if !header {
					for i, e := range ph.Edges {
						if _, isK := e.(*ssa.Const); isK {
							continue // the "not found" position
						}
						pr := ph.Block().Preds[i]
						found := false
						for _, cm := range cmps {
							if _, cidx, ok := elementsElem(cm.elem); ok && cidx == e && (cm.blk == pr || cm.blk.Dominates(pr)) && len(cm.blk.Preds) == 1 {
								found = true
							}
						}
						if !found {
							okAll, why = false, "a position is recorded without a comparison of that element's Index with the tag's index"
						}
					}
					return
				}
			}
		}
		for _, cm := range cmps {
			if sameElementsElem(cm.elem, v) && (cm.blk == at || cm.blk.Dominates(at)) && len(cm.blk.Preds) == 1 {
				return
			}
		}
		okAll, why = false, "no comparison of that element's Index with the tag's index controls its selection"
	}
	leaves(sel, at)
	return okAll, why
}

// exhaustive: every loop that scans d.Elements is left only when it is exhausted or on the
// found path (behind a successful Index comparison).
func (lc *lookupCtx) exhaustive() (bool, string) {
	cmps := lc.comparisons()
	for h, body := range loopsOf(lc.f) {
		scans := false
		for bb := range body {
			for _, in := range bb.Instrs {
				if _, idx, ok := elementsElem(valueOf(in)); ok {
					if phi, isPhi := idx.(*ssa.Phi); isPhi && phi.Block() == h {
						scans = true
					}
					if bo, isBo := idx.(*ssa.BinOp); isBo {
						if phi, isPhi := bo.X.(*ssa.Phi); isPhi && phi.Block() == h {
							scans = true
						}
					}
				}
			}
		}
		if !scans {
			continue
		}
		// only loops whose body holds an Index comparison are lookups
		isLookup := false
		for _, cm := range cmps {
			for bb := range body {
				for _, s := range bb.Succs {
					if s == cm.blk {
						isLookup = true
					}
				}
			}
		}
		if !isLookup {
			continue
		}
		for bb := range body {
			for _, s := range bb.Succs {
				if body[s] {
					continue
				}
				if bb == h {
					continue // exhausted
				}
				found := false
				for _, cm := range cmps {
					if cm.blk == s || cm.blk == bb || cm.blk.Dominates(bb) {
						found = true
					}
				}
				if !found {
					return false, "the scan over d.Elements is abandoned before every element has been compared (an exit that is neither 'found' nor 'no more elements'): elements are in declaration order, so a later one can still match"
				}
			}
		}
	}
	return true, ""
}

func valueOf(in ssa.Instruction) ssa.Value {
	v, _ := in.(ssa.Value)
	return v
}

func walkerTagIndex(v ssa.Value) bool {
	if cv, ok := v.(*ssa.Convert); ok {
		v = cv.X
	}
	ex, ok := v.(*ssa.Extract)
	if !ok {
		return false
	}
	call, ok := ex.Tuple.(*ssa.Call)
	if !ok {
		return false
	}
	cal := call.Common().StaticCallee()
	return cal != nil && ssaFuncName(cal) == "plenccore.ReadTag" && ex.Index == 1
}

func ruleWalkerLookup(c *Ctx) {
	p := c.P
	for _, name := range []string{"plenccodec.Descriptor.readAsStruct", "plenccodec.Descriptor.readAsMapEntry"} {
		f := p.ssaFunc(name)
		if f == nil {
			c.Oblige("T.walker-lookup", false, token.NoPos, name, "function", "not found", nil)
			continue
		}
		lc := &lookupCtx{f: f, isIdx: walkerTagIndex}
		loops := loopsOf(f)
		n := 0
		for _, b := range f.Blocks {
			for _, in := range b.Instrs {
				call, ok := in.(*ssa.Call)
				if !ok {
					continue
				}
				cal := call.Common().StaticCallee()
				if cal == nil || ssaFuncName(cal) != "plenccodec.Descriptor.read" {
					continue
				}
				// only reads of data just framed by a tag: inside the loop around ReadTag
				inLoop := false
				for _, bd := range loops {
					if bd[b] {
						inLoop = true
					}
				}
				if !inLoop {
					continue
				}
				n++
				okAll, why := lc.selected(call.Common().Args[0], b, 0)
				msg := "descriptor elements are in declaration order, not index order: the walker must choose an element only where that element's own Index equals the index read from the data"
				if !okAll {
					msg += "; " + why
				}
				c.Oblige("T.walker-lookup", okAll, call.Pos(), name, "element chosen where its Index equals the tag's index", msg, nil)
			}
		}
		if n == 0 {
			c.Oblige("T.walker-lookup", false, f.Pos(), name, "element read in the field loop", "none found", nil)
		}
		okE, whyE := lc.exhaustive()
		c.Oblige("X.lookup.exhaustive", okE, f.Pos(), name, "the element scan ends only when found or exhausted", "a field whose element is declared after a higher-indexed one must still be found"+map[bool]string{true: "", false: ": " + whyE}[okE], nil)
	}
	c.Floor("T.walker-lookup", 2)
	c.Floor("X.lookup.exhaustive", 2)
}

// ---------------------------------------------------------------------------
// X.countloop: a reader that reads a leading element count decodes exactly
// that many elements: the loop that consumes the entries is bounded by the
// count (directly, or through a slice that was sized by it), never by the
// length the target happened to have.

func ruleCountLoop(c *Ctx) {
	p := c.P
	names := []string{"plenccodec.WTLengthSliceWrapper.Read", "plenccodec.MapCodec.Read", "plenccodec.JSONArrayCodec.Read", "plenccodec.JSONMapCodec.Read",
		"plenccodec.Descriptor.readAsSlice", "plenccodec.Descriptor.readAsJSON", "plenccore.Skip"}
	for _, name := range names {
		f := p.ssaFunc(name)
		if f == nil {
			c.Oblige("X.countloop", false, token.NoPos, name, "function", "not found", nil)
			continue
		}
		// leading counts: first result of ReadVarUint applied to the data parameter itself
		var counts []ssa.Value
		for _, b := range f.Blocks {
			for _, in := range b.Instrs {
				cn, call := staticCalleeName(in)
				if call == nil || cn != "plenccore.ReadVarUint" {
					continue
				}
				if prm, ok := call.Common().Args[0].(*ssa.Parameter); !ok || !isByteSlice(prm.Type()) {
					continue
				}
				for _, r := range *call.Referrers() {
					if ex, ok := r.(*ssa.Extract); ok && ex.Index == 0 {
						counts = append(counts, ex)
					}
				}
			}
		}
		if len(counts) == 0 {
			c.Oblige("X.countloop", false, f.Pos(), name, "leading count", "no ReadVarUint(data) found", nil)
			continue
		}
		var isCount func(v ssa.Value, depth int) bool
		var lenIsCount func(v ssa.Value, depth int) bool
		isCount = func(v ssa.Value, depth int) bool {
			if depth > 12 {
				return false
			}
			for _, cv := range counts {
				if v == cv {
					return true
				}
			}
			switch x := v.(type) {
			case *ssa.Convert:
				return isCount(x.X, depth+1)
			case *ssa.ChangeType:
				return isCount(x.X, depth+1)
			case *ssa.Phi:
				for _, e := range x.Edges {
					if !isCount(e, depth+1) {
						return false
					}
				}
				return len(x.Edges) > 0
			case *ssa.Call:
				if b, ok := x.Common().Value.(*ssa.Builtin); ok && b.Name() == "len" {
					return lenIsCount(x.Common().Args[0], depth+1)
				}
			case *ssa.UnOp:
				// h.Len where the function stored the count into it
				if fa, ok := x.X.(*ssa.FieldAddr); ok && fieldName(fa) == "Len" {
					okAny := false
					for _, b := range f.Blocks {
						for _, in := range b.Instrs {
							if st, ok := in.(*ssa.Store); ok {
								if fa2, ok := st.Addr.(*ssa.FieldAddr); ok && fieldName(fa2) == "Len" && fa2.X == fa.X {
									if !isCount(st.Val, depth+1) {
										return false
									}
									okAny = true
								}
							}
						}
					}
					return okAny
				}
			}
			return false
		}
		lenIsCount = func(v ssa.Value, depth int) bool {
			if depth > 12 {
				return false
			}
			switch x := v.(type) {
			case *ssa.MakeSlice:
				return isCount(x.Len, depth+1)
			case *ssa.Slice:
				return x.High != nil && isCount(x.High, depth+1) && (x.Low == nil || isZeroSSA(x.Low))
			case *ssa.Phi:
				for _, e := range x.Edges {
					if !lenIsCount(e, depth+1) {
						return false
					}
				}
				return len(x.Edges) > 0
			case *ssa.ChangeType:
				return lenIsCount(x.X, depth+1)
			}
			return false
		}
		n := 0
		for h, body := range loopsOf(f) {
			// entry-consuming loop: the body slices the data parameter
			reads := false
			for bb := range body {
				for _, in := range bb.Instrs {
					if sl, ok := in.(*ssa.Slice); ok {
						if prm, ok := sl.X.(*ssa.Parameter); ok && isByteSlice(prm.Type()) {
							reads = true
						}
					}
				}
			}
			if !reads {
				continue
			}
			// must be dominated by the count read
			dom := false
			for _, cv := range counts {
				cb := cv.(*ssa.Extract).Block()
				if cb == h || cb.Dominates(h) {
					dom = true
				}
			}
			if !dom {
				continue
			}
			// the loop's exit tests: If instructions in the body with a successor outside it, comparing an induction value with a bound
			var bounds []ssa.Value
			var exits []*ssa.BasicBlock // where the loop is left when the test with that bound fails
			var at token.Pos
			for bb := range body {
				ifi, ok := bb.Instrs[len(bb.Instrs)-1].(*ssa.If)
				if !ok {
					continue
				}
				if body[bb.Succs[0]] && body[bb.Succs[1]] {
					continue
				}
				exitTo := bb.Succs[0]
				if body[exitTo] {
					exitTo = bb.Succs[1]
				}
				bo, ok := ifi.Cond.(*ssa.BinOp)
				if !ok {
					continue
				}
				switch bo.Op {
				case token.LSS, token.GTR, token.LEQ, token.GEQ, token.NEQ:
				default:
					continue
				}
				// which side is the induction variable (a φ of the header, or derived from one)?
				isInd := func(v ssa.Value) bool {
					for i := 0; i < 4; i++ {
						switch x := v.(type) {
						case *ssa.Phi:
							return x.Block() == h
						case *ssa.Convert:
							v = x.X
							continue
						case *ssa.BinOp:
							v = x.X
							continue
						}
						break
					}
					return false
				}
				// a down-counting loop: the header φ starts at the count and is compared with zero
				// (every value it can start from: a count clamped on one path into the loop is not the count)
				downFrom := func(ind, bound ssa.Value) ([]ssa.Value, bool) {
					phi, ok := ind.(*ssa.Phi)
					if !ok || phi.Block() != h || !isZeroSSA(bound) {
						return nil, false
					}
					var inits []ssa.Value
					for i, pr := range h.Preds {
						if !body[pr] {
							inits = append(inits, phi.Edges[i])
						}
					}
					return inits, len(inits) > 0
				}
				nb := len(bounds)
				switch {
				case isInd(bo.X) && !isInd(bo.Y):
					if inits, ok := downFrom(bo.X, bo.Y); ok {
						bounds = append(bounds, inits...)
					} else {
						bounds = append(bounds, bo.Y)
					}
					at = bo.Pos()
				case isInd(bo.Y) && !isInd(bo.X):
					if inits, ok := downFrom(bo.Y, bo.X); ok {
						bounds = append(bounds, inits...)
					} else {
						bounds = append(bounds, bo.X)
					}
					at = bo.Pos()
				}
				for len(exits) < len(bounds) {
					exits = append(exits, exitTo)
				}
				_ = nb
			}
			if len(bounds) == 0 {
				continue // exit decided by the data offset (field loops): not a counted loop
			}
			// an "offset < len(data)"-style bound is a data loop, not an element-count loop
			counted := false
			okAll := true
			var dataExits []*ssa.BasicBlock
			for bi, bd := range bounds {
				if call, ok := bd.(*ssa.Call); ok {
					if b, ok := call.Common().Value.(*ssa.Builtin); ok && b.Name() == "len" {
						if prm, ok := call.Common().Args[0].(*ssa.Parameter); ok && isByteSlice(prm.Type()) {
							if bi < len(exits) {
								dataExits = append(dataExits, exits[bi])
							}
							continue
						}
					}
				}
				counted = true
				if !isCount(bd, 0) {
					okAll = false
				}
			}
			if !counted {
				continue
			}
			n++
			if at == token.NoPos {
				at = f.Pos()
			}
			// running out of data before the count is reached is an error: an exit
			// of a counted loop on "offset < len(data)" that does not fail accepts a
			// collection cut short at an entry boundary
			for _, ex := range dataExits {
				r, isRet := ex.Instrs[len(ex.Instrs)-1].(*ssa.Return)
				if !(isRet && isFailureReturnLoose(f, r)) {
					okAll = false
				}
			}
			if name == "plenccore.Skip" {
				// Skip must fail on a count the data cannot hold: comparing the index
				// with int(count) makes a count >= 2^63 negative, the loop does not run
				// and a malformed field is "skipped" successfully
				signed := false
				for _, bd := range bounds {
					if cv, ok := bd.(*ssa.Convert); ok {
						if bt, ok := cv.Type().Underlying().(*types.Basic); ok && bt.Info()&types.IsUnsigned == 0 {
							if st, ok := cv.X.Type().Underlying().(*types.Basic); ok && st.Info()&types.IsUnsigned != 0 {
								signed = true
							}
						}
					}
				}
				guarded := false
				if signed {
					for _, cv := range counts {
						for _, r := range *cv.Referrers() {
							if bo, ok := r.(*ssa.BinOp); ok {
								switch bo.Op {
								case token.GTR, token.GEQ, token.LSS, token.LEQ:
									if bo.Block() == h || bo.Block().Dominates(h) {
										guarded = true
									}
								}
							}
						}
					}
				}
				c.Oblige("X.countloop.signed", !signed || guarded, at, name, "the count is compared as the unsigned number it is",
					"a count of 2^63 or more turns negative when converted to int: the entry loop does not run and Skip reports success for a field whose entries are not there", nil)
			}
			c.Oblige("X.countloop", okAll, at, name, "the entry loop is bounded by the count read from the data",
				"a decoded slice, array or map holds exactly the encoded elements: the loop that consumes the entries must run count times (the count itself, or the length of a slice made or re-sliced to it) - bounded by the length of whatever the target already held, a shorter target drops elements and returns too few bytes (the enclosing reader then mis-parses the rest) and a longer one reads past the entries", nil)
		}
		if n == 0 {
			c.Oblige("X.countloop", false, f.Pos(), name, "counted entry loop", "no loop consuming entries under a leading count found: the rule no longer sees the code it was written for", nil)
		}
		// X.countloop.consumed: the counted form has no length of its own, the bytes
		// handed in run on to the end of the enclosing message: a success return
		// reports what was walked, never len(data) for itself
		var isLenData func(v ssa.Value, depth int) bool
		isLenData = func(v ssa.Value, depth int) bool {
			if depth > 6 {
				return false
			}
			switch x := v.(type) {
			case *ssa.Convert:
				return isLenData(x.X, depth+1)
			case *ssa.Phi:
				for _, e := range x.Edges {
					if isLenData(e, depth+1) {
						return true
					}
				}
			case *ssa.Call:
				if bi, ok := x.Common().Value.(*ssa.Builtin); ok && bi.Name() == "len" {
					if prm, ok := x.Common().Args[0].(*ssa.Parameter); ok && isByteSlice(prm.Type()) {
						return true
					}
				}
			}
			return false
		}
		for _, b := range f.Blocks {
			ret, ok := b.Instrs[len(b.Instrs)-1].(*ssa.Return)
			if !ok || len(ret.Results) != 2 || !isNilConst(ret.Results[1]) {
				continue
			}
			// only returns reached after the leading count was read
			dom := false
			for _, cv := range counts {
				cb := cv.(*ssa.Extract).Block()
				if cb == b || cb.Dominates(b) {
					dom = true
				}
			}
			if !dom {
				continue
			}
			if isLenData(ret.Results[0], 0) {
				c.Oblige("X.countloop.consumed", false, ret.Pos(), name, "a success return reports the bytes walked",
					"count-prefixed data is not delimited: the slice passed in continues with the fields that follow, so returning len(data) swallows them", nil)
			} else {
				c.Oblige("X.countloop.consumed", true, ret.Pos(), name, "a success return reports the bytes walked", "the result is the accumulated offset", nil)
			}
		}
	}
	c.Floor("X.countloop", 7)
}

func isZeroSSA(v ssa.Value) bool {
	k, ok := v.(*ssa.Const)
	return ok && k.Value != nil && k.Value.ExactString() == "0"
}
