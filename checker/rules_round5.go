package main

import (
	"fmt"
	"go/ast"
	"go/constant"
	"go/token"
	"go/types"
	"sort"
	"strings"

	"golang.org/x/tools/go/ssa"
)

// ---------------------------------------------------------------------------
// X.publish.atomic: a codec is published to the registry with one atomic
// load-or-store, and the caller gets the winner back.

func rulePublishAtomic(c *Ctx) {
	p := c.P
	name := "plenc.baseRegistry.StoreOrSwap"
	f := p.ssaFunc(name)
	if f == nil {
		c.Oblige("X.publish.atomic", false, token.NoPos, name, "function", "not found", nil)
		return
	}
	var los *ssa.Call
	other := ""
	for _, b := range f.Blocks {
		for _, in := range b.Instrs {
			call, ok := in.(*ssa.Call)
			if !ok {
				continue
			}
			cal := call.Common().StaticCallee()
			if cal == nil || cal.Pkg == nil || cal.Pkg.Pkg.Path() != "sync" {
				continue
			}
			switch cal.Name() {
			case "LoadOrStore":
				los = call
			case "Load", "Store", "Swap", "Range", "Delete", "LoadAndDelete", "CompareAndSwap":
				other = cal.Name()
			}
		}
	}
	c.Oblige("X.publish.atomic", los != nil && other == "", f.Pos(), name, "single sync.Map.LoadOrStore",
		"two goroutines that build a codec for the same (type, tag) at the same moment must end up sharing one codec: the registry entry is claimed by one atomic LoadOrStore - a Load followed by a Store lets both win and the loser's codec (with its own interning tables and wrappers) stays in use"+
			map[bool]string{true: "", false: "; found sync.Map." + other}[other == ""], nil)
	// the result is the value LoadOrStore returned
	okRet := false
	if los != nil {
		for _, b := range f.Blocks {
			ret, ok := b.Instrs[len(b.Instrs)-1].(*ssa.Return)
			if !ok || len(ret.Results) != 1 {
				continue
			}
			v := ret.Results[0]
			for i := 0; i < 4; i++ {
				switch x := v.(type) {
				case *ssa.TypeAssert:
					v = x.X
					continue
				case *ssa.ChangeInterface:
					v = x.X
					continue
				}
				break
			}
			if ex, ok := v.(*ssa.Extract); ok && ex.Tuple == ssa.Value(los) && ex.Index == 0 {
				okRet = true
			}
		}
	}
	c.Oblige("X.publish.atomic", okRet, f.Pos(), name, "returns the value LoadOrStore reports",
		"the builder must continue with whichever codec won the race, i.e. the first result of LoadOrStore, not with its own argument", nil)
	c.Floor("X.publish.atomic", 2)
}

// ---------------------------------------------------------------------------
// T.fixedwrap: the packed fixed-width slice wrapper is only built for element
// codecs without explicit presence.

func ruleFixedWrap(c *Ctx) {
	p := c.P
	name := "plenc.Plenc.CodecForTypeRegistry"
	f := p.ssaFunc(name)
	if f == nil {
		c.Oblige("T.fixedwrap", false, token.NoPos, name, "function", "not found", nil)
		return
	}
	n := 0
	for _, b := range f.Blocks {
		for _, in := range b.Instrs {
			// construction: a value of type WTFixedSliceWrapper converted to the Codec interface
			mi, ok := in.(*ssa.MakeInterface)
			if !ok || typeName(mi.X.Type()) != "WTFixedSliceWrapper" {
				continue
			}
			n++
			conds, truths := controllingConds(b)
			okP := false
			for i, cd := range conds {
				if truths[i] {
					continue
				}
				// cond must be the ExplicitPresence field of <codec>.Descriptor()
				v := cd
				if u, ok := v.(*ssa.UnOp); ok && u.Op == token.MUL {
					if fa, ok := u.X.(*ssa.FieldAddr); ok && fieldName(fa) == "ExplicitPresence" {
						okP = true
					}
				}
				if fl, ok := v.(*ssa.Field); ok {
					if st, ok := fl.X.Type().Underlying().(*types.Struct); ok && st.Field(fl.Field).Name() == "ExplicitPresence" {
						okP = true
					}
				}
			}
			c.Oblige("T.fixedwrap", okP, mi.Pos(), name, "WTFixedSliceWrapper is built only when the element codec has no explicit presence",
				"a packed fixed-width slice writes every element at full width and sizes itself with Underlying.Size(nil, nil): an element codec that can be absent (a pointer at any depth, a null type) cannot be represented and its Size dereferences the nil pointer - such element types must be rejected with an error before the wrapper is built", nil)
		}
	}
	if n == 0 {
		c.Oblige("T.fixedwrap", false, f.Pos(), name, "construction of WTFixedSliceWrapper", "not found: the rule no longer sees the code it was written for", nil)
	}
	c.Floor("T.fixedwrap", 1)
}

// ---------------------------------------------------------------------------
// X.reflect.pre: reflect.Type methods that panic for the wrong kind are only
// called where the kind is known to be right. A small forward dataflow over
// the set of kinds each reflect.Type access path can have.

var reflectKindAll = []string{"Invalid", "Bool", "Int", "Int8", "Int16", "Int32", "Int64", "Uint", "Uint8", "Uint16", "Uint32", "Uint64", "Uintptr",
	"Float32", "Float64", "Complex64", "Complex128", "Array", "Chan", "Func", "Interface", "Map", "Pointer", "Slice", "String", "Struct", "UnsafePointer"}

var reflectPre = map[string][]string{
	"Elem":     {"Array", "Chan", "Map", "Pointer", "Slice"},
	"Key":      {"Map"},
	"NumField": {"Struct"},
	"Field":    {"Struct"},
	"Len":      {"Array"},
	"NumIn":    {"Func"},
	"NumOut":   {"Func"},
	"In":       {"Func"},
	"Out":      {"Func"},
}

type kindSet map[string]bool

func fullKinds() kindSet {
	k := kindSet{}
	for _, n := range reflectKindAll {
		k[n] = true
	}
	return k
}

func isReflectType(t types.Type) bool {
	n, ok := t.(*types.Named)
	return ok && n.Obj().Pkg() != nil && n.Obj().Pkg().Path() == "reflect" && n.Obj().Name() == "Type"
}

// typePath canonicalises a reflect.Type valued expression: pure accessors on
// the same root denote the same type.
func typePath(v ssa.Value, depth int) string {
	if depth > 8 {
		return fmt.Sprintf("%p", v)
	}
	switch x := v.(type) {
	case *ssa.Call:
		cc := x.Common()
		if cc.IsInvoke() && isReflectType(cc.Value.Type()) {
			switch cc.Method.Name() {
			case "Elem", "Key":
				return typePath(cc.Value, depth+1) + "." + cc.Method.Name() + "()"
			}
		}
		if cal := cc.StaticCallee(); cal != nil && cal.String() == "(reflect.Value).Type" {
			return typePath(cc.Args[0], depth+1) + ".Type()"
		}
	case *ssa.Field:
		// typ.Field(i).Type
		if call, ok := x.X.(*ssa.Call); ok {
			cc := call.Common()
			if cc.IsInvoke() && isReflectType(cc.Value.Type()) && cc.Method.Name() == "Field" {
				return typePath(cc.Value, depth+1) + ".Field(" + cc.Args[0].Name() + ")." + fmt.Sprint(x.Field)
			}
		}
	case *ssa.UnOp:
		if x.Op == token.MUL {
			if fa, ok := x.X.(*ssa.FieldAddr); ok {
				return typePath(fa.X, depth+1) + "." + fieldName(fa)
			}
		}
	case *ssa.Parameter:
		return x.Name()
	}
	return fmt.Sprintf("%s@%p", v.Name(), v)
}

// fieldOfLoad: v is a load of a struct field; returns the field.
func fieldOfLoad(v ssa.Value) *types.Var {
	u, ok := v.(*ssa.UnOp)
	if !ok || u.Op != token.MUL {
		return nil
	}
	fa, ok := u.X.(*ssa.FieldAddr)
	if !ok {
		return nil
	}
	st, ok := deref(fa.X.Type()).Underlying().(*types.Struct)
	if !ok {
		return nil
	}
	return st.Field(fa.Field)
}

type kindState map[string]kindSet

// reflectKindOf: v is a constant of type reflect.Kind.
func reflectKindOf(v ssa.Value) (string, bool) {
	k, ok := v.(*ssa.Const)
	if !ok || k.Value == nil || typeName(k.Type()) != "Kind" {
		return "", false
	}
	i, ok := constant.Int64Val(constant.ToInt(k.Value))
	if !ok || i < 0 || int(i) >= len(reflectKindAll) {
		return "", false
	}
	return reflectKindAll[i], true
}

// kindSubject: v is <type>.Kind() or <value>.Kind(); returns the reflect.Type expression's path and
// (when it is one) the SSA value of the type expression.
func kindSubject(v ssa.Value) (string, ssa.Value, bool) {
	call, ok := v.(*ssa.Call)
	if !ok {
		return "", nil, false
	}
	cc := call.Common()
	if cc.IsInvoke() && cc.Method.Name() == "Kind" && isReflectType(cc.Value.Type()) {
		return typePath(cc.Value, 0), cc.Value, true
	}
	if cal := cc.StaticCallee(); cal != nil && cal.String() == "(reflect.Value).Kind" {
		return typePath(cc.Args[0], 0) + ".Type()", nil, true
	}
	return "", nil, false
}

// kindFlow: forward dataflow of the kinds each reflect.Type path can have; base gives the kinds
// known for a type expression before any test (field invariants), nil = any kind.
func kindFlow(f *ssa.Function, base func(v ssa.Value) kindSet) map[*ssa.BasicBlock]kindState {
	kindTest := func(cond ssa.Value) (string, ssa.Value, string, bool, bool) {
		bo, ok := cond.(*ssa.BinOp)
		if !ok || (bo.Op != token.EQL && bo.Op != token.NEQ) {
			return "", nil, "", false, false
		}
		if pth, tv, ok := kindSubject(bo.X); ok {
			if k, ok := reflectKindOf(bo.Y); ok {
				return pth, tv, k, bo.Op == token.EQL, true
			}
		}
		if pth, tv, ok := kindSubject(bo.Y); ok {
			if k, ok := reflectKindOf(bo.X); ok {
				return pth, tv, k, bo.Op == token.EQL, true
			}
		}
		return "", nil, "", false, false
	}
	in := map[*ssa.BasicBlock]kindState{}
	clone := func(s kindState) kindState {
		o := kindState{}
		for k, v := range s {
			ks := kindSet{}
			for kk := range v {
				ks[kk] = true
			}
			o[k] = ks
		}
		return o
	}
	// join: union per path; a path missing on one side is unconstrained (dropped)
	join := func(a, b kindState) (kindState, bool) {
		changed := false
		out := kindState{}
		for k, va := range a {
			vb, ok := b[k]
			if !ok {
				changed = true
				continue
			}
			ks := kindSet{}
			for kk := range va {
				ks[kk] = true
			}
			for kk := range vb {
				if !ks[kk] {
					ks[kk] = true
					changed = true
				}
			}
			out[k] = ks
		}
		return out, changed
	}
	work := []*ssa.BasicBlock{f.Blocks[0]}
	in[f.Blocks[0]] = kindState{}
	seenB := map[*ssa.BasicBlock]bool{f.Blocks[0]: true}
	for len(work) > 0 {
		b := work[0]
		work = work[1:]
		s := in[b]
		push := func(t *ssa.BasicBlock, ns kindState) {
			if !seenB[t] {
				seenB[t] = true
				in[t] = ns
				work = append(work, t)
				return
			}
			j, ch := join(in[t], ns)
			if ch {
				in[t] = j
				work = append(work, t)
			}
		}
		if ifi, ok := b.Instrs[len(b.Instrs)-1].(*ssa.If); ok {
			if pth, tv, k, eq, ok := kindTest(ifi.Cond); ok {
				ts, fs := clone(s), clone(s)
				cur, has := s[pth]
				if !has {
					if tv != nil && base != nil {
						cur = base(tv)
					}
					if cur == nil {
						cur = fullKinds()
					}
				}
				only, without := kindSet{}, kindSet{}
				for kk := range cur {
					if kk == k {
						only[kk] = true
					} else {
						without[kk] = true
					}
				}
				if eq {
					ts[pth], fs[pth] = only, without
				} else {
					ts[pth], fs[pth] = without, only
				}
				push(b.Succs[0], ts)
				push(b.Succs[1], fs)
				continue
			}
		}
		for _, t := range b.Succs {
			push(t, clone(s))
		}
	}
	return in
}

func ruleReflectPre(c *Ctx) {
	p := c.P
	flows := map[*ssa.Function]map[*ssa.BasicBlock]kindState{}
	// phase 1: invariants of reflect.Type-valued struct fields = union of the kinds stored into them
	inv := map[*types.Var]kindSet{}
	top := map[*types.Var]bool{}
	for _, f := range p.moduleFuncs() {
		if len(f.Blocks) == 0 {
			continue
		}
		for _, b := range f.Blocks {
			for _, in := range b.Instrs {
				st, ok := in.(*ssa.Store)
				if !ok || !isReflectType(st.Val.Type()) {
					continue
				}
				fa, ok := st.Addr.(*ssa.FieldAddr)
				if !ok {
					continue
				}
				sty, ok := deref(fa.X.Type()).Underlying().(*types.Struct)
				if !ok {
					continue
				}
				fv := sty.Field(fa.Field)
				if flows[f] == nil {
					flows[f] = kindFlow(f, nil)
				}
				ks, has := flows[f][b][typePath(st.Val, 0)]
				if !has {
					top[fv] = true
					continue
				}
				if inv[fv] == nil {
					inv[fv] = kindSet{}
				}
				for k := range ks {
					inv[fv][k] = true
				}
			}
		}
	}
	base := func(v ssa.Value) kindSet {
		if fv := fieldOfLoad(v); fv != nil && !top[fv] && inv[fv] != nil {
			ks := kindSet{}
			for k := range inv[fv] {
				ks[k] = true
			}
			return ks
		}
		return nil
	}
	sites := 0
	for _, f := range p.moduleFuncs() {
		if f.Synthetic != "" || len(f.Blocks) == 0 {
			continue
		}
		fname := ssaFuncName(f)
		var flow map[*ssa.BasicBlock]kindState
		for _, b := range f.Blocks {
			for _, in := range b.Instrs {
				call, ok := in.(*ssa.Call)
				if !ok {
					continue
				}
				cc := call.Common()
				if !cc.IsInvoke() || !isReflectType(cc.Value.Type()) || reflectPre[cc.Method.Name()] == nil {
					continue
				}
				if flow == nil {
					flow = kindFlow(f, base)
				}
				sites++
				pth := typePath(cc.Value, 0)
				allowed := reflectPre[cc.Method.Name()]
				ks, has := flow[b][pth]
				if !has {
					if bk := base(cc.Value); bk != nil {
						ks, has = bk, true
					}
				}
				ok2 := has
				var bad []string
				if has {
					for k := range ks {
						good := false
						for _, a := range allowed {
							if a == k {
								good = true
							}
						}
						if !good {
							ok2 = false
							bad = append(bad, k)
						}
					}
				}
				sort.Strings(bad)
				why := fmt.Sprintf("reflect.Type.%s panics unless the kind is one of %v", cc.Method.Name(), allowed)
				if !has {
					why += "; no test of " + pth + ".Kind() reaches this call and the value is not a field whose stores all have a known kind"
				} else if len(bad) > 0 {
					if len(bad) > 6 {
						bad = append(bad[:6], "…")
					}
					why += fmt.Sprintf("; here %s may also be %v", pth, bad)
				}
				c.Oblige("X.reflect.pre", ok2, call.Pos(), fname, fmt.Sprintf("%s.%s() under a kind test", pth, cc.Method.Name()),
					"asking for a codec or using one never panics: "+why, nil)
			}
		}
	}
	c.Floor("X.reflect.pre", 8)
}

// ---------------------------------------------------------------------------
// X.commaok: the value of `v, ok := m[k]` is used only where ok holds.

func ruleCommaOk(c *Ctx, names []string) {
	p := c.P
	n := 0
	for _, name := range names {
		f := p.ssaFunc(name)
		if f == nil {
			c.Oblige("X.commaok", false, token.NoPos, name, "function", "not found", nil)
			continue
		}
		for _, b := range f.Blocks {
			for _, in := range b.Instrs {
				lk, ok := in.(*ssa.Lookup)
				if !ok || !lk.CommaOk {
					continue
				}
				var val, okv ssa.Value
				for _, r := range *lk.Referrers() {
					if ex, ok := r.(*ssa.Extract); ok {
						if ex.Index == 0 {
							val = ex
						} else {
							okv = ex
						}
					}
				}
				if val == nil {
					continue
				}
				n++
				// every use of val: φ edges must come along an ok-true edge; other uses must sit in a block controlled by ok
				okAll := true
				why := ""
				okEdge := func(from, to *ssa.BasicBlock) bool {
					// the edge from→to is taken only when ok holds
					for d := from; d != nil; d = d.Idom() {
						if ifi, isIf := d.Instrs[len(d.Instrs)-1].(*ssa.If); isIf {
							truth, isOk := condIsOk(ifi.Cond, okv)
							if isOk {
								want := d.Succs[0]
								if !truth {
									want = d.Succs[1]
								}
								// d == from: the edge itself must be the ok branch
								if d == from {
									if want == to && d.Succs[0] != d.Succs[1] {
										return true
									}
									return false
								}
								if (want == from || want.Dominates(from)) && len(want.Preds) == 1 {
									return true
								}
								return false
							}
						}
						if d == lk.Block() {
							break
						}
					}
					return false
				}
				for _, r := range *val.Referrers() {
					switch u := r.(type) {
					case *ssa.Phi:
						for i, e := range u.Edges {
							if e == val && !okEdge(u.Block().Preds[i], u.Block()) {
								okAll = false
								why = "it flows on along a path where the lookup may have failed (the zero value)"
							}
						}
					case *ssa.DebugRef:
					default:
						ub := r.Block()
						good := false
						conds, truths := controllingConds(ub)
						for i, cd := range conds {
							if truth, isOk := condIsOk(cd, okv); isOk && truth == truths[i] {
								good = true
							}
						}
						if !good {
							okAll = false
							why = "it is used where the lookup may have failed"
						}
					}
				}
				c.Oblige("X.commaok", okAll, lk.Pos(), name, "value of the comma-ok lookup is used only where ok holds",
					"when the table has no entry the looked-up value is the zero string: every path that returns or stores it must be one on which ok is true, otherwise an unseen value decodes to \"\""+
						map[bool]string{true: "", false: "; " + why}[why == ""], nil)
			}
		}
	}
	c.Floor("X.commaok", 2)
}

// condIsOk: cond is okv (truth=true means cond true ⇔ ok) or !okv.
func condIsOk(cond, okv ssa.Value) (truth bool, is bool) {
	if okv == nil {
		return false, false
	}
	if cond == okv {
		return true, true
	}
	if u, ok := cond.(*ssa.UnOp); ok && u.Op == token.NOT && u.X == okv {
		return false, true
	}
	return false, false
}

// ---------------------------------------------------------------------------
// J.time: times are rendered with nanosecond precision in RFC 3339.

func ruleJSONTime(c *Ctx) {
	p := c.P
	name := "plenccodec.JSONOutput.Time"
	f := p.ssaFunc(name)
	if f == nil {
		c.Oblige("J.time", false, token.NoPos, name, "function", "not found", nil)
		return
	}
	n := 0
	for _, b := range f.Blocks {
		for _, in := range b.Instrs {
			call, ok := in.(*ssa.Call)
			if !ok {
				continue
			}
			cal := call.Common().StaticCallee()
			if cal == nil || cal.Pkg == nil || cal.Pkg.Pkg.Path() != "time" || (cal.Name() != "AppendFormat" && cal.Name() != "Format") {
				continue
			}
			n++
			layout := call.Common().Args[len(call.Common().Args)-1]
			k, isK := layout.(*ssa.Const)
			good := isK && k.Value != nil && k.Value.Kind() == constant.String && strings.Trim(constant.StringVal(k.Value), `"`) == "2006-01-02T15:04:05.999999999Z07:00"
			c.Oblige("J.time", good, call.Pos(), name, "layout is time.RFC3339Nano",
				"a time is rendered as an RFC 3339 string with the same instant the typed decode recovers: the layout must keep all nine fractional digits (RFC3339Nano); a shorter fraction truncates, a fixed one pads", nil)
		}
	}
	if n == 0 {
		c.Oblige("J.time", false, f.Pos(), name, "time formatting call", "no time.Time.AppendFormat/Format call found", nil)
	}
	c.Floor("J.time", 1)
}

// ---------------------------------------------------------------------------
// T.desc-marshalers: the Descriptor and its enum types are serialised by the
// default rules of encoding/json and plenc (no custom marshalers).

func ruleDescMarshalers(c *Ctx) {
	p := c.P
	pk := p.pkg("plenccodec")
	if pk == nil {
		c.Oblige("T.desc-marshalers", false, token.NoPos, "plenccodec", "package", "not found", nil)
		return
	}
	for _, tn := range []string{"Descriptor", "FieldType", "LogicalType"} {
		obj, _ := pk.Types.Scope().Lookup(tn).(*types.TypeName)
		if obj == nil {
			c.Oblige("T.desc-marshalers", false, token.NoPos, "plenccodec."+tn, "type", "not found", nil)
			continue
		}
		var found []string
		for _, t := range []types.Type{obj.Type(), types.NewPointer(obj.Type())} {
			ms := types.NewMethodSet(t)
			for i := 0; i < ms.Len(); i++ {
				switch n := ms.At(i).Obj().Name(); n {
				case "MarshalJSON", "UnmarshalJSON", "MarshalText", "UnmarshalText", "MarshalBinary", "UnmarshalBinary", "GobEncode", "GobDecode":
					found = append(found, n)
				}
			}
		}
		sort.Strings(found)
		c.Oblige("T.desc-marshalers", len(found) == 0, obj.Pos(), "plenccodec."+tn, "no custom marshalers on "+tn,
			"a Descriptor restored through encoding/json must equal the original: with the default rules that follows from the field tags (T.desc-tags) and the integer enums; a custom (Un)Marshal method ("+strings.Join(found, ", ")+") replaces those rules and needs its own round-trip argument - classification required", nil)
	}
	c.Floor("T.desc-marshalers", 3)
}

// ---------------------------------------------------------------------------
// T.jsondispatch.out: the walker renders each JSON type code through the
// Outputter method of that type.

func ruleJSONWalkerOut(c *Ctx) {
	p := c.P
	wk := p.findFunc("plenccodec", "Descriptor", "readJSONObjectKV")
	if wk == nil {
		c.Oblige("T.jsondispatch.out", false, token.NoPos, "plenccodec.Descriptor.readJSONObjectKV", "function", "not found", nil)
		return
	}
	info := wk.Pkg.TypesInfo
	want := map[string]string{"jsonTypeString": "String", "jsonTypeInt": "Int64", "jsonTypeFloat": "Float64", "jsonTypeBool": "Bool", "jsonTypeNumber": "Raw"}
	var sw *ast.SwitchStmt
	ast.Inspect(wk.Decl.Body, func(n ast.Node) bool {
		if s, ok := n.(*ast.SwitchStmt); ok && s.Tag != nil {
			if t := info.TypeOf(s.Tag); t != nil && typeName(t) == "jsonType" {
				sw = s
			}
		}
		return true
	})
	if sw == nil {
		c.Oblige("T.jsondispatch.out", false, wk.Decl.Pos(), wk.Name(), "switch jType", "not found", nil)
		return
	}
	seen := map[string]bool{}
	for _, st := range sw.Body.List {
		cc := st.(*ast.CaseClause)
		for _, e := range cc.List {
			code := constName(info, e)
			w, has := want[code]
			if !has {
				continue
			}
			seen[code] = true
			var methods []string
			var rawArg ast.Expr
			ast.Inspect(cc, func(n ast.Node) bool {
				call, ok := n.(*ast.CallExpr)
				if !ok {
					return true
				}
				sel, ok := call.Fun.(*ast.SelectorExpr)
				if !ok {
					return true
				}
				if t := info.TypeOf(sel.X); t != nil && typeName(t) == "Outputter" {
					methods = append(methods, sel.Sel.Name)
					if sel.Sel.Name == "Raw" && len(call.Args) == 1 {
						rawArg = call.Args[0]
					}
				}
				return true
			})
			good := len(methods) == 1 && methods[0] == w
			why := fmt.Sprintf("a %s value must be output with Outputter.%s (exactly one call); found %v", code, w, methods)
			if good && w == "Raw" {
				// the raw text is the decoded number's own text: v.String() or string(v)
				s := p.str(rawArg)
				good = strings.HasSuffix(s, ".String()") || strings.HasPrefix(s, "string(")
				if !good {
					why = "a json.Number must be output as its own text (v.String()): re-formatting through float64/int64 rounds numbers those types cannot hold; found Raw(" + s + ")"
				}
			}
			c.Oblige("T.jsondispatch.out", good, cc.Pos(), wk.Name(), "output method for "+code, why, nil)
		}
	}
	for code := range want {
		if !seen[code] {
			c.Oblige("T.jsondispatch.out", false, sw.Pos(), wk.Name(), "case "+code, "no case for this type code", nil)
		}
	}
	// nil is carried by the type code alone: the writer adds no value field for
	// it, so "null" has to be output where the type field (2) is read - in the
	// clause of the value field (3) it would never be reached
	if f := p.ssaFunc("plenccodec.Descriptor.readJSONObjectKV"); f != nil {
		found, atType := false, false
		for _, b := range f.Blocks {
			for _, in := range b.Instrs {
				call, ok := in.(*ssa.Call)
				if !ok {
					continue
				}
				cc := call.Common()
				if !cc.IsInvoke() || cc.Method.Name() != "Raw" || len(cc.Args) != 1 || !isConstString(cc.Args[0], "null") {
					continue
				}
				found = true
				conds, truths := controllingConds(b)
				for i, cd := range conds {
					bo, ok := cd.(*ssa.BinOp)
					if !ok || bo.Op != token.EQL || !truths[i] {
						continue
					}
					for _, o := range []ssa.Value{bo.X, bo.Y} {
						if k, ok := o.(*ssa.Const); ok && k.Value != nil && k.Value.ExactString() == "2" && isIntLike(k.Type()) && typeName(k.Type()) != "jsonType" {
							atType = true
						}
					}
				}
			}
		}
		c.Oblige("T.jsondispatch.out", found && atType, f.Pos(), wk.Name(), "null is output where the type field is read",
			"a nil value is written as key and type code only; the walker must render it when it reads the type field (index 2), the value clause (index 3) is never reached for it", nil)
	}
	c.Floor("T.jsondispatch.out", 6)
}

// ---------------------------------------------------------------------------
// X.mapslot.merge: an existing map value is decoded into, never reset first.

func ruleMapSlotMerge(c *Ctx) {
	p := c.P
	n := 0
	for _, f := range p.inputFuncs() {
		name := ssaFuncName(f)
		for _, b := range f.Blocks {
			for _, in := range b.Instrs {
				call, ok := in.(*ssa.Call)
				if !ok {
					continue
				}
				cal := call.Common().StaticCallee()
				if cal == nil || cal.Name() != "mapassign" {
					continue
				}
				n++
				slot := ssa.Value(call)
				var clears, reads []*ssa.BasicBlock
				for _, bb := range f.Blocks {
					for _, in2 := range bb.Instrs {
						if ptr, ok := isClearCall(in2); ok && ptr == slot {
							clears = append(clears, bb)
						}
						if tgt, _, ok := codecReadTarget(in2); ok && tgt == slot {
							reads = append(reads, bb)
						}
					}
				}
				bad := false
				for _, cb := range clears {
					for _, rb := range reads {
						if cb == rb || cb.Dominates(rb) || reachable(cb, rb) {
							bad = true
						}
					}
				}
				c.Oblige("X.mapslot.merge", !bad && len(reads) > 0, call.Pos(), name, "the value slot is not cleared on a path that goes on to decode into it",
					"map entries are merged by key: when the key is already present the value codec decodes into the existing value (fields absent from the data keep their prior value, a non-nil pointer is decoded into) - clearing the slot first turns the merge into a replacement; only an entry without a value resets the slot", nil)
			}
		}
	}
	c.Floor("X.mapslot.merge", 1)
}

func reachable(from, to *ssa.BasicBlock) bool {
	seen := map[*ssa.BasicBlock]bool{}
	stack := append([]*ssa.BasicBlock{}, from.Succs...)
	for len(stack) > 0 {
		b := stack[len(stack)-1]
		stack = stack[:len(stack)-1]
		if seen[b] {
			continue
		}
		seen[b] = true
		if b == to {
			return true
		}
		stack = append(stack, b.Succs...)
	}
	return false
}

// ---------------------------------------------------------------------------
// T.repeated-nesting: a codec that writes a value as a bare sequence of tagged
// elements (the protobuf repeated-field form) is never used as the element of
// a slice or the value of a map: nothing would delimit one value from the next.

func mentionsProtoSlice(f *ssa.Function, depth int, seen map[*ssa.Function]bool) bool {
	if f == nil || depth > 3 || seen[f] {
		return false
	}
	seen[f] = true
	for _, b := range f.Blocks {
		for _, in := range b.Instrs {
			if ta, ok := in.(*ssa.TypeAssert); ok && typeName(ta.AssertedType) == "ProtoSliceWrapper" {
				return true
			}
			if call, ok := in.(*ssa.Call); ok {
				if cal := call.Common().StaticCallee(); cal != nil && cal.Pkg != nil && inModule(cal.Pkg.Pkg) {
					if mentionsProtoSlice(cal, depth+1, seen) {
						return true
					}
				}
			}
		}
	}
	return false
}

func ruleRepeatedNesting(c *Ctx) {
	p := c.P
	// (a) slice case of the kind switch
	name := "plenc.Plenc.CodecForTypeRegistry"
	f := p.ssaFunc(name)
	if f == nil {
		c.Oblige("T.repeated-nesting", false, token.NoPos, name, "function", "not found", nil)
	} else {
		n := 0
		for _, b := range f.Blocks {
			for _, in := range b.Instrs {
				mi, ok := in.(*ssa.MakeInterface)
				if !ok {
					continue
				}
				tn := typeName(mi.X.Type())
				if tn != "ProtoSliceWrapper" && tn != "WTLengthSliceWrapper" {
					continue
				}
				n++
				conds, truths := controllingConds(b)
				good := false
				for i, cd := range conds {
					call, ok := cd.(*ssa.Call)
					if !ok || truths[i] {
						continue
					}
					if cal := call.Common().StaticCallee(); cal != nil && cal.Pkg != nil && inModule(cal.Pkg.Pkg) && mentionsProtoSlice(cal, 0, map[*ssa.Function]bool{}) &&
						mentionsAssert(cal, "PointerWrapper", 0, map[*ssa.Function]bool{}) {
						good = true
					}
				}
				// or a direct comma-ok assertion, in a function that also looks through pointer wrappers
				for i, cd := range conds {
					if ex, ok := cd.(*ssa.Extract); ok && ex.Index == 1 && !truths[i] {
						if ta, ok := ex.Tuple.(*ssa.TypeAssert); ok && typeName(ta.AssertedType) == "ProtoSliceWrapper" && mentionsAssert(f, "PointerWrapper", 0, map[*ssa.Function]bool{}) {
							good = true
						}
					}
				}
				c.Oblige("T.repeated-nesting", good, mi.Pos(), name, tn+" is built only when the element codec is not in repeated form",
					"with ProtoCompatibleArrays a []string is written as a repeated field - one tagged element after another with nothing around them; as the element of another slice the boundaries between the inner slices are lost ([][]string reads back flattened, and so does []*[]string). The element codec must be tested for ProtoSliceWrapper THROUGH any pointer wrappers and rejected", nil)
			}
		}
		if n < 2 {
			c.Oblige("T.repeated-nesting", false, f.Pos(), name, "construction of the length-delimited slice wrappers", "not found", nil)
		}
	}
	// (b) map builder
	name = "plenccodec.BuildMapCodec"
	f = p.ssaFunc(name)
	if f == nil {
		c.Oblige("T.repeated-nesting", false, token.NoPos, name, "function", "not found", nil)
	} else {
		// the store of the value codec into the MapCodec under construction
		var st *ssa.Store
		for _, b := range f.Blocks {
			for _, in := range b.Instrs {
				if s, ok := in.(*ssa.Store); ok {
					if fa, ok := s.Addr.(*ssa.FieldAddr); ok && fieldName(fa) == "valueCodec" {
						st = s
					}
				}
			}
		}
		good := false
		if st != nil {
			for _, b := range f.Blocks {
				for _, in := range b.Instrs {
					ta, ok := in.(*ssa.TypeAssert)
					if !ok || !ta.CommaOk || typeName(ta.AssertedType) != "ProtoSliceWrapper" {
						continue
					}
					// the tested value must be able to be the key codec as well as the value codec
					nsrc := 0
					seenS := map[ssa.Value]bool{}
					var srcs func(v ssa.Value, depth int)
					srcs = func(v ssa.Value, depth int) {
						if v == nil || depth > 12 || seenS[v] {
							return
						}
						seenS[v] = true
						switch y := v.(type) {
						case *ssa.Extract:
							if call, ok := y.Tuple.(*ssa.Call); ok && y.Index == 0 {
								if call.Common().IsInvoke() && call.Common().Method.Name() == "CodecForTypeRegistry" {
									nsrc++
								}
							}
							if ta2, ok := y.Tuple.(*ssa.TypeAssert); ok {
								srcs(ta2.X, depth+1)
							}
						case *ssa.Phi:
							for _, e := range y.Edges {
								srcs(e, depth+1)
							}
						case *ssa.UnOp:
							switch a := y.X.(type) {
							case *ssa.Alloc:
								for _, r := range *a.Referrers() {
									if st, ok := r.(*ssa.Store); ok {
										srcs(st.Val, depth+1)
									}
									if ia, ok := r.(*ssa.IndexAddr); ok {
										for _, r2 := range *ia.Referrers() {
											if st, ok := r2.(*ssa.Store); ok {
												srcs(st.Val, depth+1)
											}
										}
									}
								}
							case *ssa.IndexAddr:
								srcs(a.X, depth+1)
								if al, ok := a.X.(*ssa.Alloc); ok {
									for _, r := range *al.Referrers() {
										if ia, ok := r.(*ssa.IndexAddr); ok {
											for _, r2 := range *ia.Referrers() {
												if st, ok := r2.(*ssa.Store); ok {
													srcs(st.Val, depth+1)
												}
											}
										}
									}
								}
							case *ssa.FieldAddr:
								srcs(a.X, depth+1)
							}
						case *ssa.Field:
							srcs(y.X, depth+1)
						case *ssa.Index:
							srcs(y.X, depth+1)
						case *ssa.TypeAssert:
							srcs(y.X, depth+1)
						case *ssa.ChangeInterface:
							srcs(y.X, depth+1)
						case *ssa.MakeInterface:
							srcs(y.X, depth+1)
						case *ssa.Alloc:
							for _, r := range *y.Referrers() {
								if ia, ok := r.(*ssa.IndexAddr); ok {
									for _, r2 := range *ia.Referrers() {
										if st, ok := r2.(*ssa.Store); ok {
											srcs(st.Val, depth+1)
										}
									}
								}
							}
						}
					}
					srcs(ta.X, 0)
					if nsrc < 2 || !mentionsAssert(f, "PointerWrapper", 0, map[*ssa.Function]bool{}) {
						continue
					}
					// the ok branch returns an error and the assertion is on the way to the store: its block, or
					// the header of a loop it sits in (a loop over the codecs to test), dominates the store
					onWay := b == st.Block() || b.Dominates(st.Block())
					for h, body := range loopsOf(f) {
						if body[b] && (h == st.Block() || h.Dominates(st.Block())) {
							onWay = true
						}
					}
					if !onWay {
						continue
					}
					for _, r := range *ta.Referrers() {
						ex, ok := r.(*ssa.Extract)
						if !ok || ex.Index != 1 {
							continue
						}
						for _, r2 := range *ex.Referrers() {
							if ifi, ok := r2.(*ssa.If); ok {
								tb := ifi.Block().Succs[0]
								if ret, ok := tb.Instrs[len(tb.Instrs)-1].(*ssa.Return); ok && isFailureReturnLoose(f, ret) {
									good = true
								}
							}
						}
					}
				}
			}
		}
		pos := f.Pos()
		if st != nil {
			pos = st.Pos()
		}
		c.Oblige("T.repeated-nesting", good, pos, name, "a value codec in repeated form is rejected before the map codec is built",
			"a map entry has exactly one value field: a value written as a repeated field (a []string under ProtoCompatibleArrays) is read back as its first element only (map[string][]string{\"k\": {\"x\",\"y\"}} gives {\"k\": {\"x\"}}), and a key likewise (map[*[]string]int) - both the key codec and the value codec (through any pointer wrappers) must be tested for ProtoSliceWrapper and rejected", nil)
	}
	c.Floor("T.repeated-nesting", 3)
}

// ---------------------------------------------------------------------------
// T.flat-walker: the walker renders a FlatInt as the int64 value of the
// varint. That is the field's value only if the codec wrote the value's own
// 64-bit pattern: a signed type narrower than 64 bits is written zero-extended
// (FlatIntCodec[uintN] over the intN's memory), so its negative values come
// out as large positive numbers. The Descriptor carries no width.

func ruleFlatWalker(c *Ctx) {
	p := c.P
	n := 0
	for _, r := range p.registrationRows() {
		if r.GoType == nil || r.Tag != "flat" {
			continue
		}
		b, ok := r.GoType.Underlying().(*types.Basic)
		if !ok || b.Info()&types.IsInteger == 0 {
			continue
		}
		nt := namedOf(r.Codec)
		if nt == nil || nt.Obj().Name() != "FlatIntCodec" || nt.TypeArgs().Len() != 1 {
			continue
		}
		n++
		arg, _ := nt.TypeArgs().At(0).Underlying().(*types.Basic)
		bits := sizes.Sizeof(b) * 8
		signed := b.Info()&types.IsUnsigned == 0
		zeroExt := arg != nil && arg.Info()&types.IsUnsigned != 0
		good := !(signed && zeroExt && bits < 64)
		c.Oblige("T.flat-walker", good, r.Call.Pos(), r.In.Name(), fmt.Sprintf("%s[flat]: the walker's int64 reading of the varint is the field's value", typeStr(r.GoType)),
			fmt.Sprintf("the Descriptor of a flat integer carries no width, and the walker reads the varint as a 64-bit value; %s is written zero-extended by %s, so negative values are rendered as large positive numbers (-1 as %d)", typeStr(r.GoType), typeStr(r.Codec), (int64(1)<<uint(bits))-1), nil)
	}
	c.Floor("T.flat-walker", 5)
}

// ---------------------------------------------------------------------------
// T.option-rejected: a tag option that selects nothing is an error. Basic
// kinds get that from the registry lookup (codecForBasicType fails); the
// composite clauses must reject an option they do not consume themselves.

func ruleOptionRejected(c *Ctx) {
	p := c.P
	// errorOnTag: f has a failure return controlled by a comparison of the string parameter `tag`
	errorOnTag := func(f *ssa.Function, within func(b *ssa.BasicBlock) bool) bool {
		var tagParam *ssa.Parameter
		for _, prm := range f.Params {
			if prm.Name() == "tag" {
				if b, ok := prm.Type().Underlying().(*types.Basic); ok && b.Kind() == types.String {
					tagParam = prm
				}
			}
		}
		if tagParam == nil {
			return false
		}
		for _, b := range f.Blocks {
			ret, ok := b.Instrs[len(b.Instrs)-1].(*ssa.Return)
			if !ok || !isFailureReturnLoose(f, ret) {
				continue
			}
			if within != nil && !within(b) {
				continue
			}
			// the branch into this block (or its single-predecessor chain) tests tag
			for d := b; d != nil; {
				if len(d.Preds) != 1 {
					break
				}
				pr := d.Preds[0]
				if ifi, ok := pr.Instrs[len(pr.Instrs)-1].(*ssa.If); ok {
					conds := []ssa.Value{ifi.Cond}
					if pr.Succs[0] == d && pr.Succs[1] != d {
						// a conjunction kept as a boolean (case of a tagless switch)
						conds = expandTrueConds(ifi.Cond, 0)
					}
					for _, cd := range conds {
						if bo, ok := cd.(*ssa.BinOp); ok && (bo.Op == token.EQL || bo.Op == token.NEQ) && (bo.X == ssa.Value(tagParam) || bo.Y == ssa.Value(tagParam)) {
							return true
						}
					}
				}
				d = pr
				if len(d.Instrs) > 1 {
					// only pure test blocks are walked through
					if _, isIf := d.Instrs[len(d.Instrs)-1].(*ssa.If); !isIf {
						break
					}
				}
			}
		}
		return false
	}
	// clauses of the kind switch, by the block region of each case
	name := "plenc.Plenc.CodecForTypeRegistry"
	f := p.ssaFunc(name)
	if f == nil {
		c.Oblige("T.option-rejected", false, token.NoPos, name, "function", "not found", nil)
	} else {
		for _, kind := range []string{"Struct", "Slice"} {
			// region: blocks controlled by typ.Kind() == kind
			region := func(b *ssa.BasicBlock) bool {
				conds, truths := controllingConds(b)
				for i, cd := range conds {
					if bo, ok := cd.(*ssa.BinOp); ok && bo.Op == token.EQL && truths[i] {
						if k, ok := reflectKindOf(bo.Y); ok && k == kind {
							return true
						}
						if k, ok := reflectKindOf(bo.X); ok && k == kind {
							return true
						}
					}
				}
				return false
			}
			c.Oblige("T.option-rejected", errorOnTag(f, region), f.Pos(), name, "case reflect."+kind+": an option that selects nothing is rejected",
				"a (type, option) pair without a registered codec reaches this clause with the option still set; a "+strings.ToLower(kind)+" consumes no option"+map[string]string{"Slice": " but proto", "Struct": ""}[kind]+", so anything else must be an error - silently ignoring it builds a plain codec (time.Time with an unknown option becomes an empty struct codec and the value is dropped)", nil)
		}
	}
	name = "plenccodec.BuildMapCodec"
	if f := p.ssaFunc(name); f == nil {
		c.Oblige("T.option-rejected", false, token.NoPos, name, "function", "not found", nil)
	} else {
		c.Oblige("T.option-rejected", errorOnTag(f, nil), f.Pos(), name, "map: an option that selects nothing is rejected",
			"a map consumes no option but proto: anything else must be an error", nil)
	}
	// intern on a codec that cannot intern
	name = "plenccodec.BuildStructCodec"
	if f := p.ssaFunc(name); f == nil {
		c.Oblige("T.option-rejected", false, token.NoPos, name, "function", "not found", nil)
	} else {
		good := false
		for _, b := range f.Blocks {
			for _, in := range b.Instrs {
				ta, ok := in.(*ssa.TypeAssert)
				if !ok || !ta.CommaOk || typeName(ta.AssertedType) != "Interner" {
					continue
				}
				for _, r := range *ta.Referrers() {
					ex, ok := r.(*ssa.Extract)
					if !ok || ex.Index != 1 {
						continue
					}
					for _, r2 := range *ex.Referrers() {
						if ifi, ok := r2.(*ssa.If); ok {
							fb := ifi.Block().Succs[1]
							if ret, ok := fb.Instrs[len(fb.Instrs)-1].(*ssa.Return); ok && isFailureReturnLoose(f, ret) {
								good = true
							}
						}
					}
				}
			}
		}
		c.Oblige("T.option-rejected", good, f.Pos(), name, "intern on a field whose codec cannot intern is rejected",
			"the intern option selects Interner.WithInterning(); on a codec that is not an Interner it selects nothing and must be an error", nil)
	}
	c.Floor("T.option-rejected", 4)
}

// ---------------------------------------------------------------------------
// T.desc-recursion: Descriptor() terminates. StructCodec.Descriptor calls the
// Descriptor() of every field codec; the builder admits recursive types (the
// overlay registry hands out the codec under construction), and Descriptor()
// has no parameter that could carry a visited set - so for a recursive type
// the recursion has no base case.

func ruleDescRecursion(c *Ctx) {
	p := c.P
	name := "plenccodec.StructCodec.Descriptor"
	f := p.ssaFunc(name)
	if f == nil {
		c.Oblige("T.desc-recursion", false, token.NoPos, name, "function", "not found", nil)
		return
	}
	// (1) does Descriptor() call the field codecs' Descriptor() through the interface?
	invokes := false
	for _, g := range []*ssa.Function{f} {
		for _, b := range g.Blocks {
			for _, in := range b.Instrs {
				if call, ok := in.(*ssa.Call); ok {
					cc := call.Common()
					if cc.IsInvoke() && cc.Method.Name() == "Descriptor" && typeName(cc.Value.Type()) == "Codec" {
						invokes = true
					}
				}
			}
		}
	}
	// (2) are recursive types admitted? the overlay registry returns the codec under construction
	admits := false
	if lf := p.ssaFunc("plenccodec.wrappedCodecRegistry.Load"); lf != nil {
		for _, b := range lf.Blocks {
			if ret, ok := b.Instrs[len(b.Instrs)-1].(*ssa.Return); ok && len(ret.Results) == 1 {
				v := ret.Results[0]
				for i := 0; i < 3; i++ {
					switch x := v.(type) {
					case *ssa.MakeInterface:
						v = x.X
						continue
					case *ssa.ChangeInterface:
						v = x.X
						continue
					}
					break
				}
				if fl, ok := v.(*ssa.Field); ok {
					if st, ok := fl.X.Type().Underlying().(*types.Struct); ok && st.Field(fl.Field).Name() == "codec" {
						admits = true
					}
				}
				if u, ok := v.(*ssa.UnOp); ok {
					if fa, ok := u.X.(*ssa.FieldAddr); ok && fieldName(fa) == "codec" {
						admits = true
					}
				}
			}
		}
	}
	// (3) a guard: Descriptor takes no arguments, so the only possible guards are state on the codec
	guarded := false
	for _, b := range f.Blocks {
		for _, in := range b.Instrs {
			if st, ok := in.(*ssa.Store); ok {
				if r := rootOf(st.Addr); r.kind == rkParam {
					guarded = true // writes a marker on the receiver (in-progress flag)
				}
			}
		}
	}
	c.Oblige("T.desc-recursion", !(invokes && admits) || guarded, f.Pos(), name, "Descriptor() of a recursive type terminates",
		"a recursive struct type (type node struct{ V int; Kids []node }) is accepted by the builder - the overlay registry hands the codec under construction to its own fields - and StructCodec.Descriptor calls Descriptor() on every field codec with nothing that marks a type as already being described: for such a type the call never returns (fatal stack overflow)", nil)
	c.Floor("T.desc-recursion", 1)
}

// ---------------------------------------------------------------------------
// X.clear.json: JSONArrayCodec.Read decodes into elements that are fresh or
// have been reset: a JSON null carries no value field, so readJSONKV leaves the
// element as it finds it.

func ruleClearJSON(c *Ctx) {
	p := c.P
	name := "plenccodec.JSONArrayCodec.Read"
	f := p.ssaFunc(name)
	if f == nil {
		c.Oblige("X.clear.json", false, token.NoPos, name, "function", "not found", nil)
		return
	}
	loops := loopsOf(f)
	n := 0
	for _, b := range f.Blocks {
		for _, in := range b.Instrs {
			cn, call := staticCalleeName(in)
			if call == nil || cn != "plenccodec.readJSONKV" {
				continue
			}
			args := call.Common().Args
			ia, ok := args[len(args)-1].(*ssa.IndexAddr)
			if !ok {
				continue
			}
			n++
			// leaves of the slice the element belongs to
			good, why := true, ""
			seen := map[ssa.Value]bool{}
			var visit func(v ssa.Value)
			visit = func(v ssa.Value) {
				if seen[v] {
					return
				}
				seen[v] = true
				switch x := v.(type) {
				case *ssa.Phi:
					for _, e := range x.Edges {
						visit(e)
					}
				case *ssa.MakeSlice:
					// fresh
				case *ssa.Slice:
					// a re-used array: a clearing loop over this slice must lie on every path to the read
					var hdr *ssa.BasicBlock
					for h, body := range loops {
						clears := false
						for bb := range body {
							for _, in2 := range bb.Instrs {
								st, ok := in2.(*ssa.Store)
								if !ok {
									continue
								}
								k, isK := st.Val.(*ssa.Const)
								ia2, isIA := st.Addr.(*ssa.IndexAddr)
								if isK && k.IsNil() && isIA && ia2.X == ssa.Value(x) {
									clears = true
								}
							}
						}
						if !clears {
							continue
						}
						// full range: the header's exit bound is len(x)
						full := false
						for _, in2 := range h.Instrs {
							if bo, ok := in2.(*ssa.BinOp); ok && bo.Op == token.LSS {
								if lc, ok := bo.Y.(*ssa.Call); ok {
									if bi, ok := lc.Common().Value.(*ssa.Builtin); ok && bi.Name() == "len" && lc.Common().Args[0] == ssa.Value(x) {
										full = true
									}
								}
							}
						}
						// `for i := range a`: len is taken before the loop
						for _, pr := range h.Preds {
							for _, in2 := range pr.Instrs {
								if lc, ok := in2.(*ssa.Call); ok {
									if bi, ok := lc.Common().Value.(*ssa.Builtin); ok && bi.Name() == "len" && lc.Common().Args[0] == ssa.Value(x) {
										for _, in3 := range h.Instrs {
											if bo, ok := in3.(*ssa.BinOp); ok && bo.Op == token.LSS && bo.Y == ssa.Value(lc) {
												full = true
											}
										}
									}
								}
							}
						}
						if full {
							hdr = h
						}
					}
					if hdr == nil {
						good, why = false, "the re-used array is not reset by a loop over all of its elements"
						return
					}
					// must-pass-through: from the re-slice to the read without entering the clearing loop?
					seenB := map[*ssa.BasicBlock]bool{}
					var reach func(bb *ssa.BasicBlock) bool
					reach = func(bb *ssa.BasicBlock) bool {
						if bb == hdr {
							return false
						}
						if bb == b {
							return true
						}
						if seenB[bb] {
							return false
						}
						seenB[bb] = true
						for _, s := range bb.Succs {
							if reach(s) {
								return true
							}
						}
						return false
					}
					if reach(x.Block()) {
						good, why = false, "a path from the re-slice to the element read avoids the clearing loop"
					}
				default:
					good, why = false, fmt.Sprintf("the slice comes from %T: neither fresh nor re-sliced-and-cleared", v)
				}
			}
			visit(ia.X)
			c.Oblige("X.clear.json", good, call.Pos(), name, "readJSONKV into an element that is fresh or was reset",
				"a nil element is encoded by its type code alone and readJSONKV assigns nothing for it: decoding into an element of a re-used array shows the old value through ([nil] into []any{\"x\"} gives [\"x\"])"+
					map[bool]string{true: "", false: "; " + why}[good], nil)
		}
	}
	c.Floor("X.clear.json", 1)
}

// ---------------------------------------------------------------------------
// X.append.target: while encoding, bytes are only ever appended to the
// caller's buffer (or to a slice the encoder made itself) - never to a slice
// that belongs to the codec, such as a field's precomputed tag, whose spare
// capacity is shared by every goroutine using the codec.

func ruleAppendTarget(c *Ctx) {
	p := c.P
	n := 0
	for _, f := range encodeFuncs(p) {
		if len(f.Blocks) == 0 {
			continue
		}
		name := ssaFuncName(f)
		var data *ssa.Parameter
		for _, prm := range f.Params {
			if isByteSlice(prm.Type()) {
				data = prm
				break
			}
		}
		var rootBad func(v ssa.Value, depth int, seen map[ssa.Value]bool) string
		rootBad = func(v ssa.Value, depth int, seen map[ssa.Value]bool) string {
			if depth > 30 || seen[v] {
				return ""
			}
			seen[v] = true
			switch x := v.(type) {
			case *ssa.Parameter:
				if data != nil && x == data {
					return ""
				}
				return "parameter " + x.Name() + " (not the output buffer)"
			case *ssa.Const, *ssa.MakeSlice:
				return ""
			case *ssa.Alloc:
				return ""
			case *ssa.FreeVar:
				return "" // closures over the enclosing encoder's buffer variable (checked by X.appendonly)
			case *ssa.Phi:
				for _, e := range x.Edges {
					if s := rootBad(e, depth+1, seen); s != "" {
						return s
					}
				}
				return ""
			case *ssa.Slice:
				return rootBad(x.X, depth+1, seen)
			case *ssa.Convert:
				return rootBad(x.X, depth+1, seen)
			case *ssa.ChangeType:
				return rootBad(x.X, depth+1, seen)
			case *ssa.Extract:
				return rootBad(x.Tuple, depth+1, seen)
			case *ssa.Call:
				cc := x.Common()
				if b, ok := cc.Value.(*ssa.Builtin); ok && b.Name() == "append" {
					return rootBad(cc.Args[0], depth+1, seen)
				}
				// a call that returns a []byte: an appender returns its first []byte argument extended
				for _, a := range cc.Args {
					if isByteSlice(a.Type()) {
						return rootBad(a, depth+1, seen)
					}
				}
				if cc.IsInvoke() {
					return ""
				}
				return ""
			case *ssa.UnOp:
				if x.Op == token.MUL {
					if al, ok := x.X.(*ssa.Alloc); ok {
						// local buffer variable: all stores
						for _, r := range *al.Referrers() {
							if st, ok := r.(*ssa.Store); ok && st.Addr == ssa.Value(al) {
								if s := rootBad(st.Val, depth+1, seen); s != "" {
									return s
								}
							}
						}
						return ""
					}
					if fv, ok := x.X.(*ssa.FreeVar); ok {
						_ = fv
						return ""
					}
					if fa, ok := x.X.(*ssa.FieldAddr); ok {
						return "field " + fieldName(fa) + " of " + typeName(deref(fa.X.Type())) + " (state of the codec)"
					}
					if _, ok := x.X.(*ssa.Global); ok {
						return "a package-level slice"
					}
				}
				return ""
			case *ssa.Field:
				return "a field of a value of type " + typeName(x.X.Type())
			}
			return ""
		}
		for _, b := range f.Blocks {
			for _, in := range b.Instrs {
				call, ok := in.(*ssa.Call)
				if !ok {
					continue
				}
				cc := call.Common()
				var target ssa.Value
				what := ""
				if bi, ok := cc.Value.(*ssa.Builtin); ok && bi.Name() == "append" {
					if !isByteSlice(cc.Args[0].Type()) {
						continue
					}
					target, what = cc.Args[0], "append"
				} else if cal := cc.StaticCallee(); cal != nil && cal.Pkg != nil && cal.Pkg.Pkg.Name() == "plenccore" && strings.HasPrefix(cal.Name(), "Append") {
					target, what = cc.Args[0], cal.Name()
				} else if cc.IsInvoke() && cc.Method.Name() == "Append" && len(cc.Args) > 0 && isByteSlice(cc.Args[0].Type()) {
					target, what = cc.Args[0], "Codec.Append"
				}
				if target == nil {
					continue
				}
				n++
				bad := rootBad(target, 0, map[ssa.Value]bool{})
				c.Oblige("X.append.target", bad == "", call.Pos(), name, what+" extends the output buffer or a slice the encoder made",
					"appending to a slice writes into its spare capacity: the only slices an encoder may extend are the caller's buffer and its own temporaries - a codec's precomputed tag (capacity 8, shared by every goroutine) or any other state of the codec must only be copied from"+
						map[bool]string{true: "", false: "; here the target derives from " + bad}[bad == ""], nil)
			}
		}
	}
	c.Floor("X.append.target", 40)
}
