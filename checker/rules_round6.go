package main

import (
	"fmt"
	"go/token"
	"go/types"
	"sort"
	"strings"

	"golang.org/x/tools/go/ssa"
)

// ---------------------------------------------------------------------------
// decode recursion: which decode functions lie on a call cycle (static calls
// and invokes of Codec.Read resolved to every in-module implementation).

func decodeCycles(p *Prog) map[*ssa.Function]bool {
	funcs := p.decodeClosure()
	inSet := map[*ssa.Function]bool{}
	for _, f := range funcs {
		inSet[f] = true
	}
	// implementations of Codec.Read in the module
	var readImpls []*ssa.Function
	for _, ct := range p.Codecs {
		if mr, ok := ct.Methods["Read"]; ok && mr.Fn != nil {
			if f := p.SSA.FuncValue(mr.Fn); f != nil {
				readImpls = append(readImpls, origin(f))
			}
		}
	}
	succ := map[*ssa.Function][]*ssa.Function{}
	for _, f := range funcs {
		for _, b := range f.Blocks {
			for _, in := range b.Instrs {
				call, ok := in.(*ssa.Call)
				if !ok {
					continue
				}
				cc := call.Common()
				if cc.IsInvoke() {
					if cc.Method.Name() == "Read" && typeName(cc.Value.Type()) == "Codec" {
						succ[f] = append(succ[f], readImpls...)
					}
					continue
				}
				if cal := cc.StaticCallee(); cal != nil {
					if o := origin(cal); inSet[o] {
						succ[f] = append(succ[f], o)
					}
				}
			}
		}
	}
	// f is on a cycle iff f reaches f
	on := map[*ssa.Function]bool{}
	for _, f := range funcs {
		seen := map[*ssa.Function]bool{}
		stack := append([]*ssa.Function{}, succ[f]...)
		for len(stack) > 0 {
			g := stack[len(stack)-1]
			stack = stack[:len(stack)-1]
			if seen[g] {
				continue
			}
			seen[g] = true
			if g == f {
				on[f] = true
				break
			}
			stack = append(stack, succ[g]...)
		}
	}
	return on
}

// recursiveTypesAdmitted: the overlay registry hands out the codec under construction.
func recursiveTypesAdmitted(p *Prog) bool {
	lf := p.ssaFunc("plenccodec.wrappedCodecRegistry.Load")
	if lf == nil {
		return false
	}
	for _, b := range lf.Blocks {
		if ret, ok := b.Instrs[len(b.Instrs)-1].(*ssa.Return); ok && len(ret.Results) == 1 {
			if u, ok := ret.Results[0].(*ssa.UnOp); ok {
				if fa, ok := u.X.(*ssa.FieldAddr); ok && fieldName(fa) == "codec" {
					return true
				}
			}
		}
	}
	return false
}

// ruleNestedAlloc: B.alloc.nested and B.depth.
//
// B.alloc proves every input-sized allocation <= len(data) for the data the function was handed.
// That bounds the total by (nesting depth) x len(input). For a non-recursive target type the depth is
// fixed by the type, as the property allows. A function that allocates by an input count AND lies on
// a decode recursion cycle can be re-entered on a sub-slice of the same bytes at a depth the INPUT
// chooses: recursive struct types are admitted, and the JSON value codecs recurse by themselves.
// Total allocation is then quadratic in the input, and the recursion depth (stack) is input-sized.
func ruleNestedAlloc(c *Ctx, B *Bound) {
	p := c.P
	on := decodeCycles(p)
	admitted := recursiveTypesAdmitted(p)
	n := 0
	for _, f := range B.funcs {
		a := B.fa[f]
		if a == nil {
			continue
		}
		// element codecs of the packed wrappers are scalars (T.slicewrap: selected by wire type
		// VarInt / fixed width, T.fixedwrap): no container below them, no nesting
		switch recvTypeName(f) {
		case "WTVarIntSliceWrapper", "WTFixedSliceWrapper":
			continue
		}
		a.pass()
		var sites []string
		var pos token.Pos
		for _, b := range f.Blocks {
			for _, in := range b.Instrs {
				var size ssa.Value
				what := ""
				switch x := in.(type) {
				case *ssa.MakeSlice:
					size, what = x.Cap, "make "+typeStr(x.Type())
				case *ssa.MakeMap:
					size, what = x.Reserve, "make "+typeStr(x.Type())
				case *ssa.Call:
					if cal := x.Common().StaticCallee(); cal != nil {
						switch cal.String() {
						case "github.com/philpearl/plenc/plenccodec.unsafe_NewArray":
							size, what = x.Common().Args[1], "unsafe_NewArray"
						case "reflect.MakeMapWithSize":
							size, what = x.Common().Args[1], "reflect.MakeMapWithSize"
						}
					}
				}
				if size == nil || !a.taint[size] {
					continue
				}
				sites = append(sites, what)
				if pos == token.NoPos {
					pos = in.Pos()
				}
			}
		}
		if len(sites) == 0 {
			continue
		}
		n++
		sort.Strings(sites)
		selfRec := strings.Contains(a.name, "JSON")
		bad := on[origin(f)] && (admitted || selfRec)
		c.Oblige("B.alloc.nested", !bad, pos, a.name, "input-sized allocation ("+strings.Join(sites, ", ")+") is not repeated at input-controlled nesting depth",
			"each allocation is bounded by the bytes the function was handed, but the function lies on a decode recursion cycle and its elements are decoded from sub-slices of the same bytes: at nesting depth d the same bytes justify d allocations. The depth is chosen by the input for recursive struct types (admitted by the builder) and for the JSON value codecs, so total allocation is quadratic in the input length (a 21 KB input allocates 1.5 GB)", nil)
	}
	c.Floor("B.alloc.nested", 4)
	// B.depth: one obligation per recursion entry point
	for _, name := range []string{"plenccodec.StructCodec.Read", "plenccodec.readJSONKV", "plenccodec.Descriptor.readJSONObjectKV"} {
		f := p.ssaFunc(name)
		if f == nil {
			c.Oblige("B.depth", false, token.NoPos, name, "function", "not found", nil)
			continue
		}
		selfRec := strings.Contains(name, "JSON")
		cyc := on[origin(f)]
		if name == "plenccodec.Descriptor.readJSONObjectKV" {
			// the walker is not in the Codec.Read closure graph: static cycle readJSONObjectKV -> read -> readAsJSON -> readJSONObjectKV
			cyc = staticCycle(f)
		}
		bad := cyc && (admitted || selfRec)
		c.Oblige("B.depth", !bad, f.Pos(), name, "recursion depth is bounded by the target type, not by the input",
			"decoding recurses once per nesting level of the data. For a non-recursive type the type bounds the depth; for recursive struct types and for JSON values the input does, and nothing counts the levels: a deeply nested input of a few tens of megabytes exhausts the 1 GB goroutine stack, which is a fatal error that cannot be recovered", nil)
	}
	c.Floor("B.depth", 3)
}

func staticCycle(f *ssa.Function) bool {
	seen := map[*ssa.Function]bool{}
	var stack []*ssa.Function
	push := func(g *ssa.Function) {
		for _, b := range g.Blocks {
			for _, in := range b.Instrs {
				if call, ok := in.(*ssa.Call); ok {
					if cal := call.Common().StaticCallee(); cal != nil && cal.Pkg != nil && inModule(cal.Pkg.Pkg) {
						stack = append(stack, cal)
					}
				}
			}
		}
	}
	push(f)
	for len(stack) > 0 {
		g := stack[len(stack)-1]
		stack = stack[:len(stack)-1]
		if g == f {
			return true
		}
		if seen[g] {
			continue
		}
		seen[g] = true
		push(g)
	}
	return false
}

// ruleInternGrowth: B.alloc.cow - the interning table is copied in full for
// every new string, so n distinct strings allocate O(n^2).
func ruleInternGrowth(c *Ctx) {
	name := "plenccodec.InternedStringCodec.addString"
	f := c.P.ssaFunc(name)
	if f == nil {
		c.Oblige("B.alloc.cow", false, token.NoPos, name, "function", "not found", nil)
		return
	}
	// a loop that copies every entry of the old table into a map made in this call
	copies := false
	var pos token.Pos
	for _, body := range loopsOf(f) {
		for bb := range body {
			for _, in := range bb.Instrs {
				if mu, ok := in.(*ssa.MapUpdate); ok {
					fresh := false
					switch m := mu.Map.(type) {
					case *ssa.MakeMap:
						fresh = true
					case *ssa.UnOp:
						// a local holding a map made in this call
						if al, ok := m.X.(*ssa.Alloc); ok {
							fresh = true
							for _, r := range *al.Referrers() {
								if st, ok := r.(*ssa.Store); ok && st.Addr == ssa.Value(al) {
									if _, isMake := st.Val.(*ssa.MakeMap); !isMake {
										fresh = false
									}
								}
							}
						}
					}
					if fresh {
						copies = true
						pos = mu.Pos()
					}
				}
			}
		}
	}
	c.Oblige("B.alloc.cow", !copies, pos, name, "inserting a string costs memory proportional to the string, not to the table",
		"the table is published copy-on-write: every string not seen before copies the whole table into a new map. n distinct strings through one interned field allocate O(n^2) - a 28 KB input allocates 1.5 GB - which is not a fixed multiple of the input length", nil)
	c.Floor("B.alloc.cow", 1)
}

// ---------------------------------------------------------------------------
// T.nested-presence: explicit presence does not nest. A pointer whose target
// has explicit presence itself (another pointer, a null type) cannot encode
// (present, absent): PointerWrapper writes nothing for it.

func ruleNestedPresence(c *Ctx) {
	p := c.P
	name := "plenc.Plenc.CodecForTypeRegistry"
	f := p.ssaFunc(name)
	if f == nil {
		c.Oblige("T.nested-presence", false, token.NoPos, name, "function", "not found", nil)
		return
	}
	n := 0
	for _, b := range f.Blocks {
		for _, in := range b.Instrs {
			mi, ok := in.(*ssa.MakeInterface)
			if !ok || typeName(mi.X.Type()) != "PointerWrapper" {
				continue
			}
			n++
			conds, truths := controllingConds(b)
			good := false
			for i, cd := range conds {
				if truths[i] {
					continue
				}
				if u, ok := cd.(*ssa.UnOp); ok && u.Op == token.MUL {
					if fa, ok := u.X.(*ssa.FieldAddr); ok && fieldName(fa) == "ExplicitPresence" {
						good = true
					}
				}
			}
			// T.ptr-repeated: the repeated-field form writes nothing for an empty
			// slice or map, so a pointer to one cannot be told from a nil pointer
			rep := false
			for i, cd := range conds {
				if truths[i] {
					continue
				}
				if call, ok := cd.(*ssa.Call); ok {
					if cal := call.Common().StaticCallee(); cal != nil && cal.Name() == "isRepeatedForm" {
						rep = true
					}
				}
			}
			c.Oblige("T.ptr-repeated", rep, mi.Pos(), name, "PointerWrapper is built only around a codec that writes something for an empty value",
				"PointerWrapper encodes 'present' by writing the target. A slice or map in the repeated-field form (proto option, ProtoCompatibleArrays) writes one field per element and so nothing at all when it is empty: *[]string pointing at an empty slice reads back as a nil pointer although the Descriptor flags explicit presence", nil)
			c.Oblige("T.nested-presence", good, mi.Pos(), name, "PointerWrapper is built only around a codec without explicit presence of its own",
				"PointerWrapper encodes 'present' by writing the target and 'absent' by writing nothing. When the target has explicit presence itself (**T, *null.Int) a present pointer to an absent target also writes nothing: **int with a nil inner pointer reads back as a nil outer pointer, &null.Int{} reads back valid", nil)
		}
	}
	if n == 0 {
		c.Oblige("T.nested-presence", false, f.Pos(), name, "construction of PointerWrapper", "not found", nil)
	}
	c.Floor("T.nested-presence", 1)
	c.Floor("T.ptr-repeated", 1)
}

// ---------------------------------------------------------------------------
// X.toplevel-repeated: a codec in repeated form is never used without a tag.

func ruleToplevelRepeated(c *Ctx) {
	p := c.P
	for _, name := range []string{"plenc.Plenc.Marshal", "plenc.Plenc.Unmarshal"} {
		f := p.ssaFunc(name)
		if f == nil {
			c.Oblige("X.toplevel-repeated", false, token.NoPos, name, "function", "not found", nil)
			continue
		}
		// the codec the function is about to use without a tag: the result of CodecForType
		good := false
		for _, b := range f.Blocks {
			for _, in := range b.Instrs {
				switch x := in.(type) {
				case *ssa.TypeAssert:
					if typeName(x.AssertedType) == "ProtoSliceWrapper" || typeName(x.AssertedType) == "ProtoMapCodec" {
						good = true
					}
				case *ssa.Call:
					cal := x.Common().StaticCallee()
					if cal == nil || cal.Pkg == nil || !inModule(cal.Pkg.Pkg) || cal.Name() == "CodecForType" || cal.Name() == "CodecForTypeRegistry" {
						continue
					}
					for _, a := range x.Common().Args {
						if typeName(a.Type()) == "Codec" && mentionsProtoSlice(cal, 0, map[*ssa.Function]bool{}) {
							good = true
						}
					}
				}
			}
		}
		c.Oblige("X.toplevel-repeated", good, f.Pos(), name, "a repeated-form codec is not used for a top-level value",
			fmt.Sprintf("ProtoSliceWrapper and ProtoMapCodec write a value as one tagged element after another and rely on the tag for framing. %s hands the codec a nil tag: with ProtoCompatibleArrays a top-level []string{\"a\",\"b\"} is written as the bare bytes \"ab\" and reads back as {\"ab\"}. The top-level codec must be tested for the repeated form (and rejected or replaced)", strings.TrimPrefix(name, "plenc.Plenc.")), nil)
	}
	c.Floor("X.toplevel-repeated", 2)
}

// ---------------------------------------------------------------------------
// plenctag: G.nilguard, G.quote, G.private, G.format, G.indexrange

func ruleTagRound6(c *Ctx) {
	p := c.P
	callsTo := func(f *ssa.Function, full string) []*ssa.Call {
		var out []*ssa.Call
		for _, b := range f.Blocks {
			for _, in := range b.Instrs {
				if call, ok := in.(*ssa.Call); ok {
					if cal := call.Common().StaticCallee(); cal != nil && cal.String() == full {
						out = append(out, call)
					}
				}
			}
		}
		return out
	}
	// G.nilguard: structtag.Parse returns (nil, nil) for a blank tag; extractTags must not pass that on
	if f := p.ssaFunc("cmd/plenctag.extractTags"); f == nil {
		c.Oblige("G.nilguard", false, token.NoPos, "cmd/plenctag.extractTags", "function", "not found", nil)
	} else {
		good := false
		for _, call := range callsTo(f, "github.com/fatih/structtag.Parse") {
			for _, r := range *call.Referrers() {
				ex, ok := r.(*ssa.Extract)
				if !ok || ex.Index != 0 {
					continue
				}
				for _, r2 := range *ex.Referrers() {
					if bo, ok := r2.(*ssa.BinOp); ok && (bo.Op == token.EQL || bo.Op == token.NEQ) && (isNilConst(bo.X) || isNilConst(bo.Y)) {
						good = true
					}
				}
			}
		}
		c.Oblige("G.nilguard", good, f.Pos(), "cmd/plenctag.extractTags", "the result of structtag.Parse is tested for nil",
			"structtag.Parse returns (nil, nil) for a tag literal that is empty or blank: handing that on makes the caller's tags.Get dereference nil (a panic instead of a rewrite or an error)", nil)
	}
	// G.quote: a tag text containing a backquote cannot be written as a raw string
	if f := p.ssaFunc("cmd/plenctag.quote"); f == nil {
		c.Oblige("G.quote", false, token.NoPos, "cmd/plenctag.quote", "function", "not found", nil)
	} else {
		tests := false
		for _, b := range f.Blocks {
			for _, in := range b.Instrs {
				if call, ok := in.(*ssa.Call); ok {
					if cal := call.Common().StaticCallee(); cal != nil && cal.Pkg != nil && cal.Pkg.Pkg.Path() == "strings" {
						for _, a := range call.Common().Args {
							if isConstString(a, "`") {
								tests = true
							}
							if k, ok := a.(*ssa.Const); ok && k.Value != nil && k.Value.ExactString() == "96" {
								tests = true
							}
						}
					}
				}
			}
		}
		// the language's own test: strconv.CanBackquote (no backquote, no control character
		// other than tab - a raw string drops carriage returns -, valid UTF-8, no BOM)
		canBQ := false
		for _, call := range callsTo(f, "strconv.CanBackquote") {
			conds := map[ssa.Value]bool{}
			for _, q := range callsTo(f, "strconv.Quote") {
				cs, ts := controllingConds(q.Block())
				for i, cd := range cs {
					v, t := cd, ts[i]
					for {
						u, ok := v.(*ssa.UnOp)
						if !ok || u.Op != token.NOT {
							break
						}
						v, t = u.X, !t
					}
					if v == ssa.Value(call) && !t {
						conds[v] = true
					}
				}
			}
			if conds[call] {
				canBQ = true
			}
		}
		_ = tests
		c.Oblige("G.quote", canBQ, f.Pos(), "cmd/plenctag.quote", "a text that cannot be a raw string is written as an interpreted string",
			"the new literal is written between backquotes only when strconv.CanBackquote says the text survives there: a backquote ends the literal early, a carriage return is dropped from a raw string by the language, NUL / invalid UTF-8 / a BOM are rejected by the scanner - such a text must go through strconv.Quote (reached on the false branch of CanBackquote)", nil)
	}
	// the rewrite closure
	var rf *ssa.Function
	for _, f := range plenctagFuncs(p) {
		if strings.HasPrefix(ssaFuncName(f), "cmd/plenctag.config.rewrite$") {
			for _, b := range f.Blocks {
				for _, in := range b.Instrs {
					if st, ok := in.(*ssa.Store); ok {
						if fa, ok := st.Addr.(*ssa.FieldAddr); ok && fieldName(fa) == "Value" && typeName(deref(fa.X.Type())) == "BasicLit" {
							rf = f
						}
					}
				}
			}
		}
	}
	if rf == nil {
		c.Oblige("G.private", false, token.NoPos, "cmd/plenctag.config.rewrite", "rewrite closure", "not found", nil)
		return
	}
	rname := ssaFuncName(rf)
	// the closure and the helpers of package main it calls (two levels)
	fam := []*ssa.Function{rf}
	for i := 0; i < len(fam) && i < 12; i++ {
		for _, b := range fam[i].Blocks {
			for _, in := range b.Instrs {
				if call, ok := in.(*ssa.Call); ok {
					if cal := call.Common().StaticCallee(); cal != nil && cal.Pkg == rf.Pkg && len(cal.Blocks) > 0 {
						dup := false
						for _, f := range fam {
							if f == cal {
								dup = true
							}
						}
						if !dup {
							fam = append(fam, cal)
						}
					}
				}
			}
		}
	}
	callsToFam := func(full string) []*ssa.Call {
		var out []*ssa.Call
		for _, f := range fam {
			out = append(out, callsTo(f, full)...)
		}
		return out
	}
	// G.multiname: one tag serves every name of a declaration ("A, B int"), so
	// a declaration with several names must never be given a new index
	{
		// the point where a new index is taken: the running maximum is rendered into the tag text
		var incs []*ssa.Call
		for _, full := range []string{"strconv.Itoa", "strconv.FormatInt", "strconv.AppendInt", "strconv.FormatUint", "strconv.AppendUint"} {
			incs = append(incs, callsTo(rf, full)...)
		}
		isLenNames := func(v ssa.Value) bool {
			lc, ok := v.(*ssa.Call)
			if !ok {
				return false
			}
			bi, ok := lc.Common().Value.(*ssa.Builtin)
			if !ok || bi.Name() != "len" {
				return false
			}
			u, ok := lc.Common().Args[0].(*ssa.UnOp)
			if !ok {
				return false
			}
			fa, ok := u.X.(*ssa.FieldAddr)
			return ok && fieldName(fa) == "Names"
		}
		for _, st := range incs {
			guarded := false
			conds, truths := controllingConds(st.Block())
			for i, cnd := range conds {
				bo, ok := cnd.(*ssa.BinOp)
				if !ok {
					continue
				}
				k, isK := bo.Y.(*ssa.Const)
				if !isLenNames(bo.X) || !isK || k.Value == nil {
					continue
				}
				kv := k.Value.ExactString()
				t := truths[i]
				switch {
				case bo.Op == token.GTR && kv == "1" && !t, bo.Op == token.GEQ && kv == "2" && !t,
					bo.Op == token.LEQ && kv == "1" && t, bo.Op == token.LSS && kv == "2" && t,
					bo.Op == token.EQL && (kv == "1" || kv == "0") && t, bo.Op == token.NEQ && kv == "1" && !t:
					guarded = true
				}
			}
			c.Oblige("G.multiname", guarded, st.Pos(), rname, "a new index is only taken for a declaration with one name",
				"a struct tag belongs to the whole declaration: numbering \"A, B int\" gives A and B the same index (plenc then refuses the struct); the point where the next index is taken must be reached only when len(f.Names) <= 1", nil)
		}
		c.Floor("G.multiname", 1)
	}
	// G.private: the private-field filter is the language's export rule, for named and embedded fields alike
	{
		usesExport := len(callsToFam("go/ast.IsExported")) > 0 || len(callsToFam("go/token.IsExported")) > 0
		usesCase := len(callsToFam("unicode.IsLower")) > 0 || len(callsToFam("unicode.IsUpper")) > 0
		// the filter must not be skipped for embedded fields: no test of len(f.Names) guarding it
		skipsEmbedded := false
		for _, b := range rf.Blocks {
			ifi, ok := b.Instrs[len(b.Instrs)-1].(*ssa.If)
			if !ok {
				continue
			}
			if bo, ok := ifi.Cond.(*ssa.BinOp); ok && bo.Op == token.GTR {
				if lc, ok := bo.X.(*ssa.Call); ok {
					if bi, ok := lc.Common().Value.(*ssa.Builtin); ok && bi.Name() == "len" {
						if u, ok := lc.Common().Args[0].(*ssa.UnOp); ok {
							if fa, ok := u.X.(*ssa.FieldAddr); ok && fieldName(fa) == "Names" {
								// is the export test inside this branch only?
								for _, call := range append(callsTo(rf, "unicode.IsLower"), callsTo(rf, "go/ast.IsExported")...) {
									if b.Succs[0] == call.Block() || b.Succs[0].Dominates(call.Block()) {
										skipsEmbedded = true
									}
								}
							}
						}
					}
				}
			}
		}
		c.Oblige("G.private", usesExport && !usesCase && !skipsEmbedded, rf.Pos(), rname, "unexported fields are recognised by ast.IsExported, embedded ones included",
			"unexported fields are left alone by default: the test must be the language's (ast.IsExported of the field name, or of the type name for an embedded field) - 'first rune is lower case' tags _, _x and names starting with a caseless letter, and skipping the test for embedded fields tags embedded unexported types", nil)
	}
	// G.indexrange: a new index never exceeds plenc's maximum (1<<29 - 1)
	{
		good := false
		for _, b := range rf.Blocks {
			for _, in := range b.Instrs {
				bo, ok := in.(*ssa.BinOp)
				if !ok {
					continue
				}
				switch bo.Op {
				case token.GEQ, token.GTR, token.LSS, token.LEQ:
				default:
					continue
				}
				for _, o := range []ssa.Value{bo.X, bo.Y} {
					if k, ok := o.(*ssa.Const); ok && k.Value != nil {
						if s := k.Value.ExactString(); s == "536870911" || s == "536870912" {
							good = true
						}
					}
				}
			}
		}
		c.Oblige("G.indexrange", good, rf.Pos(), rname, "the next index is compared with plenc's largest index",
			"plenc rejects indexes above 1<<29 - 1: handing out max+1 when an existing tag already holds the largest index produces a tag plenc cannot build a codec for; the tool must report an error instead", nil)
	}
	// G.format: what is written is the gofmt fixpoint of the printed tree, byte for byte
	if f := p.ssaFunc("cmd/plenctag.config.format"); f == nil {
		c.Oblige("G.format", false, token.NoPos, "cmd/plenctag.config.format", "function", "not found", nil)
	} else {
		src := callsTo(f, "go/format.Source")
		println := len(callsTo(f, "fmt.Println")) > 0 || len(callsTo(f, "fmt.Print")) > 0 || len(callsTo(f, "fmt.Printf")) > 0
		c.Oblige("G.format", len(src) > 0 && !println, f.Pos(), "cmd/plenctag.config.format", "the printed tree is re-formatted from its own text and written unchanged",
			"format.Node lays the modified tree out with the positions of the ORIGINAL file: where a struct has grown (a one-line function signature holding a struct) the result is not what gofmt produces and a second run changes the file again. Formatting the printed text once more (format.Source) gives the fixpoint; and the stdout path must write those bytes as they are (fmt.Println adds a blank line)", nil)
	}
	c.Floor("G.nilguard", 1)
	c.Floor("G.quote", 1)
	c.Floor("G.private", 1)
	c.Floor("G.indexrange", 1)
	c.Floor("G.format", 1)
}

// ---------------------------------------------------------------------------
// X.protomap.entry: every call of ProtoMapCodec.Read is one entry of the map,
// also when the entry's body is empty (zero key and zero/nil value).

func ruleProtoMapEntry(c *Ctx) {
	name := "plenccodec.ProtoMapCodec.Read"
	f := c.P.ssaFunc(name)
	if f == nil {
		c.Oblige("X.protomap.entry", false, token.NoPos, name, "function", "not found", nil)
		return
	}
	var entry *ssa.BasicBlock
	for _, b := range f.Blocks {
		for _, in := range b.Instrs {
			if cn, _ := staticCalleeName(in); cn == "plenccodec.MapCodec.readMapEntry" {
				entry = b
			}
		}
	}
	good := entry != nil
	if entry != nil {
		for _, b := range f.Blocks {
			ret, ok := b.Instrs[len(b.Instrs)-1].(*ssa.Return)
			if !ok || b == f.Recover || isFailureReturnLoose(f, ret) {
				continue
			}
			if !(entry == b || entry.Dominates(b)) {
				good = false
			}
		}
	}
	c.Oblige("X.protomap.entry", good, f.Pos(), name, "every success return has read the entry into the map",
		"in the repeated-field form each occurrence of the field is one map entry; an entry whose key and value are both zero has an empty body, and it is still an entry: returning early on empty data drops it (map[string]int{\"\": 0} reads back nil)", nil)
	c.Floor("X.protomap.entry", 1)
}

// ---------------------------------------------------------------------------
// T.key.overlay: the overlay registry used while a struct is built answers a
// lookup only for the same (type, tag) pair - for the struct itself and for
// every held-back codec.

func ruleOverlayKey(c *Ctx) {
	name := "plenccodec.wrappedCodecRegistry.Load"
	f := c.P.ssaFunc(name)
	if f == nil {
		c.Oblige("T.key.overlay", false, token.NoPos, name, "function", "not found", nil)
		return
	}
	n := 0
	for _, b := range f.Blocks {
		ret, ok := b.Instrs[len(b.Instrs)-1].(*ssa.Return)
		if !ok || len(ret.Results) != 1 {
			continue
		}
		// returns of a stored codec (field `codec` of the overlay or of a pending entry)
		v := ret.Results[0]
		u, ok := v.(*ssa.UnOp)
		if !ok {
			continue
		}
		fa, ok := u.X.(*ssa.FieldAddr)
		if !ok || fieldName(fa) != "codec" {
			continue
		}
		n++
		conds, truths := controllingConds(b)
		// && chains: walk the single-predecessor chain as well
		typOK, tagOK := false, false
		check := func(cd ssa.Value, truth bool) {
			bo, ok := cd.(*ssa.BinOp)
			if !ok || !((bo.Op == token.EQL && truth) || (bo.Op == token.NEQ && !truth)) {
				return
			}
			for i, o := range []ssa.Value{bo.X, bo.Y} {
				other := []ssa.Value{bo.Y, bo.X}[i]
				if ld, ok := o.(*ssa.UnOp); ok {
					// the key fields of the very entry whose codec is returned,
					// compared with what the caller asked for
					if fa2, ok := ld.X.(*ssa.FieldAddr); ok && sameEntryAddr(fa2.X, fa.X, 0) {
						if _, isParam := other.(*ssa.Parameter); !isParam {
							continue
						}
						switch fieldName(fa2) {
						case "typ":
							typOK = true
						case "tag":
							tagOK = true
						}
					}
				}
			}
		}
		for i, cd := range conds {
			check(cd, truths[i])
		}
		for d := b; len(d.Preds) == 1; d = d.Preds[0] {
			pr := d.Preds[0]
			if ifi, ok := pr.Instrs[len(pr.Instrs)-1].(*ssa.If); ok {
				check(ifi.Cond, pr.Succs[0] == d)
			}
		}
		c.Oblige("T.key.overlay", typOK && tagOK, ret.Pos(), name, "a stored codec is returned only for the same type and the same tag",
			"codecs are keyed by (type, tag) everywhere: while a struct is being built the overlay answers for the struct itself and for the sub-codecs it holds back, and it must compare both - matching on the type alone gives the second of two fields of one type the first field's codec, whatever its tag option (a flat field encoded zig-zag, a proto slice in counted form)", nil)
	}
	c.Floor("T.key.overlay", 2)
}

// ---------------------------------------------------------------------------
// T.presence.store: ExplicitPresence is only ever set, to true, by the codecs
// that have presence; nobody clears it on a descriptor it got from another codec.

func rulePresenceStore(c *Ctx) {
	p := c.P
	n := 0
	for _, ct := range p.Codecs {
		mr, ok := ct.Methods["Descriptor"]
		if !ok || mr.Fn == nil {
			continue
		}
		f := p.SSA.FuncValue(mr.Fn)
		if f == nil || len(f.Blocks) == 0 {
			continue
		}
		n++
		bad := ""
		for _, g := range append([]*ssa.Function{f}, f.AnonFuncs...) {
			for _, b := range g.Blocks {
				for _, in := range b.Instrs {
					st, ok := in.(*ssa.Store)
					if !ok {
						continue
					}
					fa, ok := st.Addr.(*ssa.FieldAddr)
					if !ok || fieldName(fa) != "ExplicitPresence" {
						continue
					}
					k, isK := st.Val.(*ssa.Const)
					if !isK || k.Value == nil || k.Value.ExactString() != "true" {
						bad = "stores " + st.Val.String() + " into ExplicitPresence"
					}
				}
			}
		}
		c.Oblige("T.presence.store", bad == "", f.Pos(), ct.Name, "Descriptor() never clears or computes ExplicitPresence",
			"the flag says whether absence can be told from the zero value: it is a property of the codec that sets it (a pointer, a null type) and travels unchanged through every wrapper's descriptor - a container that resets it on its element ([]*int described without presence) misdescribes the type"+map[bool]string{true: "", false: "; " + bad}[bad == ""], nil)
	}
	if n == 0 {
		c.Oblige("T.presence.store", false, token.NoPos, "plenccodec", "Descriptor methods", "none found", nil)
	}
	c.Floor("T.presence.store", 20)
}

// ---------------------------------------------------------------------------
// B.jout: every slice and index expression of the JSON outputter whose operand
// is a constant table or string (hex digits, an indentation string, …) is in
// range for every depth and every byte; expressions over the outputter's own
// buffers depend on its state invariant and are noted, not decided.

func ruleJOutBounds(c *Ctx) {
	p := c.P
	var funcs []*ssa.Function
	for _, f := range p.moduleFuncs() {
		if recvTypeName(f) == "JSONOutput" && len(f.Blocks) > 0 {
			funcs = append(funcs, f)
		}
	}
	B := newBound(p, funcs, func(*ssa.Function, *ssa.Parameter) bool { return true }, nil, nil)
	B.run()
	sub := newCtx(p, c.Prop, c.Tier)
	B.obligations(sub, boundOpts{prop: c.Prop, onlyTainted: false, progress: false, alloc: false, contracts: false})
	for r, st := range sub.Rules {
		if r != "B.slice" && r != "B.index" {
			continue
		}
		c.rule("B.jout").Count += st.Count
		c.rule("B.jout").Discharged += st.Discharged
	}
	for _, f := range sub.Findings {
		if f.Rule != "B.slice" && f.Rule != "B.index" {
			continue
		}
		construct := strings.TrimPrefix(f.Key, f.Rule+"|"+f.Func+"|")
		if strings.HasPrefix(construct, "*j.") {
			// j.data / j.stack: in range only under the object invariant depth == len(stack), which holds
			// for well-nested call sequences (the property's domain) and is not a local fact: not decided here
			c.rule("B.jout").Count--
			c.Note("B.jout: %s %s depends on the outputter's state invariant - not decided", f.Func, construct)
			continue
		}
		c.rule("B.jout").Count-- // re-counted by Oblige
		c.Oblige("B.jout", false, token.NoPos, f.Func, strings.TrimPrefix(f.Key, f.Rule+"|"+f.Func+"|"), "the outputter never panics, whatever the nesting depth: "+f.Msg, nil)
		c.Findings[len(c.Findings)-1].Pos = f.Pos
	}
	for fn := range sub.Funcs {
		c.Funcs[fn] = true
	}
	c.Floor("B.jout", 3)
}

// ---------------------------------------------------------------------------
// G.write and G.reporterr (plenctag run loop and first pass)

func ruleTagRound6b(c *Ctx) {
	p := c.P
	// G.write: whether the result is written depends on errors (and on -w for the destination) only
	if f := p.ssaFunc("cmd/plenctag.run"); f == nil {
		c.Oblige("G.write", false, token.NoPos, "cmd/plenctag.run", "function", "not found", nil)
	} else {
		n := 0
		for _, b := range f.Blocks {
			for _, in := range b.Instrs {
				cn, call := staticCalleeName(in)
				if call == nil || cn != "cmd/plenctag.config.format" {
					continue
				}
				n++
				conds, _ := controllingConds(b)
				bad := ""
				for _, cd := range conds {
					okc := false
					if bo, ok := cd.(*ssa.BinOp); ok && (bo.Op == token.EQL || bo.Op == token.NEQ) {
						if (isErrorType(bo.X.Type()) && isNilConst(bo.Y)) || (isErrorType(bo.Y.Type()) && isNilConst(bo.X)) {
							okc = true
						}
					}
					// loop conditions of the range over the files
					if bo, ok := cd.(*ssa.BinOp); ok && bo.Op == token.LSS {
						okc = true
					}
					if !okc {
						bad = cd.String()
					}
				}
				// must-pass-through: from the success branch of the rewrite's error test, no path reaches the
				// next iteration or the final return without calling format
				for _, rb := range f.Blocks {
					for _, rin := range rb.Instrs {
						rcn, rcall := staticCalleeName(rin)
						if rcall == nil || rcn != "cmd/plenctag.config.rewrite" {
							continue
						}
						// the If that tests rewrite's error
						var start *ssa.BasicBlock
						for _, r := range *rcall.Referrers() {
							ex, ok := r.(*ssa.Extract)
							if !ok || !isErrorType(ex.Type()) {
								continue
							}
							for _, r2 := range *ex.Referrers() {
								if bo, ok := r2.(*ssa.BinOp); ok {
									for _, r3 := range *bo.Referrers() {
										if ifi, ok := r3.(*ssa.If); ok {
											start = ifi.Block().Succs[1]
											if bo.Op == token.EQL {
												start = ifi.Block().Succs[0]
											}
										}
									}
								}
							}
						}
						if start == nil {
							continue
						}
						seenB := map[*ssa.BasicBlock]bool{}
						var escape func(bb *ssa.BasicBlock) bool
						escape = func(bb *ssa.BasicBlock) bool {
							if bb == b {
								return false // reached the format call
							}
							if seenB[bb] {
								return false
							}
							seenB[bb] = true
							if bb == rb || bb.Dominates(rb) {
								return true // back at (or before) the rewrite call: next file without formatting this one
							}
							if _, isRet := bb.Instrs[len(bb.Instrs)-1].(*ssa.Return); isRet {
								return true
							}
							for _, s := range bb.Succs {
								if escape(s) {
									return true
								}
							}
							return false
						}
						if escape(start) {
							bad = "a path from a successful rewrite that skips format"
						}
					}
				}
				c.Oblige("G.write", bad == "", call.Pos(), "cmd/plenctag.run", "every successfully rewritten file is formatted and written",
					"whether the result is written may depend only on errors: a file in which every remaining field was excluded (plenc:\"-\") has changed too, and skipping the write because 'no index was handed out' leaves fields without a plenc tag, which plenc rejects"+
						map[bool]string{true: "", false: "; the write is also conditional on " + bad}[bad == ""], nil)
			}
		}
		if n == 0 {
			c.Oblige("G.write", false, f.Pos(), "cmd/plenctag.run", "call of config.format", "not found", nil)
		}
	}
	c.Floor("G.write", 1)
	// G.reporterr: every failure of plencValue / extractTags inside the rewrite closure is recorded
	var rf *ssa.Function
	for _, f := range plenctagFuncs(p) {
		if strings.HasPrefix(ssaFuncName(f), "cmd/plenctag.config.rewrite$") {
			for _, b := range f.Blocks {
				for _, in := range b.Instrs {
					if st, ok := in.(*ssa.Store); ok {
						if fa, ok := st.Addr.(*ssa.FieldAddr); ok && fieldName(fa) == "Value" && typeName(deref(fa.X.Type())) == "BasicLit" {
							rf = f
						}
					}
				}
			}
		}
	}
	if rf == nil {
		c.Oblige("G.reporterr", false, token.NoPos, "cmd/plenctag.config.rewrite", "rewrite closure", "not found", nil)
		return
	}
	n := 0
	for _, b := range rf.Blocks {
		for _, in := range b.Instrs {
			cn, call := staticCalleeName(in)
			if call == nil || (cn != "cmd/plenctag.plencValue" && cn != "cmd/plenctag.extractTags") {
				continue
			}
			var errv ssa.Value
			for _, r := range *call.Referrers() {
				if ex, ok := r.(*ssa.Extract); ok && isErrorType(ex.Type()) {
					errv = ex
				}
			}
			if errv == nil {
				continue
			}
			n++
			recorded := false
			for _, r := range *errv.Referrers() {
				bo, ok := r.(*ssa.BinOp)
				if !ok || (bo.Op != token.NEQ && bo.Op != token.EQL) {
					continue
				}
				for _, r2 := range *bo.Referrers() {
					ifi, ok := r2.(*ssa.If)
					if !ok {
						continue
					}
					eb := ifi.Block().Succs[0]
					if bo.Op == token.EQL {
						eb = ifi.Block().Succs[1]
					}
					for _, in2 := range eb.Instrs {
						if c2, ok := in2.(*ssa.Call); ok {
							for _, a := range c2.Common().Args {
								if a == errv {
									recorded = true
								}
							}
						}
					}
				}
			}
			c.Oblige("G.reporterr", recorded, call.Pos(), ssaFuncName(rf), "a failure of "+strings.TrimPrefix(cn, "cmd/plenctag.")+" is passed to the error recorder",
				"the tool reports errors rather than guessing: an existing plenc tag whose index does not parse (plenc:\"3rd\") is only ever seen by the first pass, and if that pass drops the error the tool exits 0 and writes a file plenc cannot build a codec for", nil)
		}
	}
	c.Floor("G.reporterr", 2)
}

// ---------------------------------------------------------------------------
// codecs outside the classified world

// codecUnreachable: no non-test code of the module ever turns a value of this
// codec type into an interface value (registers it, stores it in another codec,
// returns it): it is shipped for users to register themselves. The properties
// quantify over the types plenc accepts with its default registrations and over
// the exported codecs named in them; a further codec type is covered by the
// rules that need no table (size/frame laws, memory types, bounds, aliasing)
// and skipped, with a note, by the table-driven ones.
func (p *Prog) codecUnreachable(ct *CodecType) bool {
	for _, f := range p.moduleFuncs() {
		if recvTypeName(f) == ct.Named.Obj().Name() {
			continue
		}
		for _, b := range f.Blocks {
			for _, in := range b.Instrs {
				mi, ok := in.(*ssa.MakeInterface)
				if !ok {
					continue
				}
				if n := namedOf(deref(mi.X.Type())); n != nil && n.Origin() == ct.Named {
					return false
				}
			}
		}
	}
	return true
}

// ---------------------------------------------------------------------------
// X.build.cycle: building a codec terminates for every type. A struct that
// contains itself is resolved by the overlay registry; a pointer, slice or map
// type that contains itself without a struct in between (type L []L) is not,
// so the builder must notice it is already building that type.

func ruleBuildCycle(c *Ctx) {
	p := c.P
	name := "plenc.Plenc.CodecForTypeRegistry"
	root := p.ssaFunc(name)
	if root == nil {
		c.Oblige("X.build.cycle", false, token.NoPos, name, "function", "not found", nil)
		return
	}
	// the builder and the helpers of its package that it calls directly
	funcs := []*ssa.Function{root}
	seenF := map[*ssa.Function]bool{root: true}
	for _, b := range root.Blocks {
		for _, in := range b.Instrs {
			if call, ok := in.(*ssa.Call); ok {
				if cal := call.Common().StaticCallee(); cal != nil && cal.Pkg == root.Pkg && !seenF[cal] && len(cal.Blocks) > 0 && origin(cal) != origin(root) {
					seenF[cal] = true
					funcs = append(funcs, cal)
				}
			}
		}
	}
	n := 0
	for _, f := range funcs {
		var regParam, typParam *ssa.Parameter
		for _, prm := range f.Params {
			if typeName(prm.Type()) == "CodecRegistry" && regParam == nil {
				regParam = prm
			}
			if isReflectType(prm.Type()) && typParam == nil {
				typParam = prm
			}
		}
		if regParam == nil || typParam == nil {
			continue
		}
		fname := ssaFuncName(f)
		for _, b := range f.Blocks {
			for _, in := range b.Instrs {
				call, ok := in.(*ssa.Call)
				if !ok {
					continue
				}
				cal := call.Common().StaticCallee()
				if cal == nil {
					continue
				}
				isSelf := origin(cal) == origin(root)
				isMap := cal.Name() == "BuildMapCodec"
				if !isSelf && !isMap {
					continue
				}
				var reg ssa.Value
				for _, a := range call.Common().Args {
					if typeName(a.Type()) == "CodecRegistry" {
						reg = a
					}
				}
				n++
				// the registry handed down records what is being built: it is not the bare parameter
				wrapped := reg != nil && reg != ssa.Value(regParam)
				if phi, ok := reg.(*ssa.Phi); ok {
					wrapped = false
					for _, e := range phi.Edges {
						if e != ssa.Value(regParam) {
							wrapped = true
						}
					}
				}
				// and a test of "already building this type" that ends in an error dominates the call
				guarded := false
				for _, d := range f.Blocks {
					if !(d == b || d.Dominates(b)) {
						continue
					}
					ifi, ok := d.Instrs[len(d.Instrs)-1].(*ssa.If)
					if !ok {
						continue
					}
					tc, ok := ifi.Cond.(*ssa.Call)
					if !ok {
						continue
					}
					tcal := tc.Common().StaticCallee()
					if tcal == nil || tcal.Pkg == nil || !inModule(tcal.Pkg.Pkg) {
						continue
					}
					usesReg, usesTyp := false, false
					for _, a := range tc.Common().Args {
						if a == ssa.Value(regParam) {
							usesReg = true
						}
						if a == ssa.Value(typParam) {
							usesTyp = true
						}
					}
					tb := d.Succs[0]
					if ret, ok := tb.Instrs[len(tb.Instrs)-1].(*ssa.Return); ok && usesReg && usesTyp && isFailureReturnLoose(f, ret) {
						guarded = true
					}
				}
				what := "recursive lookup of a part type"
				if isMap {
					what = "descent into the map builder"
				}
				c.Oblige("X.build.cycle", wrapped && guarded, call.Pos(), fname, what+" records the type being built and is refused when it is already being built",
					"asking for a codec never hangs or overflows the stack: type L []L, type P *P or type M map[string][]M contain themselves without a struct in between, so nothing ends the recursion unless the builder remembers which pointer/slice/map types it is in the middle of (fatal error: stack overflow otherwise)", nil)
			}
		}
	}
	c.Floor("X.build.cycle", 2)
}

// ---------------------------------------------------------------------------
// X.skip.varint: Skip and ReadVarUint agree on what a varint is.

func ruleSkipVarint(c *Ctx) {
	name := "plenccore.Skip"
	f := c.P.ssaFunc(name)
	if f == nil {
		c.Oblige("X.skip.varint", false, token.NoPos, name, "function", "not found", nil)
		return
	}
	// the WTVarInt clause: blocks controlled by wt == WTVarInt (constant 0)
	good := false
	var pos token.Pos = f.Pos()
	for _, b := range f.Blocks {
		conds, truths := controllingConds(b)
		inClause := false
		for i, cd := range conds {
			if bo, ok := cd.(*ssa.BinOp); ok && bo.Op == token.EQL && truths[i] {
				for _, o := range []ssa.Value{bo.X, bo.Y} {
					if k, ok := o.(*ssa.Const); ok && k.Value != nil && k.Value.ExactString() == "0" && typeName(k.Type()) == "WireType" {
						inClause = true
					}
				}
			}
		}
		if !inClause {
			continue
		}
		ret, ok := b.Instrs[len(b.Instrs)-1].(*ssa.Return)
		if !ok || isFailureReturnLoose(f, ret) {
			continue
		}
		pos = ret.Pos()
		if ex, ok := ret.Results[0].(*ssa.Extract); ok {
			if call, ok := ex.Tuple.(*ssa.Call); ok {
				if cal := call.Common().StaticCallee(); cal != nil && ssaFuncName(cal) == "plenccore.ReadVarUint" && ex.Index == 1 {
					if prm, ok := call.Common().Args[0].(*ssa.Parameter); ok && isByteSlice(prm.Type()) {
						good = true
					}
				}
			}
		}
	}
	c.Oblige("X.skip.varint", good, pos, name, "the length of a skipped varint is what ReadVarUint reports for it",
		"Skip must accept exactly the varints the readers accept: a hand-written scan that only looks for the terminating byte accepts a 10-byte varint whose last byte overflows 64 bits (FF×9 02) and an 11-byte one, which ReadVarUint rejects - an unknown field is then skipped where the same bytes in a known field are an error", nil)
	c.Floor("X.skip.varint", 1)
}

// ---------------------------------------------------------------------------
// T.mapkey-plain: a map is rendered as a JSON object only when its key is a
// plain string - not a pointer to one or a null.String, whose distinct keys
// can have equal text.

func ruleMapKeyPlain(c *Ctx) {
	name := "plenccodec.Descriptor.isValidJSONMapEntry"
	f := c.P.ssaFunc(name)
	if f == nil {
		c.Oblige("T.mapkey-plain", false, token.NoPos, name, "function", "not found", nil)
		return
	}
	tests := false
	for _, b := range f.Blocks {
		for _, in := range b.Instrs {
			if u, ok := in.(*ssa.UnOp); ok && u.Op == token.MUL {
				if fa, ok := u.X.(*ssa.FieldAddr); ok && fieldName(fa) == "ExplicitPresence" {
					tests = true
				}
			}
		}
	}
	c.Oblige("T.mapkey-plain", tests, f.Pos(), name, "the object form is used only for keys without explicit presence",
		"string-keyed maps are objects, other maps key/value lists: map[*string]T and map[null.String]T also have FieldTypeString keys, but two distinct keys can have the same text (two pointers to \"a\"; the invalid and the valid empty null.String), which gives an object with duplicate member names", nil)
	c.Floor("T.mapkey-plain", 1)
}

// ---------------------------------------------------------------------------
// round 5

// mentionsAssert: f (or a module function it calls, depth <= 3) type-asserts to a type of that name.
func mentionsAssert(f *ssa.Function, tname string, depth int, seen map[*ssa.Function]bool) bool {
	if f == nil || depth > 3 || seen[f] {
		return false
	}
	seen[f] = true
	for _, b := range f.Blocks {
		for _, in := range b.Instrs {
			if ta, ok := in.(*ssa.TypeAssert); ok && typeName(ta.AssertedType) == tname {
				return true
			}
			if call, ok := in.(*ssa.Call); ok {
				if cal := call.Common().StaticCallee(); cal != nil && cal.Pkg != nil && inModule(cal.Pkg.Pkg) {
					if mentionsAssert(cal, tname, depth+1, seen) {
						return true
					}
				}
			}
		}
	}
	return false
}

// ruleNewFresh: T.new-fresh - New() of every codec hands out memory nobody else has.
func ruleNewFresh(c *Ctx) {
	p := c.P
	n := 0
	for _, ct := range p.Codecs {
		mr, ok := ct.Methods["New"]
		if !ok || mr.Fn == nil {
			continue
		}
		f := p.SSA.FuncValue(mr.Fn)
		if f == nil || len(f.Blocks) == 0 {
			continue
		}
		n++
		bad := ""
		for _, b := range f.Blocks {
			ret, ok := b.Instrs[len(b.Instrs)-1].(*ssa.Return)
			if !ok || len(ret.Results) != 1 {
				continue
			}
			v := ret.Results[0]
			// delegation to another codec's New is fine (checked there)
			if call, ok := v.(*ssa.Call); ok {
				cc := call.Common()
				if cc.IsInvoke() && cc.Method.Name() == "New" {
					continue
				}
				if cal := cc.StaticCallee(); cal != nil && cal.Name() == "New" && inModule(cal.Pkg.Pkg) {
					continue
				}
			}
			r := rootOf(v)
			fresh := r.kind == rkFresh
			if al, ok := r.base.(*ssa.Alloc); ok && al.Heap && r.loaded == 0 {
				fresh = true // new(T) / &T{}
			}
			if !fresh {
				bad = "returns memory rooted in " + r.kindOnly()
			}
		}
		c.Oblige("T.new-fresh", bad == "", f.Pos(), ct.Name, "New() returns freshly allocated memory",
			"New() supplies the target a nil pointer is pointed at before decoding into it: it must be a new allocation every time - a package-level or codec-owned object would be shared by every decoded value (a later decode rewrites an earlier result)"+map[bool]string{true: "", false: "; " + bad}[bad == ""], nil)
	}
	c.Floor("T.new-fresh", 20)
}

// ruleNullOnlyForPresence: T.null-presence - the walker writes null only for a value that can be absent.
func ruleNullOnlyForPresence(c *Ctx) {
	p := c.P
	n := 0
	nullUnderPresence := map[string]bool{}
	for _, f := range p.moduleFuncs() {
		if recvTypeName(f) != "Descriptor" || len(f.Blocks) == 0 {
			continue
		}
		fname := ssaFuncName(f)
		for _, b := range f.Blocks {
			for _, in := range b.Instrs {
				call, ok := in.(*ssa.Call)
				if !ok {
					continue
				}
				cc := call.Common()
				if !cc.IsInvoke() || cc.Method.Name() != "Raw" || typeName(cc.Value.Type()) != "Outputter" || len(cc.Args) != 1 || !isConstString(cc.Args[0], "null") {
					continue
				}
				n++
				conds, truths := controllingConds(b)
				good := false
				for i, cd := range conds {
					if u, ok := cd.(*ssa.UnOp); ok && u.Op == token.MUL && truths[i] {
						if fa, ok := u.X.(*ssa.FieldAddr); ok && fieldName(fa) == "ExplicitPresence" {
							nullUnderPresence[fname] = true
						}
					}
				}
				for i, cd := range conds {
					// ExplicitPresence of the element being rendered
					if u, ok := cd.(*ssa.UnOp); ok && u.Op == token.MUL && truths[i] {
						if fa, ok := u.X.(*ssa.FieldAddr); ok && fieldName(fa) == "ExplicitPresence" {
							good = true
						}
					}
					// the JSON type code for nil
					if bo, ok := cd.(*ssa.BinOp); ok && bo.Op == token.EQL && truths[i] {
						for _, o := range []ssa.Value{bo.X, bo.Y} {
							if k, ok := o.(*ssa.Const); ok && typeName(k.Type()) == "jsonType" {
								good = true
							}
						}
					}
				}
				c.Oblige("T.null-presence", good, call.Pos(), fname, "null is output only for an element with explicit presence (or the JSON nil code)",
					"a value that is missing from the data stands for the zero value unless the field can be absent: null is right for pointers and null types only - for a plain int, string or slice the walker must render 0, \"\" or [] (map[string]int{\"zero\": 0} must not become {\"zero\": null})", nil)
			}
		}
	}
	c.Floor("T.null-presence", 2)
	// the converse for map entries: an entry without a value is how an absent
	// (nil / invalid) value is written, and it must come out as null
	mname := "plenccodec.Descriptor.readAsMapEntry"
	if mf := p.ssaFunc(mname); mf == nil {
		c.Oblige("T.null-absent", false, token.NoPos, mname, "function", "not found", nil)
	} else {
		c.Oblige("T.null-absent", nullUnderPresence[mname], mf.Pos(), mname, "a map entry without a value renders null when the value has explicit presence",
			"a nil pointer or invalid null value in a map is written as an entry with no value field; reading 'no data' through the value's descriptor instead renders it as 0, \"\" or {} - presence is lost in the JSON output", nil)
	}
	c.Floor("T.null-absent", 1)
}

// ruleMapEntryShape: T.mapentry-shape - what counts as a map (entry) for the object rendering.
func ruleMapEntryShape(c *Ctx) {
	p := c.P
	for _, spec := range []struct {
		fn   string
		want []string
	}{
		{"plenccodec.Descriptor.isValidJSONMapEntry", []string{"Type", "LogicalType", "Elements", "ExplicitPresence"}},
		{"plenccodec.Descriptor.isValidJSONMap", []string{"Type", "LogicalType", "Elements"}},
	} {
		f := p.ssaFunc(spec.fn)
		if f == nil {
			c.Oblige("T.mapentry-shape", false, token.NoPos, spec.fn, "function", "not found", nil)
			continue
		}
		tested := map[string]bool{}
		var mark func(v ssa.Value, depth int)
		mark = func(v ssa.Value, depth int) {
			if depth > 5 || v == nil {
				return
			}
			switch x := v.(type) {
			case *ssa.UnOp:
				if fa, ok := x.X.(*ssa.FieldAddr); ok {
					tested[fieldName(fa)] = true
				}
				mark(x.X, depth+1)
			case *ssa.BinOp:
				mark(x.X, depth+1)
				mark(x.Y, depth+1)
			case *ssa.Call:
				for _, a := range x.Common().Args {
					mark(a, depth+1)
				}
			case *ssa.Phi:
				for _, e := range x.Edges {
					mark(e, depth+1)
				}
			}
		}
		for _, b := range f.Blocks {
			if ifi, ok := b.Instrs[len(b.Instrs)-1].(*ssa.If); ok {
				mark(ifi.Cond, 0)
			}
			if ret, ok := b.Instrs[len(b.Instrs)-1].(*ssa.Return); ok {
				for _, r := range ret.Results {
					mark(r, 0)
				}
			}
		}
		var missing []string
		for _, w := range spec.want {
			if !tested[w] {
				missing = append(missing, w)
			}
		}
		c.Oblige("T.mapentry-shape", len(missing) == 0, f.Pos(), spec.fn, "tests "+strings.Join(spec.want, ", "),
			"the object rendering is for maps only: a two-field struct that starts with a string has the same shape as a string-keyed map entry and is told apart by the LogicalType alone; dropping one of the tests renders ordinary structs as bare key/value pairs"+
				map[bool]string{true: "", false: "; not tested: " + strings.Join(missing, ", ")}[len(missing) == 0], nil)
	}
	c.Floor("T.mapentry-shape", 2)
}

// ruleLeadCountEmpty: X.leadcount.empty - empty data is the encoding of an empty container.
func ruleLeadCountEmpty(c *Ctx) {
	p := c.P
	names := []string{"plenccodec.WTLengthSliceWrapper.Read", "plenccodec.MapCodec.Read", "plenccodec.JSONArrayCodec.Read", "plenccodec.JSONMapCodec.Read",
		"plenccodec.Descriptor.readAsSlice", "plenccodec.Descriptor.readAsJSON"}
	for _, name := range names {
		f := p.ssaFunc(name)
		if f == nil {
			c.Oblige("X.leadcount.empty", false, token.NoPos, name, "function", "not found", nil)
			continue
		}
		n := 0
		for _, b := range f.Blocks {
			for _, in := range b.Instrs {
				cn, call := staticCalleeName(in)
				if call == nil || cn != "plenccore.ReadVarUint" {
					continue
				}
				if prm, ok := call.Common().Args[0].(*ssa.Parameter); !ok || !isByteSlice(prm.Type()) {
					continue
				}
				var nres ssa.Value
				for _, r := range *call.Referrers() {
					if ex, ok := r.(*ssa.Extract); ok && ex.Index == 1 {
						nres = ex
					}
				}
				if nres == nil {
					continue
				}
				n++
				bad := false
				for _, r := range *nres.Referrers() {
					bo, ok := r.(*ssa.BinOp)
					if !ok || !isZeroSSA(bo.Y) || bo.X != nres {
						continue
					}
					for _, r2 := range *bo.Referrers() {
						ifi, ok := r2.(*ssa.If)
						if !ok {
							continue
						}
						// which branch is taken for n == 0 ?
						var zeroBranch *ssa.BasicBlock
						switch bo.Op {
						case token.LEQ, token.EQL, token.GEQ:
							zeroBranch = ifi.Block().Succs[0]
						case token.LSS, token.NEQ, token.GTR:
							zeroBranch = ifi.Block().Succs[1]
						}
						if zeroBranch == nil {
							continue
						}
						if ret, ok := zeroBranch.Instrs[len(zeroBranch.Instrs)-1].(*ssa.Return); ok && isFailureReturnLoose(f, ret) {
							bad = true
						}
					}
				}
				c.Oblige("X.leadcount.empty", !bad, call.Pos(), name, "an empty body is read as an empty container, not rejected",
					"a nil or empty slice, array or map at top level (and an omitted empty one inside a map entry) is encoded as no bytes at all: ReadVarUint reports n == 0 for it, and only n < 0 is an error - rejecting n <= 0 makes the typed decode or the walker fail on data the writer produces", nil)
			}
		}
		if n == 0 {
			c.Oblige("X.leadcount.empty", false, f.Pos(), name, "leading count read", "not found", nil)
		}
	}
	c.Floor("X.leadcount.empty", 6)
}

// ruleInternSibling: T.intern-sibling - interning adds no rejection and no other source of strings.
func ruleInternSibling(c *Ctx) {
	p := c.P
	in := p.ssaFunc("plenccodec.InternedStringCodec.Read")
	pl := p.ssaFunc("plenccodec.StringCodec.Read")
	if in == nil || pl == nil {
		c.Oblige("T.intern-sibling", false, token.NoPos, "plenccodec.InternedStringCodec.Read", "functions", "not found", nil)
		return
	}
	fails := func(f *ssa.Function) int {
		n := 0
		for _, b := range f.Blocks {
			if ret, ok := b.Instrs[len(b.Instrs)-1].(*ssa.Return); ok && b != f.Recover && isFailureReturnLoose(f, ret) {
				n++
			}
		}
		return n
	}
	fi, fp := fails(in), fails(pl)
	c.Oblige("T.intern-sibling", fi <= fp, in.Pos(), "plenccodec.InternedStringCodec.Read", "rejects nothing the plain string codec accepts",
		fmt.Sprintf("an interned field decodes exactly what the same field decodes without the option: StringCodec.Read has %d error returns, InternedStringCodec.Read has %d - any additional rejection (of a wire type, a length) makes data readable only without the option", fp, fi), nil)
	// sources of the stored string
	bad := ""
	for _, b := range in.Blocks {
		for _, ins := range b.Instrs {
			st, ok := ins.(*ssa.Store)
			if !ok {
				continue
			}
			if r := rootOf(st.Addr); r.kind != rkParam {
				continue
			}
			if bt, ok := st.Val.Type().Underlying().(*types.Basic); !ok || bt.Kind() != types.String {
				continue
			}
			seen := map[ssa.Value]bool{}
			var leaves func(v ssa.Value)
			leaves = func(v ssa.Value) {
				if seen[v] {
					return
				}
				seen[v] = true
				switch x := v.(type) {
				case *ssa.Phi:
					for _, e := range x.Edges {
						leaves(e)
					}
				case *ssa.Extract:
					if lk, ok := x.Tuple.(*ssa.Lookup); ok && lk.CommaOk && x.Index == 0 {
						return
					}
					bad = "a string from " + x.Tuple.String()
				case *ssa.Call:
					if cal := x.Common().StaticCallee(); cal != nil && cal.Name() == "addString" {
						return
					}
					bad = "the result of " + x.String()
				case *ssa.Convert:
					if prm, ok := x.X.(*ssa.Parameter); ok && isByteSlice(prm.Type()) {
						return
					}
					bad = "a conversion of " + x.X.Name()
				case *ssa.Lookup:
					return
				default:
					bad = fmt.Sprintf("a %T", v)
				}
			}
			leaves(st.Val)
		}
	}
	c.Oblige("T.intern-sibling", bad == "", in.Pos(), "plenccodec.InternedStringCodec.Read", "the decoded string is the table's entry for the input or a copy of the input",
		"the only strings an interned field may produce are string(data) itself and the table entry found under it; a string from anywhere else (a precomputed table of short strings, a cache keyed differently) need not equal string(data)"+map[bool]string{true: "", false: "; here: " + bad}[bad == ""], nil)
	c.Floor("T.intern-sibling", 2)
}

// sameEntryAddr: two address expressions denote the same struct - the same
// value, or the same element of the same slice/array (go/ssa recomputes
// &s[i] at every use).
func sameEntryAddr(a, b ssa.Value, depth int) bool {
	if a == b {
		return true
	}
	if depth > 4 {
		return false
	}
	switch x := a.(type) {
	case *ssa.IndexAddr:
		if y, ok := b.(*ssa.IndexAddr); ok {
			return x.Index == y.Index && sameEntryAddr(x.X, y.X, depth+1)
		}
	case *ssa.FieldAddr:
		if y, ok := b.(*ssa.FieldAddr); ok {
			return x.Field == y.Field && sameEntryAddr(x.X, y.X, depth+1)
		}
	case *ssa.UnOp:
		if y, ok := b.(*ssa.UnOp); ok && x.Op == y.Op {
			return sameEntryAddr(x.X, y.X, depth+1)
		}
	}
	return false
}
