package main

import (
	"go/token"
	"go/types"

	"golang.org/x/tools/go/ssa"
)

// Rules added after round 6 of the seeded changes.

// ---------------------------------------------------------------------------
// X.dispatch.known: whether StructCodec.Read hands a field to its codec or
// skips it depends on the index and the field table only. The field codecs
// decide themselves what to do with a wire type they did not write (the slice
// readers accept WTLength for the repeated form): a reader that compares the
// tag's wire type with the codec's declared one drops such fields silently.

func ruleDispatchKnown(c *Ctx) {
	p := c.P
	name := "plenccodec.StructCodec.Read"
	f := p.ssaFunc(name)
	if f == nil {
		c.Oblige("X.dispatch.known", false, token.NoPos, name, "function", "not found", nil)
		return
	}
	var consults func(v ssa.Value, depth int) string
	consults = func(v ssa.Value, depth int) string {
		if depth > 5 {
			return ""
		}
		switch x := v.(type) {
		case *ssa.Call:
			if isCodecInvoke(x) && x.Common().Method.Name() != "Read" {
				return x.Common().Method.Name()
			}
			if cal := x.Common().StaticCallee(); cal != nil && cal.Pkg != nil && inModule(cal.Pkg.Pkg) {
				// a helper that asks the codec
				for _, b := range cal.Blocks {
					for _, in := range b.Instrs {
						if cc, ok := in.(*ssa.Call); ok && isCodecInvoke(cc) && cc.Common().Method.Name() != "Read" {
							return cc.Common().Method.Name()
						}
					}
				}
			}
		case *ssa.BinOp:
			if r := consults(x.X, depth+1); r != "" {
				return r
			}
			return consults(x.Y, depth+1)
		case *ssa.UnOp:
			return consults(x.X, depth+1)
		case *ssa.Phi:
			for _, e := range x.Edges {
				if r := consults(e, depth+1); r != "" {
					return r
				}
			}
		case *ssa.Extract:
			return consults(x.Tuple, depth+1)
		case *ssa.Convert:
			return consults(x.X, depth+1)
		case *ssa.ChangeType:
			return consults(x.X, depth+1)
		}
		return ""
	}
	bad := ""
	var pos token.Pos = f.Pos()
	nIf := 0
	for _, b := range f.Blocks {
		ifi, ok := b.Instrs[len(b.Instrs)-1].(*ssa.If)
		if !ok {
			continue
		}
		nIf++
		if m := consults(ifi.Cond, 0); m != "" && bad == "" {
			bad = m
			pos = ifi.Pos()
		}
	}
	msg := "the branch conditions of the reader depend on the data, the index and the field table only"
	if bad != "" {
		msg = "a branch of the reader is decided by the field codec's " + bad + "(): a known field can then be skipped instead of being handed to its codec"
	}
	c.Oblige("X.dispatch.known", bad == "" && nIf > 0, pos, name, "a field whose index is in the table is always handed to its codec", msg, nil)
	c.Floor("X.dispatch.known", 1)
}

// ---------------------------------------------------------------------------
// X.addcodecs: null.AddCodecs / RegisterCodecs touch an instance only by
// registering codecs for named types of their own; they do not re-register the
// defaults (which would overwrite registrations made earlier) and set no option.

func ruleAddCodecs(c *Ctx) {
	p := c.P
	n := 0
	for _, fname := range []string{"null.AddCodecs", "null.RegisterCodecs"} {
		f := p.ssaFunc(fname)
		if f == nil {
			c.Oblige("X.addcodecs", false, token.NoPos, fname, "function", "not found", nil)
			continue
		}
		for _, b := range f.Blocks {
			for _, in := range b.Instrs {
				switch x := in.(type) {
				case *ssa.Call:
					cal := x.Common().StaticCallee()
					if cal == nil || cal.Pkg == nil || !inModule(cal.Pkg.Pkg) {
						continue
					}
					cn := ssaFuncName(cal)
					if cal.Pkg.Pkg.Path() != modPath {
						continue // helpers of package null itself
					}
					n++
					okc := false
					why := "only RegisterCodec / RegisterCodecWithTag may be called on the instance"
					switch cn {
					case "plenc.Plenc.RegisterCodec", "plenc.Plenc.RegisterCodecWithTag", "plenc.RegisterCodec", "plenc.RegisterCodecWithTag":
						// the registered type is a named type that is not a basic type of the language
						args := x.Common().Args
						ti := 0
						if cal.Signature.Recv() != nil {
							ti = 1
						}
						okc = true
						if ti < len(args) {
							if t := reflectTypeOfArg(args[ti]); t != nil {
								if nt, isNamed := t.(*types.Named); !isNamed || nt.Obj().Pkg() == nil {
									okc = false
									why = "the type registered is a basic type: that replaces the instance's own codec for it"
								}
							}
						}
					case "plenc.Plenc.AddCodecs":
					default:
						if fname == "null.RegisterCodecs" && cn == "null.AddCodecs" {
							continue
						}
					}
					c.Oblige("X.addcodecs", okc, x.Pos(), fname, "call of "+cn,
						"registering the null codecs must not disturb anything else on the instance (RegisterDefaultCodecs would overwrite codecs registered before for the default-covered keys, and hand a bare instance the whole default set): "+why, nil)
				case *ssa.Store:
					if fa, ok := x.Addr.(*ssa.FieldAddr); ok && typeName(deref(fa.X.Type())) == "Plenc" {
						n++
						c.Oblige("X.addcodecs", false, x.Pos(), fname, "store to Plenc."+fieldName(fa), "registering codecs must not change an option of the instance", nil)
					}
				}
			}
		}
	}
	c.Floor("X.addcodecs", 5)
}

// reflectTypeOfArg: v is reflect.TypeOf(X) - returns X's static type.
func reflectTypeOfArg(v ssa.Value) types.Type {
	call, ok := v.(*ssa.Call)
	if !ok {
		return nil
	}
	cal := call.Common().StaticCallee()
	if cal == nil || cal.String() != "reflect.TypeOf" || len(call.Common().Args) != 1 {
		return nil
	}
	a := call.Common().Args[0]
	if mi, ok := a.(*ssa.MakeInterface); ok {
		return mi.X.Type()
	}
	return nil
}

// ---------------------------------------------------------------------------
// T.slicewrap.only: in the slice clause of the kind switch a codec is chosen
// only inside the switch over the element's wire type - the element codec is
// always looked up first, so a registration for the element type is honoured.

func ruleSliceWrapOnly(c *Ctx) {
	// since the FEAS formulation T.slicewrap itself demands that no other codec
	// is live for a slice: run it unless this property already has
	if c.Rules["T.slicewrap"] == nil {
		ruleSliceWrap(c)
	}
}

func joinStrs(s []string) string {
	out := ""
	for i, x := range s {
		if i > 0 {
			out += ", "
		}
		out += x
	}
	return out
}

// ---------------------------------------------------------------------------
// plenctag: G.fieldname and G.parseerr

func ruleTagRound7(c *Ctx) {
	p := c.P
	// G.fieldname: an embedded field of a package-qualified type (time.Time) is named after the type, not the package
	if f := p.ssaFunc("cmd/plenctag.fieldName"); f == nil {
		c.Oblige("G.fieldname", false, token.NoPos, "cmd/plenctag.fieldName", "function", "not found", nil)
	} else {
		var sels []ssa.Value
		for _, b := range f.Blocks {
			for _, in := range b.Instrs {
				if ta, ok := in.(*ssa.TypeAssert); ok && isAstSelectorPtr(ta.AssertedType) {
					if ta.CommaOk {
						for _, r := range *ta.Referrers() {
							if ex, ok := r.(*ssa.Extract); ok && ex.Index == 0 {
								sels = append(sels, ex)
							}
						}
					} else {
						sels = append(sels, ta)
					}
				}
			}
		}
		good := false
		isSelName := func(v ssa.Value) bool {
			// *(&(*(&sel.Sel)).Name)
			u, ok := v.(*ssa.UnOp)
			if !ok || u.Op != token.MUL {
				return false
			}
			fa, ok := u.X.(*ssa.FieldAddr)
			if !ok || fieldName(fa) != "Name" {
				return false
			}
			u2, ok := fa.X.(*ssa.UnOp)
			if !ok || u2.Op != token.MUL {
				return false
			}
			fa2, ok := u2.X.(*ssa.FieldAddr)
			if !ok || fieldName(fa2) != "Sel" {
				return false
			}
			for _, s := range sels {
				if fa2.X == s {
					return true
				}
			}
			return false
		}
		for _, b := range f.Blocks {
			if r, ok := b.Instrs[len(b.Instrs)-1].(*ssa.Return); ok && len(r.Results) == 1 {
				v := r.Results[0]
				if isSelName(v) {
					good = true
				}
				if ph, ok := v.(*ssa.Phi); ok {
					for _, e := range ph.Edges {
						if isSelName(e) {
							good = true
						}
					}
				}
			}
		}
		c.Oblige("G.fieldname", good && len(sels) > 0, f.Pos(), "cmd/plenctag.fieldName", "an embedded pkg.Type is named Type",
			"an embedded field is named after its type: for a package-qualified type that is the selector's Sel (time.Time is the exported field Time); taking the package name instead makes every such field look unexported and leaves it untagged", nil)
	}
	// G.parseerr: a tag structtag cannot parse is reported, not treated as empty
	if f := p.ssaFunc("cmd/plenctag.extractTags"); f == nil {
		c.Oblige("G.parseerr", false, token.NoPos, "cmd/plenctag.extractTags", "function", "not found", nil)
	} else {
		var perr []ssa.Value
		for _, b := range f.Blocks {
			for _, in := range b.Instrs {
				if call, ok := in.(*ssa.Call); ok {
					if cal := call.Common().StaticCallee(); cal != nil && cal.String() == "github.com/fatih/structtag.Parse" {
						for _, r := range *call.Referrers() {
							if ex, ok := r.(*ssa.Extract); ok && ex.Index == 1 {
								perr = append(perr, ex)
							}
						}
					}
				}
			}
		}
		carries := func(v ssa.Value) bool {
			seen := map[ssa.Value]bool{}
			var walk func(v ssa.Value) bool
			walk = func(v ssa.Value) bool {
				if seen[v] {
					return false
				}
				seen[v] = true
				for _, e := range perr {
					if v == e {
						return true
					}
				}
				switch x := v.(type) {
				case *ssa.Phi:
					for _, e := range x.Edges {
						if walk(e) {
							return true
						}
					}
				case *ssa.Call:
					// fmt.Errorf("...%w", err) and the like
					for _, a := range x.Common().Args {
						if walk(a) {
							return true
						}
					}
				case *ssa.MakeInterface:
					return walk(x.X)
				case *ssa.Slice:
					return walk(x.X)
				}
				return false
			}
			return walk(v)
		}
		good := false
		for _, b := range f.Blocks {
			if r, ok := b.Instrs[len(b.Instrs)-1].(*ssa.Return); ok && len(r.Results) == 2 {
				if carries(r.Results[1]) {
					good = true
				}
			}
		}
		// variadic args of Errorf are stored into an array first
		if !good {
			for _, b := range f.Blocks {
				for _, in := range b.Instrs {
					if st, ok := in.(*ssa.Store); ok && carries(st.Val) {
						if _, isIdx := st.Addr.(*ssa.IndexAddr); isIdx {
							good = true
						}
					}
				}
			}
		}
		c.Oblige("G.parseerr", good && len(perr) > 0, f.Pos(), "cmd/plenctag.extractTags", "the error of structtag.Parse is returned",
			"a tag that is not in key:\"value\" form cannot be extended safely (reflect stops reading at the malformed part, so an appended plenc tag is invisible and is appended again on the next run): the parse error must reach the caller, which records it", nil)
	}
}

func isAstSelectorPtr(t types.Type) bool {
	pt, ok := t.(*types.Pointer)
	if !ok {
		return false
	}
	n, ok := pt.Elem().(*types.Named)
	return ok && n.Obj().Name() == "SelectorExpr" && n.Obj().Pkg() != nil && n.Obj().Pkg().Path() == "go/ast"
}

// ---------------------------------------------------------------------------
// T.ptime: the time codecs go through ptime; the emission grammar treats
// ptime.Set as "the seconds and nanoseconds of the time", so the two
// conversions are checked here: Set stores t.Unix() and t.Nanosecond(),
// Standard rebuilds time.Unix(Seconds, Nanoseconds). When Set / Standard do not
// exist (written out at the use sites) the grammar rule sees the calls itself.

func rulePtime(c *Ctx) {
	p := c.P
	stripC := func(v ssa.Value) ssa.Value {
		for {
			switch x := v.(type) {
			case *ssa.Convert:
				v = x.X
			case *ssa.ChangeType:
				v = x.X
			default:
				return v
			}
		}
	}
	n := 0
	if f := p.ssaFunc("plenccodec.ptime.Set"); f != nil && len(f.Params) == 2 {
		want := map[string]string{"Seconds": "(time.Time).Unix", "Nanoseconds": "(time.Time).Nanosecond"}
		got := map[string]bool{}
		for _, b := range f.Blocks {
			for _, in := range b.Instrs {
				st, ok := in.(*ssa.Store)
				if !ok {
					continue
				}
				fa, ok := st.Addr.(*ssa.FieldAddr)
				if !ok || fa.X != ssa.Value(f.Params[0]) {
					continue
				}
				fld := fieldName(fa)
				w, known := want[fld]
				if !known {
					continue
				}
				good := false
				if call, ok := stripC(st.Val).(*ssa.Call); ok {
					if cal := call.Common().StaticCallee(); cal != nil && cal.String() == w && len(call.Common().Args) == 1 && call.Common().Args[0] == ssa.Value(f.Params[1]) {
						good = true
					}
				}
				n++
				got[fld] = got[fld] || good
				c.Oblige("T.ptime", good, st.Pos(), "plenccodec.ptime.Set", fld+" = "+w+"(t)",
					"the wire format carries the Unix seconds and the nanoseconds within the second of the time, unscaled", nil)
			}
		}
		for fld := range want {
			if !got[fld] {
				n++
				c.Oblige("T.ptime", false, f.Pos(), "plenccodec.ptime.Set", fld+" is set", "ptime.Set must store both fields", nil)
			}
		}
	}
	if f := p.ssaFunc("plenccodec.ptime.Standard"); f != nil && len(f.Params) == 1 {
		good := false
		for _, b := range f.Blocks {
			for _, in := range b.Instrs {
				call, ok := in.(*ssa.Call)
				if !ok {
					continue
				}
				cal := call.Common().StaticCallee()
				if cal == nil || cal.String() != "time.Unix" || len(call.Common().Args) != 2 {
					continue
				}
				fromField := func(v ssa.Value, name string) bool {
					v = stripC(v)
					// value receiver: a field of the parameter itself, or of its spilled copy
					if fl, ok := v.(*ssa.Field); ok {
						if st, ok := fl.X.Type().Underlying().(*types.Struct); ok && fl.Field < st.NumFields() {
							return fl.X == ssa.Value(f.Params[0]) && st.Field(fl.Field).Name() == name
						}
					}
					u, ok := v.(*ssa.UnOp)
					if !ok || u.Op != token.MUL {
						return false
					}
					fa, ok := u.X.(*ssa.FieldAddr)
					if !ok || fieldName(fa) != name {
						return false
					}
					if fa.X == ssa.Value(f.Params[0]) {
						return true
					}
					if al, ok := fa.X.(*ssa.Alloc); ok {
						for _, r := range *al.Referrers() {
							if st, ok := r.(*ssa.Store); ok && st.Addr == ssa.Value(al) && st.Val == ssa.Value(f.Params[0]) {
								return true
							}
						}
					}
					return false
				}
				if fromField(call.Common().Args[0], "Seconds") && fromField(call.Common().Args[1], "Nanoseconds") {
					good = true
				}
			}
		}
		n++
		c.Oblige("T.ptime", good, f.Pos(), "plenccodec.ptime.Standard", "time.Unix(Seconds, Nanoseconds)",
			"the decoded time is rebuilt from the two fields as written, unscaled and in this order", nil)
	}
	if n == 0 {
		c.Note("T.ptime: ptime.Set / ptime.Standard are not declared; the seconds/nanoseconds conversions are judged where they are written (S.spec)")
	}
}

// isCodecInvoke: an interface method call on a value of the module's Codec interface.
func isCodecInvoke(call *ssa.Call) bool {
	cc := call.Common()
	if !cc.IsInvoke() {
		return false
	}
	n, ok := cc.Value.Type().(*types.Named)
	return ok && n.Obj().Name() == "Codec" && inModule(n.Obj().Pkg())
}

// ---------------------------------------------------------------------------
// X.skip.aftertag: Skip is handed the bytes that follow the tag. Between
// reading a field's tag and skipping the field nothing else may be read: a
// length prefix consumed first makes Skip take the field's first payload bytes
// for its length.

func ruleSkipAfterTag(c *Ctx) {
	p := c.P
	n := 0
	for _, f := range p.decodeClosure() {
		if len(f.Blocks) == 0 {
			continue
		}
		type site struct {
			b   *ssa.BasicBlock
			idx int
		}
		var tags, skips []site
		reads := map[*ssa.BasicBlock][]int{}
		for _, b := range f.Blocks {
			for i, in := range b.Instrs {
				cn, call := staticCalleeName(in)
				if call == nil {
					continue
				}
				switch cn {
				case "plenccore.ReadTag":
					tags = append(tags, site{b, i})
				case "plenccore.Skip":
					skips = append(skips, site{b, i})
				case "plenccore.ReadVarUint", "plenccore.ReadVarInt":
					reads[b] = append(reads[b], i)
				}
			}
		}
		if len(tags) == 0 || len(skips) == 0 {
			continue
		}
		name := ssaFuncName(f)
		for _, sk := range skips {
			// backwards from the Skip call to the nearest ReadTag on every path
			bad := false
			seen := map[*ssa.BasicBlock]bool{}
			var walk func(b *ssa.BasicBlock, upto int)
			walk = func(b *ssa.BasicBlock, upto int) {
				// scan b.Instrs[:upto] backwards
				for i := upto - 1; i >= 0; i-- {
					for _, t := range tags {
						if t.b == b && t.idx == i {
							return // reached the tag read on this path
						}
					}
					for _, r := range reads[b] {
						if r == i {
							bad = true
						}
					}
				}
				for _, pr := range b.Preds {
					if !seen[pr] {
						seen[pr] = true
						walk(pr, len(pr.Instrs))
					}
				}
			}
			walk(sk.b, sk.idx)
			n++
			c.Oblige("X.skip.aftertag", !bad, sk.b.Instrs[sk.idx].Pos(), name, "nothing is read between the tag and Skip",
				"Skip parses the field from the byte after its tag; a length or count read first is then taken from the field's payload and the reader loses its place (or fails) on a removed length-delimited field", nil)
		}
	}
	c.Floor("X.skip.aftertag", 3)
}

// ---------------------------------------------------------------------------
// X.read.lookup: the codec StructCodec.Read hands a field to is the entry of
// the index table for the tag's index - fieldsByIndex[index] - on every path.
// (The table is built from the field list under the duplicate check,
// X.dom.dup; a second way of finding the field - a search over the
// declaration-ordered list, a cache - has to agree with it for every layout.)

func ruleReadLookup(c *Ctx) {
	p := c.P
	name := "plenccodec.StructCodec.Read"
	f := p.ssaFunc(name)
	if f == nil {
		c.Oblige("X.read.lookup", false, token.NoPos, name, "function", "not found", nil)
		return
	}
	tagIndex := func(v ssa.Value) bool {
		for i := 0; i < 4; i++ {
			switch x := v.(type) {
			case *ssa.Convert:
				v = x.X
				continue
			case *ssa.ChangeType:
				v = x.X
				continue
			case *ssa.Extract:
				if call, ok := x.Tuple.(*ssa.Call); ok {
					if cal := call.Common().StaticCallee(); cal != nil && cal.String() == "github.com/philpearl/plenc/plenccore.ReadTag" {
						return x.Index == 1
					}
				}
			}
			break
		}
		return false
	}
	entryAddr := func(v ssa.Value) bool {
		ia, ok := v.(*ssa.IndexAddr)
		if !ok || !tagIndex(ia.Index) {
			return false
		}
		u, ok := ia.X.(*ssa.UnOp)
		if !ok || u.Op != token.MUL {
			return false
		}
		fa, ok := u.X.(*ssa.FieldAddr)
		return ok && fieldName(fa) == "fieldsByIndex" && len(f.Params) > 0 && fa.X == ssa.Value(f.Params[0])
	}
	var fromTable func(v ssa.Value, depth int) bool
	fromTable = func(v ssa.Value, depth int) bool {
		if depth > 8 {
			return false
		}
		switch x := v.(type) {
		case *ssa.Phi:
			for _, e := range x.Edges {
				if !fromTable(e, depth+1) {
					return false
				}
			}
			return len(x.Edges) > 0
		case *ssa.UnOp:
			if x.Op != token.MUL {
				return false
			}
			if entryAddr(x.X) {
				return true // the whole entry
			}
			fa, ok := x.X.(*ssa.FieldAddr)
			if !ok {
				return false
			}
			if entryAddr(fa.X) {
				return true
			}
			if al, ok := fa.X.(*ssa.Alloc); ok {
				// the stores to the local that reach this load
				n := 0
				for _, st := range reachingStores(al, x) {
					n++
					if !fromTable(st.Val, depth+1) {
						return false
					}
				}
				return n > 0
			}
			if ph, ok := fa.X.(*ssa.Phi); ok {
				// d = nil or &fieldsByIndex[index]: the nil edge cannot be the one dereferenced
				n := 0
				for _, e := range ph.Edges {
					if isNilConst(e) {
						continue
					}
					if !entryAddr(e) {
						return false
					}
					n++
				}
				return n > 0
			}
		case *ssa.Field:
			return fromTable(x.X, depth+1)
		}
		return false
	}
	n := 0
	for _, b := range f.Blocks {
		for _, in := range b.Instrs {
			call, ok := in.(*ssa.Call)
			if !ok || !isCodecInvoke(call) || call.Common().Method.Name() != "Read" {
				continue
			}
			n++
			c.Oblige("X.read.lookup", fromTable(call.Common().Value, 0), call.Pos(), name, "the field codec is fieldsByIndex[index]",
				"a field of the data is decoded by the codec the index table holds for the tag's index; any other way of finding it must agree with the table for every field order and every index, which is not shown", nil)
		}
	}
	if n == 0 {
		c.Oblige("X.read.lookup", false, f.Pos(), name, "dispatch to the field codec", "no Codec.Read call found", nil)
	}
	c.Floor("X.read.lookup", 1)
}

// reachingStores: the stores to the whole of local al that can be the last one
// before instruction use executes (backward walk, a store ends its path).
func reachingStores(al *ssa.Alloc, use ssa.Instruction) []*ssa.Store {
	var out []*ssa.Store
	seen := map[*ssa.BasicBlock]bool{}
	var walk func(b *ssa.BasicBlock, upto int)
	walk = func(b *ssa.BasicBlock, upto int) {
		for i := upto - 1; i >= 0; i-- {
			if st, ok := b.Instrs[i].(*ssa.Store); ok && st.Addr == ssa.Value(al) {
				out = append(out, st)
				return
			}
		}
		for _, pr := range b.Preds {
			if !seen[pr] {
				seen[pr] = true
				walk(pr, len(pr.Instrs))
			}
		}
	}
	ub := use.Block()
	idx := len(ub.Instrs)
	for i, in := range ub.Instrs {
		if in == use {
			idx = i
		}
	}
	walk(ub, idx)
	return out
}

// ---------------------------------------------------------------------------
// T.key.self: CodecForTypeRegistry looks up and files the codec under the
// (typ, tag) it was asked for - the arguments of registry.Load and
// registry.StoreOrSwap are the function's own parameters, unchanged. A tag that
// is "consumed" on the way files a proto-form codec under the plain key, and
// the bytes then depend on which field was built first.

func ruleKeySelf(c *Ctx) {
	p := c.P
	name := "plenc.Plenc.CodecForTypeRegistry"
	f := p.ssaFunc(name)
	if f == nil {
		c.Oblige("T.key.self", false, token.NoPos, name, "function", "not found", nil)
		return
	}
	var typP, tagP *ssa.Parameter
	for _, prm := range f.Params {
		switch {
		case typeStr(prm.Type()) == "reflect.Type" || typeName(prm.Type()) == "Type":
			if typP == nil {
				typP = prm
			}
		case isStringType(prm.Type()):
			tagP = prm
		}
	}
	n := 0
	for _, b := range f.Blocks {
		for _, in := range b.Instrs {
			call, ok := in.(*ssa.Call)
			if !ok || !call.Common().IsInvoke() {
				continue
			}
			m := call.Common().Method.Name()
			if m != "Load" && m != "StoreOrSwap" && m != "Store" {
				continue
			}
			if typeName(call.Common().Value.Type()) != "CodecRegistry" {
				continue
			}
			args := call.Common().Args
			if len(args) < 2 {
				continue
			}
			n++
			good := typP != nil && tagP != nil && args[0] == ssa.Value(typP) && args[1] == ssa.Value(tagP)
			c.Oblige("T.key.self", good, call.Pos(), name, "registry."+m+"(typ, tag, …) with the function's own typ and tag",
				"the codec is looked up and stored under exactly the (type, tag) that was asked for; a tag or type changed on the way files the codec under another key", nil)
		}
	}
	c.Floor("T.key.self", 2)
	_ = n
}

func isStringType(t types.Type) bool {
	b, ok := t.Underlying().(*types.Basic)
	return ok && b.Kind() == types.String
}
