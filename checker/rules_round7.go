package main

import (
	"fmt"
	"go/constant"
	"go/token"
	"go/types"
	"os"
	"strings"

	"golang.org/x/tools/go/ssa"
)

// Rules added after round 6 of the seeded changes.

// ---------------------------------------------------------------------------
// X.dispatch.known: whether StructCodec.Read hands a field to its codec or
// skips it depends on the index and the field table only. The field codecs
// decide themselves what to do with a wire type they did not write (the slice
// readers accept WTLength for the repeated form): a reader that compares the
// tag's wire type with the codec's declared one drops such fields silently.

func ruleDispatchKnown(c *Ctx) {
	p := c.P
	name := "plenccodec.StructCodec.Read"
	f := p.ssaFunc(name)
	if f == nil {
		c.Oblige("X.dispatch.known", false, token.NoPos, name, "function", "not found", nil)
		return
	}
	var consults func(v ssa.Value, depth int) string
	consults = func(v ssa.Value, depth int) string {
		if depth > 5 {
			return ""
		}
		switch x := v.(type) {
		case *ssa.Call:
			if isCodecInvoke(x) && x.Common().Method.Name() != "Read" {
				return x.Common().Method.Name()
			}
			if cal := x.Common().StaticCallee(); cal != nil && cal.Pkg != nil && inModule(cal.Pkg.Pkg) {
				// a helper that asks the codec
				for _, b := range cal.Blocks {
					for _, in := range b.Instrs {
						if cc, ok := in.(*ssa.Call); ok && isCodecInvoke(cc) && cc.Common().Method.Name() != "Read" {
							return cc.Common().Method.Name()
						}
					}
				}
			}
		case *ssa.BinOp:
			if r := consults(x.X, depth+1); r != "" {
				return r
			}
			return consults(x.Y, depth+1)
		case *ssa.UnOp:
			return consults(x.X, depth+1)
		case *ssa.Phi:
			for _, e := range x.Edges {
				if r := consults(e, depth+1); r != "" {
					return r
				}
			}
		case *ssa.Extract:
			return consults(x.Tuple, depth+1)
		case *ssa.Convert:
			return consults(x.X, depth+1)
		case *ssa.ChangeType:
			return consults(x.X, depth+1)
		}
		return ""
	}
	bad := ""
	var pos token.Pos = f.Pos()
	nIf := 0
	for _, b := range f.Blocks {
		ifi, ok := b.Instrs[len(b.Instrs)-1].(*ssa.If)
		if !ok {
			continue
		}
		nIf++
		if m := consults(ifi.Cond, 0); m != "" && bad == "" {
			bad = m
			pos = ifi.Pos()
		}
	}
	msg := "the branch conditions of the reader depend on the data, the index and the field table only"
	if bad != "" {
		msg = "a branch of the reader is decided by the field codec's " + bad + "(): a known field can then be skipped instead of being handed to its codec"
	}
	c.Oblige("X.dispatch.known", bad == "" && nIf > 0, pos, name, "a field whose index is in the table is always handed to its codec", msg, nil)
	c.Floor("X.dispatch.known", 1)
}

// ---------------------------------------------------------------------------
// X.addcodecs: null.AddCodecs / RegisterCodecs touch an instance only by
// registering codecs for named types of their own; they do not re-register the
// defaults (which would overwrite registrations made earlier) and set no option.

func ruleAddCodecs(c *Ctx) {
	p := c.P
	n := 0
	for _, fname := range []string{"null.AddCodecs", "null.RegisterCodecs"} {
		f := p.ssaFunc(fname)
		if f == nil {
			c.Oblige("X.addcodecs", false, token.NoPos, fname, "function", "not found", nil)
			continue
		}
		for _, b := range f.Blocks {
			for _, in := range b.Instrs {
				switch x := in.(type) {
				case *ssa.Call:
					cal := x.Common().StaticCallee()
					if cal == nil || cal.Pkg == nil || !inModule(cal.Pkg.Pkg) {
						continue
					}
					cn := ssaFuncName(cal)
					if cal.Pkg.Pkg.Path() != modPath {
						continue // helpers of package null itself
					}
					n++
					okc := false
					why := "only RegisterCodec / RegisterCodecWithTag may be called on the instance"
					if fname == "null.AddCodecs" && (cn == "plenc.RegisterCodec" || cn == "plenc.RegisterCodecWithTag") {
						c.Oblige("X.addcodecs", false, x.Pos(), fname, "call of "+cn,
							"AddCodecs registers on the instance it is given: a package-level RegisterCodec puts the codec on the default instance instead (the given instance lacks it, the default one gains it)", nil)
						continue
					}
					if fname == "null.AddCodecs" && cal.Signature.Recv() != nil && len(f.Params) > 0 && len(x.Common().Args) > 0 && x.Common().Args[0] != ssa.Value(f.Params[0]) {
						c.Oblige("X.addcodecs", false, x.Pos(), fname, "call of "+cn+" on another instance",
							"AddCodecs registers on the instance it is given", nil)
						continue
					}
					switch cn {
					case "plenc.Plenc.RegisterCodec", "plenc.Plenc.RegisterCodecWithTag", "plenc.RegisterCodec", "plenc.RegisterCodecWithTag":
						// the registered type is a named type that is not a basic type of the language
						args := x.Common().Args
						ti := 0
						if cal.Signature.Recv() != nil {
							ti = 1
						}
						okc = true
						if ti < len(args) {
							if t := reflectTypeOfArg(args[ti]); t != nil {
								if nt, isNamed := t.(*types.Named); !isNamed || nt.Obj().Pkg() == nil {
									okc = false
									why = "the type registered is a basic type: that replaces the instance's own codec for it"
								}
							}
						}
					case "plenc.Plenc.AddCodecs":
					default:
						if fname == "null.RegisterCodecs" && cn == "null.AddCodecs" {
							continue
						}
					}
					c.Oblige("X.addcodecs", okc, x.Pos(), fname, "call of "+cn,
						"registering the null codecs must not disturb anything else on the instance (RegisterDefaultCodecs would overwrite codecs registered before for the default-covered keys, and hand a bare instance the whole default set): "+why, nil)
				case *ssa.Store:
					if fa, ok := x.Addr.(*ssa.FieldAddr); ok && typeName(deref(fa.X.Type())) == "Plenc" {
						n++
						c.Oblige("X.addcodecs", false, x.Pos(), fname, "store to Plenc."+fieldName(fa), "registering codecs must not change an option of the instance", nil)
					}
				}
			}
		}
	}
	c.Floor("X.addcodecs", 5)
}

// reflectTypeOfArg: v is reflect.TypeOf(X) - returns X's static type.
func reflectTypeOfArg(v ssa.Value) types.Type {
	call, ok := v.(*ssa.Call)
	if !ok {
		return nil
	}
	cal := call.Common().StaticCallee()
	if cal == nil || cal.String() != "reflect.TypeOf" || len(call.Common().Args) != 1 {
		return nil
	}
	a := call.Common().Args[0]
	if mi, ok := a.(*ssa.MakeInterface); ok {
		return mi.X.Type()
	}
	return nil
}

// ---------------------------------------------------------------------------
// T.slicewrap.only: in the slice clause of the kind switch a codec is chosen
// only inside the switch over the element's wire type - the element codec is
// always looked up first, so a registration for the element type is honoured.

func ruleSliceWrapOnly(c *Ctx) {
	// since the FEAS formulation T.slicewrap itself demands that no other codec
	// is live for a slice: run it unless this property already has
	if c.Rules["T.slicewrap"] == nil {
		ruleSliceWrap(c)
	}
}

func joinStrs(s []string) string {
	out := ""
	for i, x := range s {
		if i > 0 {
			out += ", "
		}
		out += x
	}
	return out
}

// ---------------------------------------------------------------------------
// plenctag: G.fieldname and G.parseerr

func ruleTagRound7(c *Ctx) {
	p := c.P
	// G.fieldname: an embedded field of a package-qualified type (time.Time) is named after the type, not the package
	if f := p.ssaFunc("cmd/plenctag.fieldName"); f == nil {
		c.Oblige("G.fieldname", false, token.NoPos, "cmd/plenctag.fieldName", "function", "not found", nil)
	} else {
		var sels []ssa.Value
		for _, b := range f.Blocks {
			for _, in := range b.Instrs {
				if ta, ok := in.(*ssa.TypeAssert); ok && isAstSelectorPtr(ta.AssertedType) {
					if ta.CommaOk {
						for _, r := range *ta.Referrers() {
							if ex, ok := r.(*ssa.Extract); ok && ex.Index == 0 {
								sels = append(sels, ex)
							}
						}
					} else {
						sels = append(sels, ta)
					}
				}
			}
		}
		good := false
		isSelName := func(v ssa.Value) bool {
			// *(&(*(&sel.Sel)).Name)
			u, ok := v.(*ssa.UnOp)
			if !ok || u.Op != token.MUL {
				return false
			}
			fa, ok := u.X.(*ssa.FieldAddr)
			if !ok || fieldName(fa) != "Name" {
				return false
			}
			u2, ok := fa.X.(*ssa.UnOp)
			if !ok || u2.Op != token.MUL {
				return false
			}
			fa2, ok := u2.X.(*ssa.FieldAddr)
			if !ok || fieldName(fa2) != "Sel" {
				return false
			}
			for _, s := range sels {
				if fa2.X == s {
					return true
				}
			}
			return false
		}
		for _, b := range f.Blocks {
			if r, ok := b.Instrs[len(b.Instrs)-1].(*ssa.Return); ok && len(r.Results) == 1 {
				v := r.Results[0]
				if isSelName(v) {
					good = true
				}
				if ph, ok := v.(*ssa.Phi); ok {
					for _, e := range ph.Edges {
						if isSelName(e) {
							good = true
						}
					}
				}
			}
		}
		c.Oblige("G.fieldname", good && len(sels) > 0, f.Pos(), "cmd/plenctag.fieldName", "an embedded pkg.Type is named Type",
			"an embedded field is named after its type: for a package-qualified type that is the selector's Sel (time.Time is the exported field Time); taking the package name instead makes every such field look unexported and leaves it untagged", nil)
	}
	// G.parseerr: a tag structtag cannot parse is reported, not treated as empty
	if f := p.ssaFunc("cmd/plenctag.extractTags"); f == nil {
		c.Oblige("G.parseerr", false, token.NoPos, "cmd/plenctag.extractTags", "function", "not found", nil)
	} else {
		var perr []ssa.Value
		for _, b := range f.Blocks {
			for _, in := range b.Instrs {
				if call, ok := in.(*ssa.Call); ok {
					if cal := call.Common().StaticCallee(); cal != nil && cal.String() == "github.com/fatih/structtag.Parse" {
						for _, r := range *call.Referrers() {
							if ex, ok := r.(*ssa.Extract); ok && ex.Index == 1 {
								perr = append(perr, ex)
							}
						}
					}
				}
			}
		}
		carries := func(v ssa.Value) bool {
			seen := map[ssa.Value]bool{}
			var walk func(v ssa.Value) bool
			walk = func(v ssa.Value) bool {
				if seen[v] {
					return false
				}
				seen[v] = true
				for _, e := range perr {
					if v == e {
						return true
					}
				}
				switch x := v.(type) {
				case *ssa.Phi:
					for _, e := range x.Edges {
						if walk(e) {
							return true
						}
					}
				case *ssa.Call:
					// fmt.Errorf("...%w", err) and the like
					for _, a := range x.Common().Args {
						if walk(a) {
							return true
						}
					}
				case *ssa.MakeInterface:
					return walk(x.X)
				case *ssa.Slice:
					return walk(x.X)
				}
				return false
			}
			return walk(v)
		}
		good := false
		for _, b := range f.Blocks {
			if r, ok := b.Instrs[len(b.Instrs)-1].(*ssa.Return); ok && len(r.Results) == 2 {
				if carries(r.Results[1]) {
					good = true
				}
			}
		}
		// variadic args of Errorf are stored into an array first
		if !good {
			for _, b := range f.Blocks {
				for _, in := range b.Instrs {
					if st, ok := in.(*ssa.Store); ok && carries(st.Val) {
						if _, isIdx := st.Addr.(*ssa.IndexAddr); isIdx {
							good = true
						}
					}
				}
			}
		}
		c.Oblige("G.parseerr", good && len(perr) > 0, f.Pos(), "cmd/plenctag.extractTags", "the error of structtag.Parse is returned",
			"a tag that is not in key:\"value\" form cannot be extended safely (reflect stops reading at the malformed part, so an appended plenc tag is invisible and is appended again on the next run): the parse error must reach the caller, which records it", nil)
	}
}

func isAstSelectorPtr(t types.Type) bool {
	pt, ok := t.(*types.Pointer)
	if !ok {
		return false
	}
	n, ok := pt.Elem().(*types.Named)
	return ok && n.Obj().Name() == "SelectorExpr" && n.Obj().Pkg() != nil && n.Obj().Pkg().Path() == "go/ast"
}

// ---------------------------------------------------------------------------
// T.ptime: the time codecs go through ptime; the emission grammar treats
// ptime.Set as "the seconds and nanoseconds of the time", so the two
// conversions are checked here: Set stores t.Unix() and t.Nanosecond(),
// Standard rebuilds time.Unix(Seconds, Nanoseconds). When Set / Standard do not
// exist (written out at the use sites) the grammar rule sees the calls itself.

func rulePtime(c *Ctx) {
	p := c.P
	stripC := func(v ssa.Value) ssa.Value {
		for {
			switch x := v.(type) {
			case *ssa.Convert:
				v = x.X
			case *ssa.ChangeType:
				v = x.X
			default:
				return v
			}
		}
	}
	n := 0
	if f := p.ssaFunc("plenccodec.ptime.Set"); f != nil && len(f.Params) == 2 {
		want := map[string]string{"Seconds": "(time.Time).Unix", "Nanoseconds": "(time.Time).Nanosecond"}
		got := map[string]bool{}
		for _, b := range f.Blocks {
			for _, in := range b.Instrs {
				st, ok := in.(*ssa.Store)
				if !ok {
					continue
				}
				fa, ok := st.Addr.(*ssa.FieldAddr)
				if !ok || fa.X != ssa.Value(f.Params[0]) {
					continue
				}
				fld := fieldName(fa)
				w, known := want[fld]
				if !known {
					continue
				}
				good := false
				if call, ok := stripC(st.Val).(*ssa.Call); ok {
					if cal := call.Common().StaticCallee(); cal != nil && cal.String() == w && len(call.Common().Args) == 1 && call.Common().Args[0] == ssa.Value(f.Params[1]) {
						good = true
					}
				}
				n++
				got[fld] = got[fld] || good
				c.Oblige("T.ptime", good, st.Pos(), "plenccodec.ptime.Set", fld+" = "+w+"(t)",
					"the wire format carries the Unix seconds and the nanoseconds within the second of the time, unscaled", nil)
			}
		}
		for fld := range want {
			if !got[fld] {
				n++
				c.Oblige("T.ptime", false, f.Pos(), "plenccodec.ptime.Set", fld+" is set", "ptime.Set must store both fields", nil)
			}
		}
	}
	if f := p.ssaFunc("plenccodec.ptime.Standard"); f != nil && len(f.Params) == 1 {
		good := false
		for _, b := range f.Blocks {
			for _, in := range b.Instrs {
				call, ok := in.(*ssa.Call)
				if !ok {
					continue
				}
				cal := call.Common().StaticCallee()
				if cal == nil || cal.String() != "time.Unix" || len(call.Common().Args) != 2 {
					continue
				}
				fromField := func(v ssa.Value, name string) bool {
					v = stripC(v)
					// value receiver: a field of the parameter itself, or of its spilled copy
					if fl, ok := v.(*ssa.Field); ok {
						if st, ok := fl.X.Type().Underlying().(*types.Struct); ok && fl.Field < st.NumFields() {
							return fl.X == ssa.Value(f.Params[0]) && st.Field(fl.Field).Name() == name
						}
					}
					u, ok := v.(*ssa.UnOp)
					if !ok || u.Op != token.MUL {
						return false
					}
					fa, ok := u.X.(*ssa.FieldAddr)
					if !ok || fieldName(fa) != name {
						return false
					}
					if fa.X == ssa.Value(f.Params[0]) {
						return true
					}
					if al, ok := fa.X.(*ssa.Alloc); ok {
						for _, r := range *al.Referrers() {
							if st, ok := r.(*ssa.Store); ok && st.Addr == ssa.Value(al) && st.Val == ssa.Value(f.Params[0]) {
								return true
							}
						}
					}
					return false
				}
				if fromField(call.Common().Args[0], "Seconds") && fromField(call.Common().Args[1], "Nanoseconds") {
					good = true
				}
			}
		}
		n++
		c.Oblige("T.ptime", good, f.Pos(), "plenccodec.ptime.Standard", "time.Unix(Seconds, Nanoseconds)",
			"the decoded time is rebuilt from the two fields as written, unscaled and in this order", nil)
	}
	if n == 0 {
		c.Note("T.ptime: ptime.Set / ptime.Standard are not declared; the seconds/nanoseconds conversions are judged where they are written (S.spec)")
	}
}

// isCodecInvoke: an interface method call on a value of the module's Codec interface.
func isCodecInvoke(call *ssa.Call) bool {
	cc := call.Common()
	if !cc.IsInvoke() {
		return false
	}
	n, ok := cc.Value.Type().(*types.Named)
	return ok && n.Obj().Name() == "Codec" && inModule(n.Obj().Pkg())
}

// ---------------------------------------------------------------------------
// X.skip.aftertag: Skip is handed the bytes that follow the tag. Between
// reading a field's tag and skipping the field nothing else may be read: a
// length prefix consumed first makes Skip take the field's first payload bytes
// for its length.

func ruleSkipAfterTag(c *Ctx) {
	p := c.P
	n := 0
	for _, f := range p.decodeClosure() {
		if len(f.Blocks) == 0 {
			continue
		}
		type site struct {
			b   *ssa.BasicBlock
			idx int
		}
		var tags, skips []site
		reads := map[*ssa.BasicBlock][]int{}
		for _, b := range f.Blocks {
			for i, in := range b.Instrs {
				cn, call := staticCalleeName(in)
				if call == nil {
					continue
				}
				switch cn {
				case "plenccore.ReadTag":
					tags = append(tags, site{b, i})
				case "plenccore.Skip":
					skips = append(skips, site{b, i})
				case "plenccore.ReadVarUint", "plenccore.ReadVarInt":
					reads[b] = append(reads[b], i)
				}
			}
		}
		if len(tags) == 0 || len(skips) == 0 {
			continue
		}
		name := ssaFuncName(f)
		for _, sk := range skips {
			// backwards from the Skip call to the nearest ReadTag on every path
			bad := false
			seen := map[*ssa.BasicBlock]bool{}
			var walk func(b *ssa.BasicBlock, upto int)
			walk = func(b *ssa.BasicBlock, upto int) {
				// scan b.Instrs[:upto] backwards
				for i := upto - 1; i >= 0; i-- {
					for _, t := range tags {
						if t.b == b && t.idx == i {
							return // reached the tag read on this path
						}
					}
					for _, r := range reads[b] {
						if r == i {
							bad = true
						}
					}
				}
				for _, pr := range b.Preds {
					if !seen[pr] {
						seen[pr] = true
						walk(pr, len(pr.Instrs))
					}
				}
			}
			walk(sk.b, sk.idx)
			n++
			c.Oblige("X.skip.aftertag", !bad, sk.b.Instrs[sk.idx].Pos(), name, "nothing is read between the tag and Skip",
				"Skip parses the field from the byte after its tag; a length or count read first is then taken from the field's payload and the reader loses its place (or fails) on a removed length-delimited field", nil)
		}
	}
	c.Floor("X.skip.aftertag", 3)
}

// ---------------------------------------------------------------------------
// X.read.lookup: the codec StructCodec.Read hands a field to is the entry of
// the index table for the tag's index - fieldsByIndex[index] - on every path.
// (The table is built from the field list under the duplicate check,
// X.dom.dup; a second way of finding the field - a search over the
// declaration-ordered list, a cache - has to agree with it for every layout.)

func ruleReadLookup(c *Ctx) {
	p := c.P
	name := "plenccodec.StructCodec.Read"
	f := p.ssaFunc(name)
	if f == nil {
		c.Oblige("X.read.lookup", false, token.NoPos, name, "function", "not found", nil)
		return
	}
	tagIndex := func(v ssa.Value) bool {
		for i := 0; i < 4; i++ {
			switch x := v.(type) {
			case *ssa.Convert:
				v = x.X
				continue
			case *ssa.ChangeType:
				v = x.X
				continue
			case *ssa.Extract:
				if call, ok := x.Tuple.(*ssa.Call); ok {
					if cal := call.Common().StaticCallee(); cal != nil && cal.String() == "github.com/philpearl/plenc/plenccore.ReadTag" {
						return x.Index == 1
					}
				}
			}
			break
		}
		return false
	}
	entryAddr := func(v ssa.Value) bool {
		ia, ok := v.(*ssa.IndexAddr)
		if !ok || !tagIndex(ia.Index) {
			return false
		}
		u, ok := ia.X.(*ssa.UnOp)
		if !ok || u.Op != token.MUL {
			return false
		}
		fa, ok := u.X.(*ssa.FieldAddr)
		return ok && fieldName(fa) == "fieldsByIndex" && len(f.Params) > 0 && fa.X == ssa.Value(f.Params[0])
	}
	var fromTable func(v ssa.Value, depth int) bool
	fromTable = func(v ssa.Value, depth int) bool {
		if depth > 8 {
			return false
		}
		switch x := v.(type) {
		case *ssa.Phi:
			for _, e := range x.Edges {
				if !fromTable(e, depth+1) {
					return false
				}
			}
			return len(x.Edges) > 0
		case *ssa.UnOp:
			if x.Op != token.MUL {
				return false
			}
			if entryAddr(x.X) {
				return true // the whole entry
			}
			fa, ok := x.X.(*ssa.FieldAddr)
			if !ok {
				return false
			}
			if entryAddr(fa.X) {
				return true
			}
			if al, ok := fa.X.(*ssa.Alloc); ok {
				// the stores to the local that reach this load
				n := 0
				for _, st := range reachingStores(al, x) {
					n++
					if !fromTable(st.Val, depth+1) {
						return false
					}
				}
				return n > 0
			}
			if ph, ok := fa.X.(*ssa.Phi); ok {
				// d = nil or &fieldsByIndex[index]: the nil edge cannot be the one dereferenced
				n := 0
				for _, e := range ph.Edges {
					if isNilConst(e) {
						continue
					}
					if !entryAddr(e) {
						return false
					}
					n++
				}
				return n > 0
			}
		case *ssa.Field:
			return fromTable(x.X, depth+1)
		}
		return false
	}
	n := 0
	for _, b := range f.Blocks {
		for _, in := range b.Instrs {
			call, ok := in.(*ssa.Call)
			if !ok || !isCodecInvoke(call) || call.Common().Method.Name() != "Read" {
				continue
			}
			n++
			c.Oblige("X.read.lookup", fromTable(call.Common().Value, 0), call.Pos(), name, "the field codec is fieldsByIndex[index]",
				"a field of the data is decoded by the codec the index table holds for the tag's index; any other way of finding it must agree with the table for every field order and every index, which is not shown", nil)
		}
	}
	if n == 0 {
		c.Oblige("X.read.lookup", false, f.Pos(), name, "dispatch to the field codec", "no Codec.Read call found", nil)
	}
	c.Floor("X.read.lookup", 1)
}

// reachingStores: the stores to the whole of local al that can be the last one
// before instruction use executes (backward walk, a store ends its path).
func reachingStores(al *ssa.Alloc, use ssa.Instruction) []*ssa.Store {
	var out []*ssa.Store
	seen := map[*ssa.BasicBlock]bool{}
	var walk func(b *ssa.BasicBlock, upto int)
	walk = func(b *ssa.BasicBlock, upto int) {
		for i := upto - 1; i >= 0; i-- {
			if st, ok := b.Instrs[i].(*ssa.Store); ok && st.Addr == ssa.Value(al) {
				out = append(out, st)
				return
			}
		}
		for _, pr := range b.Preds {
			if !seen[pr] {
				seen[pr] = true
				walk(pr, len(pr.Instrs))
			}
		}
	}
	ub := use.Block()
	idx := len(ub.Instrs)
	for i, in := range ub.Instrs {
		if in == use {
			idx = i
		}
	}
	walk(ub, idx)
	return out
}

// ---------------------------------------------------------------------------
// T.key.self: CodecForTypeRegistry looks up and files the codec under the
// (typ, tag) it was asked for - the arguments of registry.Load and
// registry.StoreOrSwap are the function's own parameters, unchanged. A tag that
// is "consumed" on the way files a proto-form codec under the plain key, and
// the bytes then depend on which field was built first.

func ruleKeySelf(c *Ctx) {
	p := c.P
	name := "plenc.Plenc.CodecForTypeRegistry"
	f := p.ssaFunc(name)
	if f == nil {
		c.Oblige("T.key.self", false, token.NoPos, name, "function", "not found", nil)
		return
	}
	var typP, tagP *ssa.Parameter
	for _, prm := range f.Params {
		switch {
		case typeStr(prm.Type()) == "reflect.Type" || typeName(prm.Type()) == "Type":
			if typP == nil {
				typP = prm
			}
		case isStringType(prm.Type()):
			tagP = prm
		}
	}
	n := 0
	for _, b := range f.Blocks {
		for _, in := range b.Instrs {
			call, ok := in.(*ssa.Call)
			if !ok || !call.Common().IsInvoke() {
				continue
			}
			m := call.Common().Method.Name()
			if m != "Load" && m != "StoreOrSwap" && m != "Store" {
				continue
			}
			if typeName(call.Common().Value.Type()) != "CodecRegistry" {
				continue
			}
			args := call.Common().Args
			if len(args) < 2 {
				continue
			}
			n++
			good := typP != nil && tagP != nil && args[0] == ssa.Value(typP) && args[1] == ssa.Value(tagP)
			c.Oblige("T.key.self", good, call.Pos(), name, "registry."+m+"(typ, tag, …) with the function's own typ and tag",
				"the codec is looked up and stored under exactly the (type, tag) that was asked for; a tag or type changed on the way files the codec under another key", nil)
		}
	}
	c.Floor("T.key.self", 2)
	_ = n
}

func isStringType(t types.Type) bool {
	b, ok := t.Underlying().(*types.Basic)
	return ok && b.Kind() == types.String
}

// ---------------------------------------------------------------------------
// structDescriptorSSA: the element part of T.desc-struct on SSA, so that it
// does not matter whether the elements are written in place, built in a local
// and stored, collected in a local slice, or filled in two passes:
//
//	elem:  some destination X receives fields[i].codec.Descriptor()
//	index: X.Index (same destination, same i) receives fields[i].index
//	name:  X.Name receives fields[i].name
func structDescriptorSSA(p *Prog) map[string]bool {
	got := map[string]bool{}
	f := p.ssaFunc("plenccodec.StructCodec.Descriptor")
	if f == nil || len(f.Params) == 0 {
		return got
	}
	recv := ssa.Value(f.Params[0])
	fieldsBase := func(v ssa.Value) bool {
		u, ok := v.(*ssa.UnOp)
		if !ok || u.Op != token.MUL {
			return false
		}
		fa, ok := u.X.(*ssa.FieldAddr)
		return ok && fa.X == recv && fieldName(fa) == "fields"
	}
	// the address (or a local copy) of fields[i]
	var elemRef func(v ssa.Value) (ssa.Value, bool)
	elemRef = func(v ssa.Value) (ssa.Value, bool) {
		switch x := v.(type) {
		case *ssa.IndexAddr:
			if fieldsBase(x.X) {
				return x.Index, true
			}
		case *ssa.Alloc:
			var idx ssa.Value
			n := 0
			for _, r := range *x.Referrers() {
				if st, ok := r.(*ssa.Store); ok && st.Addr == ssa.Value(x) {
					n++
					if ld, ok := st.Val.(*ssa.UnOp); ok && ld.Op == token.MUL {
						if i, ok := elemRef(ld.X); ok {
							idx = i
						}
					}
				}
			}
			if n == 1 && idx != nil {
				return idx, true
			}
		}
		return nil, false
	}
	elemField := func(v ssa.Value, name string) (ssa.Value, bool) {
		switch x := v.(type) {
		case *ssa.UnOp:
			if x.Op == token.MUL {
				if fa, ok := x.X.(*ssa.FieldAddr); ok && fieldName(fa) == name {
					return elemRef(fa.X)
				}
			}
		case *ssa.Field:
			if st, ok := x.X.Type().Underlying().(*types.Struct); ok && x.Field < st.NumFields() && st.Field(x.Field).Name() == name {
				if ld, ok := x.X.(*ssa.UnOp); ok && ld.Op == token.MUL {
					return elemRef(ld.X)
				}
			}
		}
		return nil, false
	}
	// canonical name of a Descriptor destination
	var destKey func(v ssa.Value) string
	destKey = func(v ssa.Value) string {
		switch x := v.(type) {
		case *ssa.Alloc:
			return fmt.Sprintf("alloc:%p", x)
		case *ssa.IndexAddr:
			base := ""
			switch s := x.X.(type) {
			case *ssa.UnOp:
				if fa, ok := s.X.(*ssa.FieldAddr); ok && s.Op == token.MUL {
					base = fmt.Sprintf("field:%p.%s", fa.X, fieldName(fa))
				}
			default:
				base = fmt.Sprintf("val:%p", s)
			}
			return fmt.Sprintf("%s[%p]", base, x.Index)
		}
		return ""
	}
	type rec struct {
		key string
		idx ssa.Value
	}
	var elems []rec
	for _, b := range f.Blocks {
		for _, in := range b.Instrs {
			st, ok := in.(*ssa.Store)
			if !ok {
				continue
			}
			call, ok := st.Val.(*ssa.Call)
			if !ok || !call.Common().IsInvoke() || call.Common().Method.Name() != "Descriptor" {
				continue
			}
			if i, ok := elemField(call.Common().Value, "codec"); ok {
				if k := destKey(st.Addr); k != "" {
					elems = append(elems, rec{k, i})
					got["elem"] = true
					// i counts up by one from the start: the loop index of a range / index loop
					step := func(v ssa.Value) bool {
						bo, ok := v.(*ssa.BinOp)
						if !ok || bo.Op != token.ADD {
							return false
						}
						k, ok := bo.Y.(*ssa.Const)
						_, isPhi := bo.X.(*ssa.Phi)
						return ok && isPhi && k.Value != nil && k.Value.ExactString() == "1"
					}
					if step(i) {
						got["ranges"] = true
					}
					if ph, ok := i.(*ssa.Phi); ok {
						for _, e := range ph.Edges {
							if step(e) {
								got["ranges"] = true
							}
						}
					}
				}
			}
		}
	}
	for _, b := range f.Blocks {
		for _, in := range b.Instrs {
			st, ok := in.(*ssa.Store)
			if !ok {
				continue
			}
			fa, ok := st.Addr.(*ssa.FieldAddr)
			if !ok {
				continue
			}
			fld := fieldName(fa)
			if fld == "TypeName" && typeName(derefT(fa.X.Type())) == "Descriptor" {
				// TypeName = c.rtype.Name(), directly or through a local
				if call, ok := st.Val.(*ssa.Call); ok && call.Common().IsInvoke() && call.Common().Method.Name() == "Name" {
					if ld, ok := call.Common().Value.(*ssa.UnOp); ok && ld.Op == token.MUL {
						if fr, ok := ld.X.(*ssa.FieldAddr); ok && fieldName(fr) == "rtype" {
							got["typename"] = true
						}
					}
				}
			}
			if fld == "Elements" {
				// the element slice has one slot per field: make([]Descriptor, len(c.fields))
				if ms, ok := st.Val.(*ssa.MakeSlice); ok {
					if call, ok := ms.Len.(*ssa.Call); ok {
						if bi, ok := call.Common().Value.(*ssa.Builtin); ok && bi.Name() == "len" && fieldsBase(call.Common().Args[0]) {
							got["len"] = true
						}
					}
				}
			}
			src := map[string]string{"Index": "index", "Name": "name"}[fld]
			if src == "" {
				continue
			}
			i, ok := elemField(st.Val, src)
			if !ok {
				continue
			}
			k := destKey(fa.X)
			for _, e := range elems {
				if e.key == k && e.idx == i {
					got[src] = true
				}
			}
		}
	}
	return got
}

// ---------------------------------------------------------------------------
// Round 8: T.default-init, T.tag-exact, G.private.all, G.write.trunc

// ruleDefaultInit: the package-level default instance is a default-configured
// instance and nothing more - package plenc's init (and any other function that
// is not one of the package-level delegates) calls RegisterDefaultCodecs on it
// and nothing else, and stores to none of its fields.
func ruleDefaultInit(c *Ctx) {
	p := c.P
	pk := p.SSAPkg[modPath]
	if pk == nil {
		c.Oblige("T.default-init", false, token.NoPos, "plenc", "package", "not found", nil)
		return
	}
	g, _ := pk.Members["defaultPlenc"].(*ssa.Global)
	if g == nil {
		c.Oblige("T.default-init", false, token.NoPos, "plenc.defaultPlenc", "variable", "not found", nil)
		return
	}
	n := 0
	for _, f := range p.moduleFuncs() {
		if f.Pkg != pk || !strings.HasPrefix(f.Name(), "init") {
			continue
		}
		name := ssaFuncName(f)
		for _, b := range f.Blocks {
			for _, in := range b.Instrs {
				switch x := in.(type) {
				case *ssa.Call:
					cal := x.Common().StaticCallee()
					if cal == nil || len(x.Common().Args) == 0 || x.Common().Args[0] != ssa.Value(g) {
						continue
					}
					n++
					c.Oblige("T.default-init", cal.Name() == "RegisterDefaultCodecs", x.Pos(), name, "init calls "+cal.Name()+" on the default instance",
						"the package-level functions behave exactly like a default-configured instance: init may only call RegisterDefaultCodecs on defaultPlenc - a codec registered or an option set there exists for the package-level functions and for no other instance", nil)
				case *ssa.Store:
					if fa, ok := x.Addr.(*ssa.FieldAddr); ok && fa.X == ssa.Value(g) {
						n++
						c.Oblige("T.default-init", false, x.Pos(), name, "init stores to defaultPlenc."+fieldName(fa),
							"the default instance must be configured like a fresh Plenc after RegisterDefaultCodecs: no option may be set on it", nil)
					}
				}
			}
		}
	}
	if n == 0 {
		c.Oblige("T.default-init", false, token.NoPos, "plenc.init", "RegisterDefaultCodecs on the default instance", "no call found in an init function", nil)
	}
	c.Floor("T.default-init", 1)
}

// ruleTagExact: the option of a field's plenc tag reaches the registry lookup
// exactly as written: the tag argument of CodecForTypeRegistry in
// BuildStructCodec is the text after the comma (a slice of the tag, or the
// "after" of strings.Cut) or the constant "" - no case folding or trimming,
// which would make differently spelled registrations collide or unreachable.
func ruleTagExact(c *Ctx) {
	p := c.P
	name := "plenccodec.BuildStructCodec"
	f := p.ssaFunc(name)
	if f == nil {
		c.Oblige("T.tag-exact", false, token.NoPos, name, "function", "not found", nil)
		return
	}
	var exact func(v ssa.Value, depth int) bool
	exact = func(v ssa.Value, depth int) bool {
		if depth > 8 {
			return false
		}
		if k, ok := v.(*ssa.Const); ok {
			return k.Value != nil
		}
		if tagGetResult(v, "plenc", 0) {
			return true
		}
		switch x := v.(type) {
		case *ssa.Phi:
			for _, e := range x.Edges {
				if !exact(e, depth+1) {
					return false
				}
			}
			return len(x.Edges) > 0
		case *ssa.Slice:
			return exact(x.X, depth+1)
		case *ssa.Extract:
			if call, ok := x.Tuple.(*ssa.Call); ok {
				if cal := call.Common().StaticCallee(); cal != nil && cal.String() == "strings.Cut" {
					return exact(call.Common().Args[0], depth+1)
				}
			}
		}
		return false
	}
	n := 0
	for _, b := range f.Blocks {
		for _, in := range b.Instrs {
			call, ok := in.(*ssa.Call)
			if !ok || !call.Common().IsInvoke() || call.Common().Method.Name() != "CodecForTypeRegistry" || len(call.Common().Args) != 3 {
				continue
			}
			n++
			c.Oblige("T.tag-exact", exact(call.Common().Args[2], 0), call.Pos(), name, "the tag option is looked up as written",
				"the registry is keyed by (type, tag): the option handed to the lookup must be the text of the plenc tag after the comma (or \"\"), not a normalised form of it - lower-casing or trimming makes a codec registered under \"unixMicros\" unreachable, or silently picks another registration", nil)
		}
	}
	if n == 0 {
		c.Oblige("T.tag-exact", false, f.Pos(), name, "field codec lookup", "no CodecForTypeRegistry call found", nil)
	}
	c.Floor("T.tag-exact", 1)
}

// ruleTagRound8: plenctag - every name of a declaration counts for "exported"
// (G.private.all), and the file is written truncated (G.write.trunc).
func ruleTagRound8(c *Ctx) {
	p := c.P
	// G.private.all
	allNames := false
	sawExport := false
	for _, f := range plenctagFuncs(p) {
		loops := loopsOf(f)
		for _, b := range f.Blocks {
			for _, in := range b.Instrs {
				call, ok := in.(*ssa.Call)
				if !ok {
					continue
				}
				cal := call.Common().StaticCallee()
				if cal == nil || (cal.String() != "go/ast.IsExported" && cal.String() != "go/token.IsExported") {
					continue
				}
				sawExport = true
				// the argument is (element of f.Names).Name with the element chosen by a loop
				u, ok := call.Common().Args[0].(*ssa.UnOp)
				if !ok {
					continue
				}
				fa, ok := u.X.(*ssa.FieldAddr)
				if !ok || fieldName(fa) != "Name" {
					continue
				}
				var elem ssa.Value = fa.X
				if ld, ok := elem.(*ssa.UnOp); ok {
					elem = ld.X
				}
				ia, ok := elem.(*ssa.IndexAddr)
				if !ok {
					continue
				}
				if ld, ok := ia.X.(*ssa.UnOp); ok {
					if nfa, ok := ld.X.(*ssa.FieldAddr); !ok || fieldName(nfa) != "Names" {
						continue
					}
				} else {
					continue
				}
				if _, isConst := ia.Index.(*ssa.Const); isConst {
					continue
				}
				for _, body := range loops {
					if body[b] {
						allNames = true
					}
				}
			}
		}
	}
	c.Oblige("G.private.all", sawExport && allNames, token.NoPos, "cmd/plenctag", "every name of a declaration is tested with IsExported",
		"\"a, B int\" declares an exported field: a declaration is private only if all of its names are - deciding by the first name leaves B untagged (plenc then refuses the struct)", nil)
	c.Floor("G.private.all", 1)
	// G.write.trunc
	n := 0
	for _, f := range plenctagFuncs(p) {
		for _, b := range f.Blocks {
			for _, in := range b.Instrs {
				call, ok := in.(*ssa.Call)
				if !ok {
					continue
				}
				cal := call.Common().StaticCallee()
				if cal == nil {
					continue
				}
				switch cal.String() {
				case "os.WriteFile", "os.Create", "io/ioutil.WriteFile":
					n++
					c.Oblige("G.write.trunc", true, call.Pos(), ssaFuncName(f), cal.String()+" replaces the file", "the rewritten source replaces the old contents", nil)
				case "os.OpenFile":
					n++
					good := false
					if k, ok := call.Common().Args[1].(*ssa.Const); ok && k.Value != nil {
						if v, ok := constant.Int64Val(k.Value); ok && v&int64(os.O_TRUNC) != 0 {
							good = true
						}
					}
					c.Oblige("G.write.trunc", good, call.Pos(), ssaFuncName(f), "os.OpenFile with O_TRUNC",
						"the output is usually not the length of the input: opening the file for writing without O_TRUNC leaves the old tail behind whenever the result is shorter (the file no longer parses)", nil)
				}
			}
		}
	}
	if n == 0 {
		c.Oblige("G.write.trunc", false, token.NoPos, "cmd/plenctag", "the file is written", "no os.WriteFile / os.OpenFile / os.Create found", nil)
	}
	c.Floor("G.write.trunc", 1)
}

// ---------------------------------------------------------------------------
// X.delegate.nonempty: a wrapper hands every element / pointee to the wrapped
// codec's Read, also when its body is empty - the wrapped codec may have work
// to do for an empty body (PointerWrapper allocates the pointee, the null
// codecs set Valid): a "nothing to decode" shortcut on len(data) turns a
// present empty value into an absent one.

func ruleDelegateNonEmpty(c *Ctx) {
	p := c.P
	n := 0
	for _, ct := range p.Codecs {
		hasUnderlying := false
		if st, ok := ct.Named.Underlying().(*types.Struct); ok {
			var walk func(st *types.Struct, depth int)
			walk = func(st *types.Struct, depth int) {
				for i := 0; i < st.NumFields(); i++ {
					fl := st.Field(i)
					if fl.Name() == "Underlying" {
						hasUnderlying = true
					}
					if fl.Embedded() && depth < 2 {
						if s2, ok := fl.Type().Underlying().(*types.Struct); ok {
							walk(s2, depth+1)
						}
					}
				}
			}
			walk(st, 0)
		}
		if !hasUnderlying {
			continue
		}
		fns := []*ssa.Function{p.SSA.FuncValue(ct.Methods["Read"].Fn)}
		// unexported helpers of the same receiver called from Read
		for i := 0; i < len(fns) && i < 4; i++ {
			f := fns[i]
			if f == nil {
				continue
			}
			for _, b := range f.Blocks {
				for _, in := range b.Instrs {
					if call, ok := in.(*ssa.Call); ok {
						if cal := call.Common().StaticCallee(); cal != nil && cal.Pkg != nil && inModule(cal.Pkg.Pkg) && recvTypeName(cal) == recvTypeName(f) && len(cal.Blocks) > 0 {
							dup := false
							for _, g := range fns {
								if g == cal {
									dup = true
								}
							}
							if !dup {
								fns = append(fns, cal)
							}
						}
					}
				}
			}
		}
		for _, f := range fns {
			if f == nil {
				continue
			}
			name := ssaFuncName(f)
			for _, b := range f.Blocks {
				for _, in := range b.Instrs {
					call, ok := in.(*ssa.Call)
					if !ok || !isCodecInvoke(call) || call.Common().Method.Name() != "Read" {
						continue
					}
					n++
					bad := ""
					conds, _ := controllingConds(b)
					for _, cd := range conds {
						bo, ok := cd.(*ssa.BinOp)
						if !ok {
							continue
						}
						for _, pair := range [][2]ssa.Value{{bo.X, bo.Y}, {bo.Y, bo.X}} {
							lc, ok := pair[0].(*ssa.Call)
							if !ok {
								continue
							}
							bi, ok := lc.Common().Value.(*ssa.Builtin)
							if !ok || bi.Name() != "len" || !isByteSlice(lc.Common().Args[0].Type()) {
								continue
							}
							if k, ok := pair[1].(*ssa.Const); ok && k.Value != nil && k.Value.ExactString() == "0" {
								// the very slice handed to Read
								if lc.Common().Args[0] == call.Common().Args[0] {
									bad = "len(data) compared with 0"
								}
							}
						}
					}
					c.Oblige("X.delegate.nonempty", bad == "", call.Pos(), name, "the wrapped Read is called for an empty body too",
						"an element or pointee that is present with an empty body must still be read by its codec (pointer allocation, Valid flag): the call must not be guarded by the length of the very bytes it is given"+map[bool]string{true: "", false: " (" + bad + ")"}[bad == ""], nil)
				}
			}
		}
	}
	c.Floor("X.delegate.nonempty", 4)
}

// ---------------------------------------------------------------------------
// J.end: JSONOutput.end() removes the separator after the last value of a
// container only when the last two bytes *are* that separator. A remembered
// offset cannot tell "no separator written yet" from "separator at offset 0".

func ruleJSONEnd(c *Ctx) {
	p := c.P
	name := "plenccodec.JSONOutput.end"
	f := p.ssaFunc(name)
	if f == nil {
		c.Oblige("J.end", false, token.NoPos, name, "function", "not found", nil)
		return
	}
	n := 0
	for _, b := range f.Blocks {
		for _, in := range b.Instrs {
			// the truncation: a store to j.data of a re-slice of j.data
			st, ok := in.(*ssa.Store)
			if !ok {
				continue
			}
			fa, ok := st.Addr.(*ssa.FieldAddr)
			if !ok || fieldName(fa) != "data" {
				continue
			}
			if _, isSlice := st.Val.(*ssa.Slice); !isSlice {
				continue
			}
			n++
			comma, nl := false, false
			conds0, truths0 := controllingConds(b)
			// a condition held in a boolean (c := a && b; if c …) stands for its conjuncts
			var conds []ssa.Value
			var truths []bool
			for i, cd := range conds0 {
				if truths0[i] {
					for _, e := range expandTrueConds(cd, 0) {
						conds = append(conds, e)
						truths = append(truths, true)
					}
				} else {
					conds = append(conds, cd)
					truths = append(truths, false)
				}
			}
			for i, cd := range conds {
				bo, ok := cd.(*ssa.BinOp)
				if !ok || bo.Op != token.EQL || !truths[i] {
					continue
				}
				for _, pair := range [][2]ssa.Value{{bo.X, bo.Y}, {bo.Y, bo.X}} {
					ld, ok := pair[0].(*ssa.UnOp)
					if !ok || ld.Op != token.MUL {
						continue
					}
					if _, isIA := ld.X.(*ssa.IndexAddr); !isIA {
						continue
					}
					if k, ok := pair[1].(*ssa.Const); ok && k.Value != nil {
						switch k.Value.ExactString() {
						case "44":
							comma = true
						case "10":
							nl = true
						}
					}
				}
			}
			c.Oblige("J.end", comma && nl, st.Pos(), name, "the trailing separator is removed only when the last two bytes are \",\\n\"",
				"closing a container cuts the separator punctuate wrote after the last value; the cut must be decided by the bytes themselves (data[l-2] == ',' && data[l-1] == '\\n'): an empty container has none, and a remembered offset with zero value 0 matches an empty container at the top level", nil)
		}
	}
	if n == 0 {
		c.Oblige("J.end", false, f.Pos(), name, "separator removal", "no truncation of j.data found", nil)
	}
	c.Floor("J.end", 1)
}

// ---------------------------------------------------------------------------
// X.skip.unknownwt: Skip succeeds only for wire types that exist. With the wt
// parameter forced (FEAS) to each value no codec reports (4, 6, 7), every
// feasible return carries a non-nil error.

func ruleSkipUnknownWT(c *Ctx) {
	p := c.P
	name := "plenccore.Skip"
	f := p.ssaFunc(name)
	if f == nil {
		c.Oblige("X.skip.unknownwt", false, token.NoPos, name, "function", "not found", nil)
		return
	}
	var wtP *ssa.Parameter
	for _, prm := range f.Params {
		if typeName(prm.Type()) == "WireType" {
			wtP = prm
		}
	}
	inUse := map[int64]bool{}
	for wt := range p.wireTypesInUse() {
		if kv, ok := p.wireTypeConst(wt); ok {
			if v, ok := constant.Int64Val(kv); ok {
				inUse[v] = true
			}
		}
	}
	for k := int64(0); k < 8; k++ {
		if inUse[k] {
			continue
		}
		k := k
		fe := feasibleUnder(f, func(v ssa.Value) (constant.Value, bool) {
			if wtP != nil && v == ssa.Value(wtP) {
				return constant.MakeInt64(k), true
			}
			return nil, false
		})
		bad := false
		nret := 0
		for _, b := range f.Blocks {
			if !fe.reach[b] {
				continue
			}
			if r, ok := b.Instrs[len(b.Instrs)-1].(*ssa.Return); ok && len(r.Results) == 2 {
				nret++
				if isNilConst(r.Results[1]) {
					bad = true
				}
			}
		}
		c.Oblige("X.skip.unknownwt", wtP != nil && fe.sawLeaf && nret > 0 && !bad, f.Pos(), name, fmt.Sprintf("wire type %d is an error", k),
			"no codec writes this wire type: a field that carries it cannot be stepped over (its length is unknown), so Skip must report it - returning success leaves the reader at an arbitrary place in the message", nil)
	}
	c.Floor("X.skip.unknownwt", 2)
}

// ---------------------------------------------------------------------------
// Round 9.

// ruleSharedRecvWrites: X.write for the shared objects that are not codecs -
// the Plenc instance and its registry. After construction they are used from
// any goroutine without a lock, so none of their methods may store through the
// receiver (sync.Map and sync/atomic calls are not stores). Also, for codecs: a
// field of the receiver handed to a callee as the decode target
// (unsafe.Pointer(&c.field)) is written by that callee.
func ruleSharedRecvWrites(c *Ctx) {
	p := c.P
	shared := map[string]bool{"Plenc": true, "baseRegistry": true}
	codecNames := map[string]bool{}
	for _, ct := range p.Codecs {
		codecNames[ct.Named.Obj().Name()] = true
	}
	n := 0
	for _, f := range p.moduleFuncs() {
		if len(f.Blocks) == 0 || f.Signature.Recv() == nil || len(f.Params) == 0 {
			continue
		}
		rt := recvTypeName(f)
		if !shared[rt] && !codecNames[rt] {
			continue
		}
		if _, isPtr := f.Params[0].Type().(*types.Pointer); !isPtr {
			continue // a value receiver is the method's own copy
		}
		name := ssaFuncName(f)
		recv := ssa.Value(f.Params[0])
		for _, b := range f.Blocks {
			for _, in := range b.Instrs {
				switch x := in.(type) {
				case *ssa.Store:
					if !shared[rt] {
						continue // codecs: ruleNoStateCache
					}
					n++
					r := rootOf(x.Addr)
					bad := r.kind == rkParam && r.base == recv
					c.Oblige("X.write", !bad, x.Pos(), name, storeDesc(x),
						"a Plenc and its registry are shared by every goroutine that uses the instance: their methods may change them only through sync.Map / sync/atomic, never by a plain store to a field (a one-entry cache, a parked argument …)", nil)
				case *ssa.Call:
					// &recv.field converted to unsafe.Pointer and handed on: the callee writes the shared object
					cal := x.Common().StaticCallee()
					if cal != nil && cal.Pkg != nil && (cal.Pkg.Pkg.Path() == "sync" || cal.Pkg.Pkg.Path() == "sync/atomic") {
						continue
					}
					for _, a := range x.Common().Args {
						if !isUnsafePointer(a.Type()) {
							continue
						}
						src := a
						for {
							if cv, ok := src.(*ssa.Convert); ok {
								src = cv.X
								continue
							}
							break
						}
						fa, ok := src.(*ssa.FieldAddr)
						if !ok {
							continue
						}
						if r := rootOf(fa); r.kind == rkParam && r.base == recv && r.loaded == 0 {
							n++
							c.Oblige("X.write", false, x.Pos(), name, "receiver field "+fieldName(fa)+" handed on as a write target",
								"a field of the shared codec / instance is passed as unsafe.Pointer to a callee that writes through it (a scratch value kept on the codec): concurrent calls overwrite each other's data", nil)
						}
					}
				}
			}
		}
	}
	_ = n
}

// rulePublishWinner: the codec CodecForTypeRegistry returns after a build is
// the one the registry kept (the result of StoreOrSwap), so that every caller
// of a racing first use ends up with the same codec object.
func rulePublishWinner(c *Ctx) {
	p := c.P
	name := "plenc.Plenc.CodecForTypeRegistry"
	f := p.ssaFunc(name)
	if f == nil {
		c.Oblige("X.publish.winner", false, token.NoPos, name, "function", "not found", nil)
		return
	}
	n := 0
	for _, b := range f.Blocks {
		for _, in := range b.Instrs {
			call, ok := in.(*ssa.Call)
			if !ok || !call.Common().IsInvoke() || call.Common().Method.Name() != "StoreOrSwap" {
				continue
			}
			n++
			// its result reaches a return (directly or through φ / a local)
			reaches := false
			seen := map[ssa.Value]bool{}
			var walk func(v ssa.Value)
			walk = func(v ssa.Value) {
				if seen[v] || reaches {
					return
				}
				seen[v] = true
				refs := v.Referrers()
				if refs == nil {
					return
				}
				for _, r := range *refs {
					switch x := r.(type) {
					case *ssa.Return:
						if len(x.Results) > 0 && x.Results[0] == v {
							reaches = true
						}
					case *ssa.Phi:
						walk(x)
					case *ssa.ChangeInterface:
						walk(x)
					case *ssa.MakeInterface:
						walk(x)
					}
				}
			}
			walk(call)
			// no other success return is reachable after the call with another codec
			c.Oblige("X.publish.winner", reaches, call.Pos(), name, "the codec returned is the one StoreOrSwap kept",
				"two goroutines that build a type's codec at the same time must both end up using the codec the registry kept; returning the local one gives the loser a private codec (its own interning tables, another identity)", nil)
		}
	}
	if n == 0 {
		c.Oblige("X.publish.winner", false, f.Pos(), name, "StoreOrSwap", "no call found", nil)
	}
	c.Floor("X.publish.winner", 1)
}

// ruleLeafReadFresh: X.leaf.fresh - the Read of a leaf codec (scalars, strings,
// bytes, times) produces its result from the data alone: it does not read the
// target it is about to overwrite. (Merging is for structs and maps; a leaf
// that looks at the old value - appends to it, keeps its missing parts - makes
// the result depend on what the target held before.)
func ruleLeafReadFresh(c *Ctx) {
	p := c.P
	n := 0
	for _, ct := range p.Codecs {
		consts, _, ok := p.wireInfo(ct)
		if !ok || len(consts) != 1 {
			continue
		}
		leaf := consts[0] == "WTVarInt" || consts[0] == "WT64" || consts[0] == "WT32" || p.lengthLeaf(ct)
		if !leaf || strings.HasPrefix(ct.Name, "null.") {
			continue // null values: the Valid flag and the payload are separate fields, judged by T.null.*
		}
		f := p.SSA.FuncValue(ct.Methods["Read"].Fn)
		if f == nil || len(f.Blocks) == 0 {
			continue
		}
		name := ssaFuncName(f)
		var ptr *ssa.Parameter
		for _, prm := range f.Params {
			if isUnsafePointer(prm.Type()) {
				ptr = prm
			}
		}
		if ptr == nil {
			continue
		}
		n++
		bad := ""
		for _, b := range f.Blocks {
			for _, in := range b.Instrs {
				switch x := in.(type) {
				case *ssa.UnOp:
					if x.Op == token.MUL {
						if r := rootOf(x.X); r.kind == rkParam && r.base == ssa.Value(ptr) {
							bad = "loads the target"
						}
					}
				case *ssa.Call:
					// methods called on the target that are not writers of the library (t.IsZero(), len(*b) …)
					cal := x.Common().StaticCallee()
					if cal == nil || (cal.Pkg != nil && inModule(cal.Pkg.Pkg)) {
						continue
					}
					for _, a := range x.Common().Args {
						if _, isP := a.Type().Underlying().(*types.Pointer); isP {
							if r := rootOf(a); r.kind == rkParam && r.base == ssa.Value(ptr) {
								bad = "hands the target to " + cal.String()
							}
						}
					}
				}
			}
		}
		c.Oblige("X.leaf.fresh", bad == "", f.Pos(), name, "Read does not look at the old value of its target",
			"a decoded leaf value replaces what the target held: the result must come from the data alone"+map[bool]string{true: "", false: " (" + bad + ")"}[bad == ""], nil)
	}
	c.Floor("X.leaf.fresh", 8)
}

// ruleGrowCopy: X.grow.copy - typedslicecopy copies min(len(dst), len(src))
// elements: where a slice is grown, the new header's Len is set (from the old
// length) before the old elements are copied into it.
func ruleGrowCopy(c *Ctx) {
	p := c.P
	n := 0
	for _, f := range p.decodeClosure() {
		if len(f.Blocks) == 0 {
			continue
		}
		name := ssaFuncName(f)
		for _, b := range f.Blocks {
			for _, in := range b.Instrs {
				call, ok := in.(*ssa.Call)
				if !ok {
					continue
				}
				cal := call.Common().StaticCallee()
				if cal == nil || cal.Name() != "typedslicecopy" || len(call.Common().Args) != 3 {
					continue
				}
				n++
				good := false
				if ld, ok := call.Common().Args[1].(*ssa.UnOp); ok && ld.Op == token.MUL {
					if al, ok := ld.X.(*ssa.Alloc); ok {
						for _, r := range *al.Referrers() {
							fa, ok := r.(*ssa.FieldAddr)
							if !ok || fieldName(fa) != "Len" {
								continue
							}
							for _, r2 := range *fa.Referrers() {
								st, ok := r2.(*ssa.Store)
								if !ok || st.Addr != ssa.Value(fa) {
									continue
								}
								if k, isK := st.Val.(*ssa.Const); isK && k.Value != nil && k.Value.ExactString() == "0" {
									continue
								}
								sb := st.Block()
								if sb == b {
									// before the call in the same block
									for _, x := range b.Instrs {
										if x == ssa.Instruction(st) {
											good = true
										}
										if x == ssa.Instruction(call) {
											break
										}
									}
								} else if sb.Dominates(b) {
									good = true
								}
							}
						}
					}
				}
				c.Oblige("X.grow.copy", good, call.Pos(), name, "the grown slice has its length before the old elements are copied",
					"typedslicecopy copies min(len(dst), len(src)) elements: a destination header whose Len is still zero receives nothing, and every element decoded before the growth step is lost", nil)
			}
		}
	}
	c.Floor("X.grow.copy", 2)
}

// ruleWalkerEntry: X.walker.entry - Descriptor.Read always walks: every return
// of the exported entry point comes after the call of the walker proper, also
// for empty data (the zero value encodes to nothing and still has a rendering:
// 0, "", {} ...; an early return leaves the outputter with no document at all).
func ruleWalkerEntry(c *Ctx) {
	p := c.P
	name := "plenccodec.Descriptor.Read"
	f := p.ssaFunc(name)
	if f == nil {
		c.Oblige("X.walker.entry", false, token.NoPos, name, "function", "not found", nil)
		return
	}
	var calls []*ssa.Call
	for _, b := range f.Blocks {
		for _, in := range b.Instrs {
			if call, ok := in.(*ssa.Call); ok {
				if cal := call.Common().StaticCallee(); cal != nil && recvTypeName(cal) == "Descriptor" && cal != f {
					calls = append(calls, call)
				}
			}
		}
	}
	ok := len(calls) > 0
	for _, b := range f.Blocks {
		if _, isRet := b.Instrs[len(b.Instrs)-1].(*ssa.Return); !isRet {
			continue
		}
		dom := false
		for _, call := range calls {
			if call.Block() == b || call.Block().Dominates(b) {
				dom = true
			}
		}
		if !dom {
			ok = false
		}
	}
	c.Oblige("X.walker.entry", ok, f.Pos(), name, "every return follows the walk",
		"the value that encodes to no bytes is still a value: the walk must run for empty data too, or the output is not a JSON document", nil)
	c.Floor("X.walker.entry", 1)
}

// ruleSkipAnyWireType: X.skip.anywt - an unknown field is skipped whatever its
// wire type: in the field loops (the functions that call both ReadTag and
// Skip) the path to Skip is not controlled by a test of the wire type just
// read. (Skip itself rejects the wire types that do not exist.)
func ruleSkipAnyWireType(c *Ctx) {
	p := c.P
	n := 0
	for _, f := range p.decodeClosure() {
		if len(f.Blocks) == 0 {
			continue
		}
		var wts []ssa.Value
		var skips []*ssa.Call
		for _, b := range f.Blocks {
			for _, in := range b.Instrs {
				cn, call := staticCalleeName(in)
				if call == nil {
					continue
				}
				switch cn {
				case "plenccore.ReadTag":
					for _, r := range *call.Referrers() {
						if ex, ok := r.(*ssa.Extract); ok && ex.Index == 0 {
							wts = append(wts, ex)
						}
					}
				case "plenccore.Skip":
					skips = append(skips, call)
				}
			}
		}
		if len(wts) == 0 || len(skips) == 0 {
			continue
		}
		name := ssaFuncName(f)
		isWT := func(v ssa.Value) bool {
			v = stripConv(v)
			for _, w := range wts {
				if v == w {
					return true
				}
			}
			return false
		}
		for _, sk := range skips {
			n++
			bad := false
			conds, _ := controllingConds(sk.Block())
			for _, cd := range conds {
				if bo, ok := cd.(*ssa.BinOp); ok && (isWT(bo.X) || isWT(bo.Y)) {
					bad = true
				}
			}
			c.Oblige("X.skip.anywt", !bad, sk.Pos(), name, "the skip of an unknown field does not depend on its wire type",
				"a newer writer may add a field of any wire type: the reader steps over it with Skip, which knows every wire type - a wire-type test in front of the field dispatch turns such messages away", nil)
		}
	}
	c.Floor("X.skip.anywt", 3)
}

// ruleMarshalViaCodec: X.marshal.viacodec - Plenc.Marshal has no encoding logic
// of its own: what a success return hands back is the buffer it was given
// (value omitted) or the result of Append on the codec this instance's
// CodecForType returned. A fast path that encodes common types directly
// hard-codes the default codecs and ignores the instance's registrations and
// options.
func ruleMarshalViaCodec(c *Ctx) {
	p := c.P
	name := "plenc.Plenc.Marshal"
	f := p.ssaFunc(name)
	if f == nil || len(f.Params) < 2 {
		c.Oblige("X.marshal.viacodec", false, token.NoPos, name, "function", "not found", nil)
		return
	}
	recv, data := ssa.Value(f.Params[0]), ssa.Value(f.Params[1])
	fromLookup := func(v ssa.Value) bool {
		for i := 0; i < 6; i++ {
			switch x := v.(type) {
			case *ssa.Extract:
				v = x.Tuple
				continue
			case *ssa.Call:
				cal := x.Common().StaticCallee()
				return cal != nil && strings.HasPrefix(ssaFuncName(cal), "plenc.Plenc.CodecForType") && len(x.Common().Args) > 0 && x.Common().Args[0] == recv
			}
			break
		}
		return false
	}
	var okVal func(v ssa.Value, depth int) bool
	okVal = func(v ssa.Value, depth int) bool {
		if depth > 6 {
			return false
		}
		if v == data {
			return true
		}
		switch x := v.(type) {
		case *ssa.Phi:
			for _, e := range x.Edges {
				if !okVal(e, depth+1) {
					return false
				}
			}
			return len(x.Edges) > 0
		case *ssa.Call:
			if x.Common().IsInvoke() && x.Common().Method.Name() == "Append" && isCodecInvoke(x) {
				return fromLookup(x.Common().Value) && len(x.Common().Args) > 0 && okVal(x.Common().Args[0], depth+1)
			}
			// growing the buffer before appending: append(make(...), data...) and the like keep the prefix
			// (appending anything else to data is Marshal encoding a value itself)
			if bi, ok := x.Common().Value.(*ssa.Builtin); ok && bi.Name() == "append" && len(x.Common().Args) == 2 {
				fresh := false
				switch a0 := x.Common().Args[0].(type) {
				case *ssa.MakeSlice:
					fresh = true
				case *ssa.Const:
					fresh = a0.Value == nil
				case *ssa.Slice:
					_, fresh = a0.X.(*ssa.MakeSlice)
				}
				return fresh && okVal(x.Common().Args[1], depth+1)
			}
		case *ssa.Slice:
			return okVal(x.X, depth+1)
		case *ssa.MakeSlice:
			return true // a fresh buffer when none was given (prefix preservation is X.appendonly's business)
		}
		return false
	}
	n := 0
	for _, b := range f.Blocks {
		r, ok := b.Instrs[len(b.Instrs)-1].(*ssa.Return)
		if !ok || len(r.Results) != 2 || !isNilConst(r.Results[1]) {
			continue
		}
		n++
		c.Oblige("X.marshal.viacodec", okVal(r.Results[0], 0), r.Pos(), name, "a success return is data or codec.Append(data, …) of the instance's own codec",
			"which codec encodes a type is a property of the instance (options, registrations): Marshal must go through CodecForType on its receiver for every value", nil)
	}
	if n == 0 {
		c.Oblige("X.marshal.viacodec", false, f.Pos(), name, "success return", "none found", nil)
	}
	c.Floor("X.marshal.viacodec", 1)
}

// expandTrueConds: the comparisons that hold when the boolean v is true. A
// comparison is itself; a φ of booleans (from a && b, or from "c = false" /
// "c = a && b" on different paths) is true only through its edges that are not
// the constant false - when there is exactly one such edge, v stands for that
// edge's value together with the conditions that lead to the edge.
func expandTrueConds(v ssa.Value, depth int) []ssa.Value {
	if depth > 6 {
		return []ssa.Value{v}
	}
	ph, ok := v.(*ssa.Phi)
	if !ok {
		return []ssa.Value{v}
	}
	cand := -1
	for i, e := range ph.Edges {
		if k, isK := e.(*ssa.Const); isK && k.Value != nil && k.Value.Kind() == constant.Bool && !constant.BoolVal(k.Value) {
			continue
		}
		if cand >= 0 {
			return []ssa.Value{v}
		}
		cand = i
	}
	if cand < 0 {
		return []ssa.Value{v}
	}
	out := expandTrueConds(ph.Edges[cand], depth+1)
	pr := ph.Block().Preds[cand]
	cs, ts := controllingConds(pr)
	// the predecessor's own branch decides the edge too
	if iff, ok := pr.Instrs[len(pr.Instrs)-1].(*ssa.If); ok {
		if pr.Succs[0] == ph.Block() && pr.Succs[1] != ph.Block() {
			out = append(out, expandTrueConds(iff.Cond, depth+1)...)
		}
	}
	for i, c := range cs {
		if ts[i] {
			out = append(out, expandTrueConds(c, depth+1)...)
		}
	}
	return out
}

// ---------------------------------------------------------------------------
// B.rawview: a slice or string header made over raw memory (unsafe.Slice,
// unsafe.String) in the decode closure. Its length is taken on trust by every
// later copy, index and range, so BOUND's proofs about slices say nothing
// about it: the length must be a constant, or the construct is reported as
// undecided (the allocation behind a raw pointer has no length BOUND could
// compare with; the module has no such view today).
func ruleRawViews(c *Ctx, funcs []*ssa.Function, onlyOverInput bool) {
	n := 0
	for _, f := range funcs {
		for _, b := range f.Blocks {
			for _, in := range b.Instrs {
				call, ok := in.(*ssa.Call)
				if !ok {
					continue
				}
				bi, ok := call.Common().Value.(*ssa.Builtin)
				if !ok || (bi.Name() != "Slice" && bi.Name() != "String") || len(call.Common().Args) != 2 {
					continue
				}
				if onlyOverInput && !overByteSliceParam(call.Common().Args[0], 0) {
					continue
				}
				n++
				_, isConst := call.Common().Args[1].(*ssa.Const)
				if onlyOverInput {
					c.Oblige("B.rawview", false, call.Pos(), ssaFuncName(f), "unsafe."+bi.Name()+" view of the input bytes",
						"a string or slice header made over the memory of the data parameter shares it with the caller: the decoded value changes when the caller re-uses its buffer", nil)
					continue
				}
				c.Oblige("B.rawview", isConst, call.Pos(), ssaFuncName(f), "unsafe."+bi.Name()+" view of raw memory",
					"a header made with unsafe."+bi.Name()+" is believed by every copy, index and range that follows; its length comes from the input here and nothing relates it to the size of the allocation behind the pointer (a body whose length is not a multiple of the element size overruns the array by up to size-1 bytes): undecided, reported", nil)
			}
		}
		c.Funcs[ssaFuncName(f)] = true
	}
	c.Note("B.rawview: %d functions of the decode closure scanned for unsafe.Slice/unsafe.String views, %d found", len(funcs), n)
}

// overByteSliceParam: the pointer is the address of (an element of) a byte
// slice parameter, possibly re-sliced or converted on the way.
func overByteSliceParam(v ssa.Value, depth int) bool {
	if depth > 8 {
		return false
	}
	switch x := v.(type) {
	case *ssa.Parameter:
		return isByteSlice(x.Type())
	case *ssa.Convert:
		return overByteSliceParam(x.X, depth+1)
	case *ssa.ChangeType:
		return overByteSliceParam(x.X, depth+1)
	case *ssa.IndexAddr:
		return overByteSliceParam(x.X, depth+1)
	case *ssa.Slice:
		return overByteSliceParam(x.X, depth+1)
	case *ssa.Phi:
		for _, e := range x.Edges {
			if overByteSliceParam(e, depth+1) {
				return true
			}
		}
	case *ssa.Call:
		if bi, ok := x.Common().Value.(*ssa.Builtin); ok && (bi.Name() == "SliceData" || bi.Name() == "StringData" || bi.Name() == "Add") && len(x.Common().Args) > 0 {
			return overByteSliceParam(x.Common().Args[0], depth+1)
		}
	}
	return false
}

// ---------------------------------------------------------------------------
// T.slice-presence: a slice wrapper has no way of writing "this element is
// absent" - a packed varint is a value, a counted element is its bytes. For
// pointer elements the documented normalisations say what happens to nil
// entries; for the null types (explicit presence without a pointer) nothing
// does, and the fixed-width wrapper already refuses them (T.fixedwrap). The
// other three wrappers are obliged to look at the element codec's
// ExplicitPresence on the way to their construction as well.
func ruleSlicePresence(c *Ctx) {
	p := c.P
	name := "plenc.Plenc.CodecForTypeRegistry"
	f := p.ssaFunc(name)
	if f == nil {
		c.Oblige("T.slice-presence", false, token.NoPos, name, "function", "not found", nil)
		return
	}
	var mentionsEP func(v ssa.Value, depth int) bool
	mentionsEP = func(v ssa.Value, depth int) bool {
		if depth > 6 {
			return false
		}
		switch x := v.(type) {
		case *ssa.UnOp:
			if fa, ok := x.X.(*ssa.FieldAddr); ok && x.Op == token.MUL && fieldName(fa) == "ExplicitPresence" {
				return true
			}
			return mentionsEP(x.X, depth+1)
		case *ssa.Field:
			if st, ok := x.X.Type().Underlying().(*types.Struct); ok && st.Field(x.Field).Name() == "ExplicitPresence" {
				return true
			}
		case *ssa.BinOp:
			return mentionsEP(x.X, depth+1) || mentionsEP(x.Y, depth+1)
		case *ssa.Phi:
			for _, e := range x.Edges {
				if mentionsEP(e, depth+1) {
					return true
				}
			}
		}
		return false
	}
	n := 0
	for _, b := range f.Blocks {
		for _, in := range b.Instrs {
			mi, ok := in.(*ssa.MakeInterface)
			if !ok {
				continue
			}
			tn := typeName(mi.X.Type())
			if tn != "WTVarIntSliceWrapper" && tn != "WTLengthSliceWrapper" && tn != "ProtoSliceWrapper" {
				continue
			}
			n++
			conds, _ := controllingConds(b)
			okP := false
			for _, cd := range conds {
				if mentionsEP(cd, 0) {
					okP = true
				}
			}
			c.Oblige("T.slice-presence", okP, mi.Pos(), name, tn+" is built with the element codec's explicit presence looked at",
				"an element that can be absent without being a pointer (null.Int, null.Bool, null.String, null.Time) has no absent form inside a slice: an invalid element is written as its zero value and reads back Valid - []null.Float is refused for this reason (T.fixedwrap), the other element types are not", nil)
		}
	}
	if n == 0 {
		c.Oblige("T.slice-presence", false, f.Pos(), name, "construction of the slice wrappers", "not found: the rule no longer sees the code it was written for", nil)
	}
	c.Floor("T.slice-presence", 3)
}
