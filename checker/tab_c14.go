package main

import (
	"fmt"
	"go/ast"
	"go/constant"
	"go/token"
	"go/types"
	"sort"
	"strings"

	"golang.org/x/tools/go/ssa"
)

// leaf descriptor spec: from the property statement (field type matching the
// wire encoding, timestamp logical type for times).
var leafDescSpec = map[string][2]string{
	"plenccodec.IntCodec":             {"FieldTypeInt", ""},
	"plenccodec.UintCodec":            {"FieldTypeUint", ""},
	"plenccodec.FlatIntCodec":         {"FieldTypeFlatInt", ""},
	"plenccodec.Float32Codec":         {"FieldTypeFloat32", ""},
	"plenccodec.Float64Codec":         {"FieldTypeFloat64", ""},
	"plenccodec.StringCodec":          {"FieldTypeString", ""},
	"plenccodec.BytesCodec":           {"FieldTypeString", ""},
	"plenccodec.InternedStringCodec":  {"FieldTypeString", ""},
	"plenccodec.BoolCodec":            {"FieldTypeBool", ""},
	"plenccodec.TimeCodec":            {"FieldTypeTime", "LogicalTypeTimestamp"},
	"plenccodec.TimeCompatCodec":      {"FieldTypeTime", "LogicalTypeTimestamp"},
	"plenccodec.BQTimestampCodec":     {"FieldTypeFlatInt", "LogicalTypeTimestamp"},
	"plenccodec.StructCodec":          {"FieldTypeStruct", ""},
	"plenccodec.MapCodec":             {"FieldTypeSlice", "LogicalTypeMap"},
	"plenccodec.ProtoMapCodec":        {"FieldTypeSlice", "LogicalTypeMap"},
	"plenccodec.JSONMapCodec":         {"FieldTypeJSONObject", ""},
	"plenccodec.JSONArrayCodec":       {"FieldTypeJSONArray", ""},
	"null.nullIntCodec":               {"FieldTypeInt", ""},
	"null.nullBoolCodec":              {"FieldTypeBool", ""},
	"null.nullFloatCodec":             {"FieldTypeFloat64", ""},
	"null.nullStringCodec":            {"FieldTypeString", ""},
	"null.internedNullStringCodec":    {"FieldTypeString", ""},
	"null.nullTimeCodec":              {"FieldTypeTime", "LogicalTypeTimestamp"},
	"plenccodec.WTLengthSliceWrapper": {"FieldTypeSlice", ""},
	"plenccodec.WTFixedSliceWrapper":  {"FieldTypeSlice", ""},
	"plenccodec.WTVarIntSliceWrapper": {"FieldTypeSlice", ""},
	"plenccodec.ProtoSliceWrapper":    {"FieldTypeSlice", ""},
}

// resolveLogical follows delegation to embedded codecs for the logical type.
func (p *Prog) resolveLogical(ct *CodecType, depth int) string {
	di := p.descriptorInfo(ct)
	if !di.OK || depth > 5 {
		return "?"
	}
	if di.Logical != "" || di.Type != "" {
		return di.Logical
	}
	if di.Delegate != "" {
		if n := namedOf(di.DelegType); n != nil {
			for _, o := range p.Codecs {
				if o.Named == n.Origin() {
					return p.resolveLogical(o, depth+1)
				}
			}
		}
	}
	return ""
}

func ruleLeafDescriptors(c *Ctx) {
	p := c.P
	for _, ct := range p.Codecs {
		spec, ok := leafDescSpec[ct.Name]
		pos := ct.Methods["Descriptor"].Fn.Pos()
		if ct.Name == "plenccodec.PointerWrapper" {
			di := p.descriptorInfo(ct)
			c.Oblige("T.desc-leaf", di.OK && di.Delegate == "Underlying", pos, ct.Name, "descriptor of the pointee", "a pointer's descriptor is its target's descriptor (plus explicit presence)", nil)
			continue
		}
		if !ok {
			if p.codecUnreachable(ct) {
				c.Note("T.desc-leaf: %s is not in the descriptor table and not used by the module - skipped", ct.Name)
				continue
			}
			c.Oblige("T.desc-leaf", false, pos, ct.Name, "unclassified codec", "new codec type without an entry in the descriptor table: needs classification", nil)
			continue
		}
		ft, _ := p.resolveDescType(ct, 0)
		lt := p.resolveLogical(ct, 0)
		c.Oblige("T.desc-leaf", ft == spec[0] && lt == spec[1], pos, ct.Name, fmt.Sprintf("Descriptor{Type: %s, LogicalType: %s}", spec[0], orNone(spec[1])),
			fmt.Sprintf("field type must match the wire encoding and times carry the timestamp logical type; found Type=%s LogicalType=%s", ft, orNone(lt)), nil)
	}
	c.Floor("T.desc-leaf", 26)
	// slice wrappers compose the element descriptor
	bs := p.findFunc("plenccodec", "BaseSliceWrapper", "Descriptor")
	ok := false
	if bs != nil {
		ast.Inspect(bs.Decl.Body, func(n ast.Node) bool {
			if call, isCall := n.(*ast.CallExpr); isCall {
				if sel, isSel := call.Fun.(*ast.SelectorExpr); isSel && sel.Sel.Name == "Descriptor" {
					if inner, isSel2 := sel.X.(*ast.SelectorExpr); isSel2 && inner.Sel.Name == "Underlying" {
						ok = true
					}
				}
			}
			return true
		})
	}
	c.Oblige("T.desc-leaf", ok, token.NoPos, "plenccodec.BaseSliceWrapper.Descriptor", "Elements[0] = Underlying.Descriptor()", "a slice's descriptor carries its element's descriptor", nil)
}

func orNone(s string) string {
	if s == "" {
		return "none"
	}
	return s
}

// ruleStructDescriptor: T.desc-struct.
func ruleStructDescriptor(c *Ctx) {
	p := c.P
	fn := p.findFunc("plenccodec", "StructCodec", "Descriptor")
	if fn == nil {
		c.Oblige("T.desc-struct", false, token.NoPos, "plenccodec.StructCodec.Descriptor", "function", "not found", nil)
		return
	}
	info := fn.Pkg.TypesInfo
	recv := recvObj(info, fn.Decl)
	var rng *ast.RangeStmt
	var rngs []*ast.RangeStmt
	ast.Inspect(fn.Decl.Body, func(n ast.Node) bool {
		if r, ok := n.(*ast.RangeStmt); ok {
			if rng == nil {
				rng = r
			}
			rngs = append(rngs, r)
		}
		return true
	})
	isRecvField := func(e ast.Expr, field string) bool {
		sel, ok := ast.Unparen(e).(*ast.SelectorExpr)
		if !ok || sel.Sel.Name != field {
			return false
		}
		id, ok := sel.X.(*ast.Ident)
		return ok && info.Uses[id] == recv
	}
	ssaFacts := structDescriptorSSA(p)
	c.Oblige("T.desc-struct", (rng != nil && isRecvField(rng.X, "fields")) || ssaFacts["ranges"], fn.Decl.Pos(), fn.Name(), "ranges over c.fields",
		"the descriptor must be built from the same field list, in the same (declaration) order, as the encoder", nil)
	if rng == nil {
		return
	}
	got := map[string]bool{}
	// the element loop may be split into several passes over the same field list
	first := rng
	for _, rng := range rngs {
		if !isRecvField(rng.X, "fields") {
			continue
		}
		var fvar types.Object
		if id, ok := rng.Value.(*ast.Ident); ok {
			fvar = info.Defs[id]
		}
		var ivar types.Object
		if id, ok := rng.Key.(*ast.Ident); ok {
			ivar = info.Defs[id]
		}
		isFField := func(e ast.Expr, field string) bool {
			sel, ok := ast.Unparen(e).(*ast.SelectorExpr)
			if !ok || sel.Sel.Name != field {
				return false
			}
			id, ok := sel.X.(*ast.Ident)
			return ok && info.Uses[id] == fvar
		}
		// a local the element is built in before it is stored: `e := …; e.Index = …; d.Elements[i] = e`
		var elemLocal types.Object
		elemLocalStored := -1
		var isElemI func(e ast.Expr) bool
		isElemI = func(e ast.Expr) bool { // d.Elements[i]
			if id, ok := ast.Unparen(e).(*ast.Ident); ok && elemLocal != nil {
				return info.Uses[id] == elemLocal || info.Defs[id] == elemLocal
			}
			ix, ok := ast.Unparen(e).(*ast.IndexExpr)
			if !ok {
				return false
			}
			id, ok := ix.Index.(*ast.Ident)
			if !ok || info.Uses[id] != ivar {
				return false
			}
			sel, ok := ix.X.(*ast.SelectorExpr)
			return ok && sel.Sel.Name == "Elements"
		}
		for i, st := range rng.Body.List {
			as, ok := st.(*ast.AssignStmt)
			if !ok || len(as.Lhs) != 1 || len(as.Rhs) != 1 {
				continue
			}
			if id, ok := ast.Unparen(as.Rhs[0]).(*ast.Ident); ok && isElemI(as.Lhs[0]) {
				if v, ok := info.Uses[id].(*types.Var); ok && v.Parent() != nil && v.Parent() != v.Pkg().Scope() {
					elemLocal, elemLocalStored = v, i
				}
			}
		}
		for i, st := range rng.Body.List {
			as, ok := st.(*ast.AssignStmt)
			if !ok || len(as.Lhs) != 1 || len(as.Rhs) != 1 {
				continue
			}
			if elemLocal != nil && i >= elemLocalStored {
				continue // the store of the finished element (and anything after it does not reach the descriptor)
			}
			lhs, rhs := as.Lhs[0], as.Rhs[0]
			if isElemI(lhs) {
				if call, ok := rhs.(*ast.CallExpr); ok {
					if sel, ok := call.Fun.(*ast.SelectorExpr); ok && sel.Sel.Name == "Descriptor" && isFField(sel.X, "codec") {
						got["elem"] = true
					}
				}
				continue
			}
			if sel, ok := lhs.(*ast.SelectorExpr); ok && isElemI(sel.X) {
				switch sel.Sel.Name {
				case "Index":
					got["index"] = isFField(rhs, "index")
				case "Name":
					got["name"] = isFField(rhs, "name")
				}
			}
		}
	}
	rng = first
	// the same three facts read off the SSA form: either reading suffices
	for k, v := range structDescriptorSSA(p) {
		if v {
			got[k] = true
		}
	}
	c.Oblige("T.desc-struct", got["elem"], rng.Pos(), fn.Name(), "Elements[i] = f.codec.Descriptor()", "each element is the field codec's own descriptor", nil)
	c.Oblige("T.desc-struct", got["index"], rng.Pos(), fn.Name(), "Elements[i].Index = f.index", "each element carries the field's plenc index", nil)
	c.Oblige("T.desc-struct", got["name"], rng.Pos(), fn.Name(), "Elements[i].Name = f.name", "each element carries the field's name", nil)
	// Type and TypeName
	typeOK, nameOK, lenOK := false, false, false
	header := func(field string, rhs ast.Expr) {
		switch field {
		case "Type":
			typeOK = constName(info, rhs) == "FieldTypeStruct"
		case "TypeName":
			if call, ok := rhs.(*ast.CallExpr); ok {
				if s2, ok := call.Fun.(*ast.SelectorExpr); ok && s2.Sel.Name == "Name" && isRecvField(s2.X, "rtype") {
					nameOK = true
				}
			}
		case "Elements":
			if call, ok := rhs.(*ast.CallExpr); ok && len(call.Args) == 2 {
				if l, ok := call.Args[1].(*ast.CallExpr); ok && len(l.Args) == 1 && isRecvField(l.Args[0], "fields") {
					lenOK = true
				}
			}
		}
	}
	// the header is set field by field or in a composite literal of the result, outside the element loop
	for _, st := range fn.Decl.Body.List {
		if st == ast.Stmt(rng) {
			continue
		}
		ast.Inspect(st, func(n ast.Node) bool {
			switch x := n.(type) {
			case *ast.AssignStmt:
				if len(x.Lhs) == 1 && len(x.Rhs) == 1 {
					if sel, ok := x.Lhs[0].(*ast.SelectorExpr); ok {
						header(sel.Sel.Name, x.Rhs[0])
					}
				}
			case *ast.CompositeLit:
				if t := info.TypeOf(x); t != nil && typeName(t) == "Descriptor" {
					for _, e := range x.Elts {
						if kv, ok := e.(*ast.KeyValueExpr); ok {
							if id, ok := kv.Key.(*ast.Ident); ok {
								header(id.Name, kv.Value)
							}
						}
					}
				}
			}
			return true
		})
	}
	if ssaFacts["len"] {
		lenOK = true
	}
	if ssaFacts["typename"] {
		nameOK = true
	}
	c.Oblige("T.desc-struct", typeOK && nameOK && lenOK, fn.Decl.Pos(), fn.Name(), "Type=FieldTypeStruct, TypeName=rtype.Name(), len(Elements)=len(fields)",
		fmt.Sprintf("struct descriptor header: type %v, type name %v, one element per encoded field %v", typeOK, nameOK, lenOK), nil)
	c.Floor("T.desc-struct", 5)

	// the encoder ranges over the same field
	for _, m := range []string{"size", "append"} {
		ef := p.findFunc("plenccodec", "StructCodec", m)
		ok := false
		if ef != nil {
			einfo := ef.Pkg.TypesInfo
			erecv := recvObj(einfo, ef.Decl)
			// c.fields, or a local assigned from it exactly once
			locals := map[types.Object]int{}
			isFields := func(e ast.Expr) bool {
				if sel, isSel := ast.Unparen(e).(*ast.SelectorExpr); isSel && sel.Sel.Name == "fields" {
					if id, isID := sel.X.(*ast.Ident); isID && einfo.Uses[id] == erecv {
						return true
					}
				}
				return false
			}
			ast.Inspect(ef.Decl.Body, func(n ast.Node) bool {
				if as, isA := n.(*ast.AssignStmt); isA {
					for i, l := range as.Lhs {
						if id, isID := l.(*ast.Ident); isID {
							obj := einfo.Defs[id]
							if obj == nil {
								obj = einfo.Uses[id]
							}
							if obj == nil {
								continue
							}
							if len(as.Lhs) == len(as.Rhs) && isFields(as.Rhs[i]) && locals[obj] == 0 {
								locals[obj] = 1
							} else {
								locals[obj] = 2
							}
						}
					}
				}
				return true
			})
			src := func(e ast.Expr) bool {
				if isFields(e) {
					return true
				}
				if id, isID := ast.Unparen(e).(*ast.Ident); isID {
					return locals[einfo.Uses[id]] == 1
				}
				return false
			}
			ast.Inspect(ef.Decl.Body, func(n ast.Node) bool {
				switch r := n.(type) {
				case *ast.RangeStmt:
					if src(r.X) {
						ok = true
					}
				case *ast.ForStmt:
					// for i := 0; i < len(c.fields); i++
					if be, isB := r.Cond.(*ast.BinaryExpr); isB && be.Op == token.LSS {
						if call, isC := be.Y.(*ast.CallExpr); isC && len(call.Args) == 1 {
							if id, isID := call.Fun.(*ast.Ident); isID && id.Name == "len" && src(call.Args[0]) {
								if inc, isI := r.Post.(*ast.IncDecStmt); isI && inc.Tok == token.INC {
									ok = true
								}
							}
						}
					}
				}
				return true
			})
		}
		c.Oblige("T.order", ok, token.NoPos, "plenccodec.StructCodec."+m, "ranges over c.fields", "fields are encoded by ranging over the field slice (declaration order), never through a map", nil)
	}
	c.Floor("T.order", 2)
}

// ruleFieldName: T.name – name = Go field name, overridden by a non-empty json tag name.
func ruleFieldName(c *Ctx) {
	f := c.P.ssaFunc("plenccodec.BuildStructCodec")
	if f == nil {
		c.Oblige("T.name", false, token.NoPos, "plenccodec.BuildStructCodec", "function", "not found", nil)
		return
	}
	name := ssaFuncName(f)
	var stores []*ssa.Store
	for _, b := range f.Blocks {
		for _, in := range b.Instrs {
			if st, ok := in.(*ssa.Store); ok {
				if fa, ok := st.Addr.(*ssa.FieldAddr); ok && typeName(deref(fa.X.Type())) == "description" && fieldName(fa) == "name" {
					stores = append(stores, st)
				}
			}
		}
	}
	var base, override *ssa.Store
	for _, st := range stores {
		if ld, ok := st.Val.(*ssa.UnOp); ok {
			if fa, ok := ld.X.(*ssa.FieldAddr); ok && typeName(deref(fa.X.Type())) == "StructField" && fieldName(fa) == "Name" {
				base = st
			}
		}
		if ex, ok := st.Val.(*ssa.Extract); ok && ex.Index == 0 {
			if call, ok := ex.Tuple.(*ssa.Call); ok {
				if cal := call.Common().StaticCallee(); cal != nil && cal.String() == "strings.Cut" &&
					tagGetResult(call.Common().Args[0], "json", 0) && isConstString(call.Common().Args[1], ",") {
					// guarded by != ""
					for _, d := range f.Blocks {
						iff, ok := d.Instrs[len(d.Instrs)-1].(*ssa.If)
						if !ok {
							continue
						}
						cmp, ok := iff.Cond.(*ssa.BinOp)
						if !ok || !((cmp.X == ssa.Value(ex) && isConstString(cmp.Y, "")) || (cmp.Y == ssa.Value(ex) && isConstString(cmp.X, ""))) {
							continue
						}
						idx := 0
						if cmp.Op == token.EQL {
							idx = 1
						}
						if dominatedByBranch(d, idx, st.Block()) {
							override = st
						}
					}
				}
			}
		}
	}
	c.Oblige("T.name", base != nil, f.Pos(), name, "name = sf.Name", "the default descriptor name is the Go field name", nil)
	c.Oblige("T.name", override != nil, f.Pos(), name, "name = json tag name when non-empty", "a non-empty json tag name (text before the first comma) overrides the Go field name, and nothing else does", nil)
	c.Oblige("T.name", len(stores) == 2 && base != nil && override != nil && (base.Block() == override.Block() || base.Block().Dominates(override.Block())), f.Pos(), name, "exactly these two assignments, default first",
		fmt.Sprintf("found %d stores to the name", len(stores)), nil)
	c.Floor("T.name", 3)
}

// ruleMapDescriptor: T.desc-map – key/value descriptor indexes equal the
// indexes of the key/value wire tags.
func ruleMapDescriptor(c *Ctx) {
	p := c.P
	bm := p.findFunc("plenccodec", "", "BuildMapCodec")
	md := p.findFunc("plenccodec", "MapCodec", "Descriptor")
	if bm == nil || md == nil {
		c.Oblige("T.desc-map", false, token.NoPos, "plenccodec.MapCodec", "functions", "not found", nil)
		return
	}
	binfo := bm.Pkg.TypesInfo
	tagIdx := map[string]int64{}
	tagWT := map[string]string{}
	ast.Inspect(bm.Decl.Body, func(n ast.Node) bool {
		kv, ok := n.(*ast.KeyValueExpr)
		if !ok {
			return true
		}
		k, ok := kv.Key.(*ast.Ident)
		if !ok || (k.Name != "keyTag" && k.Name != "valueTag") {
			return true
		}
		if call, ok := kv.Value.(*ast.CallExpr); ok && len(call.Args) == 3 {
			if cal := callee(binfo, call); cal != nil && cal.Name() == "AppendTag" {
				if v, ok := constInt(binfo, call.Args[2]); ok {
					tagIdx[k.Name] = v
				}
				tagWT[k.Name] = p.str(call.Args[1])
			}
		}
		return true
	})
	// MapCodec.Descriptor on SSA: which codec each part comes from, the indexes
	// it is given, the order of the two in the entry and the logical types set
	descIdx := map[string]int64{}
	descSrc := map[string]string{}
	var order []string
	logical := map[string]bool{}
	if sf := p.ssaFunc("plenccodec.MapCodec.Descriptor"); sf != nil && len(sf.Params) > 0 {
		recv := ssa.Value(sf.Params[0])
		role := map[ssa.Value]string{} // local holding the key / value descriptor
		for _, b := range sf.Blocks {
			for _, in := range b.Instrs {
				st, ok := in.(*ssa.Store)
				if !ok {
					continue
				}
				call, ok := st.Val.(*ssa.Call)
				if !ok || !call.Common().IsInvoke() || call.Common().Method.Name() != "Descriptor" {
					continue
				}
				if ld, ok := call.Common().Value.(*ssa.UnOp); ok && ld.Op == token.MUL {
					if fa, ok := ld.X.(*ssa.FieldAddr); ok && fa.X == recv {
						switch fieldName(fa) {
						case "keyCodec":
							role[st.Addr] = "kDesc"
							descSrc["kDesc"] = "keyCodec.Descriptor()"
						case "valueCodec":
							role[st.Addr] = "vDesc"
							descSrc["vDesc"] = "valueCodec.Descriptor()"
						}
					}
				}
			}
		}
		lconst := map[int64]string{}
		for _, nm := range []string{"LogicalTypeMap", "LogicalTypeMapEntry"} {
			if k, ok := sf.Pkg.Pkg.Scope().Lookup(nm).(*types.Const); ok {
				if v, ok := constant.Int64Val(constant.ToInt(k.Val())); ok {
					lconst[v] = nm
				}
			}
		}
		type slot struct {
			idx  int64
			name string
		}
		var slots []slot
		for _, b := range sf.Blocks {
			for _, in := range b.Instrs {
				st, ok := in.(*ssa.Store)
				if !ok {
					continue
				}
				switch a := st.Addr.(type) {
				case *ssa.FieldAddr:
					k, isK := st.Val.(*ssa.Const)
					if !isK || k.Value == nil {
						continue
					}
					v, okv := constant.Int64Val(constant.ToInt(k.Value))
					if !okv {
						continue
					}
					switch fieldName(a) {
					case "Index":
						if r := role[a.X]; r != "" {
							descIdx[r] = v
						}
					case "LogicalType":
						if nm := lconst[v]; nm != "" {
							logical[nm] = true
						}
					}
				case *ssa.IndexAddr:
					// entry.Elements = []Descriptor{key, value}: element i is the load of a role local
					if ld, ok := st.Val.(*ssa.UnOp); ok && ld.Op == token.MUL {
						if r := role[ld.X]; r != "" {
							if k, ok := a.Index.(*ssa.Const); ok && k.Value != nil {
								if v, ok := constant.Int64Val(constant.ToInt(k.Value)); ok {
									slots = append(slots, slot{v, r})
								}
							}
						}
					}
				}
			}
		}
		sort.Slice(slots, func(i, j int) bool { return slots[i].idx < slots[j].idx })
		for _, sl := range slots {
			order = append(order, sl.name)
		}
	}
	ok := tagIdx["keyTag"] == 1 && tagIdx["valueTag"] == 2 && descIdx["kDesc"] == tagIdx["keyTag"] && descIdx["vDesc"] == tagIdx["valueTag"]
	c.Oblige("T.desc-map", ok, md.Decl.Pos(), md.Name(), "key index 1 / value index 2 in both the wire tags and the descriptor",
		fmt.Sprintf("map entries are key=field 1, value=field 2; wire tags use %v, descriptor uses %v", tagIdx, descIdx), nil)
	ok2 := strings.HasPrefix(tagWT["keyTag"], "keyCodec.") && strings.HasPrefix(tagWT["valueTag"], "valueCodec.") &&
		strings.Contains(descSrc["kDesc"], "keyCodec.Descriptor") && strings.Contains(descSrc["vDesc"], "valueCodec.Descriptor")
	c.Oblige("T.desc-map", ok2, md.Decl.Pos(), md.Name(), "key parts from the key codec, value parts from the value codec",
		fmt.Sprintf("tags: %v descriptors: %v", tagWT, descSrc), nil)
	// structure: slice(map) of struct(map entry) with elements [key, value]
	c.Oblige("T.desc-map", strings.Join(order, ",") == "kDesc,vDesc" && logical["LogicalTypeMap"] && logical["LogicalTypeMapEntry"], md.Decl.Pos(), md.Name(),
		"Slice(LogicalTypeMap) of Struct(LogicalTypeMapEntry){key, value}", fmt.Sprintf("elements %v, logical types %v", order, logical), nil)
	c.Floor("T.desc-map", 3)
}
