package main

import (
	"fmt"
	"go/ast"
	"go/token"
	"go/types"
	"math/big"
	"slices"
	"sort"
	"strings"

	"golang.org/x/tools/go/ssa"
)

// ruleSkipExhaustive: T.skip-exh – Skip switches on its own wt parameter and
// has a clause for every wire-type constant a codec can report.
func ruleSkipExhaustive(c *Ctx) {
	p := c.P
	fn := p.findFunc("plenccore", "", "Skip")
	if fn == nil {
		c.Oblige("T.skip-exh", false, token.NoPos, "plenccore.Skip", "Skip", "function not found", nil)
		return
	}
	info := fn.Pkg.TypesInfo
	params := paramObjs(info, fn.Decl)
	sws := switchesIn(fn.Decl.Body, func(s *ast.SwitchStmt) bool {
		id, ok := s.Tag.(*ast.Ident)
		if !ok {
			return false
		}
		for _, po := range params {
			if po != nil && info.Uses[id] == po {
				if n, ok := po.Type().(*types.Named); ok && n.Obj().Name() == "WireType" {
					return true
				}
			}
		}
		return false
	})
	if len(sws) != 1 {
		c.Oblige("T.skip-exh", false, fn.Decl.Pos(), fn.Name(), "switch wt", "cannot locate the switch on the wire type parameter", nil)
		return
	}
	have := map[string]bool{}
	for _, st := range sws[0].Body.List {
		for _, e := range st.(*ast.CaseClause).List {
			have[constName(info, e)] = true
		}
	}
	var used []string
	for wt := range p.wireTypesInUse() {
		used = append(used, wt)
	}
	sort.Strings(used)
	for _, wt := range used {
		c.Oblige("T.skip-exh", have[wt], sws[0].Pos(), fn.Name(), "case "+wt,
			"some codec reports wire type "+wt+", so an unknown field of that type must be skippable (schema evolution)", nil)
	}
	c.Floor("T.skip-exh", 5)
}

// ruleVarintDelegation: the signed primitives are the unsigned ones composed
// with ZigZag / ZagZig.
func ruleVarintDelegation(c *Ctx) {
	p := c.P
	check := func(name string, want []string) {
		fn := p.findFunc("plenccore", "", name)
		if fn == nil {
			c.Oblige("T.varint-deleg", false, token.NoPos, "plenccore."+name, name, "not found", nil)
			return
		}
		info := fn.Pkg.TypesInfo
		var calls []string
		ast.Inspect(fn.Decl.Body, func(n ast.Node) bool {
			if call, ok := n.(*ast.CallExpr); ok {
				if cal := callee(info, call); cal != nil {
					calls = append(calls, cal.Name())
				}
			}
			return true
		})
		sort.Strings(calls)
		w := append([]string(nil), want...)
		sort.Strings(w)
		// every statement must be a return / short assignment; no arithmetic of its own
		arith := false
		ast.Inspect(fn.Decl.Body, func(n ast.Node) bool {
			if _, ok := n.(*ast.BinaryExpr); ok {
				arith = true
			}
			return true
		})
		ok := strings.Join(calls, ",") == strings.Join(w, ",") && !arith
		c.Oblige("T.varint-deleg", ok, fn.Decl.Pos(), fn.Name(), name+" = "+strings.Join(want, "∘"),
			fmt.Sprintf("signed varint primitive must be exactly the unsigned one composed with zig-zag (calls %v, own arithmetic %v)", calls, arith), nil)
	}
	check("AppendVarInt", []string{"AppendVarUint", "ZigZag"})
	check("SizeVarInt", []string{"SizeVarUint", "ZigZag"})
	check("ReadVarInt", []string{"ReadVarUint", "ZagZig"})
	c.Floor("T.varint-deleg", 3)
}

// tagShape extracts (shift, mask) constants from the tag functions via SSA.
func ruleTagFormat(c *Ctx) {
	p := c.P
	shiftOf := func(name string, op token.Token) (int64, bool, token.Pos) {
		f := p.ssaFunc("plenccore." + name)
		if f == nil {
			return 0, false, token.NoPos
		}
		var k int64
		n := 0
		for _, b := range f.Blocks {
			for _, in := range b.Instrs {
				if bo, ok := in.(*ssa.BinOp); ok && bo.Op == op {
					if cst, ok := bo.Y.(*ssa.Const); ok {
						if v, ok := constBig(cst); ok {
							k = v.Int64()
							n++
						}
					}
				}
			}
		}
		return k, n == 1, f.Pos()
	}
	for _, name := range []string{"AppendTag", "SizeTag"} {
		k, ok, pos := shiftOf(name, token.SHL)
		c.Oblige("T.tagfmt", ok && k == 3, pos, "plenccore."+name, name+": index << 3",
			fmt.Sprintf("tag = varint(index<<3 | wiretype): shift must be the constant 3, found %d (unique: %v)", k, ok), nil)
		// OR of the shifted index with the wire type
		f := p.ssaFunc("plenccore." + name)
		good := false
		if f != nil {
			for _, b := range f.Blocks {
				for _, in := range b.Instrs {
					if bo, ok := in.(*ssa.BinOp); ok && bo.Op == token.OR {
						l, r := stripConv(bo.X), stripConv(bo.Y)
						_, lshl := l.(*ssa.BinOp)
						_, rshl := r.(*ssa.BinOp)
						var other ssa.Value
						if lshl {
							other = r
						} else if rshl {
							other = l
						}
						if prm, ok := other.(*ssa.Parameter); ok {
							if n, ok := prm.Type().(*types.Named); ok && n.Obj().Name() == "WireType" {
								good = true
							}
						}
					}
				}
			}
		}
		c.Oblige("T.tagfmt", good, pos, "plenccore."+name, name+": | wiretype", "the low bits of the tag are the wire type parameter, OR-ed with the shifted index", nil)
		// the tag is built at full width: an index up to 2^29-1 shifted by 3 needs 32 bits and must not be
		// sign-extended - no integer conversion in the function narrows its operand (C18-r15-m1)
		if f != nil {
			sz := types.StdSizes{WordSize: 8, MaxAlign: 8}
			var narrowing []string
			for _, b := range f.Blocks {
				for _, in := range b.Instrs {
					cv, ok := in.(*ssa.Convert)
					if !ok {
						continue
					}
					sb, ok1 := cv.X.Type().Underlying().(*types.Basic)
					db, ok2 := cv.Type().Underlying().(*types.Basic)
					if !ok1 || !ok2 || sb.Info()&types.IsInteger == 0 || db.Info()&types.IsInteger == 0 {
						continue
					}
					if sz.Sizeof(db) < sz.Sizeof(sb) {
						narrowing = append(narrowing, fmt.Sprintf("%s -> %s at %s", sb.Name(), db.Name(), p.pos(cv.Pos())))
					}
				}
			}
			c.Oblige("T.tagfmt", len(narrowing) == 0, pos, "plenccore."+name, name+": built at full width",
				"index<<3 | wiretype must be computed without narrowing the index (a 29-bit index shifted by 3 does not fit 31 bits; a narrower signed type sign-extends): "+strings.Join(narrowing, "; "), nil)
		}
	}
	// the three tag functions are the varint functions applied to the tag value: every byte
	// is written, sized or read by AppendVarUint / SizeVarUint / ReadVarUint (whose agreement
	// for all values is N.varsize) - a shortcut that writes tag bytes itself has to be right
	// for every index, which is not shown
	for name, prim := range map[string]string{"AppendTag": "plenccore.AppendVarUint", "SizeTag": "plenccore.SizeVarUint", "ReadTag": "plenccore.ReadVarUint"} {
		f := p.ssaFunc("plenccore." + name)
		if f == nil {
			continue
		}
		delegates, own := 0, 0
		for _, b := range f.Blocks {
			for _, in := range b.Instrs {
				call, ok := in.(*ssa.Call)
				if !ok {
					continue
				}
				if cal := call.Common().StaticCallee(); cal != nil && ssaFuncName(cal) == prim {
					delegates++
				}
				if bi, ok := call.Common().Value.(*ssa.Builtin); ok && bi.Name() == "append" {
					own++
				}
			}
			// every return comes after a delegation
		}
		retOK := true
		for _, b := range f.Blocks {
			if _, isRet := b.Instrs[len(b.Instrs)-1].(*ssa.Return); !isRet {
				continue
			}
			dom := false
			for _, d := range f.Blocks {
				if !(d == b || d.Dominates(b)) {
					continue
				}
				for _, in := range d.Instrs {
					if call, ok := in.(*ssa.Call); ok {
						if cal := call.Common().StaticCallee(); cal != nil && ssaFuncName(cal) == prim {
							dom = true
						}
					}
				}
			}
			if !dom {
				retOK = false
			}
		}
		c.Oblige("T.tagfmt", delegates > 0 && own == 0 && retOK, f.Pos(), "plenccore."+name, name+" goes through "+prim+" on every path",
			fmt.Sprintf("the tag is the varint of index<<3|wiretype and nothing else: %d delegation(s), %d append(s) of its own, every return behind a delegation: %v", delegates, own, retOK), nil)
	}
	// ReadTag's n is ReadVarUint's n: a tag is as long as its varint, and "not a tag" is
	// exactly "not a varint" (a limit on the tag's length turns away large field indexes)
	if f := p.ssaFunc("plenccore.ReadTag"); f != nil {
		good, nret := true, 0
		for _, b := range f.Blocks {
			r, ok := b.Instrs[len(b.Instrs)-1].(*ssa.Return)
			if !ok || len(r.Results) != 3 {
				continue
			}
			nret++
			var leafOK func(v ssa.Value, depth int) bool
			leafOK = func(v ssa.Value, depth int) bool {
				if depth > 4 {
					return false
				}
				switch x := v.(type) {
				case *ssa.Extract:
					if call, ok := x.Tuple.(*ssa.Call); ok {
						if cal := call.Common().StaticCallee(); cal != nil && ssaFuncName(cal) == "plenccore.ReadVarUint" {
							return x.Index == 1
						}
					}
				case *ssa.Phi:
					for _, e := range x.Edges {
						if !leafOK(e, depth+1) {
							return false
						}
					}
					return len(x.Edges) > 0
				}
				return false
			}
			if !leafOK(r.Results[2], 0) {
				good = false
			}
		}
		c.Oblige("T.tagfmt", good && nret > 0, f.Pos(), "plenccore.ReadTag", "ReadTag returns ReadVarUint's n",
			"the number of bytes a tag takes is the length of its varint, on every return: a constant or a capped value makes legal tags (large indexes need five bytes) unreadable or mis-stepped", nil)
	}
	k, ok, pos := shiftOf("ReadTag", token.SHR)
	c.Oblige("T.tagfmt", ok && k == 3, pos, "plenccore.ReadTag", "ReadTag: v >> 3", fmt.Sprintf("index = v >> 3, found shift %d", k), nil)
	m, ok, pos := shiftOf("ReadTag", token.AND)
	c.Oblige("T.tagfmt", ok && m == 7, pos, "plenccore.ReadTag", "ReadTag: v & 7", fmt.Sprintf("wire type = v & 7, found mask %d", m), nil)
	c.Floor("T.tagfmt", 10)
}

// ruleSkipAdvance: on the unknown-field path the offset advances by exactly
// Skip's result, Skip is given the rest of the data after the tag and the wire
// type read from the data.
func ruleSkipAdvance(c *Ctx, B *Bound) {
	n := 0
	for _, f := range B.funcs {
		a := B.fa[f]
		if a == nil {
			continue
		}
		for _, b := range f.Blocks {
			for _, in := range b.Instrs {
				call, ok := in.(*ssa.Call)
				if !ok {
					continue
				}
				cal := call.Common().StaticCallee()
				if cal == nil || ssaFuncName(cal) != "plenccore.Skip" {
					continue
				}
				n++
				args := call.Common().Args
				sl, isSlice := args[0].(*ssa.Slice)
				okArg := isSlice && sl.High == nil && a.taint[sl.X]
				// wire type argument comes from ReadTag
				okWT := false
				if ex, ok := args[1].(*ssa.Extract); ok && ex.Index == 0 {
					if tc, ok := ex.Tuple.(*ssa.Call); ok {
						if f2 := tc.Common().StaticCallee(); f2 != nil && ssaFuncName(f2) == "plenccore.ReadTag" {
							okWT = true
						}
					}
				}
				c.Oblige("X.skipadvance", okArg && okWT, call.Pos(), a.name, "Skip(rest of data, wire type from the tag)",
					"an unknown field must be skipped according to the wire type found in the data, starting right after its tag", nil)
				if !okArg {
					continue
				}
				low := linConst(0)
				if sl.Low != nil {
					low = a.lin(sl.Low)
				}
				// the result must be added to exactly that offset and carried round the loop
				var nres ssa.Value
				for _, r := range *call.Referrers() {
					if ex, ok := r.(*ssa.Extract); ok && ex.Index == 0 {
						nres = ex
					}
				}
				adv := false
				// n itself, or the merge of the consumed counts of sibling branches
				var carriers []ssa.Value
				if nres != nil {
					carriers = append(carriers, nres)
					for i := 0; i < len(carriers) && i < 8; i++ {
						for _, r := range *carriers[i].Referrers() {
							if ph, ok := r.(*ssa.Phi); ok && !slices.Contains(carriers, ssa.Value(ph)) {
								carriers = append(carriers, ph)
							}
						}
					}
				}
				for _, cv := range carriers {
					for _, r := range *cv.Referrers() {
						bo, ok := r.(*ssa.BinOp)
						if !ok || bo.Op != token.ADD {
							continue
						}
						other := bo.X
						if other == cv {
							other = bo.Y
						}
						d, ok := a.lin(other).sub(low)
						if !ok || !d.isConst() || d.K.Cmp(big.NewInt(0)) != 0 {
							continue
						}
						for _, u := range *bo.Referrers() {
							if _, isPhi := u.(*ssa.Phi); isPhi {
								adv = true
							}
						}
					}
				}
				c.Oblige("X.skipadvance", adv, call.Pos(), a.name, "offset += Skip's n",
					"after skipping, the offset must be exactly (offset after the tag) + n and feed the field loop; anything else desynchronises the fields that follow", nil)
			}
		}
	}
	c.Floor("X.skipadvance", 8)
}

// ruleFieldNameUse: the field name never reaches the encoding: it is written
// by BuildStructCodec and read only by Descriptor().
func ruleFieldNameUse(c *Ctx) {
	p := c.P
	allowed := map[string]bool{"plenccodec.BuildStructCodec": true, "plenccodec.StructCodec.Descriptor": true}
	n := 0
	for _, f := range p.moduleFuncs() {
		for _, b := range f.Blocks {
			for _, in := range b.Instrs {
				var st *types.Struct
				var idx int
				switch x := in.(type) {
				case *ssa.FieldAddr:
					st, _ = deref(x.X.Type()).Underlying().(*types.Struct)
					idx = x.Field
					if nn := namedOf(x.X.Type()); nn == nil || nn.Obj().Name() != "description" {
						continue
					}
				case *ssa.Field:
					st, _ = x.X.Type().Underlying().(*types.Struct)
					idx = x.Field
					if nn := namedOf(x.X.Type()); nn == nil || nn.Obj().Name() != "description" {
						continue
					}
				default:
					continue
				}
				if st == nil || st.Field(idx).Name() != "name" {
					continue
				}
				n++
				name := ssaFuncName(f)
				c.Oblige("X.who.name", allowed[name], in.Pos(), name, "use of description.name",
					"field names are metadata: only the struct codec builder and Descriptor() may touch them, so renaming a field can never change the bytes", nil)
			}
		}
	}
	c.Floor("X.who.name", 2)
}

// ruleAnyOrder: the struct field loop carries nothing but the offset from one
// field to the next, so decoding is independent of field order.
func ruleAnyOrder(c *Ctx, B *Bound) {
	for _, name := range []string{"plenccodec.StructCodec.Read"} {
		f := c.P.ssaFunc(name)
		a := B.fa[f]
		if a == nil {
			c.Oblige("T.anyorder", false, token.NoPos, name, "field loop", "function not analysed", nil)
			continue
		}
		for _, lp := range a.loops {
			var phis []string
			for _, in := range lp.header.Instrs {
				if phi, ok := in.(*ssa.Phi); ok {
					phis = append(phis, a.describe(phi))
				}
			}
			c.Oblige("T.anyorder", len(phis) == 1, f.Pos(), name, "loop-carried state: "+strings.Join(phis, ","),
				"the field loop must carry only the offset between iterations; any other loop-carried value couples a field's decoding to its position in the data", nil)
		}
	}
	c.Floor("T.anyorder", 1)
}
