package main

import (
	"go/ast"
	"go/types"
)

// descInfo summarises what a codec's Descriptor() method returns, read off its
// syntax with resolved objects.
type descInfo struct {
	OK        bool
	Type      string // FieldType constant name, "" if delegated
	Logical   string // LogicalType constant name
	Presence  bool   // ExplicitPresence set to true
	Delegate  string // "field:<name>" – result starts from <recv>.<name>.Descriptor()
	DelegType types.Type
	Why       string
	Decl      *ast.FuncDecl
	Fn        *types.Func
}

// descriptorInfo analyses ct's resolved Descriptor method.
func (p *Prog) descriptorInfo(ct *CodecType) descInfo {
	mr := ct.Methods["Descriptor"]
	di := descInfo{Decl: mr.Decl, Fn: mr.Fn}
	if mr.Decl == nil || mr.Decl.Body == nil {
		di.Why = "no body"
		return di
	}
	info := mr.Pkg.TypesInfo
	rets := returnsIn(mr.Decl.Body)
	if len(rets) != 1 || len(rets[0].Results) != 1 {
		di.Why = "Descriptor() must have exactly one return statement to be summarised"
		return di
	}
	applyKV := func(key string, val ast.Expr) {
		switch key {
		case "Type":
			di.Type = constName(info, val)
		case "LogicalType":
			di.Logical = constName(info, val)
		case "ExplicitPresence":
			if v := constOf(info, val); v != nil && v.ExactString() == "true" {
				di.Presence = true
			}
		}
	}
	fromComposite := func(cl *ast.CompositeLit) {
		for _, e := range cl.Elts {
			if kv, ok := e.(*ast.KeyValueExpr); ok {
				if id, ok := kv.Key.(*ast.Ident); ok {
					applyKV(id.Name, kv.Value)
				}
			}
		}
	}
	fromCall := func(call *ast.CallExpr) bool {
		// X.Descriptor()
		sel, ok := call.Fun.(*ast.SelectorExpr)
		if !ok || sel.Sel.Name != "Descriptor" {
			return false
		}
		inner, ok := ast.Unparen(sel.X).(*ast.SelectorExpr)
		if !ok {
			return false
		}
		di.Delegate = inner.Sel.Name
		di.DelegType = info.TypeOf(inner)
		return true
	}
	res := ast.Unparen(rets[0].Results[0])
	switch x := res.(type) {
	case *ast.CompositeLit:
		fromComposite(x)
		di.OK = true
	case *ast.CallExpr:
		di.OK = fromCall(x)
	case *ast.Ident:
		obj := info.Uses[x]
		// find definition and field assignments of obj in order
		found := false
		condAssign := false
		ast.Inspect(mr.Decl.Body, func(n ast.Node) bool {
			switch s := n.(type) {
			case *ast.AssignStmt:
				for i, lhs := range s.Lhs {
					if i >= len(s.Rhs) && len(s.Rhs) != 1 {
						continue
					}
					rhs := s.Rhs[0]
					if len(s.Rhs) == len(s.Lhs) {
						rhs = s.Rhs[i]
					}
					if id, ok := lhs.(*ast.Ident); ok && (info.Defs[id] == obj || info.Uses[id] == obj) {
						switch r := ast.Unparen(rhs).(type) {
						case *ast.CompositeLit:
							fromComposite(r)
							found = true
						case *ast.CallExpr:
							if fromCall(r) {
								found = true
							}
						}
					}
					if se, ok := lhs.(*ast.SelectorExpr); ok {
						if id, ok := se.X.(*ast.Ident); ok && info.Uses[id] == obj {
							// only unconditional assignments (direct statements of the body) describe every value
							top := false
							for _, bs := range mr.Decl.Body.List {
								if bs == ast.Stmt(s) {
									top = true
								}
							}
							if top {
								applyKV(se.Sel.Name, rhs)
							} else {
								di.Why = "conditional assignment to " + se.Sel.Name
								found = false
								condAssign = true
							}
						}
					}
				}
			case *ast.ValueSpec:
				for _, id := range s.Names {
					if info.Defs[id] == obj {
						found = true
						for _, v := range s.Values {
							if cl, ok := v.(*ast.CompositeLit); ok {
								fromComposite(cl)
							}
						}
					}
				}
			}
			return true
		})
		di.OK = found && !condAssign
	}
	if !di.OK && di.Why == "" {
		di.Why = "unrecognised shape of Descriptor()"
	}
	return di
}

// resolveDescType follows delegation through embedded codec fields to the
// FieldType constant; returns "" for delegation to an interface-typed field
// (wrapper: type of the underlying codec).
func (p *Prog) resolveDescType(ct *CodecType, depth int) (ftype string, viaInterface bool) {
	di := p.descriptorInfo(ct)
	if !di.OK || depth > 5 {
		return "", false
	}
	if di.Type != "" {
		return di.Type, false
	}
	if di.Delegate != "" {
		if _, isIf := di.DelegType.Underlying().(*types.Interface); isIf {
			return "", true
		}
		if n := namedOf(di.DelegType); n != nil {
			for _, o := range p.Codecs {
				if o.Named == n.Origin() {
					return p.resolveDescType(o, depth+1)
				}
			}
		}
	}
	return "", false
}

// wireInfo: constants a codec's WireType() can return; delegated=true when it
// forwards to an interface-typed field.
func (p *Prog) wireInfo(ct *CodecType) (consts []string, delegated bool, ok bool) {
	mr := ct.Methods["WireType"]
	if mr.Decl == nil || mr.Decl.Body == nil {
		return nil, false, false
	}
	info := mr.Pkg.TypesInfo
	rets := returnsIn(mr.Decl.Body)
	if len(rets) == 0 {
		return nil, false, false
	}
	for _, r := range rets {
		if len(r.Results) != 1 {
			return nil, false, false
		}
		e := ast.Unparen(r.Results[0])
		// wt := X; return wt - a local given its value exactly once stands for X
		if id, isID := e.(*ast.Ident); isID {
			if v, isVar := info.Uses[id].(*types.Var); isVar && v.Parent() != nil && v.Parent() != mr.Pkg.Types.Scope() {
				var rhs []ast.Expr
				ast.Inspect(mr.Decl.Body, func(n ast.Node) bool {
					switch x := n.(type) {
					case *ast.AssignStmt:
						if len(x.Lhs) == len(x.Rhs) {
							for i, l := range x.Lhs {
								if lid, ok := l.(*ast.Ident); ok && (info.Defs[lid] == types.Object(v) || info.Uses[lid] == types.Object(v)) {
									rhs = append(rhs, x.Rhs[i])
								}
							}
						}
					case *ast.ValueSpec:
						for i, nm := range x.Names {
							if info.Defs[nm] == types.Object(v) && i < len(x.Values) {
								rhs = append(rhs, x.Values[i])
							}
						}
					}
					return true
				})
				if len(rhs) == 1 {
					e = ast.Unparen(rhs[0])
				}
			}
		}
		if n := constName(info, e); n != "" {
			consts = append(consts, n)
			continue
		}
		if call, ok := e.(*ast.CallExpr); ok {
			if sel, ok := call.Fun.(*ast.SelectorExpr); ok && sel.Sel.Name == "WireType" {
				if _, isIf := info.TypeOf(sel.X).Underlying().(*types.Interface); isIf {
					delegated = true
					continue
				}
			}
		}
		return nil, false, false
	}
	return consts, delegated, true
}
