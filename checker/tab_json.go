package main

import (
	"fmt"
	"go/ast"
	"go/token"
	"go/types"
	"sort"
	"strings"
)

type jsonRow struct {
	GoType string // dynamic type handled ("nil" for the nil clause)
	Code   string // jsonType constant name
	Codec  string // codec type used ("" when the value is carried by the code alone)
	Tag    string // tag variable
	TagLen int
	Panics bool
	Pos    token.Pos
	Codes  map[string]bool // every type code the clause can emit
}

// tagVarBytes: length of the tag a package-level tag variable holds
// (AppendTag(nil, wt, idx) with constants): 1 byte for idx<<3|wt < 128.
func tagVarLen(p *Prog, info *types.Info, e ast.Expr) (string, int) {
	id, ok := ast.Unparen(e).(*ast.Ident)
	if !ok {
		return exprString(p.Fset, e), -1
	}
	v, ok := info.Uses[id].(*types.Var)
	if !ok {
		return id.Name, -1
	}
	// find its declaration
	for _, pk := range p.Pkgs {
		for _, f := range pk.Syntax {
			for _, d := range f.Decls {
				gd, ok := d.(*ast.GenDecl)
				if !ok {
					continue
				}
				for _, sp := range gd.Specs {
					vs, ok := sp.(*ast.ValueSpec)
					if !ok {
						continue
					}
					for i, n := range vs.Names {
						if pk.TypesInfo.Defs[n] != v || i >= len(vs.Values) {
							continue
						}
						call, ok := vs.Values[i].(*ast.CallExpr)
						if !ok || len(call.Args) != 3 {
							return id.Name, -1
						}
						wt, ok1 := constInt(pk.TypesInfo, call.Args[1])
						idx, ok2 := constInt(pk.TypesInfo, call.Args[2])
						if !ok1 || !ok2 {
							return id.Name, -1
						}
						tag := uint64(idx<<3) | uint64(wt)
						l := 1
						for tag >= 0x80 {
							tag >>= 7
							l++
						}
						return fmt.Sprintf("%s(wt=%d,idx=%d)", id.Name, wt, idx), l
					}
				}
			}
		}
	}
	return id.Name, -1
}

// jsonWriterTable parses the type switch of sizeJSONValue / appendJSONValue.
func jsonWriterTable(p *Prog, fnName, codecMethod, codeFunc string) ([]jsonRow, *fnRef) {
	fn := p.findFunc("plenccodec", "", fnName)
	if fn == nil {
		return nil, nil
	}
	info := fn.Pkg.TypesInfo
	var ts *ast.TypeSwitchStmt
	ast.Inspect(fn.Decl.Body, func(n ast.Node) bool {
		if t, ok := n.(*ast.TypeSwitchStmt); ok && ts == nil {
			ts = t
		}
		return true
	})
	if ts == nil {
		return nil, fn
	}
	var rows []jsonRow
	for _, st := range ts.Body.List {
		cc := st.(*ast.CaseClause)
		row := jsonRow{Pos: cc.Pos(), Codes: map[string]bool{}}
		if len(cc.List) == 0 {
			row.GoType = "default"
		} else {
			var ns []string
			for _, e := range cc.List {
				if id, ok := e.(*ast.Ident); ok && id.Name == "nil" {
					ns = append(ns, "nil")
				} else {
					ns = append(ns, typeStr(info.TypeOf(e)))
				}
			}
			row.GoType = strings.Join(ns, "|")
		}
		ast.Inspect(cc, func(n ast.Node) bool {
			call, ok := n.(*ast.CallExpr)
			if !ok {
				return true
			}
			if id, ok := call.Fun.(*ast.Ident); ok && id.Name == "panic" {
				row.Panics = true
			}
			cal := callee(info, call)
			if cal == nil {
				return true
			}
			if cal.Name() == codeFunc && cal.Pkg() != nil && strings.HasSuffix(cal.Pkg().Path(), "plenccore") {
				// last arg is uint64(jsonTypeX)
				arg := call.Args[len(call.Args)-1]
				if conv, ok := ast.Unparen(arg).(*ast.CallExpr); ok && len(conv.Args) == 1 {
					row.Code = constName(info, conv.Args[0])
					row.Codes[row.Code] = true
				} else {
					row.Codes[exprString(p.Fset, arg)] = true
				}
			}
			if cal.Name() == codecMethod {
				if sel, ok := call.Fun.(*ast.SelectorExpr); ok {
					if nt := namedOf(info.TypeOf(sel.X)); nt != nil {
						row.Codec = nt.Obj().Name()
						row.Tag, row.TagLen = tagVarLen(p, info, call.Args[len(call.Args)-1])
					}
				}
			}
			return true
		})
		rows = append(rows, row)
	}
	return rows, fn
}

type jsonReadRow struct {
	Code     string
	Codec    string // type whose Read is called (or Descriptor type for nested walker reads)
	LocalT   string // type of the local decoded into
	Assigns  bool   // *val = v
	OutCalls int
	Pos      token.Pos
}

// jsonReaderTable parses `switch jType {…}` in readJSONKV / readJSONObjectKV.
func jsonReaderTable(p *Prog, fn *fnRef) (map[string]jsonReadRow, bool) {
	info := fn.Pkg.TypesInfo
	var sw *ast.SwitchStmt
	ast.Inspect(fn.Decl.Body, func(n ast.Node) bool {
		if s, ok := n.(*ast.SwitchStmt); ok && s.Tag != nil {
			if t := info.TypeOf(s.Tag); t != nil && typeName(t) == "jsonType" {
				sw = s
			}
		}
		return true
	})
	if sw == nil {
		return nil, false
	}
	out := map[string]jsonReadRow{}
	for _, st := range sw.Body.List {
		cc := st.(*ast.CaseClause)
		if len(cc.List) == 0 {
			continue
		}
		row := jsonReadRow{Pos: cc.Pos()}
		ast.Inspect(cc, func(n ast.Node) bool {
			switch x := n.(type) {
			case *ast.CallExpr:
				sel, ok := x.Fun.(*ast.SelectorExpr)
				if !ok {
					return true
				}
				if sel.Sel.Name == "Read" && len(x.Args) == 3 {
					if nt := namedOf(info.TypeOf(sel.X)); nt != nil {
						row.Codec = nt.Obj().Name()
					}
				}
				if sel.Sel.Name == "read" && len(x.Args) == 2 {
					// nested walker read through Descriptor{Type: FieldTypeX}
					row.Codec = "Descriptor.read"
				}
				if id, ok := sel.X.(*ast.Ident); ok && id.Name == "out" {
					row.OutCalls++
				}
			case *ast.ValueSpec:
				if len(x.Names) == 1 && x.Names[0].Name == "v" && x.Type != nil {
					row.LocalT = typeStr(info.TypeOf(x.Type))
				}
			case *ast.KeyValueExpr:
				if k, ok := x.Key.(*ast.Ident); ok && k.Name == "Type" {
					row.LocalT = constName(info, x.Value)
				}
			case *ast.AssignStmt:
				if len(x.Lhs) == 1 {
					if star, ok := x.Lhs[0].(*ast.StarExpr); ok {
						if id, ok := star.X.(*ast.Ident); ok && id.Name == "val" {
							row.Assigns = true
						}
					}
				}
			}
			return true
		})
		for _, e := range cc.List {
			out[constName(info, e)] = row
		}
	}
	return out, true
}

func ruleJSONDispatch(c *Ctx) {
	p := c.P
	app, afn := jsonWriterTable(p, "appendJSONValue", "Append", "AppendVarUint")
	siz, sfn := jsonWriterTable(p, "sizeJSONValue", "Size", "SizeVarUint")
	if afn == nil || sfn == nil || len(app) == 0 || len(siz) == 0 {
		c.Oblige("T.jsondispatch", false, token.NoPos, "plenccodec.appendJSONValue", "type switch", "cannot parse the writer dispatch tables: undecided", nil)
		return
	}
	rk := p.findFunc("plenccodec", "", "readJSONKV")
	wk := p.findFunc("plenccodec", "Descriptor", "readJSONObjectKV")
	rtab, ok1 := jsonReaderTable(p, rk)
	wtab, ok2 := jsonReaderTable(p, wk)
	if !ok1 || !ok2 {
		c.Oblige("T.jsondispatch", false, token.NoPos, "plenccodec.readJSONKV", "switch jType", "cannot parse the reader dispatch tables: undecided", nil)
		return
	}
	sizeBy := map[string]jsonRow{}
	for _, r := range siz {
		sizeBy[r.GoType] = r
	}
	codes := map[string]bool{}
	for _, a := range app {
		if a.GoType == "default" {
			s := sizeBy["default"]
			c.Oblige("T.jsondispatch", a.Panics && s.Panics, a.Pos, afn.Name(), "default clauses", "size and append must reject the same set of unsupported dynamic types, consistently", nil)
			continue
		}
		s, ok := sizeBy[a.GoType]
		c.Oblige("T.jsondispatch", ok && s.Code == a.Code && s.Codec == a.Codec && s.TagLen == a.TagLen && a.Code != "", a.Pos, afn.Name(),
			fmt.Sprintf("size/append agree for %s", a.GoType),
			fmt.Sprintf("append uses (code %s, codec %s, tag %s len %d); size uses (code %s, codec %s, tag %s len %d)", a.Code, a.Codec, a.Tag, a.TagLen, s.Code, s.Codec, s.Tag, s.TagLen), nil)
		c.Oblige("T.jsondispatch", len(a.Codes) == 1 && len(s.Codes) == 1, a.Pos, afn.Name(), fmt.Sprintf("one type code for %s", a.GoType),
			fmt.Sprintf("a dynamic type must always be written with the same type code (append can emit %d codes, size %d): the reader maps each code to one dynamic type, so a second code brings the value back as another type (float64(2) as int)", len(a.Codes), len(s.Codes)), nil)
		if codes[a.Code] {
			c.Oblige("T.jsondispatch", false, a.Pos, afn.Name(), "type code "+a.Code+" used twice", "each dynamic type needs its own type code, or it cannot come back with the same dynamic type", nil)
		}
		codes[a.Code] = true
		if a.Codec == "" {
			// value carried by the code alone (nil): the walker must still emit something for it
			has := codeOnlyOutput(p, wk, a.Code)
			c.Oblige("T.jsondispatch.walker", has, wk.Decl.Pos(), wk.Name(), "output for "+a.Code,
				"a value that is encoded by its type code alone (JSON null) has no value field: the descriptor walker must emit an output for the code itself, otherwise an object member renders as `\"k\": ` (invalid JSON)", nil)
			continue
		}
		// typed reader
		r, has := rtab[a.Code]
		wantLocal := a.GoType
		c.Oblige("T.jsondispatch", has && r.Codec == a.Codec && r.LocalT == wantLocal && r.Assigns, r.Pos, rk.Name(), "typed reader case "+a.Code,
			fmt.Sprintf("the value must be read with the codec that wrote it (%s) into a %s and stored into *val; reader uses codec %s into %s (assigns: %v)", a.Codec, wantLocal, r.Codec, r.LocalT, r.Assigns), nil)
		// walker
		w, has := wtab[a.Code]
		okw := has
		if has {
			switch a.Codec {
			case "JSONArrayCodec":
				// the nested walker call emits the container itself
				okw = w.OutCalls == 0 && w.Codec == "Descriptor.read" && w.LocalT == "FieldTypeJSONArray"
			case "JSONMapCodec":
				okw = w.OutCalls == 0 && w.Codec == "Descriptor.read" && w.LocalT == "FieldTypeJSONObject"
			default:
				okw = w.OutCalls == 1 && w.Codec == a.Codec
			}
		}
		c.Oblige("T.jsondispatch.walker", okw, w.Pos, wk.Name(), "walker case "+a.Code,
			fmt.Sprintf("the schema-less walker must decode %s with the same grammar (%s) and emit exactly one value; it uses %s/%s with %d output calls", a.Code, a.Codec, w.Codec, w.LocalT, w.OutCalls), nil)
	}
	// no reader case without a writer
	var extra []string
	for code := range rtab {
		if !codes[code] {
			extra = append(extra, code)
		}
	}
	sort.Strings(extra)
	c.Oblige("T.jsondispatch", len(extra) == 0, rk.Decl.Pos(), rk.Name(), "reader cases without writer", fmt.Sprintf("%v", extra), nil)
	c.Floor("T.jsondispatch", 16)
	c.Floor("T.jsondispatch.walker", 8)
}

// codeOnlyOutput: the walker has an `if jType == <code> { out.X(...) }` (or a
// switch case for the code) that makes an output call.
func codeOnlyOutput(p *Prog, fn *fnRef, code string) bool {
	info := fn.Pkg.TypesInfo
	found := false
	ast.Inspect(fn.Decl.Body, func(n ast.Node) bool {
		var body ast.Node
		switch x := n.(type) {
		case *ast.IfStmt:
			be, ok := ast.Unparen(x.Cond).(*ast.BinaryExpr)
			if !ok || be.Op != token.EQL {
				return true
			}
			if constName(info, be.X) == code || constName(info, be.Y) == code {
				body = x.Body
			}
		case *ast.CaseClause:
			for _, e := range x.List {
				if constName(info, e) == code {
					body = x
				}
			}
		}
		if body == nil {
			return true
		}
		ast.Inspect(body, func(m ast.Node) bool {
			if call, ok := m.(*ast.CallExpr); ok {
				if sel, ok := call.Fun.(*ast.SelectorExpr); ok {
					if id, ok := sel.X.(*ast.Ident); ok && id.Name == "out" {
						found = true
					}
				}
			}
			return true
		})
		return true
	})
	return found
}
