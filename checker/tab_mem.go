package main

import (
	"fmt"
	"go/ast"
	"go/types"
	"sort"
	"strings"
)

// ---------------------------------------------------------------------------
// memory type μ(C) of a codec: the pointee types its methods convert their
// unsafe.Pointer parameter to (type parameters substituted).

type memUse struct {
	Method string
	Type   types.Type
	Pos    ast.Node
	In     string // function in which the conversion occurs
}

type substMap map[*types.TypeParam]types.Type

func substType(t types.Type, s substMap) types.Type {
	switch x := t.(type) {
	case *types.TypeParam:
		if r, ok := s[x]; ok {
			return r
		}
		return t
	case *types.Pointer:
		return types.NewPointer(substType(x.Elem(), s))
	case *types.Slice:
		return types.NewSlice(substType(x.Elem(), s))
	case *types.Named:
		if ta := x.TypeArgs(); ta != nil && ta.Len() > 0 {
			var args []types.Type
			changed := false
			for i := 0; i < ta.Len(); i++ {
				a := substType(ta.At(i), s)
				if a != ta.At(i) {
					changed = true
				}
				args = append(args, a)
			}
			if changed {
				if it, err := types.Instantiate(nil, x.Origin(), args, false); err == nil {
					return it
				}
			}
		}
	}
	return t
}

// methodSubst builds the substitution for the body of the (origin of the)
// instantiated method fn.
func methodSubst(fn *types.Func, outer substMap) substMap {
	s := substMap{}
	sig := fn.Type().(*types.Signature)
	if sig.Recv() == nil {
		return s
	}
	recv := namedOf(sig.Recv().Type())
	if recv == nil {
		return s
	}
	osig := fn.Origin().Type().(*types.Signature)
	rtps := osig.RecvTypeParams()
	targs := recv.TypeArgs()
	if rtps == nil || targs == nil {
		return s
	}
	for i := 0; i < rtps.Len() && i < targs.Len(); i++ {
		s[rtps.At(i)] = substType(targs.At(i), outer)
	}
	return s
}

func unsafePtrParam(info *types.Info, decl *ast.FuncDecl) types.Object {
	for _, o := range paramObjs(info, decl) {
		if o != nil && isUnsafePointer(o.Type()) {
			return o
		}
	}
	return nil
}

// collectMem walks decl's body and records conversions (*T)(param).
func (p *Prog) collectMem(fn *types.Func, s substMap, param types.Object, method string, depth int, seen map[*types.Func]bool, out *[]memUse) {
	ref := p.refOf(fn)
	if ref == nil || ref.Decl.Body == nil || depth > 4 || seen[fn.Origin()] {
		return
	}
	seen[fn.Origin()] = true
	info := ref.Pkg.TypesInfo
	isParam := func(e ast.Expr) bool {
		e = ast.Unparen(e)
		// unsafe.Pointer(ptr) wrapper
		if c, ok := e.(*ast.CallExpr); ok && len(c.Args) == 1 {
			if tv, ok := info.Types[c.Fun]; ok && tv.IsType() && isUnsafePointer(tv.Type) {
				e = ast.Unparen(c.Args[0])
			}
		}
		id, ok := e.(*ast.Ident)
		return ok && info.Uses[id] == param
	}
	ast.Inspect(ref.Decl.Body, func(n ast.Node) bool {
		call, ok := n.(*ast.CallExpr)
		if !ok {
			return true
		}
		if tv, ok := info.Types[call.Fun]; ok && tv.IsType() {
			if pt, ok := tv.Type.Underlying().(*types.Pointer); ok && len(call.Args) == 1 && isParam(call.Args[0]) {
				*out = append(*out, memUse{Method: method, Type: substType(pt.Elem(), s), Pos: call, In: funcName(fn.Origin())})
			}
			return true
		}
		cal := callee(info, call)
		if cal == nil || !inModule(cal.Pkg()) || p.refOf(cal) == nil {
			return true
		}
		for i, a := range call.Args {
			if !isParam(a) {
				continue
			}
			cref := p.refOf(cal)
			ps := paramObjs(cref.Pkg.TypesInfo, cref.Decl)
			if i < len(ps) && ps[i] != nil {
				p.collectMem(cal, methodSubst(cal, s), ps[i], method, depth+1, seen, out)
			}
		}
		return true
	})
}

// memTypes computes the memory uses of codec type ct (instantiated, value
// type) for the pointer-taking methods.
func (p *Prog) memTypes(ct types.Type) []memUse {
	var out []memUse
	named := namedOf(ct)
	if named == nil {
		return nil
	}
	for _, m := range []string{"Omit", "Read", "Size", "Append"} {
		obj, _, _ := types.LookupFieldOrMethod(types.NewPointer(named), true, named.Obj().Pkg(), m)
		fn, ok := obj.(*types.Func)
		if !ok {
			continue
		}
		ref := p.refOf(fn)
		if ref == nil {
			continue
		}
		param := unsafePtrParam(ref.Pkg.TypesInfo, ref.Decl)
		if param == nil {
			continue
		}
		p.collectMem(fn, methodSubst(fn, nil), param, m, 0, map[*types.Func]bool{}, &out)
	}
	return out
}

var sizes = types.SizesFor("gc", "amd64")

// regRow is one RegisterCodec[WithTag] call site.
type regRow struct {
	In      *fnRef
	Call    *ast.CallExpr
	GoType  types.Type // τ
	Codec   types.Type // static type of the codec expression
	Tag     string
	TagExpr ast.Expr
}

func (p *Prog) registrationRows() []regRow {
	var rows []regRow
	for obj, decl := range p.FuncDecl {
		pk := p.DeclPkg[obj]
		if decl.Body == nil {
			continue
		}
		info := pk.TypesInfo
		// a local that is given a value exactly once stands for that value
		// (typ := reflect.TypeOf(X); table := [...]entry{...})
		single := map[types.Object]ast.Expr{}
		multi := map[types.Object]bool{}
		allRHS := map[types.Object][]ast.Expr{}
		note := func(id *ast.Ident, rhs ast.Expr) {
			o := info.Defs[id]
			if o == nil {
				o = info.Uses[id]
			}
			if o == nil {
				return
			}
			allRHS[o] = append(allRHS[o], rhs)
			if _, seen := single[o]; seen || multi[o] {
				multi[o] = true
				delete(single, o)
				return
			}
			single[o] = rhs
		}
		ast.Inspect(decl.Body, func(n ast.Node) bool {
			switch x := n.(type) {
			case *ast.AssignStmt:
				if len(x.Lhs) == len(x.Rhs) {
					for i, l := range x.Lhs {
						if id, ok := l.(*ast.Ident); ok {
							note(id, x.Rhs[i])
						}
					}
				} else {
					for _, l := range x.Lhs {
						if id, ok := l.(*ast.Ident); ok {
							note(id, nil)
							note(id, nil)
						}
					}
				}
			case *ast.ValueSpec:
				for i, nm := range x.Names {
					if i < len(x.Values) {
						note(nm, x.Values[i])
					}
				}
			}
			return true
		})
		var resolve func(e ast.Expr, depth int) ast.Expr
		resolve = func(e ast.Expr, depth int) ast.Expr {
			e = ast.Unparen(e)
			if id, ok := e.(*ast.Ident); ok && depth < 4 {
				if rhs, ok := single[info.Uses[id]]; ok && rhs != nil {
					return resolve(rhs, depth+1)
				}
			}
			return e
		}
		// range loops over a literal table: for _, e := range [...]T{{typ: X, codec: Y}, ...}
		type tableLoop struct {
			rng   *ast.RangeStmt
			v     types.Object
			elems []*ast.CompositeLit
		}
		var loops []tableLoop
		ast.Inspect(decl.Body, func(n ast.Node) bool {
			rng, ok := n.(*ast.RangeStmt)
			if !ok || rng.Value == nil {
				return true
			}
			vid, ok := rng.Value.(*ast.Ident)
			if !ok || info.Defs[vid] == nil {
				return true
			}
			lit, ok := resolve(rng.X, 0).(*ast.CompositeLit)
			if !ok {
				return true
			}
			tl := tableLoop{rng: rng, v: info.Defs[vid]}
			for _, el := range lit.Elts {
				if kv, ok := el.(*ast.KeyValueExpr); ok {
					el = kv.Value
				}
				cl, ok := ast.Unparen(el).(*ast.CompositeLit)
				if !ok {
					return true
				}
				tl.elems = append(tl.elems, cl)
			}
			loops = append(loops, tl)
			return true
		})
		fieldOf := func(cl *ast.CompositeLit, name string) ast.Expr {
			st, ok := info.TypeOf(cl).Underlying().(*types.Struct)
			if !ok {
				return nil
			}
			for i, el := range cl.Elts {
				if kv, ok := el.(*ast.KeyValueExpr); ok {
					if id, ok := kv.Key.(*ast.Ident); ok && id.Name == name {
						return kv.Value
					}
					continue
				}
				if i < st.NumFields() && st.Field(i).Name() == name {
					return el
				}
			}
			return nil
		}
		ast.Inspect(decl.Body, func(n ast.Node) bool {
			call, ok := n.(*ast.CallExpr)
			if !ok {
				return true
			}
			cal := callee(info, call)
			if cal == nil || cal.Pkg() == nil || cal.Pkg().Path() != modPath {
				return true
			}
			if cal.Name() != "RegisterCodec" && cal.Name() != "RegisterCodecWithTag" {
				return true
			}
			if len(call.Args) < 2 {
				return true
			}
			// inside a table loop: one row per element of the table
			var tl *tableLoop
			for i := range loops {
				if loops[i].rng.Body.Pos() <= call.Pos() && call.End() <= loops[i].rng.Body.End() {
					usesV := false
					for _, a := range call.Args {
						ast.Inspect(a, func(m ast.Node) bool {
							if id, ok := m.(*ast.Ident); ok && info.Uses[id] == loops[i].v {
								usesV = true
							}
							return true
						})
					}
					if usesV {
						tl = &loops[i]
					}
				}
			}
			variants := []func(ast.Expr) ast.Expr{func(e ast.Expr) ast.Expr { return resolve(e, 0) }}
			if tl != nil {
				variants = nil
				for _, el := range tl.elems {
					el := el
					variants = append(variants, func(e ast.Expr) ast.Expr {
						e = ast.Unparen(e)
						if sel, ok := e.(*ast.SelectorExpr); ok {
							if id, ok := sel.X.(*ast.Ident); ok && info.Uses[id] == tl.v {
								if fv := fieldOf(el, sel.Sel.Name); fv != nil {
									return resolve(fv, 0)
								}
							}
						}
						return resolve(e, 0)
					})
				}
			}
			// a codec chosen into a local first (c := A{}; if opt { c = B{} }; Register(t, c)): one row per value
			if id, ok := ast.Unparen(call.Args[len(call.Args)-1]).(*ast.Ident); ok && tl == nil {
				if o := info.Uses[id]; o != nil && multi[o] {
					okAll := len(allRHS[o]) > 0
					for _, r := range allRHS[o] {
						if r == nil {
							okAll = false
						}
					}
					if okAll {
						base := variants[0]
						variants = nil
						for _, r := range allRHS[o] {
							r := r
							variants = append(variants, func(e ast.Expr) ast.Expr {
								if eid, ok := ast.Unparen(e).(*ast.Ident); ok && info.Uses[eid] == o {
									return ast.Unparen(r)
								}
								return base(e)
							})
						}
					}
				}
			}
			for _, rs := range variants {
				row := regRow{In: &fnRef{obj, decl, pk}, Call: call}
				// arg0 must be reflect.TypeOf(X)
				if tc, ok := rs(call.Args[0]).(*ast.CallExpr); ok {
					if f := callee(info, tc); isPkgFunc(f, "reflect", "TypeOf") && len(tc.Args) == 1 {
						row.GoType = info.TypeOf(tc.Args[0])
					}
				}
				row.Codec = info.TypeOf(rs(call.Args[len(call.Args)-1]))
				if cal.Name() == "RegisterCodecWithTag" && len(call.Args) == 3 {
					te := rs(call.Args[1])
					row.TagExpr = te
					if v := constOf(info, te); v != nil {
						row.Tag = strings.Trim(v.ExactString(), `"`)
					} else {
						row.Tag = "?"
					}
				}
				rows = append(rows, row)
			}
			return true
		})
	}
	sort.SliceStable(rows, func(i, j int) bool { return rows[i].Call.Pos() < rows[j].Call.Pos() })
	return rows
}

// ruleReg: T.reg + T.mem over all registration rows.
func ruleReg(c *Ctx) {
	p := c.P
	rows := p.registrationRows()
	nrows := 0
	for _, r := range rows {
		// skip the pass-through delegates (RegisterCodec(typ, c) with parameters)
		if r.GoType == nil {
			if _, isIface := r.Codec.Underlying().(*types.Interface); isIface {
				continue
			}
			c.Oblige("T.reg", false, r.Call.Pos(), r.In.Name(), p.str(r.Call), "registration whose Go type is not reflect.TypeOf(X): cannot determine the registered type", nil)
			continue
		}
		if _, isIface := r.Codec.Underlying().(*types.Interface); isIface {
			continue
		}
		nrows++
		construct := fmt.Sprintf("%s[%q] -> %s", typeStr(r.GoType), r.Tag, typeStr(r.Codec))
		uses := p.memTypes(r.Codec)
		if len(uses) == 0 {
			c.Oblige("T.reg", false, r.Call.Pos(), r.In.Name(), construct, "cannot derive the memory type of the codec (no (*T)(ptr) conversion found): undecided", nil)
			continue
		}
		// T.mem: all methods agree
		agree := true
		var first types.Type
		var detail []string
		for _, u := range uses {
			detail = append(detail, fmt.Sprintf("%s:%s@%s", u.Method, typeStr(u.Type), u.In))
			if first == nil {
				first = u.Type
			} else if !types.Identical(first, u.Type) {
				agree = false
			}
		}
		if !agree {
			// reported once per codec type by ruleMemAll (T.mem)
			c.Note("T.reg row %s skipped: codec methods disagree on the memory type (%s)", construct, strings.Join(detail, ", "))
			continue
		}
		ok := sizes.Sizeof(r.GoType) == sizes.Sizeof(first)
		msg := fmt.Sprintf("registered Go type %s (size %d) vs codec memory type %s (size %d)", typeStr(r.GoType), sizes.Sizeof(r.GoType), typeStr(first), sizes.Sizeof(first))
		if ok && r.Tag == "" && !types.Identical(r.GoType, first) {
			ok = false
			msg += "; an untagged registration must use the identical type"
		}
		if ok && r.Tag != "" {
			// tagged variants may reinterpret (int as uint) but the kind class must match
			ok = sameKindClass(r.GoType, first)
			if !ok {
				msg += "; tagged registration reinterprets across kind classes"
			}
		}
		c.Oblige("T.reg", ok, r.Call.Pos(), r.In.Name(), construct, msg, nil)
	}
	c.Floor("T.reg", 28)
	_ = nrows
}

// sameKindClass: both integer kinds of the same width, or identical.
func sameKindClass(a, b types.Type) bool {
	if types.Identical(a, b) {
		return true
	}
	ba, ok1 := a.Underlying().(*types.Basic)
	bb, ok2 := b.Underlying().(*types.Basic)
	if !ok1 || !ok2 {
		return false
	}
	return ba.Info()&types.IsInteger != 0 && bb.Info()&types.IsInteger != 0
}

// ruleMemAll: T.mem for every codec type of the universe (also the ones the
// library never registers itself: BigQuery, JSON, wrappers).
func ruleMemAll(c *Ctx) {
	p := c.P
	for _, ct := range p.Codecs {
		var inst types.Type = ct.Named
		if ct.Generic {
			var args []types.Type
			tps := ct.Named.TypeParams()
			for i := 0; i < tps.Len(); i++ {
				args = append(args, firstTerm(tps.At(i)))
			}
			it, err := types.Instantiate(nil, ct.Named, args, false)
			if err != nil {
				continue
			}
			inst = it
		}
		uses := p.memTypes(inst)
		// encode side and decode side are compared separately: map-like codecs
		// document different conventions for the two (map pointer vs pointer
		// to map pointer).
		agreeAll := true
		var detail []string
		for _, u := range uses {
			detail = append(detail, fmt.Sprintf("%s:%s", u.Method, typeStr(u.Type)))
		}
		var first types.Type
		for _, u := range uses {
			if first == nil {
				first = u.Type
			} else if !types.Identical(first, u.Type) {
				agreeAll = false
			}
		}
		pos := ct.Named.Obj().Pos()
		c.Oblige("T.mem", agreeAll, pos, ct.Name, "memory type of "+ct.Name,
			fmt.Sprintf("Omit/Read/Size/Append must reinterpret ptr as one type; found %s", strings.Join(detail, ", ")), nil)
	}
	c.Floor("T.mem", 26)
}
