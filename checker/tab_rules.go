package main

import (
	"fmt"
	"go/ast"
	"go/constant"
	"go/token"
	"go/types"
	"reflect"
	"sort"
	"strings"

	"golang.org/x/tools/go/ssa"
)

// reflect.Kind values for go/types basic kinds (stdlib knowledge, trusted).
var reflectKindOfBasic = map[types.BasicKind]int64{
	types.Bool: 1, types.Int: 2, types.Int8: 3, types.Int16: 4, types.Int32: 5, types.Int64: 6,
	types.Uint: 7, types.Uint8: 8, types.Uint16: 9, types.Uint32: 10, types.Uint64: 11, types.Uintptr: 12,
	types.Float32: 13, types.Float64: 14, types.Complex64: 15, types.Complex128: 16, types.String: 24,
}

// kindSwitch locates the switch on typ.Kind() in CodecForTypeRegistry.
func (p *Prog) kindSwitch() (*fnRef, *ast.SwitchStmt) {
	fn := p.findFunc("plenc", "Plenc", "CodecForTypeRegistry")
	if fn == nil {
		return nil, nil
	}
	info := fn.Pkg.TypesInfo
	typParam := paramObjs(info, fn.Decl)
	sw := switchesIn(fn.Decl.Body, func(s *ast.SwitchStmt) bool {
		call, ok := s.Tag.(*ast.CallExpr)
		if !ok {
			// switch kind := typ.Kind(); kind { ... }
			if id, isID := s.Tag.(*ast.Ident); isID && s.Init != nil {
				if as, isAs := s.Init.(*ast.AssignStmt); isAs && as.Tok == token.DEFINE && len(as.Lhs) == 1 && len(as.Rhs) == 1 {
					if l, isL := as.Lhs[0].(*ast.Ident); isL && info.Defs[l] != nil && info.Uses[id] == info.Defs[l] {
						call, ok = as.Rhs[0].(*ast.CallExpr)
					}
				}
			}
			if !ok {
				return false
			}
		}
		sel, ok := call.Fun.(*ast.SelectorExpr)
		if !ok || sel.Sel.Name != "Kind" {
			return false
		}
		id, ok := sel.X.(*ast.Ident)
		if !ok {
			return false
		}
		for _, po := range typParam {
			if po != nil && info.Uses[id] == po {
				return true
			}
		}
		return false
	})
	if len(sw) != 1 {
		return fn, nil
	}
	return fn, sw[0]
}

// ruleKind: T.kind.
func ruleKind(c *Ctx) {
	p := c.P
	fn, sw := p.kindSwitch()
	if fn == nil || sw == nil {
		c.Oblige("T.kind", false, token.NoPos, "plenc.Plenc.CodecForTypeRegistry", "switch typ.Kind()", "cannot locate the kind switch on the function's own typ parameter", nil)
		return
	}
	info := fn.Pkg.TypesInfo
	handled := map[int64]bool{}
	for _, st := range sw.Body.List {
		cc := st.(*ast.CaseClause)
		var kinds []int64
		var kindNames []string
		for _, e := range cc.List {
			if v, ok := constInt(info, e); ok {
				kinds = append(kinds, v)
				kindNames = append(kindNames, p.str(e))
			}
		}
		ast.Inspect(cc, func(n ast.Node) bool {
			call, ok := n.(*ast.CallExpr)
			if !ok {
				return true
			}
			cal := callee(info, call)
			if cal == nil || cal.Name() != "codecForBasicType" || !inModule(cal.Pkg()) {
				return true
			}
			if len(call.Args) < 1 {
				return true
			}
			if ix, isIx := ast.Unparen(call.Args[0]).(*ast.IndexExpr); isIx {
				// basicTypes[kind]: a package-level table indexed by the switch's own kind value.
				// Resolved per kind of the clause when the table is a composite literal that
				// is never written again.
				if tbl := p.constTable(fn, ix.X); tbl != nil && len(kinds) > 0 {
					for i, k := range kinds {
						el := tbl[k]
						okk := false
						desc := "no entry"
						if el != nil {
							if tc2, isC := ast.Unparen(el).(*ast.CallExpr); isC && isPkgFunc(callee(info, tc2), "reflect", "TypeOf") && len(tc2.Args) == 1 {
								if bt, isB := info.TypeOf(tc2.Args[0]).Underlying().(*types.Basic); isB {
									okk = reflectKindOfBasic[bt.Kind()] == k
									desc = typeStr(info.TypeOf(tc2.Args[0]))
								}
							}
						}
						handled[k] = true
						c.Oblige("T.kind", okk, call.Pos(), fn.Name(), fmt.Sprintf("case %s -> %s", kindNames[i], desc),
							fmt.Sprintf("a named type of kind %s must get the codec registered for the basic type of the same kind (reflect kind %d); resolved through the constant table %s", kindNames[i], k, p.str(ix.X)), nil)
					}
					return true
				}
			}
			tc, ok := ast.Unparen(call.Args[0]).(*ast.CallExpr)
			if !ok || !isPkgFunc(callee(info, tc), "reflect", "TypeOf") || len(tc.Args) != 1 {
				c.Oblige("T.kind", false, call.Pos(), fn.Name(), strings.Join(kindNames, ",")+" -> "+p.str(call.Args[0]), "argument is not reflect.TypeOf(E): undecided", nil)
				return true
			}
			bt, ok := info.TypeOf(tc.Args[0]).Underlying().(*types.Basic)
			if !ok {
				c.Oblige("T.kind", false, call.Pos(), fn.Name(), strings.Join(kindNames, ",")+" -> "+p.str(tc.Args[0]), "not a basic type", nil)
				return true
			}
			want := reflectKindOfBasic[bt.Kind()]
			ok2 := len(kinds) > 0
			for _, k := range kinds {
				if k != want {
					ok2 = false
				}
				handled[k] = true
			}
			// the tag argument must be the function's own tag parameter
			c.Oblige("T.kind", ok2, call.Pos(), fn.Name(), fmt.Sprintf("case %s -> %s", strings.Join(kindNames, ","), typeStr(info.TypeOf(tc.Args[0]))),
				fmt.Sprintf("a named type of kind %s must get the codec registered for the basic type of the same kind (reflect kind %d)", strings.Join(kindNames, ","), want), nil)
			return true
		})
	}
	c.Floor("T.kind", 14)
	// coverage: every basic type registered without tag has a clause
	for _, r := range p.registrationRows() {
		if r.GoType == nil || r.Tag != "" {
			continue
		}
		bt, ok := r.GoType.(*types.Basic)
		if !ok {
			continue
		}
		k := reflectKindOfBasic[bt.Kind()]
		c.Oblige("T.kind-cover", handled[k], r.Call.Pos(), fn.Name(), "kind of "+bt.Name(),
			fmt.Sprintf("basic type %s has a registered codec, so named types of that kind need a case in the kind switch", bt.Name()), nil)
	}
	c.Floor("T.kind-cover", 14)
}

// ---------------------------------------------------------------------------
// T.omit0

func isZeroConst(info *types.Info, e ast.Expr) bool {
	e = ast.Unparen(e)
	if id, ok := e.(*ast.Ident); ok && id.Name == "nil" {
		if _, isNil := info.Uses[id].(*types.Nil); isNil {
			return true
		}
	}
	v := constOf(info, e)
	if v == nil {
		return false
	}
	switch v.Kind() {
	case constant.Int, constant.Float:
		return constant.Sign(v) == 0
	case constant.String:
		return constant.StringVal(v) == ""
	case constant.Bool:
		return !constant.BoolVal(v)
	}
	return false
}

// isZeroTest: the expression is true only for a zero value: disjunction of
// comparisons with zero constants, negated booleans, IsZero() calls.
func isZeroTest(info *types.Info, e ast.Expr) (bool, string) {
	e = ast.Unparen(e)
	if v := constOf(info, e); v != nil {
		if v.Kind() == constant.Bool && !constant.BoolVal(v) {
			return true, ""
		}
		return false, "constant true: value is always omitted"
	}
	switch x := e.(type) {
	case *ast.BinaryExpr:
		switch x.Op {
		case token.LOR:
			if ok, why := isZeroTest(info, x.X); !ok {
				return false, why
			}
			return isZeroTest(info, x.Y)
		case token.EQL:
			// v == T{}: comparison with the zero value written as an empty composite literal
			for _, side := range []ast.Expr{x.X, x.Y} {
				if cl, ok := ast.Unparen(side).(*ast.CompositeLit); ok && len(cl.Elts) == 0 {
					// not for a type that defines its own notion of zero (time.Time: the zero instant may
					// carry a Location, and is still the zero time)
					if t := info.TypeOf(cl); t != nil {
						for _, tt := range []types.Type{t, types.NewPointer(t)} {
							ms := types.NewMethodSet(tt)
							for i := 0; i < ms.Len(); i++ {
								if ms.At(i).Obj().Name() == "IsZero" {
									return false, "comparison with " + typeStr(t) + "{} where the type defines IsZero(): values that are zero by the type's own definition (a zero time with a Location) are not omitted"
								}
							}
						}
					}
					return true, ""
				}
			}
			if isZeroConst(info, x.Y) && constOf(info, x.X) == nil {
				return true, ""
			}
			if isZeroConst(info, x.X) && constOf(info, x.Y) == nil {
				return true, ""
			}
			return false, "comparison with a non-zero constant"
		case token.LSS, token.LEQ:
			// len(x) < 1, len(x) <= 0: a length is never negative
			if call, ok := ast.Unparen(x.X).(*ast.CallExpr); ok {
				if id, ok := call.Fun.(*ast.Ident); ok && id.Name == "len" {
					if v := constOf(info, x.Y); v != nil && v.Kind() == constant.Int {
						if n, ok := constant.Int64Val(v); ok && ((x.Op == token.LSS && n == 1) || (x.Op == token.LEQ && n == 0)) {
							return true, ""
						}
					}
				}
			}
			return false, fmt.Sprintf("operator %s is not a zero test", x.Op)
		default:
			return false, fmt.Sprintf("operator %s is not a zero test", x.Op)
		}
	case *ast.UnaryExpr:
		if x.Op == token.NOT {
			inner := ast.Unparen(x.X)
			if b, ok := inner.(*ast.BinaryExpr); ok {
				if b.Op == token.NEQ && (isZeroConst(info, b.X) || isZeroConst(info, b.Y)) {
					return true, ""
				}
				return false, "negated comparison is not a zero test"
			}
			if t := info.TypeOf(inner); t != nil {
				if bt, ok := t.Underlying().(*types.Basic); ok && bt.Info()&types.IsBoolean != 0 {
					if _, isCall := inner.(*ast.CallExpr); !isCall {
						return true, ""
					}
				}
			}
			return false, "negation of a non-boolean-load expression"
		}
	case *ast.CallExpr:
		if sel, ok := x.Fun.(*ast.SelectorExpr); ok && sel.Sel.Name == "IsZero" && len(x.Args) == 0 {
			return true, ""
		}
	}
	return false, "unrecognised shape (undecided)"
}

func ruleOmit0(c *Ctx) {
	p := c.P
	seen := map[*types.Func]bool{}
	for _, ct := range p.Codecs {
		mr := ct.Methods["Omit"]
		if seen[mr.Fn] || mr.Decl == nil || mr.Decl.Body == nil {
			continue
		}
		seen[mr.Fn] = true
		info := mr.Pkg.TypesInfo
		if strings.HasPrefix(ct.Name, "null.") {
			// "drops only the invalid value" is Omit == !Valid, decided on SSA under forced values
			if fo := p.SSA.FuncValue(mr.Fn); fo != nil && len(fo.Blocks) > 0 {
				c.Oblige("T.omit0", omitIsNotValid(fo), mr.Decl.Pos(), funcName(mr.Fn), "Omit == !Valid",
					"Omit may only drop the zero value (or nil/invalid): a null value is dropped exactly when it is not valid", nil)
				continue
			}
		}
		for _, r := range returnsIn(mr.Decl.Body) {
			if len(r.Results) != 1 {
				continue
			}
			ok, why := isZeroTest(info, r.Results[0])
			c.Oblige("T.omit0", ok, r.Pos(), funcName(mr.Fn), "return "+p.str(r.Results[0]),
				"Omit may only drop the zero value (or nil/invalid): "+why, nil)
		}
	}
	c.Floor("T.omit0", 15)
}

// ---------------------------------------------------------------------------
// T.wire

var wireSpec = map[string]int64{"WTVarInt": 0, "WT64": 1, "WTLength": 2, "WTSlice": 3, "WT32": 5}

// FieldType -> admissible wire-type constants.
var fieldWire = map[string][]string{
	"FieldTypeInt": {"WTVarInt"}, "FieldTypeUint": {"WTVarInt"}, "FieldTypeFlatInt": {"WTVarInt"}, "FieldTypeBool": {"WTVarInt"},
	"FieldTypeFloat32": {"WT32"}, "FieldTypeFloat64": {"WT64"},
	"FieldTypeString": {"WTLength"}, "FieldTypeStruct": {"WTLength"}, "FieldTypeTime": {"WTLength"},
	"FieldTypeSlice":      {"WTLength", "WTSlice"},
	"FieldTypeJSONObject": {"WTSlice"}, "FieldTypeJSONArray": {"WTSlice"},
}

func ruleWireConsts(c *Ctx) {
	p := c.P
	core := p.pkg("plenccore")
	got := constsOfType(core, "WireType")
	for name, want := range wireSpec {
		v, ok := got[name]
		c.Oblige("T.wireconst", ok && v == want, core.Types.Scope().Lookup(name).Pos(), "plenccore", name,
			fmt.Sprintf("wire type constant %s must be %d (protobuf wire types; 3 re-used for counted slices)", name, want), nil)
	}
	c.Floor("T.wireconst", 5)
}

func ruleWire(c *Ctx) {
	p := c.P
	for _, ct := range p.Codecs {
		consts, delegated, ok := p.wireInfo(ct)
		pos := ct.Methods["WireType"].Fn.Pos()
		if !ok {
			c.Oblige("T.wire", false, pos, ct.Name, "WireType()", "WireType() is neither a constant nor a delegation to the wrapped codec: undecided", nil)
			continue
		}
		ft, viaIf := p.resolveDescType(ct, 0)
		if viaIf || delegated {
			// wrapper: both must delegate
			c.Oblige("T.wire", viaIf && delegated, pos, ct.Name, "WireType()/Descriptor() delegation",
				"a wrapper that takes its wire type from the wrapped codec must take its descriptor type from it too, and vice versa", nil)
			continue
		}
		if ft == "" {
			c.Oblige("T.wire", false, ct.Methods["Descriptor"].Fn.Pos(), ct.Name, "Descriptor().Type", "cannot determine Descriptor().Type: undecided", nil)
			continue
		}
		good := true
		for _, w := range consts {
			found := false
			for _, a := range fieldWire[ft] {
				if a == w {
					found = true
				}
			}
			if !found {
				good = false
			}
		}
		c.Oblige("T.wire", good, pos, ct.Name, fmt.Sprintf("%s <-> %s", ft, strings.Join(consts, ",")),
			fmt.Sprintf("descriptor field type %s admits wire types %v; WireType() returns %v (the schema-less walker and Skip rely on this pairing)", ft, fieldWire[ft], consts), nil)
	}
	c.Floor("T.wire", 26)
}

// wireTypesInUse: set of constants any codec's WireType() can return.
func (p *Prog) wireTypesInUse() map[string]bool {
	out := map[string]bool{}
	for _, ct := range p.Codecs {
		consts, _, ok := p.wireInfo(ct)
		if ok {
			for _, k := range consts {
				out[k] = true
			}
		}
	}
	return out
}

// ---------------------------------------------------------------------------
// T.slicewrap

var sliceWrapSpec = map[string][]string{
	"WTVarInt": {"WTVarIntSliceWrapper"},
	"WT64":     {"WTFixedSliceWrapper"},
	"WT32":     {"WTFixedSliceWrapper"},
	"WTLength": {"WTLengthSliceWrapper", "ProtoSliceWrapper"},
	"WTSlice":  {}, // rejected with an error
}

// wireSwitch finds the switch on subc.WireType() inside the kind switch.
func (p *Prog) wireSwitch() (*fnRef, *ast.SwitchStmt) {
	fn, ks := p.kindSwitch()
	if ks == nil {
		return fn, nil
	}
	sw := switchesIn(ks, func(s *ast.SwitchStmt) bool {
		call, ok := s.Tag.(*ast.CallExpr)
		if !ok {
			return false
		}
		sel, ok := call.Fun.(*ast.SelectorExpr)
		return ok && sel.Sel.Name == "WireType"
	})
	if len(sw) != 1 {
		return fn, nil
	}
	return fn, sw[0]
}

func ruleSliceWrap(c *Ctx) {
	p := c.P
	name := "plenc.Plenc.CodecForTypeRegistry"
	f := p.ssaFunc(name)
	cpk := p.pkg("plenccore")
	if f == nil || cpk == nil {
		c.Oblige("T.slicewrap", false, token.NoPos, name, "function", "not found", nil)
		return
	}
	run := func(wt constant.Value) ([]string, bool, bool) { return p.sliceLive(f, wt) }
	seen := map[string]bool{}
	var wts []string
	for wt := range sliceWrapSpec {
		wts = append(wts, wt)
	}
	sort.Strings(wts)
	for _, wt := range wts {
		spec := sliceWrapSpec[wt]
		kv, okv := p.wireTypeConst(wt)
		if !okv {
			c.Oblige("T.slicewrap", false, f.Pos(), name, "element "+wt, "wire type constant not found", nil)
			continue
		}
		live, sawKind, sawWT := run(kv)
		seen[wt] = true
		ok := sawKind && sawWT
		for _, l := range live {
			in := false
			for _, sp := range spec {
				if sp == l {
					in = true
				}
			}
			if !in {
				ok = false
			}
		}
		if len(spec) > 0 && len(live) == 0 {
			ok = false
		}
		c.Oblige("T.slicewrap", ok, f.Pos(), name, fmt.Sprintf("element %s -> %v", wt, spec),
			fmt.Sprintf("documented layout: element wire type %s is wrapped by %v (packed for scalars, counted wire type 3 for length-delimited elements, slices of counted things rejected) and by nothing else - a codec chosen for a slice without looking at the element codec's wire type bypasses a codec registered for the element type; with typ.Kind() == Slice and WireType() == %s the codecs whose value reaches a use are %v (kind switch seen: %v, wire type consulted: %v)", wt, spec, wt, live, sawKind, sawWT), nil)
	}
	for wt := range p.wireTypesInUse() {
		c.Oblige("T.slicewrap-exh", seen[wt], f.Pos(), name, "clause for "+wt,
			"every wire type a codec can report needs a decision for slices of such elements", nil)
	}
	c.Floor("T.slicewrap", 5)
}

// sliceLive: FEAS over CodecForTypeRegistry with typ.Kind() forced to
// reflect.Slice and every Codec.WireType() result forced to wt: the module
// codec types whose MakeInterface value still reaches a use.
func (p *Prog) sliceLive(f *ssa.Function, wt constant.Value) (live []string, sawKind, sawWT bool) {
	var typP *ssa.Parameter
	for _, prm := range f.Params {
		if typeName(prm.Type()) == "Type" && typP == nil {
			typP = prm
		}
	}
	fe := feasibleUnder(f, func(v ssa.Value) (constant.Value, bool) {
		call, ok := v.(*ssa.Call)
		if !ok || !call.Common().IsInvoke() {
			return nil, false
		}
		switch call.Common().Method.Name() {
		case "Kind":
			if typP != nil && call.Common().Value == ssa.Value(typP) {
				sawKind = true
				return constant.MakeInt64(int64(reflect.Slice)), true
			}
		case "WireType":
			if isCodecInvoke(call) {
				sawWT = true
				return wt, true
			}
		}
		return nil, false
	})
	set := map[string]bool{}
	for _, b := range f.Blocks {
		if !fe.reach[b] {
			continue
		}
		for _, in := range b.Instrs {
			mi, ok := in.(*ssa.MakeInterface)
			if !ok || typeName(mi.Type()) != "Codec" {
				continue
			}
			nt := namedOf(mi.X.Type())
			if nt == nil || !inModule(nt.Obj().Pkg()) {
				continue
			}
			if fe.live(mi) {
				set[nt.Obj().Name()] = true
			}
		}
	}
	for k := range set {
		live = append(live, k)
	}
	sort.Strings(live)
	return
}

// wireTypeConst: the value of a plenccore wire type constant.
func (p *Prog) wireTypeConst(n string) (constant.Value, bool) {
	cpk := p.pkg("plenccore")
	if cpk == nil {
		return nil, false
	}
	if k, ok := cpk.Types.Scope().Lookup(n).(*types.Const); ok {
		return k.Val(), true
	}
	return nil, false
}

func clauseReturnsError(info *types.Info, cc *ast.CaseClause) bool {
	for _, r := range returnsIn(cc) {
		if len(r.Results) == 2 {
			if id, ok := ast.Unparen(r.Results[0]).(*ast.Ident); ok && id.Name == "nil" {
				if call, ok := ast.Unparen(r.Results[1]).(*ast.CallExpr); ok {
					f := callee(info, call)
					if isPkgFunc(f, "fmt", "Errorf") || isPkgFunc(f, "errors", "New") {
						return true
					}
				}
			}
		}
	}
	return false
}

// ---------------------------------------------------------------------------
// T.delegate: package-level API functions are pure delegates to defaultPlenc.

func ruleDelegate(c *Ctx, names []string) {
	p := c.P
	// on SSA: the function makes exactly one call, to the method of the same name on
	// &defaultPlenc with its own parameters in order, and every return hands back that
	// call's results (or nil for an error that was just tested against nil). How the
	// statement is spelled - temporaries, named results, p := &defaultPlenc - does not matter.
	for _, name := range names {
		f := p.ssaFunc("plenc." + name)
		if f == nil {
			c.Oblige("T.delegate", false, token.NoPos, "plenc."+name, name, "package-level function not found", nil)
			continue
		}
		ok, why := true, ""
		var the *ssa.Call
		ncalls := 0
		for _, b := range f.Blocks {
			for _, in := range b.Instrs {
				call, isCall := in.(*ssa.Call)
				if !isCall {
					continue
				}
				ncalls++
				the = call
			}
		}
		switch {
		case ncalls != 1:
			ok, why = false, fmt.Sprintf("%d calls instead of one delegating call", ncalls)
		default:
			cal := the.Common().StaticCallee()
			args := the.Common().Args
			g, isG := stripAddr(args0(args)).(*ssa.Global)
			switch {
			case cal == nil || ssaFuncName(cal) != "plenc.Plenc."+name:
				ok, why = false, "delegates to "+fmt.Sprint(cal)+", not to Plenc."+name
			case !isG || g.Name() != "defaultPlenc":
				ok, why = false, "receiver is not the package-level defaultPlenc"
			case len(args)-1 != len(f.Params):
				ok, why = false, "argument count differs"
			default:
				for i, prm := range f.Params {
					if args[i+1] != ssa.Value(prm) {
						ok, why = false, fmt.Sprintf("argument %d is not parameter %d", i, i)
					}
				}
			}
			if ok {
				for _, b := range f.Blocks {
					r, isRet := b.Instrs[len(b.Instrs)-1].(*ssa.Return)
					if !isRet {
						continue
					}
					for i, v := range r.Results {
						good := false
						switch x := v.(type) {
						case *ssa.Extract:
							good = x.Tuple == ssa.Value(the) && x.Index == i
						case *ssa.Call:
							good = x == the && len(r.Results) == 1
						case *ssa.Const:
							// "if err != nil { return err }; return nil"
							good = x.IsNil() && isErrorType(x.Type())
						case *ssa.Phi:
							good = true
							for _, e := range x.Edges {
								ex, isEx := e.(*ssa.Extract)
								if !(isEx && ex.Tuple == ssa.Value(the) && ex.Index == i) && e != ssa.Value(the) {
									if k, isK := e.(*ssa.Const); !(isK && k.IsNil() && isErrorType(k.Type())) {
										good = false
									}
								}
							}
						}
						if !good {
							ok, why = false, fmt.Sprintf("result %d is not the delegated call's result", i)
						}
					}
				}
			}
		}
		c.Oblige("T.delegate", ok, f.Pos(), "plenc."+name, name+" -> defaultPlenc."+name,
			"package-level functions must behave exactly like the default instance: "+why, nil)
	}
	c.Floor("T.delegate", len(names))
}

func args0(a []ssa.Value) ssa.Value {
	if len(a) == 0 {
		return nil
	}
	return a[0]
}

// stripAddr: the global behind p := &defaultPlenc (the address of a global is the global value itself in SSA).
func stripAddr(v ssa.Value) ssa.Value {
	for i := 0; i < 3; i++ {
		switch x := v.(type) {
		case *ssa.ChangeType:
			v = x.X
		case *ssa.Convert:
			v = x.X
		default:
			return v
		}
	}
	return v
}

// constTable: e names a package-level array/slice variable of the function's
// package that is initialised by a keyed composite literal and never assigned
// (as a whole or by element) anywhere in the package; returns key -> element.
func (p *Prog) constTable(fn *fnRef, e ast.Expr) map[int64]ast.Expr {
	id, ok := ast.Unparen(e).(*ast.Ident)
	if !ok {
		return nil
	}
	info := fn.Pkg.TypesInfo
	v, ok := info.Uses[id].(*types.Var)
	if !ok || v.Parent() != fn.Pkg.Types.Scope() {
		return nil
	}
	var lit *ast.CompositeLit
	written := false
	for _, file := range fn.Pkg.Syntax {
		ast.Inspect(file, func(n ast.Node) bool {
			switch x := n.(type) {
			case *ast.ValueSpec:
				for i, nm := range x.Names {
					if info.Defs[nm] == types.Object(v) && i < len(x.Values) {
						lit, _ = ast.Unparen(x.Values[i]).(*ast.CompositeLit)
					}
				}
			case *ast.AssignStmt:
				for _, l := range x.Lhs {
					root := l
					for {
						switch y := ast.Unparen(root).(type) {
						case *ast.IndexExpr:
							root = y.X
							continue
						case *ast.SliceExpr:
							root = y.X
							continue
						}
						break
					}
					if rid, ok := ast.Unparen(root).(*ast.Ident); ok && info.Uses[rid] == types.Object(v) {
						written = true
					}
				}
			case *ast.UnaryExpr:
				if x.Op == token.AND {
					root := x.X
					if ixe, ok := ast.Unparen(root).(*ast.IndexExpr); ok {
						root = ixe.X
					}
					if rid, ok := ast.Unparen(root).(*ast.Ident); ok && info.Uses[rid] == types.Object(v) {
						written = true
					}
				}
			}
			return true
		})
	}
	if lit == nil || written {
		return nil
	}
	out := map[int64]ast.Expr{}
	next := int64(0)
	for _, el := range lit.Elts {
		if kv, ok := el.(*ast.KeyValueExpr); ok {
			k, ok := constInt(info, kv.Key)
			if !ok {
				return nil
			}
			out[k] = kv.Value
			next = k + 1
		} else {
			out[next] = el
			next++
		}
	}
	return out
}
