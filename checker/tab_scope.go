package main

import (
	"fmt"
	"go/ast"
	"go/constant"
	"go/token"
	"go/types"
	"sort"
	"strings"

	"golang.org/x/tools/go/ssa"
)

// containsRegistryState: type (recursively) contains a sync.Map or a map.
func containsRegistryState(t types.Type, depth int) bool {
	if depth > 6 {
		return false
	}
	switch u := t.(type) {
	case *types.Named:
		if u.Obj().Pkg() != nil && u.Obj().Pkg().Path() == "sync" && u.Obj().Name() == "Map" {
			return true
		}
		return containsRegistryState(u.Underlying(), depth+1)
	case *types.Struct:
		for i := 0; i < u.NumFields(); i++ {
			if containsRegistryState(u.Field(i).Type(), depth+1) {
				return true
			}
		}
	case *types.Map:
		return true
	case *types.Pointer:
		return containsRegistryState(u.Elem(), depth+1)
	case *types.Array:
		return containsRegistryState(u.Elem(), depth+1)
	}
	return false
}

// ruleDefaultPlencScope: X.who(defaultPlenc) + enumeration of registry-like globals.
func ruleDefaultPlencScope(c *Ctx) {
	p := c.P
	// enumerate package-level variables that could hold registrations
	for _, pk := range p.Pkgs {
		sc := pk.Types.Scope()
		for _, n := range sc.Names() {
			v, ok := sc.Lookup(n).(*types.Var)
			if !ok {
				continue
			}
			if containsRegistryState(v.Type(), 0) {
				ok := pk.PkgPath == modPath && n == "defaultPlenc"
				c.Oblige("X.who.registries", ok, v.Pos(), shortPkg(pk.PkgPath), "package-level registry "+n,
					"the only package-level registry is plenc.defaultPlenc; any other global that can hold codecs would be shared by every instance", nil)
			}
		}
	}
	c.Floor("X.who.registries", 1)
	nref := 0
	for _, f := range p.moduleFuncs() {
		name := ssaFuncName(f)
		for _, b := range f.Blocks {
			for _, in := range b.Instrs {
				for _, op := range in.Operands(nil) {
					g, ok := (*op).(*ssa.Global)
					if !ok || g.Name() != "defaultPlenc" || g.Pkg == nil || g.Pkg.Pkg.Path() != modPath {
						continue
					}
					nref++
					ok2 := f.Signature.Recv() == nil && f.Parent() == nil && f.Pkg != nil && f.Pkg.Pkg.Path() == modPath
					c.Oblige("X.who.default", ok2, in.Pos(), name, "reference to defaultPlenc",
						"only package-level functions of package plenc (and init) may use the default instance; a method or another package reaching it would make every instance share its registrations", nil)
				}
			}
		}
	}
	c.Floor("X.who.default", 7)
}

// ruleOwnRegistry: methods reach a registry only through their own receiver
// or through the registry argument they were given.
func ruleOwnRegistry(c *Ctx) {
	p := c.P
	for _, f := range p.moduleFuncs() {
		if f.Signature.Recv() == nil || f.Pkg == nil || f.Pkg.Pkg.Path() != modPath {
			continue
		}
		rn := recvTypeName(f)
		if rn != "Plenc" && rn != "baseRegistry" {
			continue
		}
		name := ssaFuncName(f)
		for _, b := range f.Blocks {
			for _, in := range b.Instrs {
				fa, ok := in.(*ssa.FieldAddr)
				if !ok || fieldName(fa) != "codecRegistry" {
					continue
				}
				c.Oblige("X.ownregistry", fa.X == ssa.Value(f.Params[0]), fa.Pos(), name, "access to "+rn+".codecRegistry",
					"a method must use the registry of its own receiver only", nil)
			}
		}
	}
	c.Floor("X.ownregistry", 6)
	// registry argument is threaded through every recursive build call
	for _, fn := range []string{"plenc.Plenc.CodecForTypeRegistry", "plenccodec.BuildMapCodec"} {
		f := p.ssaFunc(fn)
		if f == nil {
			c.Oblige("X.threadregistry", false, token.NoPos, fn, "function", "not found", nil)
			continue
		}
		var regParam *ssa.Parameter
		for _, prm := range f.Params {
			if typeName(prm.Type()) == "CodecRegistry" {
				regParam = prm
			}
		}
		for _, b := range f.Blocks {
			for _, in := range b.Instrs {
				call, ok := in.(*ssa.Call)
				if !ok {
					continue
				}
				cc := call.Common()
				callee := ""
				var args []ssa.Value
				if cc.IsInvoke() {
					callee = cc.Method.Name()
					args = cc.Args
				} else if sc := cc.StaticCallee(); sc != nil {
					callee = sc.Name()
					args = cc.Args
					if sc.Signature.Recv() != nil {
						args = args[1:]
					}
				}
				// the registry itself, or a wrapper that embeds it (a struct value holding the parameter,
				// converted to the interface): lookups fall through to the same registry
				var fromParam func(v ssa.Value, depth int) bool
				fromParam = func(v ssa.Value, depth int) bool {
					if depth > 6 || v == nil {
						return false
					}
					if v == ssa.Value(regParam) {
						return true
					}
					switch x := v.(type) {
					case *ssa.MakeInterface:
						return fromParam(x.X, depth+1)
					case *ssa.ChangeInterface:
						return fromParam(x.X, depth+1)
					case *ssa.Phi:
						for _, e := range x.Edges {
							if !fromParam(e, depth+1) {
								return false
							}
						}
						return len(x.Edges) > 0
					case *ssa.UnOp:
						if al, ok := x.X.(*ssa.Alloc); ok {
							if _, isStruct := deref(al.Type()).Underlying().(*types.Struct); isStruct {
								for _, r := range *al.Referrers() {
									if fa, ok := r.(*ssa.FieldAddr); ok {
										if st, ok := deref(fa.X.Type()).Underlying().(*types.Struct); ok && st.Field(fa.Field).Embedded() && typeName(st.Field(fa.Field).Type()) == "CodecRegistry" {
											for _, r2 := range *fa.Referrers() {
												if s2, ok := r2.(*ssa.Store); ok && fromParam(s2.Val, depth+1) {
													return true
												}
											}
										}
									}
								}
							}
						}
					}
					return false
				}
				switch callee {
				case "CodecForTypeRegistry":
					c.Oblige("X.threadregistry", len(args) > 0 && fromParam(args[0], 0), call.Pos(), fn, "recursive CodecForTypeRegistry(registry, …)",
						"codecs for pointer targets, slice elements, map keys and values must be looked up in the same registry, so a registration wins at every position", nil)
				case "BuildStructCodec", "BuildMapCodec":
					c.Oblige("X.threadregistry", len(args) > 1 && fromParam(args[1], 0), call.Pos(), fn, callee+"(p, registry, …)",
						"struct and map builders must receive the registry the lookup started from", nil)
				}
			}
		}
	}
	c.Floor("X.threadregistry", 6)
}

// ruleRegistryKey: T.key – Load/Store/StoreOrSwap build the key from their own
// (typ, tag) parameters; the Plenc methods pass their arguments on in order.
func ruleRegistryKey(c *Ctx) {
	p := c.P
	for _, m := range []string{"Load", "Store", "StoreOrSwap"} {
		fn := p.findFunc("plenc", "baseRegistry", m)
		if fn == nil {
			c.Oblige("T.key", false, token.NoPos, "plenc.baseRegistry."+m, m, "not found", nil)
			continue
		}
		// on SSA: every registryKey value handed to the sync.Map has its typ field
		// stored from the typ parameter and its tag field from the tag parameter
		// (a composite literal and field-by-field assignment are the same here)
		f := p.ssaFunc("plenc.baseRegistry." + m)
		if f == nil {
			c.Oblige("T.key", false, fn.Decl.Pos(), fn.Name(), "registryKey{typ, tag}", "no SSA body", nil)
			continue
		}
		byName := map[string]*ssa.Parameter{}
		for _, prm := range f.Params {
			byName[prm.Name()] = prm
		}
		var typP, tagP *ssa.Parameter
		for _, prm := range f.Params {
			if typeName(prm.Type()) == "Type" && typP == nil {
				typP = prm
			}
			if isStringType(prm.Type()) && tagP == nil {
				tagP = prm
			}
		}
		found := false
		for _, b := range f.Blocks {
			for _, in := range b.Instrs {
				al, ok := in.(*ssa.Alloc)
				if !ok || typeName(deref(al.Type())) != "registryKey" {
					continue
				}
				found = true
				got := map[string]bool{}
				nst := map[string]int{}
				for _, r := range *al.Referrers() {
					fa, ok := r.(*ssa.FieldAddr)
					if !ok {
						continue
					}
					for _, r2 := range *fa.Referrers() {
						if st, ok := r2.(*ssa.Store); ok && st.Addr == ssa.Value(fa) {
							k := fieldName(fa)
							nst[k]++
							if (k == "typ" && typP != nil && st.Val == ssa.Value(typP)) || (k == "tag" && tagP != nil && st.Val == ssa.Value(tagP)) {
								got[k] = true
							}
						}
					}
				}
				c.Oblige("T.key", got["typ"] && got["tag"] && nst["typ"] == 1 && nst["tag"] == 1, al.Pos(), fn.Name(), "registryKey{typ, tag}",
					"the registry key must be built from the method's own typ and tag parameters (dropping tag would make flat/intern/proto registrations collide with the plain ones)", nil)
			}
		}
		if !found {
			c.Oblige("T.key", false, fn.Decl.Pos(), fn.Name(), "registryKey{typ, tag}", "no registryKey value found: undecided", nil)
		}
	}
	// argument threading of the Plenc methods, on SSA and by parameter position:
	// P<i> is the method's i-th parameter (receiver = 0), "" the empty tag, reg
	// the receiver's own registry; a method may also hand on to its more general
	// sibling with the same arguments
	type alt struct {
		callee string
		args   []string
	}
	type want struct {
		recv, name string
		alts       []alt
	}
	for _, w := range []want{
		{"Plenc", "RegisterCodec", []alt{{"Store", []string{"P1", `""`, "P2"}}, {"RegisterCodecWithTag", []string{"P1", `""`, "P2"}}}},
		{"Plenc", "RegisterCodecWithTag", []alt{{"Store", []string{"P1", "P2", "P3"}}}},
		{"Plenc", "CodecForType", []alt{{"CodecForTypeRegistry", []string{"reg", "P1", `""`}}, {"CodecForTypeWithTag", []string{"P1", `""`}}}},
		{"Plenc", "CodecForTypeWithTag", []alt{{"CodecForTypeRegistry", []string{"reg", "P1", "P2"}}}},
		{"Plenc", "codecForBasicType", []alt{{"Load", []string{"P1", "P2"}}}},
	} {
		fn := p.findFunc("plenc", w.recv, w.name)
		sf := p.ssaFunc("plenc." + w.recv + "." + w.name)
		if fn == nil || sf == nil {
			c.Oblige("T.key", false, token.NoPos, "plenc."+w.recv+"."+w.name, w.name, "not found", nil)
			continue
		}
		matches := func(v ssa.Value, pat string) bool {
			switch {
			case pat == `""`:
				k, isK := v.(*ssa.Const)
				return isK && k.Value != nil && k.Value.Kind() == constant.String && constant.StringVal(k.Value) == ""
			case pat == "reg":
				if mi, isMI := v.(*ssa.MakeInterface); isMI {
					v = mi.X
				}
				fa, isFA := v.(*ssa.FieldAddr)
				return isFA && fieldName(fa) == "codecRegistry" && fa.X == ssa.Value(sf.Params[0])
			case strings.HasPrefix(pat, "P"):
				n := int(pat[1] - '0')
				return n < len(sf.Params) && v == ssa.Value(sf.Params[n])
			}
			return false
		}
		got := ""
		ncalls, nmatch := 0, 0
		for _, b := range sf.Blocks {
			for _, in := range b.Instrs {
				call, isCall := in.(*ssa.Call)
				if !isCall {
					continue
				}
				cc := call.Common()
				cname, args := "", cc.Args
				if cc.IsInvoke() {
					cname = cc.Method.Name()
				} else if cal := cc.StaticCallee(); cal != nil {
					cname = cal.Name()
					if cal.Signature.Recv() != nil && len(args) > 0 {
						args = args[1:]
					}
				}
				// every call to one of the listed callees must be the documented one:
				// a second lookup under another key, a second store, is a different key
				named, matched := false, false
				for _, a := range w.alts {
					if a.callee != cname {
						continue
					}
					named = true
					if len(args) != len(a.args) {
						continue
					}
					all := true
					for k2, pat := range a.args {
						if !matches(args[k2], pat) {
							all = false
						}
					}
					if all {
						matched = true
					}
				}
				if named {
					got = cname
					ncalls++
					if matched {
						nmatch++
					}
				}
			}
		}
		ok := ncalls > 0 && ncalls == nmatch
		c.Oblige("T.key", ok, fn.Decl.Pos(), fn.Name(), w.name+" -> "+w.alts[0].callee+"("+strings.Join(w.alts[0].args, ", ")+")",
			"registrations and lookups must use exactly (type, tag): the call to "+got+" does not hand on the method's own parameters in their roles", nil)
	}
	c.Floor("T.key", 8)
}

// ruleLookupFirst: the kind switch is dominated by the miss branch of
// registry.Load(typ, tag) on the function's own parameters.
func ruleLookupFirst(c *Ctx) {
	f := c.P.ssaFunc("plenc.Plenc.CodecForTypeRegistry")
	if f == nil {
		c.Oblige("X.dom.lookup", false, token.NoPos, "plenc.Plenc.CodecForTypeRegistry", "function", "not found", nil)
		return
	}
	name := ssaFuncName(f)
	var load *ssa.Call
	var kind *ssa.Call
	for _, b := range f.Blocks {
		for _, in := range b.Instrs {
			call, ok := in.(*ssa.Call)
			if !ok || !call.Common().IsInvoke() {
				continue
			}
			switch call.Common().Method.Name() {
			case "Load":
				if load == nil {
					load = call
				}
			case "Kind":
				if kind == nil && call.Common().Value == ssa.Value(f.Params[2]) {
					kind = call
				}
			}
		}
	}
	ok := false
	why := ""
	switch {
	case load == nil || kind == nil:
		why = "cannot find registry.Load / typ.Kind()"
	case load.Common().Value != ssa.Value(f.Params[1]) || load.Common().Args[0] != ssa.Value(f.Params[2]) || load.Common().Args[1] != ssa.Value(f.Params[3]):
		why = "Load is not called on the registry argument with the function's own (typ, tag)"
	default:
		// the hit branch returns the loaded codec; the kind switch is dominated by the miss branch
		for _, d := range f.Blocks {
			iff, isIf := d.Instrs[len(d.Instrs)-1].(*ssa.If)
			if !isIf {
				continue
			}
			cmp, isCmp := iff.Cond.(*ssa.BinOp)
			if !isCmp || !((cmp.X == ssa.Value(load) && isNilConst(cmp.Y)) || (cmp.Y == ssa.Value(load) && isNilConst(cmp.X))) {
				continue
			}
			missIdx := 1
			if cmp.Op == token.EQL {
				missIdx = 0
			}
			hit := d.Succs[1-missIdx]
			hitReturns := false
			if r, isRet := hit.Instrs[len(hit.Instrs)-1].(*ssa.Return); isRet && len(r.Results) == 2 && r.Results[0] == ssa.Value(load) && isNilConst(r.Results[1]) {
				hitReturns = true
			}
			if hitReturns && (d.Succs[missIdx] == kind.Block() || d.Succs[missIdx].Dominates(kind.Block())) {
				ok = true
			} else {
				why = fmt.Sprintf("hit branch returns the registered codec: %v; kind switch dominated by the miss branch: %v", hitReturns, d.Succs[missIdx].Dominates(kind.Block()))
			}
		}
		if !ok && why == "" {
			why = "no nil test on the loaded codec"
		}
		// nothing is refused before the registry has been asked: a validation of
		// (kind, tag) ahead of the lookup turns away codecs registered under that key
		for _, b := range f.Blocks {
			if r, isRet := b.Instrs[len(b.Instrs)-1].(*ssa.Return); isRet && isFailureReturnLoose(f, r) {
				if !(load.Block() == b || load.Block().Dominates(b)) {
					ok = false
					why = "a failure return is reachable before registry.Load"
				}
			}
		}
	}
	c.Oblige("X.dom.lookup", ok, f.Pos(), name, "registry.Load(typ, tag) before the kind switch",
		"a registered codec must take precedence over the kind-based defaults: "+why, nil)
	c.Floor("X.dom.lookup", 1)
}

// ---------------------------------------------------------------------------
// options (C12 / C17g)

// optionUses: every read of a Plenc option field, with the function it is in.
func ruleOptionScope(c *Ctx) {
	p := c.P
	allowed := map[string]string{"ProtoCompatibleArrays": "plenc.Plenc.CodecForTypeRegistry", "ProtoCompatibleTime": "plenc.Plenc.RegisterDefaultCodecs"}
	count := map[string]int{}
	for _, f := range p.moduleFuncs() {
		name := ssaFuncName(f)
		for _, b := range f.Blocks {
			for _, in := range b.Instrs {
				fa, ok := in.(*ssa.FieldAddr)
				if !ok || typeName(deref(fa.X.Type())) != "Plenc" {
					continue
				}
				fn := fieldName(fa)
				want, isOpt := allowed[fn]
				if !isOpt {
					continue
				}
				count[fn]++
				ownRecv := len(f.Params) > 0 && fa.X == ssa.Value(f.Params[0])
				reads := true
				for _, r := range *fa.Referrers() {
					if _, isStore := r.(*ssa.Store); isStore {
						reads = false
					}
				}
				c.Oblige("X.who.option", name == want && ownRecv && reads, fa.Pos(), name, "read of option "+fn,
					"option "+fn+" may only be consulted at its single decision point ("+want+") on the method's own receiver: each switch changes only its own encoding, per instance", nil)
			}
		}
	}
	c.Oblige("X.who.option", count["ProtoCompatibleArrays"] == 1 && count["ProtoCompatibleTime"] == 1, token.NoPos, "plenc.Plenc", "one decision point per option",
		fmt.Sprintf("each option must be read at exactly one place (found %v)", count), nil)
	c.Floor("X.who.option", 3)

	// decision points select the documented codecs. Decided on SSA by forcing the
	// option: with the option set, the then-codec is built on a feasible path and
	// its value reaches a use while the else-codec's value reaches none; with the
	// option cleared the else-codec's value reaches a use. (How the test is
	// written - if/else, negated, a default overwritten under the option - does
	// not matter; other disjuncts such as tag == "proto" stay free.)
	check := func(fnName, field, thenType, elseType string) {
		f := p.ssaFunc("plenc.Plenc." + fnName)
		if f == nil {
			c.Oblige("X.dom.option", false, token.NoPos, "plenc.Plenc."+fnName, field, "function not found", nil)
			return
		}
		liveUnder := func(force bool) (map[string]bool, bool) {
			fe := feasibleUnder(f, func(v ssa.Value) (constant.Value, bool) {
				u, ok := v.(*ssa.UnOp)
				if !ok || u.Op != token.MUL {
					return nil, false
				}
				fa, ok := u.X.(*ssa.FieldAddr)
				if ok && fieldName(fa) == field && len(f.Params) > 0 && fa.X == ssa.Value(f.Params[0]) {
					return constant.MakeBool(force), true
				}
				return nil, false
			})
			live := map[string]bool{}
			for _, b := range f.Blocks {
				if !fe.reach[b] {
					continue
				}
				for _, in := range b.Instrs {
					if mi, ok := in.(*ssa.MakeInterface); ok {
						tn := typeName(mi.X.Type())
						if (tn == thenType || tn == elseType) && fe.live(mi) {
							live[tn] = true
						}
					}
				}
			}
			return live, fe.sawLeaf
		}
		on, saw1 := liveUnder(true)
		off, saw2 := liveUnder(false)
		ok2 := saw1 && saw2 && on[thenType] && !on[elseType] && off[elseType]
		c.Oblige("X.dom.option", ok2, f.Pos(), ssaFuncName(f), field+" selects "+thenType+" / "+elseType,
			fmt.Sprintf("the option must select exactly the documented codec: with it set the codecs whose value reaches a use are %v, with it cleared %v (option read: %v)", keysOf(on), keysOf(off), saw1 && saw2), nil)
	}
	check("CodecForTypeRegistry", "ProtoCompatibleArrays", "ProtoSliceWrapper", "WTLengthSliceWrapper")
	check("RegisterDefaultCodecs", "ProtoCompatibleTime", "TimeCompatCodec", "TimeCodec")
	c.Floor("X.dom.option", 2)
}

// condEnables: the condition is a disjunction one of whose disjuncts is exactly
// the option field (so setting the option makes the condition true).
func condEnables(info *types.Info, cond ast.Expr, field string) bool {
	cond = ast.Unparen(cond)
	if be, ok := cond.(*ast.BinaryExpr); ok && be.Op == token.LOR {
		return condEnables(info, be.X, field) || condEnables(info, be.Y, field)
	}
	if sel, ok := cond.(*ast.SelectorExpr); ok {
		if v, ok := usedObj(info, sel).(*types.Var); ok && v.IsField() && v.Name() == field {
			return true
		}
	}
	return false
}

func codecLitsIn(p *Prog, info *types.Info, n ast.Node) []string {
	var out []string
	ast.Inspect(n, func(x ast.Node) bool {
		if cl, ok := x.(*ast.CompositeLit); ok {
			if nt := namedOf(info.TypeOf(cl)); nt != nil && inModule(nt.Obj().Pkg()) {
				if types.Implements(nt, p.CodecIf) || types.Implements(types.NewPointer(nt), p.CodecIf) {
					out = append(out, nt.Obj().Name())
				}
			}
		}
		return true
	})
	return out
}

func keysOf(m map[string]bool) []string {
	var out []string
	for k, v := range m {
		if v {
			out = append(out, k)
		}
	}
	sort.Strings(out)
	return out
}
