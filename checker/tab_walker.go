package main

import (
	"fmt"
	"go/ast"
	"go/token"
	"go/types"
	"sort"
	"strings"

	"golang.org/x/tools/go/ssa"
)

// fieldTypeSwitch finds the switch on <recv>.Type / elt.Type in a Descriptor method.
func fieldTypeSwitch(p *Prog, fn *fnRef) *ast.SwitchStmt {
	info := fn.Pkg.TypesInfo
	sws := switchesIn(fn.Decl.Body, func(s *ast.SwitchStmt) bool {
		if s.Tag == nil {
			return false
		}
		t := info.TypeOf(s.Tag)
		return t != nil && typeName(t) == "FieldType"
	})
	if len(sws) == 0 {
		return nil
	}
	return sws[0]
}

// descTypeWires: FieldType constant -> set of wire types of the codecs that
// report it (wrappers that delegate are skipped).
func (p *Prog) descTypeWires() map[string]map[string]bool {
	out := map[string]map[string]bool{}
	for _, ct := range p.Codecs {
		ft, via := p.resolveDescType(ct, 0)
		if via || ft == "" {
			continue
		}
		consts, _, ok := p.wireInfo(ct)
		if !ok {
			continue
		}
		if out[ft] == nil {
			out[ft] = map[string]bool{}
		}
		for _, w := range consts {
			out[ft][w] = true
		}
	}
	return out
}

func ruleWalker(c *Ctx) {
	p := c.P
	cpk := p.pkg("plenccodec")
	ftConsts := constsOfType(cpk, "FieldType")
	// (a) exhaustiveness of Descriptor.read
	read := p.findFunc("plenccodec", "Descriptor", "read")
	if read == nil {
		c.Oblige("T.walker-exh", false, token.NoPos, "plenccodec.Descriptor.read", "function", "not found", nil)
		return
	}
	info := read.Pkg.TypesInfo
	sw := fieldTypeSwitch(p, read)
	if sw == nil {
		c.Oblige("T.walker-exh", false, read.Decl.Pos(), read.Name(), "switch d.Type", "not found", nil)
		return
	}
	have := map[string]*ast.CaseClause{}
	for _, st := range sw.Body.List {
		cc := st.(*ast.CaseClause)
		for _, e := range cc.List {
			have[constName(info, e)] = cc
		}
	}
	var names []string
	for n := range ftConsts {
		names = append(names, n)
	}
	sort.Strings(names)
	for _, n := range names {
		c.Oblige("T.walker-exh", have[n] != nil, sw.Pos(), read.Name(), "case "+n, "the schema-less walker needs a clause for every field type a descriptor can carry", nil)
	}
	c.Floor("T.walker-exh", 12)

	// (e) each scalar clause decodes with a codec that reports that field type, and makes one output call
	for _, n := range names {
		cc := have[n]
		if cc == nil {
			continue
		}
		var readCodecs []string
		outCalls := 0
		ast.Inspect(cc, func(x ast.Node) bool {
			call, ok := x.(*ast.CallExpr)
			if !ok {
				return true
			}
			sel, ok := call.Fun.(*ast.SelectorExpr)
			if !ok {
				return true
			}
			if sel.Sel.Name == "Read" && len(call.Args) == 3 {
				if nt := namedOf(info.TypeOf(sel.X)); nt != nil {
					readCodecs = append(readCodecs, nt.Obj().Name())
				}
			}
			if id, ok := sel.X.(*ast.Ident); ok && id.Name == "out" {
				if _, isIf := info.TypeOf(id).Underlying().(*types.Interface); isIf {
					outCalls++
				}
			}
			return true
		})
		if len(readCodecs) == 0 {
			continue // container clauses
		}
		good := true
		for _, rc := range readCodecs {
			ct := p.codec("plenccodec." + rc)
			if ct == nil {
				good = false
				continue
			}
			ft, _ := p.resolveDescType(ct, 0)
			if ft != n {
				good = false
			}
		}
		c.Oblige("T.walker-codec", good && outCalls == len(readCodecs), cc.Pos(), read.Name(), fmt.Sprintf("case %s reads with %v", n, readCodecs),
			fmt.Sprintf("a scalar clause must decode with a codec whose own descriptor reports %s (same wire grammar as the producers) and emit exactly one value per decode (output calls: %d)", n, outCalls), nil)
	}
	c.Floor("T.walker-codec", 8)

	// (b) packed/counted split of readAsSlice
	ras := p.findFunc("plenccodec", "Descriptor", "readAsSlice")
	if ras == nil {
		c.Oblige("T.walker-split", false, token.NoPos, "plenccodec.Descriptor.readAsSlice", "function", "not found", nil)
		return
	}
	sw2 := fieldTypeSwitch(p, ras)
	if sw2 == nil {
		c.Oblige("T.walker-split", false, ras.Decl.Pos(), ras.Name(), "switch elt.Type", "not found", nil)
		return
	}
	info2 := ras.Pkg.TypesInfo
	packed, counted := map[string]bool{}, map[string]bool{}
	for _, st := range sw2.Body.List {
		cc := st.(*ast.CaseClause)
		if len(cc.List) == 0 {
			continue
		}
		// counted clauses read a count with ReadVarUint first; packed ones loop over elt.read directly
		isCounted := false
		ast.Inspect(cc, func(x ast.Node) bool {
			if call, ok := x.(*ast.CallExpr); ok {
				if cal := callee(info2, call); cal != nil && cal.Name() == "ReadVarUint" {
					isCounted = true
				}
			}
			return true
		})
		for _, e := range cc.List {
			if isCounted {
				counted[constName(info2, e)] = true
			} else {
				packed[constName(info2, e)] = true
			}
		}
	}
	wires := p.descTypeWires()
	for _, n := range names {
		ws := wires[n]
		if len(ws) == 0 {
			continue
		}
		var wl []string
		for w := range ws {
			wl = append(wl, w)
		}
		sort.Strings(wl)
		scalar := true
		hasLen := ws["WTLength"]
		onlySlice := len(ws) == 1 && ws["WTSlice"]
		for w := range ws {
			if w != "WTVarInt" && w != "WT64" && w != "WT32" {
				scalar = false
			}
		}
		switch {
		case scalar:
			c.Oblige("T.walker-split", packed[n] && !counted[n], sw2.Pos(), ras.Name(), n+" elements are packed",
				fmt.Sprintf("codecs reporting %s use wire types %v: slices of them are written packed, so the walker must read them packed", n, wl), nil)
		case hasLen:
			c.Oblige("T.walker-split", counted[n] && !packed[n], sw2.Pos(), ras.Name(), n+" elements are counted",
				fmt.Sprintf("codecs reporting %s use wire types %v: slices of them are written as count + length-prefixed elements", n, wl), nil)
		case onlySlice:
			c.Oblige("T.walker-split", !packed[n] && !counted[n], sw2.Pos(), ras.Name(), n+" cannot be a slice element",
				"counted things cannot be slice elements (rejected at build time), the walker must not pretend otherwise", nil)
		}
	}
	c.Floor("T.walker-split", 10)
}

// ruleOneOutputPerElement: in the counted loops of the walker every path
// round the loop reads an element (or returns).
func ruleOneOutputPerElement(c *Ctx) {
	p := c.P
	// readAsJSON is not an instance: a zero-length entry is not the encoding of any JSON element
	// (every entry carries at least its type field), so skipping one drops nothing plenc wrote.
	for _, spec := range [][2]string{{"plenccodec.Descriptor.readAsSlice", "read"}} {
		f := p.ssaFunc(spec[0])
		if f == nil {
			c.Oblige("X.oneoutput", false, token.NoPos, spec[0], "function", "not found", nil)
			continue
		}
		// loops
		for _, b := range f.Blocks {
			for _, s := range b.Succs {
				if !s.Dominates(b) {
					continue
				}
				// natural loop of back edge b -> s
				body := map[*ssa.BasicBlock]bool{s: true}
				stack := []*ssa.BasicBlock{b}
				for len(stack) > 0 {
					n := stack[len(stack)-1]
					stack = stack[:len(stack)-1]
					if body[n] {
						continue
					}
					body[n] = true
					stack = append(stack, n.Preds...)
				}
				var callBlock *ssa.BasicBlock
				for bb := range body {
					for _, in := range bb.Instrs {
						if call, ok := in.(*ssa.Call); ok {
							if cal := call.Common().StaticCallee(); cal != nil && cal.Name() == spec[1] && strings.HasPrefix(ssaFuncName(cal), "plenccodec.Descriptor.") {
								callBlock = bb
							}
						}
					}
				}
				if callBlock == nil {
					continue
				}
				// counted loops only (have a ReadVarUint of the element length in the body)
				isCounted := false
				for bb := range body {
					for _, in := range bb.Instrs {
						if call, ok := in.(*ssa.Call); ok {
							if cal := call.Common().StaticCallee(); cal != nil && cal.Name() == "ReadVarUint" {
								isCounted = true
							}
						}
					}
				}
				if !isCounted {
					continue
				}
				ok := callBlock == b || callBlock.Dominates(b)
				what := "empty elements included"
				c.Oblige("X.oneoutput", ok, b.Instrs[len(b.Instrs)-1].Pos(), spec[0], "back edge of the element loop passes through the element reader",
					"every element of the encoded slice must produce exactly one output ("+what+"): a path round the loop that skips the element reader drops an element", nil)
			}
		}
	}
	c.Floor("X.oneoutput", 1)
}
