package main

import (
	"fmt"
	"go/constant"
	"go/token"
	"strings"

	"golang.org/x/tools/go/ssa"
)

func plenctagFuncs(p *Prog) []*ssa.Function {
	var out []*ssa.Function
	for _, f := range p.moduleFuncs() {
		if strings.HasPrefix(ssaFuncName(f), "cmd/plenctag.") {
			out = append(out, f)
		}
	}
	return out
}

func ruleTagBounds(c *Ctx) {
	p := c.P
	funcs := plenctagFuncs(p)
	B := newBound(p, funcs, func(*ssa.Function, *ssa.Parameter) bool { return false }, nil, nil)
	B.run()
	for _, f := range funcs {
		a := B.fa[f]
		if a == nil {
			continue
		}
		a.pass()
		c.Funcs[a.name] = true
		for _, b := range f.Blocks {
			for _, in := range b.Instrs {
				ia, ok := in.(*ssa.IndexAddr)
				if !ok || !isSliceLike(ia.X.Type()) {
					continue
				}
				// indexes into AST lists (f.Names, x.Fields.List, flag args)
				li := a.lin(ia.Index)
				ln := a.lenOfOperand(ia.X)
				q1, ok1 := geq(li, linConst(0))
				q2, ok2 := lt(li, ln)
				pr := a.prove(b, nil, q1, ok1) && a.prove(b, nil, q2, ok2)
				c.Oblige("B.index.ast", pr, ia.Pos(), a.name, fmt.Sprintf("%s[%s]", a.describe(ia.X), a.describe(ia.Index)),
					"an index into a list taken from the parsed file (field names are empty for embedded fields) must be guarded by a length test, otherwise the tool panics instead of reporting an error", nil)
			}
		}
	}
	c.Floor("B.index.ast", 3)
}

// ruleTagPreserve: G.preserve – f.Tag.Value is only rewritten when the field
// has no plenc tag, and only the plenc key is ever set.
func ruleTagPreserve(c *Ctx) {
	p := c.P
	var rf *ssa.Function
	for _, f := range plenctagFuncs(p) {
		if strings.HasPrefix(ssaFuncName(f), "cmd/plenctag.config.rewrite$") {
			for _, b := range f.Blocks {
				for _, in := range b.Instrs {
					// the closure that rewrites a field's tag literal
					if st, ok := in.(*ssa.Store); ok {
						if fa, ok := st.Addr.(*ssa.FieldAddr); ok && fieldName(fa) == "Value" && typeName(deref(fa.X.Type())) == "BasicLit" {
							rf = f
						}
					}
				}
			}
		}
	}
	if rf == nil {
		c.Oblige("G.preserve", false, token.NoPos, "cmd/plenctag.config.rewrite", "rewrite closure", "cannot find the closure that sets tags: undecided", nil)
		return
	}
	name := ssaFuncName(rf)
	// the Get("plenc") call and its error
	var getErr ssa.Value
	for _, b := range rf.Blocks {
		for _, in := range b.Instrs {
			if call, ok := in.(*ssa.Call); ok {
				if cal := call.Common().StaticCallee(); cal != nil && cal.Name() == "Get" && strings.Contains(cal.String(), "structtag") &&
					len(call.Common().Args) == 2 && isConstString(call.Common().Args[1], "plenc") {
					for _, r := range *call.Referrers() {
						if ex, ok := r.(*ssa.Extract); ok && ex.Index == 1 {
							getErr = ex
						}
					}
				}
			}
		}
	}
	absent := func(b *ssa.BasicBlock) bool {
		if getErr == nil {
			return false
		}
		for _, d := range rf.Blocks {
			iff, ok := d.Instrs[len(d.Instrs)-1].(*ssa.If)
			if !ok {
				continue
			}
			cmp, ok := iff.Cond.(*ssa.BinOp)
			if !ok || !((cmp.X == getErr && isNilConst(cmp.Y)) || (cmp.Y == getErr && isNilConst(cmp.X))) {
				continue
			}
			idx := 0 // err != nil: true branch
			if cmp.Op == token.EQL {
				idx = 1
			}
			if dominatedByBranch(d, idx, b) {
				return true
			}
		}
		return false
	}
	n := 0
	for _, b := range rf.Blocks {
		for _, in := range b.Instrs {
			switch x := in.(type) {
			case *ssa.Store:
				fa, ok := x.Addr.(*ssa.FieldAddr)
				if !ok || fieldName(fa) != "Value" || typeName(deref(fa.X.Type())) != "BasicLit" {
					continue
				}
				n++
				c.Oblige("G.preserve", absent(b), x.Pos(), name, "f.Tag.Value rewritten only when there is no plenc tag",
					"an existing plenc tag must be kept as it is: the rewrite must be dominated by the branch where tags.Get(\"plenc\") reports the key absent", nil)
				// the new text is the old text plus the plenc tag - not a re-rendering of the parsed tags
				rerender, fromOld, plencLit := false, false, false
				seenV := map[ssa.Value]bool{}
				var walk func(v ssa.Value, depth int)
				walk = func(v ssa.Value, depth int) {
					if v == nil || depth > 25 || seenV[v] {
						return
					}
					seenV[v] = true
					switch y := v.(type) {
					case *ssa.Const:
						if y.Value != nil && y.Value.Kind() == constant.String && strings.Contains(constant.StringVal(y.Value), "plenc:") {
							plencLit = true
						}
					case *ssa.BinOp:
						walk(y.X, depth+1)
						walk(y.Y, depth+1)
					case *ssa.Phi:
						for _, e := range y.Edges {
							walk(e, depth+1)
						}
					case *ssa.Extract:
						walk(y.Tuple, depth+1)
					case *ssa.Call:
						if cal := y.Common().StaticCallee(); cal != nil {
							switch {
							case strings.Contains(cal.String(), "structtag") && cal.Name() == "String":
								rerender = true
							case cal.String() == "strconv.Unquote":
								fromOld = true
							}
						}
						for _, a := range y.Common().Args {
							walk(a, depth+1)
						}
					case *ssa.UnOp:
						if al, ok := y.X.(*ssa.Alloc); ok {
							for _, r := range *al.Referrers() {
								if st, ok := r.(*ssa.Store); ok && st.Addr == ssa.Value(al) {
									walk(st.Val, depth+1)
								}
							}
						}
					case *ssa.Convert:
						walk(y.X, depth+1)
					case *ssa.MakeClosure:
					}
				}
				walk(x.Val, 0)
				if !(isConstString(x.Val, "")) {
					n++
					c.Oblige("G.preserve", !rerender && fromOld && plencLit, x.Pos(), name, "the new tag text is the old text with the plenc tag added",
						"every other tag key must be kept as it was: the new literal must be built from the unquoted old text plus plenc:\"…\"; rendering the parsed tags back (tags.String()) normalises the other keys (json:\"-,\" becomes json:\"-\", spacing and escapes change)", nil)
				}
			case *ssa.Call:
				cal := x.Common().StaticCallee()
				if cal == nil || cal.Name() != "Set" || !strings.Contains(cal.String(), "structtag") {
					continue
				}
				// the tag passed: &Tag{Key: "plenc"}
				keyOK := false
				if al, ok := x.Common().Args[1].(*ssa.Alloc); ok {
					for _, r := range *al.Referrers() {
						if fa, ok := r.(*ssa.FieldAddr); ok && fieldName(fa) == "Key" {
							for _, rr := range *fa.Referrers() {
								if st, ok := rr.(*ssa.Store); ok && isConstString(st.Val, "plenc") {
									keyOK = true
								}
							}
						}
					}
				}
				c.Oblige("G.preserve", keyOK && absent(b), x.Pos(), name, "tags.Set only sets the plenc key, only when it is absent",
					"every other tag key must be left alone and an existing plenc tag never overwritten", nil)
			}
		}
	}
	c.Floor("G.preserve", 2)

	// G.twopass: indexes handed out are max+1, strictly increasing, starting from the maximum found by the first pass
	var itoa *ssa.Call
	for _, b := range rf.Blocks {
		for _, in := range b.Instrs {
			if call, ok := in.(*ssa.Call); ok {
				if cal := call.Common().StaticCallee(); cal != nil && (cal.String() == "strconv.Itoa" || cal.String() == "strconv.FormatInt") {
					itoa = call
				}
			}
		}
	}
	ok := false
	why := "cannot find strconv.Itoa(maxPlenc)"
	if itoa != nil {
		arg := stripConv(itoa.Common().Args[0])
		if bo, isBin := arg.(*ssa.BinOp); isBin && bo.Op == token.ADD {
			if cst, isC := bo.Y.(*ssa.Const); isC {
				if k, okk := constBig(cst); okk && k.Int64() == 1 {
					if phi, isPhi := bo.X.(*ssa.Phi); isPhi {
						// the incremented value is carried round the second loop
						carried := false
						var walk func(v ssa.Value, depth int) bool
						walk = func(v ssa.Value, depth int) bool {
							if v == ssa.Value(bo) {
								return true
							}
							if depth > 4 {
								return false
							}
							if ph, ok := v.(*ssa.Phi); ok {
								for _, e := range ph.Edges {
									if e != ssa.Value(phi) && walk(e, depth+1) {
										return true
									}
								}
							}
							return false
						}
						for _, e := range phi.Edges {
							if walk(e, 0) {
								carried = true
							}
						}
						// initial value comes from the first loop's running maximum
						fromFirst := false
						for _, e := range phi.Edges {
							if p1, ok := e.(*ssa.Phi); ok && p1 != phi && p1.Comment == phi.Comment && p1.Block().Dominates(phi.Block()) {
								fromFirst = firstPassIsMax(p1)
							}
						}
						ok = carried && fromFirst
						why = fmt.Sprintf("new index = running value + 1 and is carried to the next field: %v; the running value starts from the maximum existing index computed by a completed first pass: %v", carried, fromFirst)
					}
				}
			}
		}
	}
	c.Oblige("G.twopass", ok, rf.Pos(), name, "new indexes are max+1, strictly increasing after the existing maximum", why, nil)
	c.Floor("G.twopass", 1)
}

// firstPassIsMax: phi is the loop variable of a loop that only ever replaces
// it by a value proved larger (if pl > max { max = pl }).
func firstPassIsMax(phi *ssa.Phi) bool {
	good := false
	guardedEdge := func(e ssa.Value, pred *ssa.BasicBlock) bool {
		for d := pred; d != nil; d = d.Idom() {
			id := d.Idom()
			if id == nil {
				break
			}
			iff, ok := id.Instrs[len(id.Instrs)-1].(*ssa.If)
			if !ok || len(d.Preds) != 1 {
				continue
			}
			cmp, ok := iff.Cond.(*ssa.BinOp)
			if !ok {
				continue
			}
			if (cmp.Op == token.GTR && cmp.X == e && cmp.Y == ssa.Value(phi) && id.Succs[0] == d) ||
				(cmp.Op == token.LSS && cmp.Y == e && cmp.X == ssa.Value(phi) && id.Succs[0] == d) {
				return true
			}
		}
		return false
	}
	var checkPhi func(x *ssa.Phi, depth int) bool
	checkPhi = func(x *ssa.Phi, depth int) bool {
		if depth > 4 {
			return false
		}
		for i, e := range x.Edges {
			if e == ssa.Value(phi) {
				continue
			}
			if _, isC := e.(*ssa.Const); isC {
				continue
			}
			if inner, ok := e.(*ssa.Phi); ok && inner != phi {
				if checkPhi(inner, depth+1) {
					continue
				}
				return false
			}
			if guardedEdge(e, x.Block().Preds[i]) {
				good = true
				continue
			}
			return false
		}
		return true
	}
	return checkPhi(phi, 0) && good
}

func init() {
	register(&propInfo{
		ID:          "C20",
		Explanation: "Decides crash-freedom and tag-preservation clauses of plenctag: (B.index.ast) BOUND over every function of cmd/plenctag proves each index into a list taken from the parsed file (f.Names[0], …) is guarded by a length test; (G.preserve) every assignment to f.Tag.Value and the tags.Set call are dominated by the branch where tags.Get(\"plenc\") reports the key absent, and the only key ever set is the constant \"plenc\"; (G.twopass) the index handed to a new tag is the running value + 1, that value is carried to the next field (pairwise distinct, strictly increasing) and the running value starts from the maximum computed by a completed first loop whose variable is only ever replaced under new > max; (G.multiname) the point where a new index is rendered is reached only when len(f.Names) <= 1 - one tag serves every name of a declaration; (G.skipreason) every branch of the tagging loop that leaves a field without a new tag depends only on the documented reasons - unexported, unparsable tag, a plenc key in the PARSED tag, several names, no index left - not on the raw tag text.",
		NotDecided:  "gofmt-formatted output, compilability, idempotence, the multi-name field (X, Y int gets one tag for two fields) - behaviours of the tool over all Go files with no structural clause that separates a correct strategy from the current one.",
		Assumptions: []string{"A1", "A5"},
		Run: func(c *Ctx) {
			ruleTagBounds(c)
			ruleTagPreserve(c)
			ruleTagHelpers(c)
			ruleTagMaxIndex(c)
			ruleTagRun(c)
			ruleTagRound6(c)
			ruleTagRound6b(c)
			ruleTagRound7(c)
			ruleTagRound8(c)
			ruleTagRound14(c)
		},
	})
}
