package main

// runThorough runs the thorough-tier extras (armedness self-test with the
// kept seeded mutants, cross-checks). Filled in by thorough_*.go.
func runThorough(c *Ctx, info *propInfo, repo string) map[string]any {
	return thoroughSeeds(c, info, repo)
}
