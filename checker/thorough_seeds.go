package main

import (
	"encoding/json"
	"fmt"
	"os"
	"os/exec"
	"path/filepath"
	"sort"
	"strings"
	"sync"

	"golang.org/x/tools/go/callgraph"
	"golang.org/x/tools/go/callgraph/cha"
	"golang.org/x/tools/go/ssa"
)

type seedMeta struct {
	ID         string   `json:"id"`
	Properties []string `json:"properties"`
	Expect     string   `json:"expect"` // "violation" or "silent"
	Needs      string   `json:"needs"`
	Summary    string   `json:"summary"`
}

// thoroughSeeds is the armedness self-test of the thorough tier: every kept
// seeded mutant of this property (/verif/seeded/<id>/patch.diff) is applied to
// a scratch copy of /repo's CURRENT working tree and the property's own check
// is run on the copy (in a child process, evidence and replay files redirected
// to the scratch area). A mutant that breaks the property must be reported, a
// behaviour-preserving rewrite must leave the verdict unchanged. Nothing here
// runs plenc code. Plus the CHA cross-check of the analysed closures.
func thoroughSeeds(c *Ctx, info *propInfo, repo string) map[string]any {
	out := map[string]any{}
	vd := verifDir()
	dirs, _ := filepath.Glob(filepath.Join(vd, "seeded", "*", "meta.json"))
	sort.Strings(dirs)
	type res struct {
		ID     string `json:"id"`
		Expect string `json:"expect"`
		Status string `json:"status"` // fired / silent / stale / error
		OK     bool   `json:"as_expected"`
		Rules  string `json:"rules,omitempty"`
	}
	var seeds []seedMeta
	var sdirs []string
	for _, mf := range dirs {
		b, err := os.ReadFile(mf)
		if err != nil {
			continue
		}
		var m seedMeta
		if json.Unmarshal(b, &m) != nil {
			continue
		}
		for _, p := range m.Properties {
			if p == c.Prop {
				seeds = append(seeds, m)
				sdirs = append(sdirs, filepath.Dir(mf))
			}
		}
	}
	exe, _ := os.Executable()
	results := make([]res, len(seeds))
	var wg sync.WaitGroup
	sem := make(chan struct{}, 14)
	for i := range seeds {
		wg.Add(1)
		go func(i int) {
			defer wg.Done()
			sem <- struct{}{}
			defer func() { <-sem }()
			m := seeds[i]
			r := res{ID: m.ID, Expect: m.Expect}
			scratch, err := os.MkdirTemp("", "plencheck-seed-")
			if err != nil {
				r.Status = "error"
				results[i] = r
				return
			}
			defer os.RemoveAll(scratch)
			rcopy := filepath.Join(scratch, "repo")
			vcopy := filepath.Join(scratch, "verif")
			os.MkdirAll(vcopy, 0o755)
			if b, err := exec.Command("rsync", "-a", "--exclude", ".git", repo+"/", rcopy+"/").CombinedOutput(); err != nil {
				r.Status = "error: " + string(b)
				results[i] = r
				return
			}
			if kf, err := os.ReadFile(filepath.Join(vd, "KNOWN_FINDINGS.txt")); err == nil {
				os.WriteFile(filepath.Join(vcopy, "KNOWN_FINDINGS.txt"), kf, 0o644)
			}
			ap := exec.Command("git", "apply", "--whitespace=nowarn", filepath.Join(sdirs[i], "patch.diff"))
			ap.Dir = rcopy
			if b, err := ap.CombinedOutput(); err != nil {
				r.Status = "stale"
				_ = b
				r.OK = true
				results[i] = r
				return
			}
			cmd := exec.Command(exe, "-property", c.Prop, "-tier", "quick", "-repo", rcopy)
			cmd.Env = append(os.Environ(), "VERIF_DIR="+vcopy, "VERIF_TIER=quick")
			b, _ := cmd.CombinedOutput()
			o := string(b)
			var rules []string
			for _, ln := range strings.Split(o, "\n") {
				if strings.HasPrefix(ln, "finding: rule=") {
					rules = append(rules, strings.TrimPrefix(strings.Fields(ln)[1], "rule="))
				}
			}
			if strings.Contains(o, "VIOLATION property="+c.Prop) {
				r.Status = "fired"
				r.Rules = strings.Join(uniq(rules), ",")
			} else if strings.Contains(o, c.Prop+" quick:") {
				r.Status = "silent"
			} else {
				r.Status = "error"
			}
			r.OK = (m.Expect == "violation" && r.Status == "fired") || (m.Expect == "silent" && r.Status == "silent")
			results[i] = r
		}(i)
	}
	wg.Wait()
	live, fired, stale, falseAlarms, missed := 0, 0, 0, 0, 0
	for _, r := range results {
		switch {
		case r.Status == "stale":
			stale++
		default:
			live++
		}
		if r.Status == "fired" && r.Expect == "violation" {
			fired++
		}
		if !r.OK && r.Expect == "violation" {
			missed++
			fmt.Printf("SELFTEST-MISS property=%s seed=%s status=%s (the check no longer reports a change known to break the property)\n", c.Prop, r.ID, r.Status)
		}
		if !r.OK && r.Expect == "silent" {
			falseAlarms++
			fmt.Printf("SELFTEST-FALSE-ALARM property=%s seed=%s (the check reports a behaviour-preserving rewrite)\n", c.Prop, r.ID)
		}
	}
	out["seeds"] = results
	out["seeds_live"] = live
	out["seeds_stale"] = stale
	out["seeds_fired"] = fired
	out["seeds_missed"] = missed
	out["seeds_false_alarms"] = falseAlarms
	out["selftest_rule"] = "each kept mutant (seeded/<id>/patch.diff) is applied to a scratch copy of /repo's current tree and this property's quick check is run on the copy; 'violation' seeds must be reported, 'silent' (behaviour-preserving) seeds must not"
	c.Note("thorough: %d seeds live, %d fired, %d stale, %d missed, %d false alarms", live, fired, stale, missed, falseAlarms)

	// CHA cross-check: every module function CHA makes reachable from the
	// property's entry points must be in the analysed closure.
	if miss := chaCrossCheck(c.P); miss != nil {
		out["cha_crosscheck"] = miss
		for name, v := range miss {
			if m, ok := v.(map[string]any); ok {
				if ms, ok := m["missing_from_analysis"].([]string); ok && len(ms) > 0 {
					c.Findings = append(c.Findings, Finding{Property: c.Prop, Rule: "internal", Func: "-", Key: "internal|closure-incomplete|" + name,
						Pos: "-", Msg: fmt.Sprintf("class-hierarchy analysis reaches module functions that the %s closure does not contain: %v (the enumeration of analysed functions is incomplete: the check is broken, not plenc)", name, ms)})
				}
			}
		}
	}
	return out
}

func uniq(xs []string) []string {
	seen := map[string]bool{}
	var out []string
	for _, x := range xs {
		if !seen[x] {
			seen[x] = true
			out = append(out, x)
		}
	}
	sort.Strings(out)
	return out
}

// chaCrossCheck compares the decode and encode closures with class-hierarchy
// reachability computed by x/tools (an independent enumeration).
func chaCrossCheck(p *Prog) map[string]any {
	cg := cha.CallGraph(p.SSA)
	reach := func(roots []*ssa.Function, stop func(*ssa.Function) bool) map[string]bool {
		seen := map[*ssa.Function]bool{}
		out := map[string]bool{}
		var work []*ssa.Function
		for _, r := range roots {
			work = append(work, r)
		}
		for len(work) > 0 {
			f := work[len(work)-1]
			work = work[:len(work)-1]
			if f == nil || seen[f] {
				continue
			}
			seen[f] = true
			of := origin(f)
			if pk := pkgOf(of); pk == nil || !inModule(pk) {
				continue
			}
			if stop != nil && stop(of) {
				continue
			}
			if of.Synthetic == "" || of.Parent() != nil {
				out[ssaFuncName(of)] = true
			}
			n := cg.Nodes[f]
			if n == nil {
				continue
			}
			for _, e := range n.Out {
				work = append(work, e.Callee.Func)
			}
		}
		return out
	}
	_ = callgraph.Node{}
	res := map[string]any{}
	for name, pair := range map[string][2][]*ssa.Function{
		"decode": {p.decodeRoots(), p.decodeClosure()},
		"encode": {p.encodeRoots(), p.encodeClosure()},
	} {
		// CHA over instantiated roots: include instances of generic roots
		var roots []*ssa.Function
		rootSet := map[*ssa.Function]bool{}
		for _, r := range pair[0] {
			rootSet[r] = true
		}
		for f := range cg.Nodes {
			if f != nil && rootSet[origin(f)] {
				roots = append(roots, f)
			}
		}
		r := reach(roots, isBuildFunc)
		mine := map[string]bool{}
		for _, f := range pair[1] {
			mine[ssaFuncName(f)] = true
		}
		var missing []string
		for n := range r {
			if !mine[n] {
				missing = append(missing, n)
			}
		}
		sort.Strings(missing)
		res[name] = map[string]any{"cha_reachable": len(r), "analysed": len(mine), "missing_from_analysis": missing}
	}
	return res
}
