package main

func thoroughSeeds(c *Ctx, info *propInfo, repo string) map[string]any {
	return map[string]any{}
}
