#!/usr/bin/env python3
"""Confirm and evaluate candidate mutants.

usage: eval_mutants.py [--equiv] <mutant-dir>...   (each dir holds patch.diff + demo + README.md;
       --equiv: behaviour-preserving rewrites, no demo, every check must stay silent)

For every mutant, in a scratch git worktree of /repo's HEAD (outside /repo and /verif):
  1. demo passes on the clean tree
  2. patch applies, tree builds, the existing test suite passes (TestDescriptor flake retried)
  3. demo fails with the patch
  4. every registered quick check is run against the patched scratch tree
     (plencheck -repo <scratch>, evidence redirected) and the properties that report a
     VIOLATION are recorded.
Prints one JSON object per mutant. Nothing is written to /repo or /verif/evidence.
"""
import json, os, re, shutil, subprocess, sys, tempfile, concurrent.futures

ENV = dict(os.environ, GOFLAGS="-mod=mod", GOPROXY="off", GOSUMDB="off", GOTOOLCHAIN="local")
ENV.pop("GOWORK", None)
PROPS = ["C%02d" % i for i in range(1, 21)]
PLENCHECK = os.environ.get("PLENCHECK_BIN", "/verif/bin/plencheck")


def run(cmd, cwd, timeout=600, env=None):
    try:
        p = subprocess.run(cmd, cwd=cwd, env=env or ENV, stdout=subprocess.PIPE, stderr=subprocess.STDOUT, timeout=timeout, text=True, errors='replace')
        return p.returncode, p.stdout
    except subprocess.TimeoutExpired as e:
        return 124, (e.stdout or "") + "\nTIMEOUT"


def demo_cmd(mdir, wt):
    """returns (setup-fn, command, cleanup-fn)"""
    readme = open(os.path.join(mdir, "README.md")).read() if os.path.exists(os.path.join(mdir, "README.md")) else ""
    race = ["-race"] if re.search(r"go test[^\n]*-race", readme) else []
    sh = os.path.join(mdir, "demo.sh")
    if os.path.exists(sh):
        return (lambda: None, ["bash", sh], lambda: None)
    tests = [f for f in os.listdir(mdir) if f.endswith("_test.go")]
    if tests:
        src = os.path.join(mdir, tests[0])
        txt = open(src).read()
        pkg = re.search(r"^package\s+(\w+)", txt, re.M).group(1)
        base = pkg[:-5] if pkg.endswith("_test") else pkg
        d = {"plenc": ".", "plenccodec": "plenccodec", "null": "null", "plenccore": "plenccore", "main": "cmd/plenctag"}.get(base, ".")
        names = re.findall(r"^func (Test\w+)\(", txt, re.M)
        dst = os.path.join(wt, d, "zz_mutant_demo_test.go")
        def setup():
            shutil.copy(src, dst)
        def cleanup():
            if os.path.exists(dst):
                os.remove(dst)
        return (setup, ["go", "test", "-vet=off", "-count=1", "-timeout", "120s"] + race + ["-run", "^(" + "|".join(names) + ")$", "./" + d], cleanup)
    mains = [f for f in os.listdir(mdir) if f.endswith(".go")]
    if mains:
        src = os.path.join(mdir, mains[0])
        dd = os.path.join(wt, "zz_mutant_demo")
        def setup():
            os.makedirs(dd, exist_ok=True)
            shutil.copy(src, os.path.join(dd, "main.go"))
        def cleanup():
            shutil.rmtree(dd, ignore_errors=True)
        return (setup, ["go", "run", "./zz_mutant_demo"], cleanup)
    return None


def suite(wt):
    for attempt in range(4):
        rc, out = run(["go", "test", "-vet=off", "-count=1", "./..."], wt, timeout=900)
        if rc == 0:
            return True, ""
        fails = re.findall(r"^--- FAIL: (\S+)", out, re.M)
        if set(fails) <= {"TestDescriptor"}:
            continue
        return False, "failing tests: %s" % fails + out[-1500:]
    return False, "TestDescriptor keeps failing"


def evaluate(mdir):
    mdir = os.path.abspath(mdir)
    res = {"mutant": mdir}
    scratch = tempfile.mkdtemp(prefix="mutant-eval-")
    wt = os.path.join(scratch, "repo")
    try:
        rc, out = run(["git", "-C", "/repo", "worktree", "add", "-q", "--detach", wt, "HEAD"], "/")
        if rc != 0:
            res["error"] = "worktree: " + out
            return res
        dc = demo_cmd(mdir, wt)
        if dc is None:
            if not EQUIV:
                res["error"] = "no demo"
                return res
            # behaviour-preserving rewrite: there is nothing to demonstrate
            dc = (lambda: None, ["true"], lambda: None)
        setup, cmd, cleanup = dc
        setup()
        rc, out = run(cmd, wt, timeout=300)
        res["demo_clean_rc"] = rc
        if rc != 0:
            res["demo_clean_out"] = out[-800:]
        cleanup()
        rc, out = run(["git", "apply", "--whitespace=nowarn", os.path.join(mdir, "patch.diff")], wt)
        res["applies"] = rc == 0
        if rc != 0:
            res["error"] = "patch does not apply: " + out[-400:]
            return res
        rc, out = run(["go", "build", "./..."], wt)
        res["builds"] = rc == 0
        if rc != 0:
            res["error"] = out[-800:]
            return res
        ok, why = suite(wt)
        res["suite_passes"] = ok
        if not ok:
            res["suite_out"] = why
        setup()
        rc, out = run(cmd, wt, timeout=300)
        res["demo_patched_rc"] = rc
        res["demo_patched_tail"] = out[-600:]
        cleanup()
        # checks
        vcopy = os.path.join(scratch, "verif")
        os.makedirs(vcopy)
        shutil.copy("/verif/KNOWN_FINDINGS.txt", vcopy)
        env = dict(ENV, VERIF_DIR=vcopy, VERIF_TIER="quick")
        fired = {}
        def one(p):
            rc, out = run([PLENCHECK, "-property", p, "-tier", "quick", "-repo", wt], "/verif", timeout=300, env=env)
            rules = sorted(set(re.findall(r"^finding: rule=(\S+)", out, re.M)))
            return p, rc, rules, out
        with concurrent.futures.ThreadPoolExecutor(max_workers=6) as ex:
            for p, rc, rules, out in ex.map(one, PROPS):
                if "VIOLATION property=" + p in out:
                    fired[p] = rules
                elif rc != 0:
                    fired[p] = ["ERROR rc=%d" % rc]
        res["fired"] = fired
        res["confirmed"] = bool(res.get("demo_clean_rc") == 0 and res["applies"] and res["builds"] and res["suite_passes"] and (res["demo_patched_rc"] != 0 or EQUIV))
    finally:
        run(["git", "-C", "/repo", "worktree", "remove", "--force", wt], "/")
        shutil.rmtree(scratch, ignore_errors=True)
    return res


EQUIV = False

if __name__ == "__main__":
    dirs = sys.argv[1:]
    if dirs and dirs[0] == "--equiv":
        # behaviour-preserving rewrites: no demo; "confirmed" = applies, builds, suite passes;
        # "fired" must be empty
        EQUIV = True
        dirs = dirs[1:]
    with concurrent.futures.ThreadPoolExecutor(max_workers=3) as ex:
        for r in ex.map(evaluate, dirs):
            print(json.dumps(r))
            sys.stdout.flush()
