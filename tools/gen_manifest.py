#!/usr/bin/env python3
"""Generates /verif/MANIFEST.json from the table below (kept valid at all times)."""
import json, os, sys

HERE = os.path.dirname(os.path.dirname(os.path.abspath(__file__)))

SETUP = ("cd /verif/checker && GOFLAGS=-mod=mod GOPROXY=off GOSUMDB=off GOTOOLCHAIN=local GOWORK=off "
         "go build -o ../bin/plencheck .")

NOTE_COMMON = ("Trusted base: go/packages+go/types+go/ssa (x/tools v0.29.0) model /repo faithfully; "
               "stdlib/runtime contracts table (binary.Uvarint, typedmemclr, mapassign, string([]byte) copies); "
               "64-bit int; user-supplied codecs obey the Codec contracts the in-module ones are checked against. "
               "A construct the analyser cannot summarise is reported as undecided (fails loudly) rather than passed.")

# id -> dict(text, note, technique, design_ref)   (claimed checks)
CLAIMS = {}

# id -> reason   (not claimed)
NOT_APPLICABLE = {}

def claim(pid, text, technique, note="", design_ref=None):
    CLAIMS[pid] = dict(text=text, technique=technique, note=(note + " " + NOTE_COMMON).strip(),
                       design_ref=design_ref or ("DESIGN.md §4 " + pid))

def na(pid, reason):
    NOT_APPLICABLE[pid] = reason

exec(open(os.path.join(HERE, "tools", "manifest_table.py")).read())

ids = ["C%02d" % i for i in range(1, 21)]
for i in ids:
    assert (i in CLAIMS) != (i in NOT_APPLICABLE), i

checks = []
for i in ids:
    if i not in CLAIMS:
        continue
    c = CLAIMS[i]
    checks.append({
        "property_id": i,
        "quick_cmd": "./check %s quick" % i,
        "thorough_cmd": "./check %s thorough" % i,
        "evidence_file": "/verif/evidence/%s.json" % i,
        "replay_cmd_template": "./check --replay {path}",
        "engine": "plencheck",
        "level_claimed": {"category": "other", "text": c["text"], "design_ref": c["design_ref"]},
        "level_note": c["note"],
        "technique": c["technique"],
    })

fix_commits = []
fc = os.path.join(HERE, "tools", "fix_commits.txt")
if os.path.exists(fc):
    fix_commits = [l.split()[0] for l in open(fc) if l.strip() and not l.startswith("#")]

manifest = {
    "version": 1,
    "setup_cmd": SETUP,
    "hooks": {
        "guard": "verif",
        "enable": "none needed: the analysis reads /repo's source (go/packages); no instrumentation is compiled into plenc",
        "baseline_off_cmd": "cd /repo && go test -json -vet=off -count=1 -timeout 25m ./...",
        "source_commits": fix_commits,
        "add_only": True,
    },
    "engines": [{
        "name": "plencheck",
        "path": "/verif/checker",
        "serves_properties": [c["property_id"] for c in checks],
        "kind_free_text": "repository-specific static analyser (go/packages + go/types + go/ssa): table/exhaustiveness rules, "
                          "SSA linear-inequality bounds analysis, effect/taint/ownership rules, emission-term comparison",
    }],
    "checks": checks,
    "not_applicable": [{"property_id": i, "reason": NOT_APPLICABLE[i]} for i in ids if i in NOT_APPLICABLE],
    "notes": "Static analysis only. Every check parses and type-checks /repo's current working tree on each run and never "
             "executes plenc code. Findings are keyed rule|function|construct (no line numbers); genuine defects of the pinned "
             "tree are either repaired by fix: commits or listed in KNOWN_FINDINGS.txt. See DESIGN.md.",
}
out = os.path.join(HERE, "MANIFEST.json")
json.dump(manifest, open(out, "w"), indent=1)
print("wrote", out, "claimed:", [c["property_id"] for c in checks])
