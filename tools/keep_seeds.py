#!/usr/bin/env python3
"""Turn evaluated mutants into kept seeds under /verif/seeded/<id>/.

usage: keep_seeds.py <eval.jsonl> <round-tag>

Only mutants whose evaluation says confirmed (demo passes on the clean tree, patch applies
and builds, existing suite passes, demo fails with the patch) are kept. meta.json records
which property the author targeted, what the change needs in order to manifest, what was
run, and which of our checks report it (properties: used by the thorough-tier self-test).
"""
import json, os, re, shutil, sys

SUMMARY = {}
exec(open(os.path.join(os.path.dirname(__file__), "seed_summaries.py")).read())

def main():
    path, rnd = sys.argv[1], sys.argv[2]
    for line in open(path):
        try:
            r = json.loads(line)
        except Exception:
            continue
        mdir = r["mutant"]
        m = re.search(r"/(C\d\d)/mutants/(m\d)$", mdir)
        if not m:
            continue
        target, mi = m.group(1), m.group(2)
        key = "%s-%s-%s" % (rnd, target, mi)
        if not r.get("confirmed"):
            print("skip (not confirmed)", key, r.get("error", ""))
            continue
        summ = SUMMARY.get(key, {})
        slug = summ.get("slug", "mutant")
        sid = "%s-%s-%s-%s" % (target, rnd, mi, slug)
        out = os.path.join("/verif/seeded", sid)
        os.makedirs(out, exist_ok=True)
        for f in os.listdir(mdir):
            shutil.copy(os.path.join(mdir, f), os.path.join(out, f))
        fired = r.get("fired", {})
        meta = {
            "id": sid,
            "breaks": target,
            "properties": sorted(fired.keys()),
            "detected_by": fired,
            "expect": "violation",
            "summary": summ.get("summary", ""),
            "needs": summ.get("needs", "see README.md"),
            "origin": "written by an independent sub-agent that was given only the text of property %s and a scratch worktree of /repo" % target,
            "ran": [
                "scratch git worktree of /repo HEAD (outside /repo and /verif), removed afterwards",
                "demo on the clean tree: pass (rc %s)" % r.get("demo_clean_rc"),
                "git apply patch.diff && go build ./...: ok",
                "go test -vet=off -count=1 ./... with the patch: pass (TestDescriptor map-order flake retried)",
                "demo with the patch: fails (rc %s)" % r.get("demo_patched_rc"),
                "plencheck -property C01..C20 -tier quick -repo <patched scratch tree>: VIOLATION from %s" % (", ".join(sorted(fired.keys())) or "none"),
            ],
        }
        json.dump(meta, open(os.path.join(out, "meta.json"), "w"), indent=1)
        print("kept", sid, "detected by", sorted(fired.keys()))

main()
