# Table of claimed / not-claimed properties. Executed by gen_manifest.py.
PENDING = "check under construction in this session (static-analysis rules for this property are not built yet); see DESIGN.md §4 for the planned clause"

claim("C01",
      "Necessary structural conditions of the round trip, decided for all types at once: every RegisterCodec row attaches a codec to a Go type whose size/identity equals the memory type the codec's methods reinterpret ptr as (T.reg/T.mem, type parameters substituted along embedding paths), every reflect.Kind clause maps named types to the basic type of the same kind, every Omit is a pure zero test, the slice wrapper is selected by element wire type as documented. These are the type-level mistakes that corrupt a round trip only for types the fuzz tests never build; value-level equality is not decided.",
      "table/exhaustiveness analysis over the type-checked AST (go/types): registration rows, kind switch, Omit truth-set, wrapper selection")
claim("C04",
      "For every function of the decode closure: each input-controlled slice/index/stdlib-precondition is proved in range, each input-sized allocation proved 0<=size<=len(data), each loop proved to make progress bounded by the input length, and each reader proved to meet err==nil => 0<=n<=len(data) - for all byte strings and all target types at once, because target types only select which Read implementations compose and each is proved against the interface contract. Decides panics/out-of-range/hang/allocation on the enumerated constructs (not stack depth, not nil dereference).",
      "SSA abstract interpretation with linear-inequality facts (dominating guards, callee contracts, Houdini loop invariants, inferred helper pre/post-conditions), entailment by Fourier-Motzkin inside the analyser")
claim("C06",
      "Decides the buffer-prefix/append-only/purity clauses for the whole encode closure: the []byte parameter is never resliced or indexed, every returned buffer is that parameter extended by appends (Marshal: or a fresh buffer under data == nil), encoders store only to their own locals, and no clock/randomness/pool/shared table/mutable global is consulted while encoding. By-value vs by-pointer equivalence is a runtime ABI fact and is not decided.",
      "SSA effect analysis: buffer-derivation dataflow (append-only), pointer-root tracing of every Store, who-may-call rules for nondeterministic sources")
claim("C07",
      "Decides data-race freedom of the enumerated shared state for all interleavings: no Store/map update in the API closure targets codec receiver state or a package-level variable; fields published via sync/atomic are accessed only via sync/atomic; atomically loaded maps are never updated and atomically stored maps are fresh (copy-on-write); sync.Map/Pool/Mutex fields are used only through their methods; nothing referring to a struct codec under construction is published (overlay registry holds sub-codecs back; no store to the codec is reachable from the flush).",
      "SSA ownership/effect analysis (pointer roots, who-may-access field rules, CFG reachability between publication and construction writes)")
claim("C11",
      "Decides the aliasing statement structurally for the whole closure: forward alias-taint from every input-bytes parameter proves nothing sharing memory with the input is stored into the target, codec state, a map, a shared table/pool or returned, and nothing writes into the input; on the encode side every Store targets the encoder's own locals and the output buffer is only appended to.",
      "interprocedural SSA alias-taint analysis (copy conversions kill, slicing/unsafe casts/uintptr arithmetic propagate) + pointer-root tracing of stores")

claim("C03",
      "Decides the structural facts schema evolution rests on: Skip has a clause for every wire type a codec can report and is proved (BOUND) to return 0<=n<=len(data) without over-run; in every struct-like reader the unknown-index path skips according to the wire type read from the data, starting right after the tag, and advances the offset by exactly Skip's result; field names are touched only by the builder and Descriptor(); the struct field loop carries only the offset (decode driven by index, not position). Value-level equality of shared indexes is not decided.",
      "table exhaustiveness over go/types + SSA linear-fact bounds analysis + who-may-access and loop-carried-state rules")
claim("C08",
      "Decides structural validation clauses for all struct definitions: no (nil codec, nil error); the field-registration point is dominated by the lower-case skip, missing-tag error, \"-\" skip and Atoi error check; BOUND (taint source strconv.Atoi) proves the recorded index within [0, maxIndex] and the index table sized maxIndex+1 without wrap; table stores dominated by the duplicate test; sub-codecs that may be map codecs only wrapped behind a Kind()==Map guard or the wire-type switch; nothing published before the struct codec is complete and no error return after publication; no explicit panic in the build closure.",
      "SSA dominance rules + linear-fact bounds analysis with tag-derived taint + resolved-AST guard matching")
claim("C09",
      "Decides the structural presence rules: PointerWrapper never consults the pointee's Omit, passes the tag unchanged, allocates under the nil test and always delegates Read; every null codec's Omit is exactly !Valid and every success return of its Read is dominated by setting Valid; ExplicitPresence is set by exactly the pointer and null codecs. The map-entry zero-key/empty-value case is not decided (described in DESIGN.md).",
      "SSA dominance/must-pass-through rules and data-dependence of Omit; descriptor summary over the typed AST")
claim("C10",
      "Decides that re-used memory is cleared before a codec reads into it and that absent fields are untouched: pooled scratch (traced interprocedurally from sync.Pool.Get) is cleared by a dominating typedmemclr/typedmemmove; element reads into re-used backing arrays are preceded on every path by a fresh allocation or the clearing call/loop (must-pass-through), scalar codecs being proved to store on every success return; StructCodec.Read hands the target only to field codecs; the shared mutable state reachable from the API is exactly the classified set.",
      "SSA ownership analysis: pointer roots (POOL/LOADED/FRESH), must-pass-through on the CFG, shared-state inventory")
claim("C12",
      "Decides the structural clauses of proto mode: each option is read at exactly one decision point on the method's own receiver and selects exactly the documented codec (negated/ignored options do not count); proto-mode codecs report wire type 2 and nobody reports wire type 4; the default slice reader dispatches wt==WTLength to a reader that reads one element and appends it.",
      "who-may-access field rules on SSA + resolved-AST decision-point matching + wire-type table")
claim("C13",
      "Decides that the schema-less walker mirrors the codecs: a clause for every FieldType; each scalar clause decodes with a codec reporting that field type and emits one value; the packed/counted split of readAsSlice agrees with the wire types of every producing codec; every path round the counted element loop passes through the element reader. The walker is inside C04's decode closure. JSON equality with the typed decode is not decided.",
      "table agreement between sibling implementations over go/types (descriptor type ↔ wire type ↔ walker clauses) + CFG must-pass-through")
claim("C14",
      "Decides that Descriptor() mirrors the encoder: field type ↔ wire type relation for every codec; every codec's resolved (Type, LogicalType) equals the table from the property statement; StructCodec.Descriptor is built from the same field slice, order, index and name as the encoder; name = Go name overridden exactly by a non-empty json tag name; map key/value descriptor indexes equal the wire tag indexes; ExplicitPresence for exactly pointer/null codecs; skipped fields never enter the field list.",
      "descriptor summaries over the typed AST, SSA data-dependence for the name/index stores")
claim("C15",
      "Necessary conditions only: value-set analysis of the escaping loop over all 256 bytes (guards folded per byte, appended bytes must be a valid JSON escape of that byte or the byte itself); shortest-round-trip float formatting arguments; Reset returns every field (from go/types) to zero; each scalar/container method follows the prefix→emit→punctuate protocol with the right pushes, brackets and separators. Validity for all nestings is a model-checking question and is not decided.",
      "finite value-set analysis (constant folding of guards over 256 values) + protocol/typestate rules on the typed AST")
claim("C16",
      "Decides that the four dynamic-type dispatch tables (size, append, typed reader, descriptor walker) are one table: same Go type, type code, codec and tag length per clause; reader decodes into a local of the same Go type and stores it; walker decodes with the same grammar and emits exactly one value, including for values carried by the code alone (nil); defaults panic consistently; codes pairwise distinct. Round trip of trees as values is not decided.",
      "cross-checking sibling dispatch tables over the typed AST")
claim("C17",
      "Decides the scoping statement: defaultPlenc is the only package-level registry and is referenced only by package-level functions of plenc; methods use only their own receiver's registry; the registry argument is threaded through every recursive build; package-level functions are pure delegates; keys are (typ, tag) everywhere; lookup dominates the kind switch; named types map to the codec of their basic kind; each option is read once, on its own receiver.",
      "who-may-call / who-may-access rules on SSA and the typed AST, dominance of lookup over construction")
claim("C18",
      "Decides the Skip clause and structural agreement of the primitives: BOUND proves Skip returns 0<=n<=len(data), never slices out of range and terminates; the read primitives' contracts are re-derived from binary.Uvarint's; Skip covers every wire type in use; signed primitives are the unsigned ones composed with zig-zag; tag shift/mask constants agree (3, 7). NOT APPLICABLE PART: numeric agreement for all 2^64 values, zig-zag bijectivity, tag round trip for all indexes - bit-precise reasoning needs a solver or evaluation, outside this family.",
      "SSA linear-fact bounds analysis of plenccore + table/constant agreement rules")
claim("C19",
      "Decides aliasing/immutability/encoding-independence of interning: alias-taint on the intern path (every inserted string is a copy; nothing tainted reaches a table, an atomic store or the target); table pointer accessed only via sync/atomic, atomically loaded tables never updated, published tables created by the publisher; interning codecs inherit everything but Read; intern fields are looked up with the empty tag and get a fresh interner. Equality of decoded strings under every history is not decided.",
      "SSA alias-taint + atomic/copy-on-write ownership rules + method-set resolution (go/types Selection)")
claim("C20",
      "Crash-freedom and tag-preservation clauses only: BOUND proves every index into lists from the parsed file is length-guarded; the tag rewrite and tags.Set are dominated by 'no plenc tag present' and only the constant key plenc is set; new indexes are running max + 1, carried forward, starting from the maximum of a completed first pass. Formatting, compilability, idempotence and multi-name fields are not decided.",
      "SSA linear-fact bounds analysis + dominance/dataflow rules on cmd/plenctag")

claim("C02",
      "Decides the shape of the bytes every shipped encoder emits, for all values at once: each codec's Append is evaluated symbolically into an emission term and compared with a specification of the documented format written independently in the checker (tag · zig-zag/plain varint, little-endian floats, [tag·len]·bytes, framed time fields 1/2, framed non-omitted struct fields in declaration order with precomputed tags, packed scalar slices, tag·count·(len·elem)* for counted slices and maps with key=1/value=2), every length prefix being Φ of what follows; plus wire-type constants, tag layout, signed=unsigned∘zig-zag, field order and order-independent decode loop. A change applied consistently to Append, Size and Read still changes the term. Numerics of the varint primitives are not decided.",
      "symbolic effect summaries of encoder bodies over the typed AST compared with an independent format specification; constant/table agreement rules")
claim("C05",
      "Decides the Size/Append/framing laws for all 28 codecs and the JSON value functions: Size(ptr,tag) is syntactically equal (after AC-normalisation) to Φ(Append(data,ptr,tag)) - reported size = appended bytes for all values with and without tag and, by induction over sub-codec atoms, for all nestings; a length-delimited codec's tagged form is tag · varuint(Φ(body)) · body; Append and Size come from the same type; all pointer-taking methods agree on the memory type; the two lemmas used (fixed-width Size ignores ptr, SizeVarUint(v)=1 for v<0x80) are checked against the code. 'Read consumes exactly its length' is not decided.",
      "symbolic effect summaries (emission/size terms) of encoder bodies over the typed AST with term equality modulo AC")

for _i in range(1, 21):
    _id = "C%02d" % _i
    if _id not in CLAIMS:
        na(_id, PENDING)
