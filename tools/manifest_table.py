# Table of claimed / not-claimed properties. Executed by gen_manifest.py.
for _i in range(1, 21):
    na("C%02d" % _i, "check under construction in this session (static-analysis rules for this property are not built yet); see DESIGN.md §4 for the planned clause")
