# Table of claimed / not-claimed properties. Executed by gen_manifest.py.
PENDING = "check under construction in this session (static-analysis rules for this property are not built yet); see DESIGN.md §4 for the planned clause"

claim("C01",
      "Necessary structural conditions of the round trip, decided for all types at once: every RegisterCodec row attaches a codec to a Go type whose size/identity equals the memory type the codec's methods reinterpret ptr as (T.reg/T.mem, type parameters substituted along embedding paths), every reflect.Kind clause maps named types to the basic type of the same kind, every Omit is a pure zero test, the slice wrapper is selected by element wire type as documented. These are the type-level mistakes that corrupt a round trip only for types the fuzz tests never build; value-level equality is not decided.",
      "table/exhaustiveness analysis over the type-checked AST (go/types): registration rows, kind switch, Omit truth-set, wrapper selection")
claim("C04",
      "For every function of the decode closure: each input-controlled slice/index/stdlib-precondition is proved in range, each input-sized allocation proved 0<=size<=len(data), each loop proved to make progress bounded by the input length, and each reader proved to meet err==nil => 0<=n<=len(data) - for all byte strings and all target types at once, because target types only select which Read implementations compose and each is proved against the interface contract. Decides panics/out-of-range/hang/allocation on the enumerated constructs (not stack depth, not nil dereference).",
      "SSA abstract interpretation with linear-inequality facts (dominating guards, callee contracts, Houdini loop invariants, inferred helper pre/post-conditions), entailment by Fourier-Motzkin inside the analyser")
claim("C06",
      "Decides the buffer-prefix/append-only/purity clauses for the whole encode closure: the []byte parameter is never resliced or indexed, every returned buffer is that parameter extended by appends (Marshal: or a fresh buffer under data == nil), encoders store only to their own locals, and no clock/randomness/pool/shared table/mutable global is consulted while encoding. By-value vs by-pointer equivalence is a runtime ABI fact and is not decided.",
      "SSA effect analysis: buffer-derivation dataflow (append-only), pointer-root tracing of every Store, who-may-call rules for nondeterministic sources")
claim("C07",
      "Decides data-race freedom of the enumerated shared state for all interleavings: no Store/map update in the API closure targets codec receiver state or a package-level variable; fields published via sync/atomic are accessed only via sync/atomic; atomically loaded maps are never updated and atomically stored maps are fresh (copy-on-write); sync.Map/Pool/Mutex fields are used only through their methods; nothing referring to a struct codec under construction is published (overlay registry holds sub-codecs back; no store to the codec is reachable from the flush).",
      "SSA ownership/effect analysis (pointer roots, who-may-access field rules, CFG reachability between publication and construction writes)")
claim("C11",
      "Decides the aliasing statement structurally for the whole closure: forward alias-taint from every input-bytes parameter proves nothing sharing memory with the input is stored into the target, codec state, a map, a shared table/pool or returned, and nothing writes into the input; on the encode side every Store targets the encoder's own locals and the output buffer is only appended to.",
      "interprocedural SSA alias-taint analysis (copy conversions kill, slicing/unsafe casts/uintptr arithmetic propagate) + pointer-root tracing of stores")

for _i in range(1, 21):
    _id = "C%02d" % _i
    if _id not in CLAIMS:
        na(_id, PENDING)
